(** EAdvance against the oracle (work package trackp). The model fires the due lease timers and wait timeouts
    one at a time; the oracle replays the completions, expiring its holds up to the instant of each. *)
From Coq Require Import Lia ZifyBool ZifyNat String Sorted.
From Ldlm Require Import Model.Base Model.Err Model.Seq Model.Track Proofs.SeqDefs Proofs.SeqLemmasKey Proofs.SeqInvBase
  Proofs.SeqInvOps Proofs.SeqInvTime Proofs.SeqInv Proofs.SeqTimeBase Proofs.SeqTime1 Proofs.SeqTime2
  Proofs.TrackPBase Proofs.TrackPOrder Proofs.TrackPRel Proofs.TrackPStep Proofs.TrackPTR Proofs.TrackPProbe Proofs.TrackPAcq
  Proofs.TrackPUnl.
From RecordUpdate Require Import RecordSet.
Import RecordSetNotations.
Local Open Scope Z_scope.

Lemma gc_intab cfg t s c : intab (st_locks (run_gc_until cfg t s)) c ↔ intab (st_locks s) c.
Proof.
  split; intros (o & Ho & Hk & Hs).
  - exists o. split; [by eapply gc_locks_sub|done].
  - exists o. split; [|done]. apply gc_locks_keep; [done|]. left. intros E. rewrite E in Hk. by apply elem_of_nil in Hk.
Qed.
Lemma gc_livel cfg t s n k : livel (st_locks (run_gc_until cfg t s)) n k ↔ livel (st_locks s) n k.
Proof. split; [apply gc_live_inv|apply gc_live]. Qed.

Lemma elem_of_comps w a r outs : (w, a, r) ∈ comps outs ↔ OWaiter w a r ∈ outs.
Proof.
  unfold comps. rewrite elem_of_list_omap. split.
  - intros (x & Hx & E). destruct x; try done. by injection E as -> -> ->.
  - intros H. by exists (OWaiter w a r).
Qed.

Lemma sorted_app_same (cs l : list (nat * Z * resp)) a :
  StronglySorted (λ x y, c_at x ≤ c_at y) cs → (∀ x, x ∈ cs → c_at x ≤ a) → (∀ y, y ∈ l → c_at y = a) →
  StronglySorted (λ x y, c_at x ≤ c_at y) (cs ++ l).
Proof.
  induction 1 as [|x cs Hs IH Hx]; intros Hc Hl; simpl; [by eapply sorted_same_time|]. constructor.
  - apply IH; [|done]. intros; apply Hc; by right.
  - apply Forall_app. split; [done|]. apply Forall_forall. intros y Hy. rewrite (Hl y Hy). apply Hc. left.
Qed.

(** the (name,key) pairs in [D] have a lease timer that is due *)
Definition due_D (s : sstate) (D : list (str * str)) : Prop :=
  ∀ n k, (n, k) ∈ D → ∃ tm, st_timers s !! tkey n k = Some tm ∧ tm_deadline tm ≤ st_now s.

Section adv.
  Context (X : nat → string → Prop) (cfg : config) (i : nat) (Hcfg : cfg_ok cfg).
  Context (s0 : sstate) (t : tstate) (target : Z).

  Definition tcur (outs : list out) : tstate := done_list cfg i None (comps outs) t.

  (** the loop invariant *)
  Record AI (s : sstate) (outs : list out) : Prop := {
    ai_inv : LoopInv cfg target s;
    ai_sane : time_sane target s;
    ai_from : st_now s0 ≤ st_now s;
    ai_rel : ∃ D, LR s D (tcur outs) ∧ due_D s D;
    ai_fail : fails_ok X (tcur outs);
    ai_pend : t_pending t = [];
    ai_comps : ∀ c, c ∈ comps outs → st_now s0 ≤ c_at c ≤ st_now s ∧ rlock c ∧ c_wid c ∉ w_id <$> st_waiters s;
    ai_sorted : StronglySorted (λ x y, c_at x ≤ c_at y) (comps outs);
    ai_nodup : NoDup (c_wid <$> comps outs);
    ai_only : ∀ x, x ∈ outs → ∃ w a r, x = OWaiter w a r
  }.

  Lemma tick_LR s tn D tc :
    STI s [] → st_now s ≤ tn → LR s D tc → due_D s D →
    ∃ D', LR (tick cfg tn s) D' tc ∧ due_D (tick cfg tn s) D'.
  Proof.
    intros HT Hle (HH & HW & HK) HD.
    set (hs := ef (st_now s) (t_holds tc)) in *.
    set (dropped := List.filter (λ h, negb (alive tn h)) hs).
    exists (D ++ (hkey <$> dropped)). split.
    - split; [|split; [by rewrite tick_waiters|eapply KI_frame; [exact HK|unfold tick; simpl; by rewrite gc_used|by rewrite tick_waiters]]]. rewrite tick_locks, tick_now. unfold tick. cbn [st_sessions st_timers set].
      rewrite gc_sessions, gc_timers.
      assert (ef tn (t_holds tc) = List.filter (alive tn) hs) as -> by (unfold hs; by rewrite <- (ef_ef (st_now s) tn)).
      eapply HR_change; [eapply (HR_doom _ _ _ _ _ (D ++ (hkey <$> dropped))); [exact HH|..]|..].
      + intros h Hh Hf. apply elem_of_app. right. apply elem_of_list_fmap. exists h. split; [done|]. apply elem_of_lfilter.
        by rewrite Hf.
      + intros h Hh Hf [Hd|Hd]%elem_of_app; [by apply (hr_tab _ _ _ _ _ _ HH h Hh)|].
        apply elem_of_list_fmap in Hd as (h' & E & [Hf' Hh']%elem_of_lfilter).
        assert (h = h') as <- by (eapply NoDup_fmap_eq; [apply (hr_nodup _ _ _ _ _ _ HH)|done..]). by rewrite Hf in Hf'.
      + intros d ?. apply elem_of_app. by left.
      + intros n k [Hd|Hd]%elem_of_app; [by apply (hr_D _ _ _ _ _ _ HH)|].
        apply elem_of_list_fmap in Hd as (h' & [= -> ->] & [_ Hh']%elem_of_lfilter).
        destruct (hr_tab _ _ _ _ _ _ HH h' Hh') as [Hi _]. by apply intab_livel in Hi.
      + intros h [Hf Hh]%elem_of_lfilter. split.
        * apply gc_intab. by apply (hr_tab _ _ _ _ _ _ HH).
        * intros [Hd|Hd]%elem_of_app; [by apply (hr_tab _ _ _ _ _ _ HH h Hh)|].
          apply elem_of_list_fmap in Hd as (h' & E & [Hf' Hh']%elem_of_lfilter).
          assert (h = h') as <- by (eapply NoDup_fmap_eq; [apply (hr_nodup _ _ _ _ _ _ HH)|done..]). by rewrite Hf in Hf'.
      + intros c Hc. pose proof (proj1 (gc_intab _ _ _ _) Hc) as Hc'.
        destruct (decide (ckey c ∈ D ++ (hkey <$> dropped))); [by left|by right].
      + intros h l [_ Hh]%elem_of_lfilter. eauto.
      + done.
      + intros n k Hd. apply gc_livel. revert Hd. intros [Hd|Hd]%elem_of_app; [by apply (hr_D _ _ _ _ _ _ HH)|].
        apply elem_of_list_fmap in Hd as (h' & [= -> ->] & [_ Hh']%elem_of_lfilter).
        destruct (hr_tab _ _ _ _ _ _ HH h' Hh') as [Hi _]. by apply intab_livel in Hi.
    - intros n k [Hd|Hd]%elem_of_app; rewrite tick_timers, tick_now.
      + destruct (HD n k Hd) as (tm & ? & ?). exists tm. split; [done|lia].
      + apply elem_of_list_fmap in Hd as (h' & [= -> ->] & [Hf' Hh']%elem_of_lfilter).
        pose proof (hr_lease _ _ _ _ _ _ HH I h' Hh') as Hl. unfold alive in Hf'. unfold tdl in Hl.
        destruct (st_timers s !! tkey (h_name h') (h_key h')) as [tm|]; simpl in Hl; rewrite Hl in Hf'; [|done].
        exists tm. split; [done|lia].
  Qed.

  Lemma AI_step s outs d s2 o :
    AI s outs → d ∈ next_due target s → fire cfg d (tick cfg (Z.max (st_now s) (due_time d)) s) = (s2, o) →
    AI s2 (outs ++ o).
  Proof.
    intros [HI Hsane Hfrom (D & HL & HD) HX Hpd Hcs Hsort Hnd Honly] Hd Hf.
    pose proof (round_time_sane _ _ _ _ _ _ Hd Hf Hsane) as (Hsane2 & Hnow2 & Hle2).
    pose proof (next_due_elem _ _ _ Hd) as (Hin & Hdt & Hmin).
    destruct Hsane as [Hnt Hitems]. pose proof (Hitems _ Hin) as Hnd'.
    set (tn := Z.max (st_now s) (due_time d)) in *. assert (tn = due_time d) as Etn by lia.
    destruct HI as (HS & HM & Hgc). pose proof HS as (HTI & HLI & HVW).
    set (s1 := tick cfg tn s) in *.
    destruct (gc_next_spec cfg tn s Hcfg) as [Hg1 Hg2].
    assert (all_items s1 = all_items s) as Hai by apply tick_all_items.
    assert (SI cfg s1) as HS1 by (apply SI_now; by apply gc_SI).
    assert (STM (λ d', tn < d' ∨ d' ≤ target) s1) as HM1.
    { unfold STM, s1. rewrite tick_timers, tick_waiters. eapply TM_mono; [|exact HM]. simpl. intros d'. lia. }
    assert (∀ v, 0 < v → (λ d', tn < d' ∨ d' ≤ target) (st_now s1 + v * second)) as HP1.
    { intros v Hv. unfold s1. rewrite tick_now. left. pose proof second_gt0. nia. }
    pose proof (fire_inv _ _ _ _ _ _ ltac:(by rewrite Hai) Hf HS1 HM1 HP1) as (HS2 & HM2 & [Hn2 Hg2']).
    assert (st_now s1 = tn) as En1 by apply tick_now.
    assert (LoopInv cfg target s2) as HI2.
    { split_and!; [done| |].
      - by rewrite Hn2, En1.
      - rewrite Hn2, Hg2', En1. unfold s1, tick. cbn [st_gc_next set]. done. }
    destruct (tick_LR s tn D (tcur outs) HTI ltac:(lia) HL HD) as (D1 & HL1 & HD1). fold s1 in HL1, HD1.
    pose proof HS1 as (HTI1 & HLI1 & _).
    assert (∀ c, c ∈ comps outs → c_wid c ∉ w_id <$> st_waiters s1) as Hgone1.
    { intros c Hc. unfold s1. rewrite tick_waiters. by apply Hcs. }
    destruct d as [tk tm|w]; simpl in Hf.
    - (* a lease timer fires *)
      apply all_items_timer in Hin as Htm. unfold expire in Hf.
      destruct (mgr_unlock cfg (tm_name tm) (tm_key tm) s1) as [[s3 r] o3] eqn:Hm. injection Hf as <- <-.
      destruct (ti_timers _ _ _ _ _ HTI _ _ Htm) as [Etk _].
      assert ((tm_name tm, tm_key tm) ∈ D1) as HinD.
      { destruct (ti_timers _ _ _ _ _ HTI1 tk tm) as [_ [Hl|[]%elem_of_nil]]; [unfold s1; by rewrite tick_timers|].
        destruct Hl as (ob & Hob & Hk). destruct HL1 as [HH1 _].
        destruct (hr_all _ _ _ _ _ _ HH1 (Clock (tm_name tm) (tm_key tm) (lo_size ob))) as [?|(h & Hh & Ec)]; [by exists ob|done|].
        exfalso. apply elem_of_lfilter in Hh as Hh'. destruct Hh' as [Ha _]. pose proof (hr_lease _ _ _ _ _ _ HH1 I h Hh) as Hl.
        injection Ec as En Ek _. rewrite En, Ek in Hl. unfold tdl in Hl. unfold s1 in Hl. rewrite tick_timers, <- Etk, Htm in Hl.
        unfold alive in Ha. rewrite Hl in Ha. simpl in *. lia. }
      destruct (mgr_unlock_LR cfg i None X _ _ s1 s3 r o3 D1 (tcur outs) Hm HTI1 HinD HL1 HX ltac:(unfold tcur; by rewrite done_list_pending))
        as (-> & HL3 & HX3 & En3 & Hnl3 & Hcs3 & Hsub3 & Hnd3 & Hndw3).
      assert (tcur (outs ++ o3) = done_list cfg i None (comps o3) (tcur outs)) as Etc.
      { unfold tcur. by rewrite comps_app, done_list_app. }
      split; try done.
      + simpl. rewrite rle_now. lia.
      + exists (Dminus (tm_name tm, tm_key tm) D1). rewrite Etc. split.
        * eapply (LR_cleanup cfg (tm_name tm) (tm_key tm) s3); [exact HL3|exact Hnl3|simpl; by rewrite rle_locks|simpl; by rewrite rle_waiters|simpl; by rewrite rle_now|simpl; by rewrite rle_used|by right|].
          right. simpl. by rewrite rle_timers, Etk.
        * intros n k [Hne HinD']%elem_of_Dminus. destruct (HD1 n k HinD') as (tm' & Htm' & Hdl').
          simpl. rewrite rle_timers, rle_now, En3.
          exists tm'. split; [|done]. rewrite Etk, lookup_delete_ne by (intros [? ?]%tkey_inj; apply Hne; congruence).
          apply mgr_unlock_spec in Hm as (x & Hsh & _ & _ & _ & _ & Ht & _). rewrite Ht. destruct x as [w|]; [|done].
          rewrite grant_timers_lookup_ne; [done|]. intros [En Ek]%tkey_inj.
          destruct (unlock_shape_granted _ _ _ _ _ _ _ _ w Hsh eq_refl) as [Hw _].
          destruct (ti_used_waiters _ _ _ _ _ HTI1 w Hw) as [_ Hdead]. apply (Hdead n). rewrite <- Ek.
          destruct HL1 as [HH1 _]. by apply (hr_D _ _ _ _ _ _ HH1).
      + by rewrite Etc.
      + intros c. rewrite comps_app. simpl. rewrite rle_now, rle_waiters, En3, En1. intros [Hc|Hc]%elem_of_app.
        * destruct (Hcs c Hc) as (? & ? & Hn). split; [lia|]. split; [done|]. intros (w & E & Hw)%elem_of_list_fmap.
          apply (Hgone1 c Hc). apply elem_of_list_fmap. exists w. split; [done|]. by apply Hsub3.
        * destruct (Hcs3 c Hc) as (E & ? & _ & ?). rewrite En1 in E. split; [lia|]. split; done.
      + rewrite comps_app. apply (sorted_app_same _ _ tn); [done| |].
        * intros x Hx. destruct (Hcs x Hx) as ([_ ?] & _). lia.
        * intros y Hy. destruct (Hcs3 y Hy) as (E & _). by rewrite E.
      + rewrite comps_app, fmap_app. apply NoDup_app. split; [done|]. split; [|done].
        intros x (c1 & -> & Hc1)%elem_of_list_fmap (c2 & E & Hc2)%elem_of_list_fmap.
        destruct (Hcs3 c2 Hc2) as (_ & _ & Hin2 & _). apply (Hgone1 c1 Hc1). by rewrite E.
      + intros x [Hx|Hx]%elem_of_app; [by apply Honly|].
        unfold mgr_unlock in Hm. destruct (st_locks s1 !! tm_name tm); [|simplify_eq; by apply elem_of_nil in Hx].
        case_bool_decide; [|simplify_eq; by apply elem_of_nil in Hx].
        destruct (hand_off cfg (tm_name tm) _) as [s4 o4] eqn:Hh. injection Hm as <- <-.
        apply hand_off_spec in Hh as [[_ ->]|(? & w & _ & _ & _ & -> & _)]; [by apply elem_of_nil in Hx|].
        apply elem_of_list_singleton in Hx as ->. eauto.
    - (* a wait timeout fires *)
      apply all_items_waiter in Hin as [Hw Hdl]. injection Hf as <- <-.
      assert (w_deadline w = Some tn) as Edl.
      { simpl in Etn. destruct (w_deadline w) as [dl|]; [|done]. simpl in Etn. by rewrite Etn. }
      assert (w ∈ st_waiters s1) as Hw1 by (unfold s1; by rewrite tick_waiters).
      pose proof (leave_LR cfg i None X w ESrvLockWaitTimeout s1 D1 (tcur outs) (ti_ids _ _ _ _ _ HTI1) Hw1 HL1 HX) as Hleave.
      simpl in Hleave. destruct Hleave as [HL3 HX3]; [left; split; [done|]; by rewrite Edl|].
      set (o3 := [OWaiter (w_id w) tn (RLock false (w_key w) (Some ESrvLockWaitTimeout))]) in *.
      assert (tcur (outs ++ o3) = done_list cfg i None (comps o3) (tcur outs)) as Etc.
      { unfold tcur. by rewrite comps_app, done_list_app. }
      split; try done.
      + simpl. lia.
      + exists D1. rewrite Etc. split; [exact HL3|]. exact HD1.
      + by rewrite Etc.
      + intros c. rewrite comps_app. simpl. rewrite ?En1. intros [Hc|Hc]%elem_of_app.
        * destruct (Hcs c Hc) as (? & ? & Hn). split; [lia|]. split; [done|]. intros (w' & E & [_ Hw']%elem_of_list_filter)%elem_of_list_fmap.
          apply (Hgone1 c Hc). apply elem_of_list_fmap. eauto.
        * apply elem_of_list_singleton in Hc as ->. unfold c_at, c_wid, rlock, c_resp. simpl. split; [lia|]. split; [done|].
          intros (w' & E & [Hne _]%elem_of_list_filter)%elem_of_list_fmap. apply bool_decide_unpack in Hne. congruence.
      + rewrite comps_app. apply (sorted_app_same _ _ tn); [done| |].
        * intros x Hx. destruct (Hcs x Hx) as ([_ ?] & _). lia.
        * intros y ->%elem_of_list_singleton. done.
      + rewrite comps_app, fmap_app. apply NoDup_app. split; [done|]. split; [|apply NoDup_singleton].
        intros x (c1 & -> & Hc1)%elem_of_list_fmap Hx. apply elem_of_list_singleton in Hx. apply (Hgone1 c1 Hc1).
        rewrite Hx. apply elem_of_list_fmap. exists w. done.
      + intros x [Hx|Hx]%elem_of_app; [by apply Honly|]. apply elem_of_list_singleton in Hx as ->. eauto.
  Qed.
End adv.

Lemma track_advance_ok X cfg i dt s s' o t :
  cfg_ok cfg → Inv cfg s → st_shut s = false → TR X cfg s t → (s', o) ∈ advance cfg dt s →
  TR X cfg s' (track_step0 cfg i (EAdvance dt) o t).
Proof.
  intros Hcfg HI Hsh HT Hin. unfold advance in Hin. set (target := st_now s + Z.max 0 dt) in *.
  pose proof (Inv_QInv _ _ HI) as (HS & HMM & Hgc). pose proof HS as (HTI & _).
  eapply (advance_loop_inv cfg target (AI X cfg i s t target)) in Hin as (sf & HA & Hnd & ->).
  2:{ intros s1 outs d s2 o2. by apply AI_step. }
  2:{ apply advance_fuel_measure. }
  2:{ split.
      - split_and!; [done| |done]. eapply TM_mono; [|exact HMM]. simpl. intros d. lia.
      - by eapply inv_time_sane.
      - lia.
      - exists []. split; [by eapply TR_LR|]. by intros n k ?%elem_of_nil.
      - apply (tr_fail _ _ _ _ HT).
      - apply (tr_pending _ _ _ _ HT).
      - by intros c ?%elem_of_nil.
      - constructor.
      - constructor.
      - by intros x ?%elem_of_nil. }
  destruct HA as [HLI [Hnt _] Hfrom (D & (HH & HW & HK) & HD) HX _ Hcs Hsort Hndc Honly].
  assert (D = []) as ->.
  { destruct D as [|[n k] D]; [done|]. destruct (HD n k) as (tm & Htm & Hdl); [left|].
    assert (target < due_time (DTimer (tkey n k) tm)); [|simpl in *; lia].
    apply (next_due_nil _ _ _ Hnd). apply all_items_timer. done. }
  set (tf := tcur cfg i t o) in *.
  pose proof (t_completions_transfer cfg i None o t Hsort Hndc ltac:(intros c Hc; by apply Hcs)) as (En & Ep & _ & Es & Ek & Ew & Hp & Hf).
  fold tf in En, Ep, Es, Ek, Ew, Hp, Hf.
  simpl. rewrite (tr_now _ _ _ _ HT). fold target.
  rewrite flag_true.
  2:{ apply forallb_forall. intros x Hx%elem_of_list_In. destruct (Honly x Hx) as (w & a & r & ->).
      apply elem_of_comps in Hx. destruct (Hcs _ Hx) as ([? ?] & _). unfold c_at in *. simpl in *. lia. }
  assert (Z.max (st_now sf) target = target) as Emax by lia.
  split; simpl.
  - by rewrite Emax.
  - rewrite Ep. unfold tf, tcur. rewrite done_list_pending. apply (tr_pending _ _ _ _ HT).
  - rewrite gc_sessions, gc_timers.
    change (HR (st_locks (run_gc_until cfg target sf)) (st_sessions sf) (st_timers sf)
               (st_shut (run_gc_until cfg target sf) = false) [] (ef target (t_holds (t_completions cfg i None o t)))).
    eapply HR_perm; [apply (lfilter_perm (alive target)), Hp|].
    change (List.filter (alive target) (t_holds (done_list cfg i None (comps o) t))) with (ef target (t_holds tf)).
    rewrite <- (ef_ef (st_now sf) target (t_holds tf)) by done.
    eapply HR_change; [eapply (HR_doom _ _ _ _ _ []); [exact HH|..]|..].
    + intros h Hh Hf'. exfalso. pose proof (hr_lease _ _ _ _ _ _ HH I h Hh) as Hl. unfold alive in Hf'. unfold tdl in Hl.
      destruct (st_timers sf !! tkey (h_name h) (h_key h)) as [tm|] eqn:Etm; simpl in Hl; rewrite Hl in Hf'; [|done].
      assert (target < due_time (DTimer (tkey (h_name h) (h_key h)) tm)); [|simpl in *; lia].
      apply (next_due_nil _ _ _ Hnd). by apply all_items_timer.
    + intros h _ _. apply not_elem_of_nil.
    + done.
    + by intros n k ?%elem_of_nil.
    + intros h [_ Hh]%elem_of_lfilter. split; [|apply not_elem_of_nil]. apply gc_intab. by apply (hr_tab _ _ _ _ _ _ HH).
    + intros c Hc. right. split; [by apply (gc_intab cfg target sf c)|apply not_elem_of_nil].
    + intros h l _. eauto.
    + done.
    + by intros n k ?%elem_of_nil.
  - rewrite gc_waiters, Ew. exact HW.
  - destruct HK as (K1 & K2 & K3). unfold KI. simpl. rewrite gc_used, gc_waiters, Es, Ek. done.
  - intros j tag Hj. by apply HX, Hf.
Qed.
