(** Mrest, sequential layer: the gateway's clock is the lock server's clock ([T_rest_clock], Proofs/RestDefs.v).
    Self-contained: the [st_now] facts about Mseq needed here are proved in this file. *)
From Coq Require Import Lia ZifyBool ZifyNat ZifyN String.
From Ldlm Require Import Model.Base Model.Err Model.Seq Model.Track Model.Rest Proofs.RestDefs Proofs.RestSeq1.
From RecordUpdate Require Import RecordSet.
Import RecordSetNotations.
Local Open Scope Z_scope.

(** ** [st_now] through the building blocks of Mseq *)

Lemma save_now cfg s : st_now (save cfg s) = st_now s.
Proof. unfold save. by destruct (c_file cfg). Qed.

Lemma record_grant_now cfg sid n k sz lt s : st_now (record_grant cfg sid n k sz lt s) = st_now s.
Proof.
  unfold record_grant, save. destruct (c_file cfg), lt as [t|]; try destruct (0 <? t); done.
Qed.

Lemma add_key_now n k s : st_now (add_key n k s) = st_now s.
Proof. unfold add_key. by destruct (st_locks s !! n). Qed.

Lemma remove_lock_entry_now cfg n k s : st_now (remove_lock_entry cfg n k s) = st_now s.
Proof.
  unfold remove_lock_entry, save. destruct (existsb _ _); [destruct (c_file cfg)|]; done.
Qed.

Lemma run_gc_until_now cfg t s : st_now (run_gc_until cfg t s) = st_now s.
Proof.
  unfold run_gc_until. destruct (c_gc_interval cfg <=? 0); [done|]. by destruct (st_gc_next s <=? t).
Qed.

Lemma hand_off_now cfg n s : st_now (hand_off cfg n s).1 = st_now s.
Proof.
  unfold hand_off. destruct (st_locks s !! n); [|done]. destruct (name_waiters n (st_waiters s)); [done|].
  case_bool_decide; [|done]. cbn [fst]. rewrite record_grant_now. cbn. apply add_key_now.
Qed.

Lemma mgr_unlock_now cfg n k s : st_now (mgr_unlock cfg n k s).1.1 = st_now s.
Proof.
  unfold mgr_unlock. destruct (st_locks s !! n) as [o|]; [|done]. case_bool_decide; [|done].
  match goal with |- context [hand_off cfg n ?s1] =>
    pose proof (hand_off_now cfg n s1) as H'; destruct (hand_off cfg n s1) as [s2 outs] end.
  cbn in *. done.
Qed.

Lemma srv_unlock_now cfg n k s : st_now (srv_unlock cfg n k s).1.1 = st_now s.
Proof.
  unfold srv_unlock.
  match goal with |- context [mgr_unlock cfg n k ?s0] =>
    pose proof (mgr_unlock_now cfg n k s0) as H'; destruct (mgr_unlock cfg n k s0) as [[s1 [e|u]] outs] end;
    cbn in *; [done|]. by rewrite remove_lock_entry_now.
Qed.

Lemma get_lock_create_now n sz s o s1 : get_lock_create n sz s = inr (o, s1) → st_now s1 = st_now s.
Proof.
  unfold get_lock_create. destruct (sz <=? 0); [done|]. destruct (st_locks s !! n).
  - case_bool_decide; [|done]. by intros [= <- <-].
  - by intros [= <- <-].
Qed.

Lemma srv_acquire_now cfg b wid sid n k sz lt wt s : st_now (srv_acquire cfg b wid sid n k sz lt wt s).1 = st_now s.
Proof.
  unfold srv_acquire. case_bool_decide; [done|].
  destruct (get_lock_create n sz s) as [e|[o s1]] eqn:Hg; [done|]. apply get_lock_create_now in Hg.
  destruct (can_acquire n o s1).
  - cbn [fst]. by rewrite record_grant_now, add_key_now.
  - by destruct b.
Qed.

Lemma srv_trylock_now cfg sid n sz lt k s : st_now (srv_trylock cfg sid n sz lt k s).1 = st_now s.
Proof.
  unfold srv_trylock. destruct sid; [|done]. destruct (opt_neg lt); [done|]. by rewrite srv_acquire_now.
Qed.

Lemma srv_renew_now n k lt s : st_now (srv_renew n k lt s).1 = st_now s.
Proof.
  unfold srv_renew. destruct (lt <=? 0); [done|]. by destruct (st_timers s !! tkey n k).
Qed.

Lemma fold_now {A} (f : sstate * list out → A → sstate * list out) :
  (∀ acc x, st_now (f acc x).1 = st_now acc.1) →
  ∀ l acc, st_now (fold_left f l acc).1 = st_now acc.1.
Proof.
  intros H. induction l as [|x l IH]; intros acc; [done|]. cbn [fold_left]. by rewrite IH, H.
Qed.

Lemma cancel_waiters_now p e s : st_now (cancel_waiters p e s).1 = st_now s.
Proof.
  unfold cancel_waiters. rewrite fold_now; [done|]. by intros [s0 outs] w.
Qed.

Lemma destroy_session_now cfg sid s : st_now (destroy_session cfg sid s).1 = st_now s.
Proof.
  unfold destroy_session. destruct (st_shut s); [done|]. destruct (st_sessions s !! sid) as [locks|]; [|done].
  destruct (c_noclear cfg && negb (bool_decide (locks = []))); [done|].
  destruct (c_noclear cfg); [cbn [fst]; by rewrite save_now|].
  rewrite fold_now; [cbn [fst]; by rewrite save_now|].
  intros [s0 outs] c. pose proof (mgr_unlock_now cfg (cl_name c) (cl_key c) s0) as H'.
  destruct (mgr_unlock cfg (cl_name c) (cl_key c) s0) as [[s1 [e|u]] o]; cbn in *; done.
Qed.

Lemma disconnect_now cfg sid s : st_now (disconnect cfg sid s).1 = st_now s.
Proof.
  unfold disconnect.
  pose proof (cancel_waiters_now (λ w, bool_decide (w_sid w = sid)) ECtxCanceled s) as H1.
  destruct (cancel_waiters _ _ s) as [s1 o1].
  pose proof (destroy_session_now cfg sid s1) as H2. destruct (destroy_session cfg sid s1) as [s2 o2].
  cbn in *. congruence.
Qed.

Lemma expire_now cfg tk t s : st_now (expire cfg tk t s).1 = st_now s.
Proof.
  unfold expire. pose proof (mgr_unlock_now cfg (tm_name t) (tm_key t) s) as H'.
  destruct (mgr_unlock cfg (tm_name t) (tm_key t) s) as [[s1 r] outs]. cbn in *.
  by rewrite remove_lock_entry_now.
Qed.

Lemma fire_now cfg d s : st_now (fire cfg d s).1 = st_now s.
Proof. destruct d; cbn [fire]; [apply expire_now|done]. Qed.

Lemma next_due_le target s d : d ∈ next_due target s → due_time d ≤ target.
Proof.
  unfold next_due. destruct (min_time (all_items s)) as [m|]; [|by intros ?%elem_of_nil].
  destruct (Z.leb_spec m target); [|by intros ?%elem_of_nil].
  intros [Hp _]%elem_of_list_filter. apply Is_true_true, Z.eqb_eq in Hp. lia.
Qed.

Lemma advance_loop_now cfg target : ∀ fuel s outs s' o,
  (s', o) ∈ advance_loop cfg fuel target s outs → st_now s' = Z.max (st_now s) target.
Proof.
  induction fuel as [|fuel IH]; intros s outs s' o Hin; cbn [advance_loop] in Hin.
  - apply elem_of_list_singleton in Hin. by inversion Hin.
  - destruct (next_due target s) as [|d0 items] eqn:Hnd.
    + apply elem_of_list_singleton in Hin. by inversion Hin.
    + rewrite <- Hnd in Hin. clear d0 items Hnd.
      apply elem_of_list_In, in_flat_map in Hin as (d & Hd & Hin).
      apply elem_of_list_In, next_due_le in Hd. apply elem_of_list_In in Hin.
      match type of Hin with context [fire cfg d ?s1] =>
        pose proof (fire_now cfg d s1) as Hf; destruct (fire cfg d s1) as [s2 o2] end.
      apply IH in Hin. cbn in Hf. rewrite Hin, Hf. lia.
Qed.

Lemma advance_now cfg dt s s' o : (s', o) ∈ advance cfg dt s → st_now s' = st_now s + Z.max 0 dt.
Proof. unfold advance. intros Hin%advance_loop_now. lia. Qed.

Lemma det_now cfg s ev s' o :
  match ev with
  | EConnect _ | EDisconnect _ | ETryLock _ _ _ _ _ | EUnlock _ _ _ | ERenew _ _ _ | EProbe => True
  | _ => False
  end →
  (s', o) ∈ sstep cfg s ev → st_now s' = st_now s.
Proof.
  destruct ev; try done; intros _; cbn [sstep]; unfold det.
  - intros [= -> ->]%elem_of_list_singleton. by destruct (st_sessions s !! sid).
  - intros Hin%elem_of_list_singleton. rewrite <- (disconnect_now cfg sid s). by rewrite <- Hin.
  - intros Hin%elem_of_list_singleton. rewrite <- (srv_trylock_now cfg sid name size lt key s). by rewrite <- Hin.
  - pose proof (srv_unlock_now cfg name key s) as H'.
    destruct (srv_unlock cfg name key s) as [[s1 [u e]] outs]. cbn in H'.
    by intros [= -> ->]%elem_of_list_singleton.
  - intros Hin%elem_of_list_singleton. rewrite <- (srv_renew_now name key lt s). by rewrite <- Hin.
  - by intros [= -> ->]%elem_of_list_singleton.
Qed.

(** ** The gateway *)

Definition clk (st : rstate) : Prop := st_now (r_seq st) = r_now st.

Lemma radvance_loop_clk cfg target : ∀ fuel st outs st' o,
  clk st → (st', o) ∈ radvance_loop cfg fuel target st outs → clk st'.
Proof.
  assert (Hfinal : ∀ st outs st' o, clk st →
    (st', o) ∈ map (λ '(s', o), (st <| r_seq := s' |> <| r_now := Z.max (r_now st) target |>, outs ++ map ROSeq o))
                   (sstep cfg (r_seq st) (EAdvance (target - r_now st))) → clk st').
  { intros st outs st' o Hc Hin. apply elem_of_map in Hin as ([s' o'] & [= -> ->] & Hin).
    cbn [sstep] in Hin. apply advance_now in Hin. unfold clk in *. cbn. lia. }
  induction fuel as [|fuel IH]; intros st outs st' o Hc Hin; cbn [radvance_loop] in Hin.
  - by eapply Hfinal.
  - destruct (idle_due target st) as [|p due] eqn:Hdue; [by eapply Hfinal|].
    rewrite <- Hdue in Hin. clear p due Hdue.
    apply elem_of_list_In, in_flat_map in Hin as ([c se] & _ & Hin).
    apply in_flat_map in Hin as ([s1 o1] & Hs1 & Hin).
    apply in_flat_map in Hin as ([s2 o2] & Hs2 & Hin).
    apply elem_of_list_In in Hs1, Hs2, Hin.
    cbn [sstep] in Hs1. apply advance_now in Hs1.
    apply (det_now cfg s1 (EDisconnect (rs_sid se))) in Hs2; [|done].
    eapply IH; [|exact Hin]. unfold clk in *. cbn. lia.
Qed.

Lemma rstep_clk cfg tmo st ev st' o : clk st → (st', o) ∈ rstep cfg tmo st ev → clk st'.
Proof.
  intros Hc Hin.
  assert (Hlift : ∀ st0 pre post e,
    r_seq st0 = r_seq st → r_now st0 = r_now st →
    match e with
    | EConnect _ | EDisconnect _ | ETryLock _ _ _ _ _ | EUnlock _ _ _ | ERenew _ _ _ | EProbe => True
    | _ => False
    end →
    (st', o) ∈ lift_seq st0 pre post (sstep cfg (r_seq st) e) → clk st').
  { intros st0 pre post e _ Hn He (s' & o' & Hs & -> & ->)%elem_of_lift_seq.
    apply det_now in Hs; [|done]. unfold clk in *. cbn. congruence. }
  destruct ev as [c sid|[c|]|[c|] q|dt|]; cbn [rstep] in Hin.
  - eapply Hlift; [| | |exact Hin]; done.
  - destruct (r_table st !! c) as [se|].
    + eapply Hlift; [| | |exact Hin]; done.
    + apply elem_of_list_singleton in Hin. by inversion Hin.
  - apply elem_of_list_singleton in Hin. by inversion Hin.
  - destruct (r_table st !! c) as [se|]; [|apply elem_of_list_singleton in Hin; by inversion Hin].
    destruct (r_now st <? rs_deadline se); [|apply elem_of_list_singleton in Hin; by inversion Hin].
    destruct q; cbn [req_event] in Hin.
    + eapply Hlift; [| | |exact Hin]; done.
    + eapply Hlift; [| | |exact Hin]; done.
    + eapply Hlift; [| | |exact Hin]; done.
    + apply elem_of_list_singleton in Hin. by inversion Hin.
  - apply elem_of_list_singleton in Hin. by inversion Hin.
  - unfold radvance in Hin. by eapply radvance_loop_clk.
  - eapply Hlift; [| | |exact Hin]; done.
Qed.

Lemma rruns_clk cfg tmo : ∀ h st st' os, clk st → (st', os) ∈ rruns cfg tmo st h → clk st'.
Proof.
  induction h as [|ev h IH]; intros st st' os Hc Hin.
  - apply elem_of_list_singleton in Hin. by inversion Hin.
  - apply elem_of_rruns_cons in Hin as (st1 & o & os' & H1 & H2 & _).
    eapply IH; [|exact H2]. by eapply rstep_clk.
Qed.

Lemma rest_clock : T_rest_clock.
Proof.
  intros cfg tmo h st os Hin. by eapply (rruns_clk cfg tmo h (rinit cfg)).
Qed.

