(** Concrete runs of Mrest used as the non-vacuity examples of Properties/C15.v and Properties/C20.v.
    The runs are computed once here (vm_compute on data without finite-map internals: outputs, [map_to_list] views)
    so that the property files only refer to them. *)
From Coq Require Import String.
From Ldlm Require Import Model.Base Model.Err Model.Seq Model.Track Model.Rest Proofs.RestDefs.
Local Open Scope Z_scope.

(** ** C15: two clients, a lease, idle gaps of timeout-1ns, a renew, a cross-client unlock, a gateway-answered
    exchange, a disconnect *)
Definition ex15_cfg : config := Config false true 1800000000000 300000000000 600000000000.
Definition ex15_tmo : Z := 2000000000.
Definition ex15_items : list aitem :=
  [AConnect 0 [x63; x30] [x73; x30]; AConnect 1 [x63; x31] [x73; x31];
   AReq 0 (QTry [x61] (Some 2) (Some 3) [x6b; x30]); AProbe;
   AAdvance 1999999999; AReq 0 (QRenew [x61] [x6b; x30] 5); AReq 1 (QTry [x61] (Some 2) None [x6b; x31]);
   AAdvance 1999999999; AReq 1 (QUnlock [x61] [x6b; x30]); AReq 0 (QNoop 404); AProbe; ADisconnect 1; AProbe].

(** the outputs of its REST run (one run: no timer ties) *)
Definition ex15_os : list (list rout) :=
  Eval vm_compute in
    match map snd (rest_runs ex15_cfg ex15_tmo (rinit ex15_cfg, ∅) ex15_items) with [os] => os | _ => [] end.

Definition ex15_grant : list rout := [ROStatus 200; ROSeq (OResp (RLock true [x6b; x30] None))].
Definition ex15_unlock : list rout := [ROStatus 200; ROSeq (OResp (RUnlock true None))].

Lemma ex15_run : map snd (rest_runs ex15_cfg ex15_tmo (rinit ex15_cfg, ∅) ex15_items) = [ex15_os].
Proof. vm_cast_no_check (eq_refl [ex15_os]). Qed.

Lemma ex15_nodup : NoDup (cookies_of ex15_items).
Proof. apply (bool_decide_unpack _). vm_cast_no_check I. Qed.

Lemma ex15_gaps : gaps_ok ex15_tmo 0 ∅ ex15_items = true.
Proof. vm_cast_no_check (eq_refl true). Qed.

Lemma ex15_no401 : ∀ i, AReq i (QNoop 401) ∉ ex15_items.
Proof.
  intros i H. unfold ex15_items in H.
  repeat (apply elem_of_cons in H as [H|H]; [congruence|]). by apply elem_of_nil in H.
Qed.

Lemma c15_nonvacuous :
  0 < ex15_tmo ∧ NoDup (cookies_of ex15_items) ∧ gaps_ok ex15_tmo 0 ∅ ex15_items = true ∧
  (∀ i, AReq i (QNoop 401) ∉ ex15_items) ∧
  map snd (rest_runs ex15_cfg ex15_tmo (rinit ex15_cfg, ∅) ex15_items) = [ex15_os] ∧
  existsb (routs_eqb proj_all true ex15_grant) ex15_os = true ∧
  existsb (routs_eqb proj_all true ex15_unlock) ex15_os = true.
Proof.
  split; [reflexivity|]. split; [exact ex15_nodup|]. split; [exact ex15_gaps|]. split; [exact ex15_no401|].
  split; [exact ex15_run|]. split; vm_cast_no_check (eq_refl true).
Qed.

(** ** C20, sequential layer: a lease, a request at gap timeout-1ns (accepted), an idle gap of exactly the timeout (expired,
    ConnEnd within the advance), then the expired cookie, an unknown cookie, no cookie (401 each) *)
Definition ex20_cfg : config := Config false false 1800000000000 300000000000 600000000000.
Definition ex20_tmo : Z := 2000000000.
Definition ex20_h : list revent :=
  [RCreate [x63] [x73]; RRequest (Some [x63]) (QTry [x61] None (Some 9) [x6b]); RAdvance 1999999999;
   RRequest (Some [x63]) (QRenew [x61] [x6b] 9); RAdvance 2000000000;
   RRequest (Some [x63]) (QUnlock [x61] [x6b]); RRequest (Some [x7a]) (QUnlock [x61] [x6b]); RRequest None (QNoop 404)].

Definition ex20_os : list (list rout) :=
  [[ROStatus 201]; [ROStatus 200; ROSeq (OResp (RLock true [x6b] None))]; [];
   [ROStatus 200; ROSeq (OResp (RLock true [x6b] None))]; [ROEnd [x73]];
   [ROStatus 401]; [ROStatus 401]; [ROStatus 401]].

(** what is left of the gateway's state: the table as a list, the clock *)
Definition rview (x : rstate * list (list rout)) : list (str * rsess) * Z * list (list rout) :=
  (map_to_list (r_table (fst x)), r_now (fst x), snd x).

Lemma c20_seq_nonvacuous :
  0 < ex20_tmo ∧
  map rview (rruns ex20_cfg ex20_tmo (rinit ex20_cfg) ex20_h) = [([], 3999999999, ex20_os)] ∧
  map_to_list (gp_live (gap_run ex20_tmo ex20_h)) = [].
Proof.
  split; [reflexivity|]. split.
  - vm_cast_no_check (eq_refl [(@nil (str * rsess), 3999999999, ex20_os)]).
  - vm_cast_no_check (eq_refl (@nil (str * gsess))).
Qed.

(** ** C20, fine-grained layer: POST /session, a request, the idle timer firing while it is served, then a DELETE and a
    second request queued behind the table mutex: a finished run in which the session ended with exactly one ConnEnd *)
Definition ex20_pool_list : list (thr * (positive * pc)) :=
  [(TUser 1, (1%positive, K0)); (TUser 2, (1%positive, Q0)); (TUser 3, (1%positive, D0)); (TUser 4, (1%positive, Q0))].
Definition ex20_pool : gmap thr (positive * pc) := list_to_map ex20_pool_list.
Definition ex20_sch : list sitem :=
  (* create *) [SRun (TUser 1); SRun (TUser 1); SRun (TUser 1); SRun (TUser 1)] ++
  (* request 2 up to serving *) [SRun (TUser 2); SRun (TUser 2); SRun (TUser 2); SRun (TUser 2); SRun (TUser 2)] ++
  (* the timer fires; its function takes the table mutex, deletes the entry, waits for the session mutex *)
  [SFire 1; SRun (TCb 1); SRun (TCb 1); SRun (TCb 1); SRun (TCb 1)] ++
  (* DELETE and request 4 are blocked on the table mutex; request 2 finishes; the callback delivers ConnEnd *)
  [SRun (TUser 3); SRun (TUser 4); SRun (TUser 2); SRun (TUser 2);
   SRun (TCb 1); SRun (TCb 1); SRun (TCb 1); SRun (TCb 1); SRun (TCb 1)] ++
  (* DELETE finds nothing (409), request 4 is refused (401) *)
  [SRun (TUser 3); SRun (TUser 3); SRun (TUser 3); SRun (TUser 4); SRun (TUser 4); SRun (TUser 4)].

(** the pcs of all threads, and the session's record, at the end *)
Definition fview (st : fstate) (c : positive) : list (thr * (positive * pc)) * (bool * bool * nat * nat) :=
  (map_to_list (f_pool st), (fs_created (sess st c), fs_entry (sess st c), fs_connend (sess st c), fs_served (sess st c))).

Lemma ex20_pool_ok : pool_ok ex20_pool.
Proof.
  assert (E : ∀ t c p, ex20_pool !! t = Some (c, p) → (t, (c, p)) ∈ ex20_pool_list).
  { intros t c p H. apply elem_of_list_to_map; [|exact H]. apply (bool_decide_unpack _). vm_cast_no_check I. }
  split.
  - intros t c p H. apply E in H. unfold ex20_pool_list in H.
    repeat (apply elem_of_cons in H as [H|H]; [inversion H; subst; split; [reflexivity|eexists; reflexivity]|]).
    by apply elem_of_nil in H.
  - intros t1 t2 c H1 H2. apply E in H1. apply E in H2. unfold ex20_pool_list in H1, H2.
    repeat (apply elem_of_cons in H1 as [H1|H1]; [inversion H1; subst|]); try (by apply elem_of_nil in H1);
    repeat (apply elem_of_cons in H2 as [H2|H2]; [inversion H2; subst|]); try (by apply elem_of_nil in H2); reflexivity.
Qed.

Lemma c20_fine_nonvacuous :
  pool_ok ex20_pool ∧
  fview (frun (finit ex20_pool) ex20_sch) 1 =
    ([(TUser 1, (1%positive, Done (Some R201))); (TUser 2, (1%positive, Done (Some R200)));
      (TUser 4, (1%positive, Done (Some R401))); (TUser 3, (1%positive, Done (Some R409)));
      (TCb 1, (1%positive, Done None))],
     (true, false, 1%nat, 1%nat)).
Proof.
  split; [exact ex20_pool_ok|].
  vm_cast_no_check (eq_refl ([(TUser 1, (1%positive, Done (Some R201))); (TUser 2, (1%positive, Done (Some R200)));
      (TUser 4, (1%positive, Done (Some R401))); (TUser 3, (1%positive, Done (Some R409)));
      (TCb 1, (1%positive, Done None))], (true, false, 1%nat, 1%nat))).
Qed.
