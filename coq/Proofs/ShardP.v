(** * ShardP — the sharded lock table of lock/manager.go is a data refinement of one flat map.

    For EVERY hash function [h : str → nat] and EVERY shard count [n0] (0 coerced to 1 as
    in NewManager) the sharded store of Model/Shard.v, read through the abstraction
    function [flat], behaves exactly like the single [gmap str V] that Model/Seq.v
    ([st_locks]) and Model/Lk.v ([l_map]) use:

      wf_empty / wf_insert / wf_delete / wf_filter     [wf] is an invariant
      flat_empty, s_lookup_flat, flat_insert,
      flat_delete, flat_filter, s_to_list_flat          every operation commutes with [flat]
      run_sharded_flat                                  any store program: sharded ≈ flat
      shards_invisible                                  any two hashes, any two shard counts:
                                                        the same observations (C12)
      run_sharded_canon / shards_invisible_canon        the same with [=] on canonical listings

    No axioms; [Print Assumptions] at the end. *)
From Coq Require Import Lia ZifyNat.
From Ldlm Require Import Model.Base Model.Shard.

(** ** Two facts about [gmap]s that std++ 1.8 does not have under these names *)

Lemma map_to_list_union_perm {V} (m1 m2 : gmap str V) :
  m1 ##ₘ m2 → map_to_list (m1 ∪ m2) ≡ₚ map_to_list m1 ++ map_to_list m2.
Proof.
  intros Hd. apply NoDup_Permutation.
  - apply NoDup_map_to_list.
  - apply NoDup_app. split; [apply NoDup_map_to_list|].
    split; [|apply NoDup_map_to_list].
    intros [k v]. rewrite !elem_of_map_to_list. intros H1 H2.
    by eapply (map_disjoint_spec m1 m2).
  - intros [k v].
    by rewrite elem_of_app, !elem_of_map_to_list, lookup_union_Some.
Qed.

Lemma map_to_list_canon {V} (m : gmap str V) (l : list (str * V)) :
  l ≡ₚ map_to_list m → map_to_list (list_to_map (M := gmap str V) l) = map_to_list m.
Proof.
  intros Hp. f_equal. rewrite <-(list_to_map_to_list m).
  apply list_to_map_proper; [|done].
  rewrite Hp. apply NoDup_fst_map_to_list.
Qed.

(** ** The refinement, for a fixed hash and shard count *)
Section shardp.
  Context {V : Type} (h : str → nat) (n0 : nat).

  Implicit Types (st : sstore V) (k : str) (v : V) (P : str → V → bool).

  Lemma nshards_pos : 0 < nshards n0.
  Proof. unfold nshards. destruct n0; lia. Qed.

  Lemma nshards_nonzero n : n ≠ 0 → nshards n = n.
  Proof. unfold nshards. by destruct n. Qed.

  Lemma shard_of_lt k : shard_of h n0 k < nshards n0.
  Proof. apply Nat.mod_upper_bound. pose proof nshards_pos. lia. Qed.

  (** *** Ownership of a suffix of the shard list (the induction invariant) *)

  Definition owned (off : nat) (ms : list (gmap str V)) : Prop :=
    ∀ i m k v, ms !! i = Some m → m !! k = Some v → shard_of h n0 k = off + i.

  Lemma owned_cons off m ms :
    owned off (m :: ms) →
    (∀ k v, m !! k = Some v → shard_of h n0 k = off) ∧ owned (S off) ms.
  Proof.
    intros Ho; split.
    - intros k v Hk. rewrite (Ho 0 m k v); [lia|done|done].
    - intros i m' k v Hi Hk. rewrite (Ho (S i) m' k v); [lia|done|done].
  Qed.

  Lemma wf_owned st : wf h n0 st → owned 0 st.
  Proof. intros [_ Ho] i m k v ??. simpl. eauto. Qed.

  (** The union of an owned list of shards is read in the name's shard only. *)
  Lemma union_list_lookup_owned off ms k :
    owned off ms →
    (⋃ ms : gmap str V) !! k =
      if decide (off ≤ shard_of h n0 k)
      then ms !! (shard_of h n0 k - off) ≫= (.!! k) else None.
  Proof.
    revert off; induction ms as [|m ms IH]; intros off Ho.
    - simpl. rewrite lookup_empty. by case_decide.
    - apply owned_cons in Ho as [Hm Ho]. simpl. specialize (IH _ Ho).
      destruct (m !! k) as [v|] eqn:Hk.
      + rewrite (lookup_union_Some_l _ _ _ v) by done.
        pose proof (Hm _ _ Hk) as Hs. rewrite Hs.
        rewrite decide_True by lia. rewrite Nat.sub_diag. simpl. by rewrite Hk.
      + rewrite lookup_union_r by done. rewrite IH.
        repeat case_decide; try lia; try done.
        * replace (shard_of h n0 k - off) with (S (shard_of h n0 k - S off)) by lia. done.
        * replace (shard_of h n0 k - off) with 0 by lia. simpl. by rewrite Hk.
  Qed.

  (** Distinct shards of an owned list are disjoint. *)
  Lemma owned_disjoint off m ms : owned off (m :: ms) → m ##ₘ ⋃ ms.
  Proof.
    intros [Hm Ho]%owned_cons. apply map_disjoint_spec. intros k v1 v2 H1 H2.
    rewrite (union_list_lookup_owned (S off)) in H2 by done.
    apply Hm in H1. case_decide; [lia|done].
  Qed.

  Lemma to_list_owned off ms :
    owned off ms → mjoin (map_to_list <$> ms) ≡ₚ map_to_list (⋃ ms : gmap str V).
  Proof.
    revert off; induction ms as [|m ms IH]; intros off Ho.
    - simpl. by rewrite map_to_list_empty.
    - simpl. rewrite map_to_list_union_perm by eauto using owned_disjoint.
      apply owned_cons in Ho as [_ Ho]. by rewrite (IH _ Ho).
  Qed.

  (** *** [wf] is an invariant *)

  Lemma wf_empty : wf h n0 (s_empty (V := V) n0).
  Proof.
    split; [apply replicate_length|].
    intros i m k v [-> _]%lookup_replicate. by rewrite lookup_empty.
  Qed.

  Lemma wf_insert k v st : wf h n0 st → wf h n0 (s_insert h n0 k v st).
  Proof.
    intros [Hl Ho]. split; [unfold s_insert; by rewrite alter_length|].
    intros i m k' v' Hi Hk'. unfold s_insert in Hi.
    destruct (decide (shard_of h n0 k = i)) as [<-|Hne].
    - rewrite list_lookup_alter in Hi.
      destruct (st !! shard_of h n0 k) as [m0|] eqn:Hm0; simplify_eq/=.
      destruct (decide (k = k')) as [->|]; [done|].
      rewrite lookup_insert_ne in Hk' by done. eauto.
    - rewrite list_lookup_alter_ne in Hi by done. eauto.
  Qed.

  Lemma wf_delete k st : wf h n0 st → wf h n0 (s_delete h n0 k st).
  Proof.
    intros [Hl Ho]. split; [unfold s_delete; by rewrite alter_length|].
    intros i m k' v' Hi Hk'. unfold s_delete in Hi.
    destruct (decide (shard_of h n0 k = i)) as [<-|Hne].
    - rewrite list_lookup_alter in Hi.
      destruct (st !! shard_of h n0 k) as [m0|] eqn:Hm0; simplify_eq/=.
      apply lookup_delete_Some in Hk' as [_ Hk']. eauto.
    - rewrite list_lookup_alter_ne in Hi by done. eauto.
  Qed.

  Lemma wf_filter P st : wf h n0 st → wf h n0 (s_filter P st).
  Proof.
    intros [Hl Ho]. split; [unfold s_filter; by rewrite fmap_length|].
    intros i m k v Hi Hk. unfold s_filter in Hi.
    rewrite list_lookup_fmap in Hi.
    destruct (st !! i) as [m0|] eqn:Hm0; simplify_eq/=.
    apply map_filter_lookup_Some in Hk as [Hk _]. eauto.
  Qed.

  (** *** Every operation commutes with the abstraction function *)

  Lemma flat_empty : flat (s_empty (V := V) n0) = ∅.
  Proof.
    unfold flat, s_empty. induction (nshards n0) as [|n IH]; simpl; [done|].
    by rewrite IH, (left_id_L ∅ (∪)).
  Qed.

  Lemma s_lookup_flat st k : wf h n0 st → s_lookup h n0 st k = flat st !! k.
  Proof.
    intros Hwf. unfold flat, s_lookup.
    rewrite (union_list_lookup_owned 0) by by apply wf_owned.
    rewrite decide_True by lia. by rewrite Nat.sub_0_r.
  Qed.

  Lemma s_lookup_is_Some_shard st k :
    wf h n0 st → is_Some (st !! shard_of h n0 k).
  Proof. intros [Hl _]. apply lookup_lt_is_Some_2. rewrite Hl. apply shard_of_lt. Qed.

  Lemma flat_insert k v st :
    wf h n0 st → flat (s_insert h n0 k v st) = <[k := v]> (flat st).
  Proof.
    intros Hwf. apply map_eq; intros k'.
    rewrite <-s_lookup_flat by by apply wf_insert.
    unfold s_lookup, s_insert.
    destruct (decide (k = k')) as [<-|Hk].
    - rewrite lookup_insert, list_lookup_alter.
      destruct (s_lookup_is_Some_shard st k Hwf) as [m ->]. simpl.
      by rewrite lookup_insert.
    - rewrite lookup_insert_ne by done. rewrite <-s_lookup_flat by done.
      unfold s_lookup.
      destruct (decide (shard_of h n0 k = shard_of h n0 k')) as [->|Hs].
      + rewrite list_lookup_alter. destruct (st !! shard_of h n0 k'); simpl; [|done].
        by rewrite lookup_insert_ne.
      + by rewrite list_lookup_alter_ne.
  Qed.

  Lemma flat_delete k st :
    wf h n0 st → flat (s_delete h n0 k st) = delete k (flat st).
  Proof.
    intros Hwf. apply map_eq; intros k'.
    rewrite <-s_lookup_flat by by apply wf_delete.
    unfold s_lookup, s_delete.
    destruct (decide (k = k')) as [<-|Hk].
    - rewrite lookup_delete, list_lookup_alter.
      destruct (s_lookup_is_Some_shard st k Hwf) as [m ->]. simpl.
      by rewrite lookup_delete.
    - rewrite lookup_delete_ne by done. rewrite <-s_lookup_flat by done.
      unfold s_lookup.
      destruct (decide (shard_of h n0 k = shard_of h n0 k')) as [->|Hs].
      + rewrite list_lookup_alter. destruct (st !! shard_of h n0 k'); simpl; [|done].
        by rewrite lookup_delete_ne.
      + by rewrite list_lookup_alter_ne.
  Qed.

  (** [entry_pred P (k,v)] is [P k v]: this is [filter (λ '(k,v), P k v) (flat st)]. *)
  Lemma flat_filter P st :
    wf h n0 st → flat (s_filter P st) = filter (entry_pred P) (flat st).
  Proof.
    intros Hwf. apply map_eq; intros k.
    rewrite <-s_lookup_flat by by apply wf_filter.
    apply option_eq; intros v.
    rewrite map_filter_lookup_Some, <-s_lookup_flat by done.
    unfold s_lookup, s_filter. rewrite list_lookup_fmap.
    destruct (st !! shard_of h n0 k) as [m|]; simpl; [|naive_solver].
    by rewrite map_filter_lookup_Some.
  Qed.

  (** The same statement with the predicate written as a pattern-matching lambda, for
      any decision procedure of it (std++ cannot infer one through [let '(k,v) := ...]). *)
  Lemma flat_filter_pat P st
      `{!∀ kv : str * V, Decision ((λ '(k, v), P k v : Prop) kv)} :
    wf h n0 st →
    flat (s_filter P st) = filter (λ '(k, v), P k v : Prop) (flat st).
  Proof.
    intros Hwf. rewrite flat_filter by done. by apply map_filter_ext.
  Qed.

  Lemma entry_pred_spec P k v : entry_pred P (k, v) ↔ P k v = true.
  Proof. unfold entry_pred. simpl. by destruct (P k v). Qed.

  Lemma flat_filter_lookup P st k v :
    wf h n0 st →
    flat (s_filter P st) !! k = Some v ↔ flat st !! k = Some v ∧ P k v = true.
  Proof.
    intros Hwf. by rewrite flat_filter, map_filter_lookup_Some, entry_pred_spec.
  Qed.

  Lemma s_to_list_flat st : wf h n0 st → s_to_list st ≡ₚ map_to_list (flat st).
  Proof. intros Hwf. eapply to_list_owned, wf_owned, Hwf. Qed.

  Lemma s_to_list_canon st :
    wf h n0 st →
    map_to_list (list_to_map (M := gmap str V) (s_to_list st)) = map_to_list (flat st).
  Proof. intros Hwf. by apply map_to_list_canon, s_to_list_flat. Qed.

  (** The listing has no duplicate names and lists exactly the flat map. *)
  Lemma s_to_list_NoDup st : wf h n0 st → NoDup (s_to_list st).*1.
  Proof. intros Hwf. rewrite (s_to_list_flat st Hwf). apply NoDup_fst_map_to_list. Qed.

  Lemma elem_of_s_to_list st k v :
    wf h n0 st → (k, v) ∈ s_to_list st ↔ flat st !! k = Some v.
  Proof. intros Hwf. by rewrite (s_to_list_flat st Hwf), elem_of_map_to_list. Qed.

  (** *** Store programs: one step, then whole programs *)

  Lemma step_sim st o :
    wf h n0 st →
    wf h n0 (step_sharded h n0 st o).1 ∧
    flat (step_sharded h n0 st o).1 = (step_flat (flat st) o).1 ∧
    obs_equiv (step_sharded h n0 st o).2 (step_flat (flat st) o).2 ∧
    obs_canon (step_sharded h n0 st o).2 = (step_flat (flat st) o).2.
  Proof.
    intros Hwf. destruct o as [k|k v|k|P|]; simpl.
    - by rewrite s_lookup_flat.
    - split_and!; try done; eauto using wf_insert, flat_insert.
    - split_and!; try done; eauto using wf_delete, flat_delete.
    - split_and!; try done; eauto using wf_filter, flat_filter.
    - split_and!; [done|done|by apply s_to_list_flat|].
      by rewrite s_to_list_canon.
  Qed.

  Lemma exec_sim prog st :
    wf h n0 st →
    (exec_sharded h n0 st prog).1 ≈ (exec_flat (flat st) prog).1 ∧
    obs_canon <$> (exec_sharded h n0 st prog).1 = (exec_flat (flat st) prog).1 ∧
    wf h n0 (exec_sharded h n0 st prog).2 ∧
    flat (exec_sharded h n0 st prog).2 = (exec_flat (flat st) prog).2.
  Proof.
    revert st; induction prog as [|o prog IH]; intros st Hwf; simpl.
    - split_and!; [constructor|done..].
    - destruct (step_sim st o Hwf) as (Hwf' & Hfl & Heq & Hcan).
      destruct (step_sharded h n0 st o) as [st' a].
      destruct (step_flat (flat st) o) as [m' b]. simpl in *. subst m'.
      destruct (IH st' Hwf') as (IH1 & IH2 & IH3 & IH4).
      destruct (exec_sharded h n0 st' prog) as [os st''].
      destruct (exec_flat (flat st') prog) as [os' m'']. simpl in *.
      split_and!; [by constructor|by f_equal|done|done].
  Qed.

  (** A program on a fresh sharded manager is observationally the program on the flat map. *)
  Theorem run_sharded_flat (prog : list (sop V)) :
    run_sharded h n0 prog ≈ run_flat prog.
  Proof.
    unfold run_sharded, run_flat. rewrite <-flat_empty.
    apply exec_sim, wf_empty.
  Qed.

  Theorem run_sharded_canon (prog : list (sop V)) :
    obs_canon <$> run_sharded h n0 prog = run_flat prog.
  Proof.
    unfold run_sharded, run_flat. rewrite <-flat_empty.
    apply exec_sim, wf_empty.
  Qed.

  (** ... and it leaves the store in a well-formed state whose flat view is the flat run's map. *)
  Theorem run_sharded_final (prog : list (sop V)) :
    wf h n0 (exec_sharded h n0 (s_empty n0) prog).2 ∧
    flat (exec_sharded h n0 (s_empty n0) prog).2 = (exec_flat ∅ prog).2.
  Proof.
    rewrite <-flat_empty. apply exec_sim, wf_empty.
  Qed.
End shardp.

(** ** Observational equivalence is an equivalence *)

#[global] Instance obs_equiv_equivalence {V} : Equivalence (@obs_equiv V).
Proof.
  split.
  - intros [?|?|]; simpl; done.
  - intros [?|?|] [?|?|]; simpl; done.
  - intros [?|?|] [?|?|] [?|?|]; simpl; try done; intros ??; by etrans.
Qed.

#[global] Instance obss_equiv_equivalence {V} : Equivalence (@obss_equiv V).
Proof. unfold obss_equiv. apply _. Qed.

(** ** The punchline (C12: "identical for every number of shards")

    Any program over the lock table produces the same observations — lookup results equal,
    listings equal as multisets — whatever the hash function and whatever the number of
    shards, because each configuration is observationally the flat map. *)
Theorem shards_invisible {V} (h h' : str → nat) (n n' : nat) (prog : list (sop V)) :
  run_sharded h n prog ≈ run_sharded h' n' prog.
Proof.
  transitivity (run_flat prog); [|symmetry]; apply run_sharded_flat.
Qed.

(** The same with plain equality on canonical listings. *)
Theorem shards_invisible_canon {V} (h h' : str → nat) (n n' : nat) (prog : list (sop V)) :
  obs_canon <$> run_sharded h n prog = obs_canon <$> run_sharded h' n' prog.
Proof. by rewrite !run_sharded_canon. Qed.

(** Also the final stores agree through [flat]. *)
Theorem shards_invisible_final {V} (h h' : str → nat) (n n' : nat) (prog : list (sop V)) :
  flat (exec_sharded h n (s_empty n) prog).2 = flat (exec_sharded h' n' (s_empty n') prog).2.
Proof.
  destruct (run_sharded_final h n prog) as [_ ->].
  by destruct (run_sharded_final h' n' prog) as [_ ->].
Qed.

(** The refinement from any pair of related states, not only the empty one (what a model
    that embeds the store in a larger state needs). *)
Theorem shards_invisible_from {V} (h h' : str → nat) (n n' : nat)
    (st st' : sstore V) (prog : list (sop V)) :
  wf h n st → wf h' n' st' → flat st = flat st' →
  (exec_sharded h n st prog).1 ≈ (exec_sharded h' n' st' prog).1 ∧
  flat (exec_sharded h n st prog).2 = flat (exec_sharded h' n' st' prog).2.
Proof.
  intros Hwf Hwf' Hfl.
  destruct (exec_sim h n prog st Hwf) as (H1 & _ & _ & H2).
  destruct (exec_sim h' n' prog st' Hwf') as (H1' & _ & _ & H2').
  rewrite <-Hfl in H1', H2'. split.
  - by rewrite H1, H1'.
  - by rewrite H2, H2'.
Qed.

(** ** A concrete instance: hash [hlen] = length of the name; 0, 1, 2 and 16 shards *)

Module demo.
Import String.
Local Open Scope list_scope.
Local Open Scope Z_scope.

Definition nm (x : string) : str := list_byte_of_string x.

(** The hash: the length of the name. *)
Definition hlen (k : str) : nat := List.length k.

Definition demo : list (sop Z) :=
  [ SInsert (nm "a") 1; SInsert (nm "bb") 2; SInsert (nm "ccc") 3; SInsert (nm "dddd") 4;
    SInsert (nm "ee") 5; SLookup (nm "bb"); SList;
    SInsert (nm "bb") 20; SDelete (nm "a"); SLookup (nm "a"); SLookup (nm "bb");
    SFilter (λ _ v, v <? 10); SList; SLookup (nm "ccc"); SLookup (nm "zz") ].

Example demo_counts_agree :
  bool_decide (run_sharded hlen 0 demo ≈ run_flat demo) = true ∧
  bool_decide (run_sharded hlen 1 demo ≈ run_flat demo) = true ∧
  bool_decide (run_sharded hlen 2 demo ≈ run_flat demo) = true ∧
  bool_decide (run_sharded hlen 16 demo ≈ run_flat demo) = true ∧
  bool_decide (run_sharded hlen 2 demo ≈ run_sharded (λ _, 7%nat) 16 demo) = true.
Proof. vm_compute. done. Qed.

Example demo_canon :
  obs_canon <$> run_sharded hlen 0 demo = run_flat demo ∧
  obs_canon <$> run_sharded hlen 1 demo = run_flat demo ∧
  obs_canon <$> run_sharded hlen 2 demo = run_flat demo ∧
  obs_canon <$> run_sharded hlen 16 demo = run_flat demo.
Proof. vm_compute. done. Qed.

(** The lookups and the contents of the listings, written out. *)
Example demo_lookups :
  omap (λ a, match a with OFound r => Some r | _ => None end) (run_sharded hlen 16 demo)
  = [Some 2; None; Some 20; Some 3; None].
Proof. vm_compute. done. Qed.

Example demo_listings :
  omap (λ a, match a with OListing l => Some (List.length l) | _ => None end)
       (run_sharded hlen 16 demo) = [5%nat; 3%nat] ∧
  match run_sharded hlen 16 demo !! 12%nat with
  | Some a => obs_equiv a (OListing [(nm "ccc", 3); (nm "dddd", 4); (nm "ee", 5)])
  | None => False
  end.
Proof. split; [by vm_compute|]. vm_compute. apply (bool_decide_unpack _). by vm_compute. Qed.

(** The equivalence is not vacuous: the raw listing order really depends on the shard
    count, so [≈] (or [obs_canon]) is needed and plain equality of raw runs fails. *)
Example demo_order_differs : run_sharded hlen 2 demo ≠ run_sharded hlen 1 demo.
Proof. vm_compute. discriminate. Qed.
End demo.

Print Assumptions shards_invisible.
Print Assumptions shards_invisible_canon.
Print Assumptions shards_invisible_final.
Print Assumptions shards_invisible_from.
Print Assumptions run_sharded_flat.
Print Assumptions s_to_list_flat.
Print Assumptions flat_filter.
