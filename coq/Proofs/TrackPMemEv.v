(** C13 at trace level, per event: the memory [mem_step] computes is sound for the state the model reaches
    (work package trackp). *)
From Coq Require Import Lia ZifyBool ZifyNat String.
From Ldlm Require Import Model.Base Model.Err Model.Seq Model.Track Proofs.SeqDefs Proofs.SeqLemmasKey Proofs.SeqInvBase
  Proofs.SeqInvOps Proofs.SeqInvTime Proofs.SeqInv Proofs.SeqTimeBase Proofs.SeqTime1 Proofs.SeqTime2 Proofs.SeqTime3
  Proofs.TrackPBase Proofs.TrackPOrder Proofs.TrackPRel Proofs.TrackPStep Proofs.TrackPTR Proofs.TrackPMem Proofs.TrackPProbe
  Proofs.TrackPAcq Proofs.TrackPUnl Proofs.TrackPAdv Proofs.SeqReq1.
From RecordUpdate Require Import RecordSet.
Import RecordSetNotations.
Local Open Scope Z_scope.

(** ** The model's operations on the lock table *)

Lemma mgr_unlock_LEt cfg N n k s s2 r o : mgr_unlock cfg n k s = (s2, r, o) →
  LEt cfg N s s2 ∧ st_now s2 = st_now s ∧
  (∀ x, x ∈ o → ∃ w a r', x = OWaiter w a r') ∧
  match st_locks s !! n with
  | Some ob => Qn cfg s2 n (lo_size ob) (st_now s) ∧ (r = inr tt ∨ r = inl ELockInvalidLockKey)
  | None => r = inl ELockDoesNotExist
  end.
Proof.
  intros Hm. apply mgr_unlock_spec in Hm as (x & Hsh & En & _ & _ & _ & _ & _ & _ & Hr).
  pose proof Hsh as (_ & Ho & _ & Hl). split_and!; [|done| |].
  - destruct (st_locks s !! n) as [ob|] eqn:E.
    + eapply LEt_touch; [exact E|exact Hl|done|done|done].
    + destruct Hl as [Hl _]. by apply LEt_same.
  - intros y Hy. rewrite Ho in Hy. destruct x as [w|]; [|by apply elem_of_nil in Hy]. apply elem_of_list_singleton in Hy as ->. eauto.
  - destruct (st_locks s !! n) as [ob|] eqn:E; [|done]. split.
    + rewrite <- En. replace (lo_size ob) with (lo_size (LockObj (lo_size ob) (remove_first k (lo_keys ob) ++ granted_key x) (st_now s))) by done.
      apply Qn_touched; [by rewrite Hl, lookup_insert|simpl; congruence].
    + destruct (bool_decide (k ∈ lo_keys ob)); auto.
Qed.

Lemma srv_unlock_LEt cfg n k s s' u e o : srv_unlock cfg n k s = (s', (u, e), o) →
  LEt cfg [] s s' ∧ st_now s' = st_now s ∧ (∀ x, x ∈ o → ∃ w a r', x = OWaiter w a r') ∧
  match st_locks s !! n with
  | Some ob => Qn cfg s' n (lo_size ob) (st_now s) ∧ (u = true ∧ e = None ∨ u = false ∧ e = Some ELockInvalidLockKey)
  | None => u = false ∧ e = Some ELockDoesNotExist
  end.
Proof.
  intros Hu. unfold srv_unlock in Hu.
  set (s0 := s <| st_timers := delete (tkey n k) (st_timers s) |>) in *.
  destruct (mgr_unlock cfg n k s0) as [[s1 r] o1] eqn:Hm.
  destruct (mgr_unlock_LEt cfg [] _ _ _ _ _ _ Hm) as (HL & En & Ho & Hc). simpl in En, Hc.
  assert (LEt cfg [] s s0) as HL0 by (by apply LEt_same).
  destruct r as [err|[]]; injection Hu as <- <- <- <-.
  - split_and!; [by eapply LEt_trans|done|done|]. destruct (st_locks s !! n) as [ob|].
    + destruct Hc as [HQ [?|[= ->]]]; [done|]. split; [done|by right].
    + by injection Hc as ->.
  - split_and!.
    + eapply LEt_trans; [exact HL0|]. eapply LEt_trans; [exact HL|]. apply LEt_same; [apply rle_locks|apply rle_now].
    + by rewrite rle_now.
    + done.
    + destruct (st_locks s !! n) as [ob|]; [|done]. destruct Hc as [[Hx HQ] _]. split; [|by left].
      unfold Qn. rewrite rle_now, rle_locks. done.
Qed.

Definition accepted (o : list out) : Prop :=
  match first_resp o with
  | Some (RLock true _ _) | Some RBlocked | Some (RLock false _ None) => True
  | _ => False
  end.

Lemma srv_acquire_LEt cfg blocking wid sid name key sz lt wt s s' o :
  srv_acquire cfg blocking wid sid name key sz lt wt s = (s', o) →
  (¬ accepted o ∧ st_locks s' = st_locks s ∧ st_now s' = st_now s) ∨
  (accepted o ∧ LEt cfg [name] s s' ∧ Qn cfg s' name sz (st_now s)).
Proof.
  intros Ha. unfold srv_acquire in Ha. case_bool_decide; [injection Ha as <- <-; left; split_and!; try done; by intros []|].
  destruct (get_lock_create name sz s) as [e|[ob s1]] eqn:Hg; [injection Ha as <- <-; left; split_and!; try done; by intros []|].
  apply glc_shape in Hg as (Hsz & Hobsz & -> & Hob).
  assert (LEt cfg [name] s (s <| st_locks := <[name := ob]> (st_locks s) |>)) as HL1 by (by eapply LEt_create).
  assert (lo_last ob = st_now s) as Hlast by (destruct Hob as [(o0 & _ & ->)|[_ ->]]; done).
  right. destruct (can_acquire _ _ _).
  - injection Ha as <- <-. split; [done|]. unfold add_key. cbn [st_locks set]. rewrite lookup_insert.
    set (s2 := s <| st_locks := <[name := ob]> (st_locks s) |> <| st_locks := <[name := ob <| lo_keys := lo_keys ob ++ [key] |>]> (<[name := ob]> (st_locks s)) |>).
    assert (LEt cfg [name] s (record_grant cfg sid name key sz lt s2)) as HL.
    { eapply LEt_trans; [exact HL1|]. eapply LEt_trans; [|apply LEt_same; [apply rg_locks|apply rg_now]].
      eapply LEt_keys; [apply lookup_insert|done..]. }
    split; [exact HL|]. split; [by rewrite rg_now|]. rewrite rg_locks, rg_now. simpl. rewrite lookup_insert. simpl. split; [done|lia].
  - destruct blocking; injection Ha as <- <-; (split; [done|]); (split; [exact HL1|]);
      (split; [done|]); simpl; rewrite lookup_insert; (split; [done|lia]).
Qed.

(** ** The tracker's size hint *)

Lemma size_hint_sound X cfg s t n k ob : Inv cfg s → TR X cfg s t → MI cfg s (t_mem t) →
  size_hint n t = Some k → st_locks s !! n = Some ob → lo_size ob = k.
Proof.
  intros HI HT HM Hh Ho. unfold size_hint in Hh. destruct (known_size n t) as [k'|] eqn:Ek.
  - injection Hh as <-. destruct (TR_known_size _ _ _ _ HI HT _ _ Ek) as (ob' & Ho' & <-). congruence.
  - destruct (mem_lookup n (t_mem t)) as [[sz x]|] eqn:El; [|done]. injection Hh as <-.
    destruct (HM _ _ _ El) as [_ HQ]. rewrite Ho in HQ. by destruct HQ.
Qed.

Lemma mem_touch_ok X cfg s s' t n ob : Inv cfg s → TR X cfg s t → MI cfg s (t_mem t) →
  LEt cfg [] s s' → st_locks s !! n = Some ob → Qn cfg s' n (lo_size ob) (st_now s) → MI cfg s' (mem_touch n t).
Proof.
  intros HI HT HM HL Ho HQ. unfold mem_touch. destruct (size_hint n t) as [k|] eqn:Eh; [|by eapply MI_LEt].
  rewrite <- (size_hint_sound _ _ _ _ _ _ _ HI HT HM Eh Ho), (tr_now _ _ _ _ HT).
  apply MI_upd; [by eapply MI_LEt|done].
Qed.

Lemma MI_fold_upd cfg s {A} (f : A → str) (g : A → Z * Z) (l : list A) : ∀ m,
  MI cfg s m → (∀ a, a ∈ l → Qn cfg s (f a) (g a).1 (g a).2) →
  MI cfg s (fold_left (λ m a, mem_upd (f a) (g a) m) l m).
Proof.
  induction l as [|a l IH]; intros m HM HQ; [done|]. simpl. apply IH; [|intros; apply HQ; by right].
  destruct (g a) as [sz x] eqn:E. apply MI_upd; [done|]. specialize (HQ a (elem_of_list_here _ _)). by rewrite E in HQ.
Qed.

(** ** Requests *)

Section mem.
  Context (X : nat → string → Prop) (cfg : config).

  Lemma first_resp_singleton r : first_resp [OResp r] = Some r.
  Proof. done. Qed.

  Lemma mem_acquire_ok blocking wid sid name key size lt wt s s' o t :
    TR X cfg s t → MI cfg s (t_mem t) →
    srv_acquire cfg blocking wid sid name key (default 1 size) lt wt s = (s', o) →
    MI cfg s' (match first_resp o with
               | Some (RLock true _ _) | Some RBlocked | Some (RLock false _ None) => mem_upd name (default 1 size, t_now t) (t_mem t)
               | _ => t_mem t end).
  Proof.
    intros HT HM Ha. destruct (srv_acquire_LEt _ _ _ _ _ _ _ _ _ _ _ _ Ha) as [(Hna & EL & En)|(Hacc & HL & HQ)].
    - assert (MI cfg s' (t_mem t)) as HM' by (eapply MI_LEt; [done|by apply LEt_same]).
      unfold accepted in Hna. destruct (first_resp o) as [[[] ? [?|]| |]|]; try done; by destruct Hna.
    - assert (MI cfg s' (mem_upd name (default 1 size, t_now t) (t_mem t))) as HM'.
      { rewrite (tr_now _ _ _ _ HT). by eapply MI_LEt_upd. }
      unfold accepted in Hacc. destruct (first_resp o) as [[[] ? [?|]| |]|]; try done.
  Qed.

  Lemma mem_trylock_ok sid name size lt key s s' o t :
    TR X cfg s t → MI cfg s (t_mem t) → srv_trylock cfg sid name size lt key s = (s', o) →
    MI cfg s' (mem_step cfg (ETryLock sid name size lt key) o t).
  Proof.
    intros HT HM Hs. simpl. unfold srv_trylock in Hs. destruct sid as [sid|]; [|by injection Hs as <- <-].
    destruct (opt_neg lt); [by injection Hs as <- <-|].
    eapply (mem_acquire_ok false 0%nat sid name key size lt None (s <| st_used := key :: st_used s |>)); [|done|exact Hs].
    by apply TR_used.
  Qed.

  Lemma mem_lock_ok wid sid name size lt wt key s s' o t :
    TR X cfg s t → MI cfg s (t_mem t) → srv_lock cfg wid sid name size lt wt key s = (s', o) →
    MI cfg s' (mem_step cfg (ELock wid sid name size lt wt key) o t).
  Proof.
    intros HT HM Hs. simpl. unfold srv_lock in Hs. destruct sid as [sid|]; [|by injection Hs as <- <-].
    destruct (opt_neg lt); [by injection Hs as <- <-|]. destruct (opt_neg wt); [by injection Hs as <- <-|].
    eapply (mem_acquire_ok true wid sid name key size lt wt (s <| st_used := key :: st_used s |>)); [|done|exact Hs].
    by apply TR_used.
  Qed.

  Lemma first_resp_tail' o r : (∀ x, x ∈ o → ∃ w a r', x = OWaiter w a r') → first_resp (o ++ [OResp r]) = Some r.
  Proof. apply first_resp_tail. Qed.

  Lemma mem_unlock_ok sid n k s s' u e o t :
    Inv cfg s → TR X cfg s t → MI cfg s (t_mem t) → srv_unlock cfg n k s = (s', (u, e), o) →
    MI cfg s' (mem_step cfg (EUnlock sid n k) (o ++ [OResp (RUnlock u e)]) t).
  Proof.
    intros HI HT HM Hu. simpl. destruct (srv_unlock_LEt _ _ _ _ _ _ _ _ Hu) as (HL & En & Ho & Hc).
    rewrite first_resp_tail by done.
    destruct (st_locks s !! n) as [ob|] eqn:Eo.
    - destruct Hc as [HQ [[-> ->]|[-> ->]]]; by eapply mem_touch_ok.
    - destruct Hc as [-> ->]. by eapply MI_LEt.
  Qed.

  Lemma ipc_reply_head o r e : (∀ x, x ∈ o → ∃ w a r', x = OWaiter w a r') →
    head (omap (λ o0, match o0 with OIpcUnlock r e => Some (r, e) | _ => None end) (o ++ [OIpcUnlock r e])) = Some (r, e).
  Proof.
    intros Ho. rewrite omap_app. simpl. induction o as [|x o IH]; [done|]. simpl.
    destruct (Ho x) as (w & a & r' & ->); [left|]. simpl. apply IH. intros; apply Ho; by right.
  Qed.

  Lemma mem_ipc_with_ok n k ko s s' o t :
    Inv cfg s → TR X cfg s t → MI cfg s (t_mem t) → ipc_unlock_with cfg n k s = (s', o) →
    MI cfg s' (mem_step cfg (EIpcUnlock n ko) o t).
  Proof.
    intros HI HT HM Hu. unfold ipc_unlock_with in Hu. destruct (srv_unlock cfg n k s) as [[s1 [u e]] o1] eqn:Hs.
    destruct (srv_unlock_LEt _ _ _ _ _ _ _ _ Hs) as (HL & En & Ho & Hc). simpl.
    destruct (st_locks s !! n) as [ob|] eqn:Eo.
    - destruct Hc as [HQ [[-> ->]|[-> ->]]]; injection Hu as <- <-; rewrite ipc_reply_head by done; by eapply mem_touch_ok.
    - destruct Hc as [-> ->]. injection Hu as <- <-. rewrite ipc_reply_head by done. by eapply MI_LEt.
  Qed.

  Lemma mem_ipc_ok n ko s s' o t :
    Inv cfg s → TR X cfg s t → MI cfg s (t_mem t) → (s', o) ∈ ipc_unlock cfg n ko s →
    MI cfg s' (mem_step cfg (EIpcUnlock n ko) o t).
  Proof.
    intros HI HT HM Hin. unfold ipc_unlock in Hin. destruct ko as [k|].
    - case_bool_decide; [by apply elem_of_nil in Hin|]. apply elem_of_list_singleton in Hin. by eapply mem_ipc_with_ok.
    - destruct (ipc_candidates n s) as [|k0 ks].
      + apply elem_of_list_singleton in Hin. by injection Hin as -> ->.
      + apply elem_of_list_In, in_map_iff in Hin as (k & Hk & _). case_bool_decide; [by injection Hk as <- <-|].
        by eapply mem_ipc_with_ok.
  Qed.
End mem.

(** ** Session end *)

Definition Osz (s : sstate) (n : str) (sz : Z) : Prop := ∃ ob, st_locks s !! n = Some ob ∧ lo_size ob = sz.

Lemma dstep_mem cfg s outs c s' outs' : dstep cfg (s, outs) c = (s', outs') →
  LEt cfg [] s s' ∧ st_now s' = st_now s ∧ (∀ n sz, Osz s n sz → Osz s' n sz) ∧
  (∀ sz, Osz s (cl_name c) sz → Qn cfg s' (cl_name c) sz (st_now s)).
Proof.
  unfold dstep. destruct (mgr_unlock cfg (cl_name c) (cl_key c) s) as [[s1 r] o1] eqn:Hm.
  destruct (mgr_unlock_LEt cfg [] _ _ _ _ _ _ Hm) as (HL & En & _ & Hc).
  pose proof (mgr_unlock_lext _ _ _ _ _ _ _ Hm) as Hlext.
  assert (∀ s2, st_locks s2 = st_locks s1 → st_now s2 = st_now s1 →
     LEt cfg [] s s2 ∧ st_now s2 = st_now s ∧ (∀ n sz, Osz s n sz → Osz s2 n sz) ∧
     (∀ sz, Osz s (cl_name c) sz → Qn cfg s2 (cl_name c) sz (st_now s))) as Hgen.
  { intros s2 EL En2. split_and!.
    - eapply LEt_trans; [exact HL|by apply LEt_same].
    - congruence.
    - intros n sz (ob & Ho & Hs). destruct (Hlext _ _ Ho) as (o2 & Ho2 & Hs2). exists o2. rewrite EL. split; congruence.
    - intros sz (ob & Ho & Hs). rewrite Ho in Hc. destruct Hc as [HQ _]. unfold Qn in *. rewrite EL, En2, <- Hs. done. }
  destruct r as [e|[]]; intros [= <- <-]; by apply Hgen.
Qed.

Lemma dfold_mem cfg B : ∀ s outs s' outs', fold_left (dstep cfg) B (s, outs) = (s', outs') →
  LEt cfg [] s s' ∧ st_now s' = st_now s ∧ ∀ c, c ∈ B → Osz s (cl_name c) (cl_size c) → Qn cfg s' (cl_name c) (cl_size c) (st_now s).
Proof.
  induction B as [|c B IH]; intros s outs s' outs' Hf.
  - injection Hf as <- <-. split_and!; [apply LEt_refl|done|by intros c ?%elem_of_nil].
  - cbn [fold_left] in Hf. destruct (dstep cfg (s, outs) c) as [s1 outs1] eqn:Hd.
    destruct (dstep_mem _ _ _ _ _ _ Hd) as (HL1 & En1 & HO1 & HQ1). destruct (IH _ _ _ _ Hf) as (HL & En & HQ).
    split_and!; [by eapply LEt_trans|congruence|].
    intros c' [->|Hc']%elem_of_cons HO.
    + apply HL; [apply not_elem_of_nil|]. by apply HQ1.
    + rewrite <- En1. apply HQ; [done|]. by apply HO1.
Qed.

Lemma destroy_session_mem cfg sid s s2 o2 : destroy_session cfg sid s = (s2, o2) →
  LEt cfg [] s s2 ∧
  (c_noclear cfg = false → st_shut s = false → ∀ l c, st_sessions s !! sid = Some l → c ∈ l → intab (st_locks s) c →
     Qn cfg s2 (cl_name c) (cl_size c) (st_now s)).
Proof.
  intros Hd. unfold destroy_session in Hd. destruct (st_shut s) eqn:Hsh.
  { injection Hd as <- <-. split; [apply LEt_refl|done]. }
  destruct (st_sessions s !! sid) as [locks|] eqn:Hs.
  2:{ injection Hd as <- <-. split; [apply LEt_refl|done]. }
  destruct (c_noclear cfg) eqn:Hnc; simpl in Hd.
  - split; [|done]. case_bool_decide; simpl in Hd; injection Hd as <- <-; [|apply LEt_refl].
    apply LEt_same; [by rewrite save_locks|by rewrite save_now].
  - change (λ '(s, outs) c0, match mgr_unlock cfg (cl_name c0) (cl_key c0) s with
                            | (s', inr _, o) => (s' <| st_timers := delete (tkey (cl_name c0) (cl_key c0)) (st_timers s') |>, outs ++ o)
                            | (s', inl _, o) => (s', outs ++ o) end) with (dstep cfg) in Hd.
    apply dfold_mem in Hd as (HL & En & HQ). rewrite save_now in En, HQ. simpl in *.
    assert (LEt cfg [] s (save cfg (s <| st_sessions := delete sid (st_sessions s) |>))) as HL0 by (apply LEt_same; [by rewrite save_locks|by rewrite save_now]).
    split; [by eapply LEt_trans|]. intros _ _ l c [= <-] Hc (ob & Ho & _ & Hsz). apply HQ; [done|].
    exists ob. rewrite save_locks. done.
Qed.

Lemma mem_disconnect_ok X cfg sid s s' o t :
  Inv cfg s → st_shut s = false → TR X cfg s t → MI cfg s (t_mem t) → disconnect cfg sid s = (s', o) →
  MI cfg s' (mem_step cfg (EDisconnect sid) o t).
Proof.
  intros HI Hsh HT HM Hd. unfold disconnect in Hd.
  destruct (cancel_waiters_spec (λ w, bool_decide (w_sid w = sid)) ECtxCanceled s) as (ws' & Ec & _). rewrite Ec in Hd.
  set (s1 := s <| st_waiters := ws' |>) in *.
  destruct (destroy_session cfg sid s1) as [s2 o2] eqn:Hds. injection Hd as <- <-.
  destruct (destroy_session_mem _ _ _ _ _ Hds) as [HL HQ]. simpl.
  assert (MI cfg s2 (t_mem t)) as HM2 by (eapply MI_LEt; [exact HM|exact HL]).
  destruct (c_noclear cfg) eqn:Hnc; [done|].
  apply (MI_fold_upd cfg s2 h_name (λ h, (h_size h, t_now t))); [done|].
  intros h [Hsid%bool_decide_eq_true Hh]%elem_of_lfilter. simpl. rewrite (tr_now _ _ _ _ HT).
  pose proof (tr_holds _ _ _ _ HT) as HH.
  destruct (hr_sid _ _ _ _ _ _ HH h Hh) as (l & Hl & Hc). rewrite Hsid in Hl.
  apply (HQ eq_refl Hsh l (hold_clock h)); [done|done|]. by apply (hr_tab _ _ _ _ _ _ HH).
Qed.

(** ** Time *)

Section advmem.
  Context (X : nat → string → Prop) (cfg : config) (i : nat) (Hcfg : cfg_ok cfg).
  Context (s0 : sstate) (t : tstate) (target : Z).
  Context (n k : str) (sz d : Z) (tm : timer).

  (** the lease of (n,k) ends at [d]: until it fires the object is there; afterwards [d] is a sound instant *)
  Definition J (s : sstate) : Prop :=
    (st_timers s !! tkey n k = Some tm ∧ Osz s n sz) ∨ Qn cfg s n sz d.

  Lemma J_step s outs d0 s2 o : tm_deadline tm = d →
    AI X cfg i s0 t target s outs → J s → d0 ∈ next_due target s →
    fire cfg d0 (tick cfg (Z.max (st_now s) (due_time d0)) s) = (s2, o) → J s2.
  Proof.
    intros Hdl HA HJ Hd Hf.
    pose proof (ai_inv _ _ _ _ _ _ _ _ HA) as ((HTI & _ & _) & _ & _).
    pose proof (ai_sane _ _ _ _ _ _ _ _ HA) as [_ Hitems].
    pose proof (next_due_elem _ _ _ Hd) as (Hin & _).
    set (tn := Z.max (st_now s) (due_time d0)) in *. set (s1 := tick cfg tn s) in *.
    assert (LEt cfg [] s s1) as HL1 by (apply LEt_tick; lia).
    assert (LEt cfg [] s1 s2 ∧ (∀ n' sz', Osz s1 n' sz' → Osz s2 n' sz')) as [HL2 HO2].
    { destruct d0 as [tk' tm'|w]; simpl in Hf.
      - unfold expire in Hf. destruct (mgr_unlock cfg (tm_name tm') (tm_key tm') s1) as [[s3 r] o3] eqn:Hm. injection Hf as <- <-.
        destruct (mgr_unlock_LEt cfg [] _ _ _ _ _ _ Hm) as (HL & En & _ & _).
        pose proof (mgr_unlock_lext _ _ _ _ _ _ _ Hm) as Hlext. split.
        + eapply LEt_trans; [exact HL|]. apply LEt_same; simpl; [by rewrite rle_locks|by rewrite rle_now].
        + intros n' sz' (ob & Ho & Hs). destruct (Hlext _ _ Ho) as (o2 & Ho2 & Hs2). exists o2. simpl. rewrite rle_locks. split; congruence.
      - injection Hf as <- <-. split; [by apply LEt_same|]. done. }
    destruct HJ as [[Ht HO]|HQ]; [|right; apply HL2; [apply not_elem_of_nil|]; apply HL1; [apply not_elem_of_nil|done]].
    (* the lease has not fired yet: its hold is live, so the collector keeps the object *)
    destruct (ti_timers _ _ _ _ _ HTI _ _ Ht) as [Ek [Hlive|[]%elem_of_nil]]. apply tkey_inj in Ek as [En Ekk].
    assert (Osz s1 n sz) as HO1.
    { destruct HO as (ob & Ho & Hs). exists ob. split; [|done]. unfold s1. rewrite tick_locks. apply gc_locks_keep; [done|]. left.
      destruct Hlive as (ob' & Ho' & Hk'). rewrite <- En in Ho'. simplify_eq. intros E. rewrite E in Hk'. by apply elem_of_nil in Hk'. }
    destruct d0 as [tk' tm'|w]; simpl in Hf.
    - apply all_items_timer in Hin as Htm'. destruct (ti_timers _ _ _ _ _ HTI _ _ Htm') as [Ek' _].
      destruct (decide (tk' = tkey n k)) as [->|Hne].
      + (* it fires now, at its deadline *)
        right. rewrite Ht in Htm'. injection Htm' as <-. unfold expire in Hf.
        destruct (mgr_unlock cfg (tm_name tm) (tm_key tm) s1) as [[s3 r] o3] eqn:Hm. injection Hf as <- <-.
        destruct (mgr_unlock_LEt cfg [] _ _ _ _ _ _ Hm) as (_ & En3 & _ & Hc).
        destruct HO1 as (ob & Ho & Hs). rewrite <- En, Ho in Hc. destruct Hc as [HQ _].
        assert (st_now s1 = d) as End.
        { unfold s1. rewrite tick_now. unfold tn. simpl. rewrite Hdl. specialize (Hitems _ Hin). simpl in Hitems. lia. }
        rewrite End, Hs in HQ. unfold Qn in *. simpl. rewrite rle_now, rle_locks. done.
      + (* another lease fires *)
        left. split; [|by apply HO2]. unfold expire in Hf.
        destruct (mgr_unlock cfg (tm_name tm') (tm_key tm') s1) as [[s3 r] o3] eqn:Hm. injection Hf as <- <-. simpl.
        rewrite rle_timers, lookup_delete_ne by done.
        apply mgr_unlock_spec in Hm as (x & Hsh & _ & _ & _ & _ & Htm3 & _). rewrite Htm3. unfold s1. rewrite tick_timers.
        destruct x as [w|]; [|done]. rewrite grant_timers_lookup_ne; [done|]. intros [_ Ekw]%tkey_inj.
        destruct (unlock_shape_granted _ _ _ _ _ _ _ _ w Hsh eq_refl) as [Hw _]. unfold s1 in Hw. rewrite tick_waiters in Hw.
        destruct (ti_used_waiters _ _ _ _ _ HTI w Hw) as [_ Hdead]. apply (Hdead (tm_name tm)). by rewrite <- Ekw, Ekk.
    - injection Hf as <- <-. left. split; [|by apply HO2]. simpl. by rewrite gc_timers.
  Qed.
End advmem.

Lemma advance_mem X cfg (i : nat) dt s s' o t : cfg_ok cfg → Inv cfg s → st_shut s = false → TR X cfg s t →
  (s', o) ∈ advance cfg dt s →
  LEt cfg [] s s' ∧
  ∀ h d, h ∈ t_holds t → h_deadline h = Some d → d ≤ st_now s + Z.max 0 dt → Qn cfg s' (h_name h) (h_size h) d.
Proof.
  intros Hcfg HI Hsh HT Hin. unfold advance in Hin. set (target := st_now s + Z.max 0 dt) in *.
  pose proof (Inv_QInv _ _ HI) as (HS & HMM & Hgc).
  assert (AI X cfg i s t target s []) as HA0.
  { split.
    - split_and!; [done| |done]. eapply TM_mono; [|exact HMM]. simpl. intros d. lia.
    - by eapply inv_time_sane.
    - lia.
    - exists []. split; [by eapply TR_LR|]. by intros n k ?%elem_of_nil.
    - apply (tr_fail _ _ _ _ HT).
    - apply (tr_pending _ _ _ _ HT).
    - by intros c ?%elem_of_nil.
    - constructor.
    - constructor.
    - by intros x ?%elem_of_nil. }
  split.
  - eapply (advance_loop_inv cfg target (λ s1 outs, AI X cfg i s t target s1 outs ∧ LEt cfg [] s s1)) in Hin as (sf & [_ HL] & _ & ->).
    + eapply LEt_trans; [exact HL|apply LEt_finish].
    + intros s1 outs d0 s2 o2 [HA HL] Hd Hf. split; [by eapply AI_step|].
      eapply LEt_trans; [exact HL|]. eapply LEt_trans; [apply (LEt_tick cfg [] s1 (Z.max (st_now s1) (due_time d0))); lia|].
      destruct d0 as [tk' tm'|w]; simpl in Hf.
      * unfold expire in Hf. destruct (mgr_unlock _ _ _ _) as [[s3 r] o3] eqn:Hm. injection Hf as <- <-.
        destruct (mgr_unlock_LEt cfg [] _ _ _ _ _ _ Hm) as (HL3 & _). eapply LEt_trans; [exact HL3|].
        apply LEt_same; simpl; [by rewrite rle_locks|by rewrite rle_now].
      * injection Hf as <- <-. by apply LEt_same.
    + apply advance_fuel_measure.
    + split; [done|apply LEt_refl].
  - intros h d Hh Hd Hle. pose proof (tr_holds _ _ _ _ HT) as HH.
    pose proof (hr_lease _ _ _ _ _ _ HH Hsh h Hh) as Hl. rewrite Hd in Hl. unfold tdl in Hl.
    destruct (st_timers s !! tkey (h_name h) (h_key h)) as [tm|] eqn:Etm; [|done]. injection Hl as Hdl.
    destruct (hr_tab _ _ _ _ _ _ HH h Hh) as [(ob & Ho & _ & Hsz) _]. simpl in Ho, Hsz.
    eapply (advance_loop_inv cfg target (λ s1 outs, AI X cfg i s t target s1 outs ∧ J cfg (h_name h) (h_key h) (h_size h) d tm s1))
      in Hin as (sf & [_ HJ] & Hnd & ->).
    + apply (LEt_finish cfg [] sf target); [apply not_elem_of_nil|]. destruct HJ as [[Ht _]|HQ]; [|done]. exfalso.
      assert (target < due_time (DTimer (tkey (h_name h) (h_key h)) tm)); [|simpl in *; lia].
      apply (next_due_nil _ _ _ Hnd). by apply all_items_timer.
    + intros s1 outs d0 s2 o2 [HA HJ] Hd0 Hf. split; [by eapply AI_step|]. eapply J_step; eauto.
    + apply advance_fuel_measure.
    + split; [done|]. left. split; [done|]. exists ob. split; [done|]. congruence.
Qed.

Lemma MI_fold_expiry cfg s now' (l : list hold) : ∀ m, MI cfg s m →
  (∀ h d, h ∈ l → h_deadline h = Some d → d ≤ now' → Qn cfg s (h_name h) (h_size h) d) →
  MI cfg s (fold_left (λ m h, match h_deadline h with
                              | Some d => if d <=? now' then mem_upd (h_name h) (h_size h, d) m else m
                              | None => m end) l m).
Proof.
  induction l as [|h l IH]; intros m HM HQ; [done|]. simpl. apply IH; [|intros; eapply HQ; [by right|done..]].
  destruct (h_deadline h) as [d|] eqn:Ed; [|done]. destruct (Z.leb_spec d now'); [|done].
  apply MI_upd; [done|]. eapply HQ; [left|done..].
Qed.

Lemma mem_advance_ok X cfg (i : nat) dt s s' o t : cfg_ok cfg → Inv cfg s → st_shut s = false → TR X cfg s t → MI cfg s (t_mem t) →
  (s', o) ∈ advance cfg dt s → MI cfg s' (mem_step cfg (EAdvance dt) o t).
Proof.
  intros Hcfg HI Hsh HT HM Hin. destruct (advance_mem X cfg i _ _ _ _ _ Hcfg HI Hsh HT Hin) as [HL HQ]. simpl.
  apply MI_fold_expiry; [by eapply MI_LEt|]. intros h d Hh Hd Hle. eapply HQ; [done..|]. by rewrite <- (tr_now _ _ _ _ HT).
Qed.
