(** Work package svfile, part 3: sessions and file; the running thread; how one schedule item of Msv changes the ghost trace, the shutdown flag, the threads,
    the session table, the state file, the lock table and the timer heap (case analysis of [vstep], done once per field). *)
From Coq Require Import Lia ZifyBool ZifyNat.
From Ldlm Require Import Model.Base Model.Err Model.Sv Proofs.SvDefs Proofs.SvFileFrames Proofs.SvFileBase Proofs.SvFileStep.
From RecordUpdate Require Import RecordSet.
Import RecordSetNotations.
Local Open Scope Z_scope.

#[local] Arguments vemit : simpl never.
#[local] Arguments vset_pc : simpl never.
#[local] Arguments vfinish : simpl never.
#[local] Arguments spawn : simpl never.
#[local] Arguments vsave : simpl never.
#[local] Arguments hand_over : simpl never.
#[local] Arguments mgr_unlock : simpl never.
#[local] Arguments tm_add : simpl never.
#[local] Arguments tm_remove : simpl never.
#[local] Arguments tm_reset : simpl never.
#[local] Arguments sess_add : simpl never.
#[local] Arguments sess_remove : simpl never.
#[local] Arguments sess_destroy : simpl never.
#[local] Arguments fire_due : simpl never.
#[local] Opaque vemit vset_pc spawn vsave hand_over mgr_unlock tm_add tm_remove tm_reset sess_add sess_remove sess_destroy fire_due.

(** ** the session table and the state file *)
Definition sess_same (s s' : svstate) : Prop := (∀ sid, slist s' sid = slist s sid) ∧ v_file s' = v_file s.
Definition sess_added (cfg : svcfg) (s s' : svstate) (it : sitem) : Prop :=
  ∃ tid t sid n k z lt, it = VRun tid ∧ v_thr s !! tid = Some t ∧ st_pc t = VSessAdd ∧
    (st_op t = STry sid n k z lt ∨ st_op t = SLock sid n k z lt) ∧
    (∀ sid', slist s' sid' = if decide (sid' = sid) then slist s sid ++ [Clock n k z] else slist s sid') ∧
    v_file s' = if sc_file cfg then Some (v_sess s') else v_file s.
Definition sess_removed (cfg : svcfg) (s s' : svstate) (it : sitem) : Prop :=
  ∃ tid t n k, it = VRun tid ∧ v_thr s !! tid = Some t ∧
    ((st_op t = SUnlock n k ∧ st_pc t = VSessRemove) ∨
     (∃ id tm, st_op t = SExpire id ∧ st_pc t = VCbSessRemove ∧ v_theap s !! id = Some tm ∧ tm_n tm = n ∧ tm_k tm = k)) ∧
    (∀ sid', slist s' sid' = filter (λ c, is_hold n k c = false) (slist s sid')) ∧
    v_file s' = if listed s n k && sc_file cfg then Some (v_sess s') else v_file s.
Definition sess_destroyed (cfg : svcfg) (s s' : svstate) (it : sitem) : Prop :=
  ∃ tid t sid, it = VRun tid ∧ v_thr s !! tid = Some t ∧ st_op t = SConnEnd sid ∧
    (st_pc t = VDsDestroy ∨ (st_pc t = VDsNoClear ∧ v_sess s !! sid = Some [])) ∧
    (∀ sid', slist s' sid' = if decide (sid' = sid) then [] else slist s sid') ∧
    v_file s' = if bool_decide (is_Some (v_sess s !! sid)) && sc_file cfg then Some (v_sess s') else v_file s.

Ltac same_solve := split; [intros ?; apply slist_frame|]; simpl; autorewrite with svf; simpl; reflexivity.
Lemma sess_step cfg s it : SvInv cfg s →
  sess_same s (vstep cfg s it) ∨ sess_added cfg s (vstep cfg s it) it ∨ sess_removed cfg s (vstep cfg s it) it ∨ sess_destroyed cfg s (vstep cfg s it) it.
Proof.
  intros I. unfold vstep. rewrite (vi_not_crashed _ _ I).
  assert (Hrefl : ∀ it, sess_same s s ∨ sess_added cfg s s it ∨ sess_removed cfg s s it ∨ sess_destroyed cfg s s it) by (by left).
  destruct it as [tid op|tid|tid cause|sid|sid|dt|].
  - left. repeat case_match; same_solve.
  - destruct (v_thr s !! tid) as [t|] eqn:Ht; [|done]. vrun_leaves t ltac:(apply Hrefl).
    all: try (left; same_solve).
    1-4: right; left; do 7 eexists; split; [done|]; split; [exact Ht|]; split; [done|]; split; [by (left + right)|]; split;
      [ intros sid'; erewrite slist_frame by (autorewrite with svf; reflexivity); apply slist_sess_add
      | autorewrite with svf; rewrite file_sess_add; reflexivity ].
    1-2: right; right; left; do 4 eexists; split; [done|]; split; [exact Ht|]; split; [first [by left | right; by eauto 10]|]; split;
      [ intros sid'; erewrite slist_frame by (autorewrite with svf; reflexivity); apply slist_sess_remove
      | autorewrite with svf; rewrite file_sess_remove; reflexivity ].
    1-2: right; right; right; do 3 eexists; split; [done|]; split; [exact Ht|]; split; [done|]; split; [by (left + right)|]; split;
      [ intros sid'; erewrite slist_frame by (autorewrite with svf; reflexivity); apply slist_sess_destroy
      | autorewrite with svf; rewrite file_sess_destroy; reflexivity ].
    change (fold_left _ _ _) with (net_stop s). left. destruct (net_stop_frame _ _ I) as [E1 E2 _ _ _ _ _].
    split; [intros ?; apply slist_frame|]; autorewrite with svf; done.
  - left. repeat case_match; same_solve.
  - left. split; [|by autorewrite with svf; case_match]. intros sid'. unfold slist. autorewrite with svf. case_match eqn:E; [done|]. simpl.
    destruct (decide (sid' = sid)) as [->|]; [by rewrite lookup_insert, E|by rewrite lookup_insert_ne].
  - left. same_solve.
  - left. match goal with |- context [fire_due ?s1] => destruct (fire_due_spec s1 (inv_fresh _ _ I)) as [E1 E2 _ _ _ _ _ _] end.
    split; [intros ?; apply slist_frame|]; done.
  - left. same_solve.
Qed.

(** ** the running thread: its own step changes only its pc, along the edges of the control-flow graph *)
Definition pc_step (op : sop) (pc pc' : spc) : Prop :=
  match pc, op with
  | VMgrTry, STry _ _ _ _ _ => pc' = VSessAdd ∨ ∃ r, pc' = VFin r ∧ sr_ok r = false
  | VMgrLock, SLock _ _ _ _ _ => pc' = VSessAdd ∨ pc' = VWait ∨ ∃ r, pc' = VFin r ∧ sr_ok r = false
  | VWait, SLock _ _ _ _ _ => ∃ r, pc' = VFin r ∧ sr_ok r = false
  | VWoken, SLock _ _ _ _ _ => pc' = VSessAdd ∨ ∃ r, pc' = VFin r ∧ sr_ok r = false
  | VSessAdd, (STry _ _ _ _ _ | SLock _ _ _ _ _) => pc' = VTmAdd ∨ pc' = VFin (SResp true None)
  | VTmAdd, (STry _ _ _ _ _ | SLock _ _ _ _ _) => pc' = VFin (SResp true None)
  | VTmRemove, SUnlock _ _ => pc' = VMgrUnlock ∨ pc' = VSessRemove
  | VMgrUnlock, SUnlock _ _ => pc' = VSessRemove ∨ ∃ r, pc' = VFin r ∧ sr_ok r = false
  | VSessRemove, SUnlock _ _ => pc' = VFin (SResp true None)
  | VTmReset, SRenew _ _ _ => ∃ r, pc' = VFin r
  | VCbUnlock, SExpire _ => pc' = VCbSessRemove
  | VCbSessRemove, SExpire _ => pc' = VCbTmRemove
  | VCbTmRemove, SExpire _ => pc' = VEnd
  | VDsFlag, SConnEnd _ => pc' = VEnd ∨ pc' = VDsNoClear ∨ pc' = VDsDestroy
  | VDsNoClear, SConnEnd _ => pc' = VEnd
  | VDsDestroy, SConnEnd _ => pc' = VEnd ∨ ∃ l, pc' = VDsTmRemove l
  | VDsTmRemove _, SConnEnd _ => pc' = VEnd ∨ (∃ c l, pc' = VDsUnlock c l) ∨ ∃ l, pc' = VDsTmRemove l
  | VDsUnlock _ _, SConnEnd _ => pc' = VEnd ∨ ∃ l, pc' = VDsTmRemove l
  | VShFlag, SShutdown => pc' = VShNet
  | VShNet, SShutdown => pc' = VShTimers
  | VShTimers, SShutdown => pc' = VShMgr
  | VShMgr, SShutdown => pc' = VEnd
  | _, _ => False
  end.

Lemma ds_next_step2 l : ds_next l = VEnd ∨ ∃ l', ds_next l = VDsTmRemove l'.
Proof. destruct l; simpl; eauto. Qed.
Lemma ds_next_step3 l : ds_next l = VEnd ∨ (∃ c l', ds_next l = VDsUnlock c l') ∨ ∃ l', ds_next l = VDsTmRemove l'.
Proof. destruct l; simpl; eauto. Qed.
#[local] Hint Resolve ds_next_step2 ds_next_step3 : core.

Lemma setpc_setpc pc pc' t : setpc pc' (setpc pc t) = setpc pc' t.
Proof. by destruct t. Qed.
Lemma woke_self s n m1 tid t pc' : woke s n m1 → v_thr s !! tid = Some t → alter (setpc pc') tid m1 !! tid = Some (setpc pc' t).
Proof.
  intros [->|(a & w & q & _ & _ & ->)] Ht; rewrite lookup_alter.
  - by rewrite Ht.
  - destruct (decide (tid = w)) as [->|]; [rewrite lookup_alter, Ht; simpl; by rewrite setpc_setpc|by rewrite lookup_alter_ne, Ht].
Qed.

Lemma run_self cfg s tid t : SvInv cfg s → v_thr s !! tid = Some t →
  v_thr (vstep cfg s (VRun tid)) !! tid = Some t ∨
  ∃ pc', v_thr (vstep cfg s (VRun tid)) !! tid = Some (setpc pc' t) ∧ pc_step (st_op t) (st_pc t) pc'.
Proof.
  intros I Ht. unfold vstep. rewrite (vi_not_crashed _ _ I), Ht. pose proof Ht as Ht0.
  vrun_leaves t ltac:(by left).
  all: try (by left).
  all: try (right; eexists; split;
    [ rewrite ?fr_vemit_thr, thr_vset_pc;
      first [ eapply woke_self; [apply thr_mgr_unlock|exact Ht]
            | eapply (woke_self _ []); [left; simpl; autorewrite with svf; simpl; reflexivity|exact Ht] ]
    | simpl; eauto 6 ]).
  - right. eexists. split; [rewrite ?fr_vemit_thr, thr_vset_pc; eapply woke_self; [|exact Ht];
    eapply woke_locks_upd; [done|apply thr_hand_over]|simpl; eauto 6].
  - change (fold_left _ _ _) with (net_stop s). right. eexists. split; [|simpl; done].
    rewrite thr_vset_pc, lookup_alter, (net_stop_thr_old _ _ _ _ I Ht). done.
Qed.
