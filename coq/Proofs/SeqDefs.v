(** Definitions shared by the proofs about Mseq: validity of events, reachability, the state
    invariant, observable equality. No proofs here. *)
From Ldlm Require Import Model.Base Model.Err Model.Seq.
Local Open Scope Z_scope.

(** Configurations the server accepts meaningfully: the GC interval must be positive (with 0 the real
    server busy-loops in its GC goroutine; stated assumption, DESIGN 3.4). *)
Definition cfg_ok (cfg : config) : Prop := 0 < c_gc_interval cfg.

(** What uuid.NewString provides (stated assumption [fresh_keys], DESIGN 3.1): the key drawn by a
    Lock/TryLock call was never drawn before; the id of a parked call is not in use. *)
Definition ev_ok (s : sstate) (ev : event) : Prop :=
  match ev with
  | ETryLock _ _ _ _ key => key ∉ st_used s
  | ELock wid _ _ _ _ _ key => key ∉ st_used s ∧ wid ∉ map w_id (st_waiters s)
  | _ => True
  end.

Inductive reachable (cfg : config) : sstate → Prop :=
| reach_init : reachable cfg (init_state cfg)
| reach_step s ev s' o :
    reachable cfg s → ev_ok s ev → (s', o) ∈ sstep cfg s ev → reachable cfg s'.

(** ** Views *)

(** (name,key,size) occupies capacity in the lock table *)
Definition in_table (s : sstate) (c : clock) : Prop :=
  ∃ o, st_locks s !! cl_name c = Some o ∧ cl_key c ∈ lo_keys o ∧ cl_size c = lo_size o.

Definition live (s : sstate) (name key : str) : Prop :=
  ∃ o, st_locks s !! name = Some o ∧ key ∈ lo_keys o.

Definition file_clocks (s : sstate) : list clock :=
  match st_file s with Some m => concat (map snd (map_to_list m)) | None => [] end.

(** C08: the admin listing, the state file and the lock table describe the same set of holds *)
Definition views_agree (cfg : config) (s : sstate) : Prop :=
  (∀ c, c ∈ listing s ↔ in_table s c) ∧
  (c_file cfg = true → ∀ c, c ∈ file_clocks s ↔ c ∈ listing s).

(** ** The invariant of quiescent states *)
Record Inv (cfg : config) (s : sstate) : Prop := {
  (* C01: capacity, and keys of one lock are distinct *)
  inv_cap : ∀ n o, st_locks s !! n = Some o →
      0 < lo_size o ∧ Z.of_nat (length (lo_keys o)) ≤ lo_size o ∧ NoDup (lo_keys o);
  (* C08 *)
  inv_views : views_agree cfg s;
  (* a hold is listed by exactly one session, once *)
  inv_owner : ∀ sid1 sid2 l1 l2 c, st_sessions s !! sid1 = Some l1 → st_sessions s !! sid2 = Some l2 →
      c ∈ l1 → c ∈ l2 → sid1 = sid2;
  inv_nodup : ∀ sid l, st_sessions s !! sid = Some l → NoDup l;
  (* a key is live on at most one lock *)
  inv_key_once : ∀ n1 n2 k, live s n1 k → live s n2 k → n1 = n2;
  (* C04: every lease timer belongs to a live hold, is filed under its own key, and is in the future *)
  inv_timers : ∀ tk t, st_timers s !! tk = Some t →
      tk = tkey (tm_name t) (tm_key t) ∧ st_now s < tm_deadline t ∧ live s (tm_name t) (tm_key t);
  (* C03: a call is parked only on a full lock of its own size (no lost wake-up), ids are distinct,
     and its wait deadline is in the future *)
  inv_waiters : ∀ w, w ∈ st_waiters s →
      (∃ o, st_locks s !! w_name w = Some o ∧ Z.of_nat (length (lo_keys o)) = lo_size o ∧ w_size w = lo_size o)
      ∧ (∀ d, w_deadline w = Some d → st_now s < d);
  inv_waiter_ids : NoDup (map w_id (st_waiters s));
  (* every key in use was drawn *)
  inv_used_live : ∀ n k, live s n k → k ∈ st_used s;
  inv_used_waiters : ∀ w, w ∈ st_waiters s → w_key w ∈ st_used s ∧ ¬ (∃ n, live s n (w_key w));
  inv_waiter_keys : NoDup (map w_key (st_waiters s));
  (* time *)
  inv_gc : st_now s < st_gc_next s;
  (* added by seqinv (needed for ERestart: the restart reloads the sessions from the FILE, and inv_views only
     says that file and listing agree as sets of holds, which does not give inv_owner/inv_nodup for the
     reloaded map): the state file and the session table agree session by session, up to sessions with no hold
     (EConnect adds an empty session without saving). Implies the second conjunct of inv_views. *)
  inv_file_eq : c_file cfg = true →
      ∀ sid, default [] (default ∅ (st_file s) !! sid) = default [] (st_sessions s !! sid)
}.

(** ** Observable equality: everything a client or the admin can observe, i.e. all of the state
    except lastAccessed (which a failing lookup refreshes: it can only postpone GC of an idle lock)
    and the ghost set of drawn keys. *)
Definition lock_obs (o : lockobj) : Z * list str := (lo_size o, lo_keys o).
Definition obs_eq (s s' : sstate) : Prop :=
  lock_obs <$> st_locks s = lock_obs <$> st_locks s' ∧
  st_sessions s = st_sessions s' ∧ st_timers s = st_timers s' ∧ st_waiters s = st_waiters s' ∧
  st_file s = st_file s' ∧ st_now s = st_now s' ∧ st_gc_next s = st_gc_next s' ∧ st_shut s = st_shut s'.

(** the view of one hold is the same in [s] and [s']: whether it is live, its lease, who lists it *)
Definition listed (s : sstate) (sid : str) (c : clock) : Prop :=
  ∃ l, st_sessions s !! sid = Some l ∧ c ∈ l.
Definition hold_same (s s' : sstate) (name key : str) : Prop :=
  (live s name key ↔ live s' name key) ∧
  st_timers s !! tkey name key = st_timers s' !! tkey name key ∧
  (∀ sid sz, listed s sid (Clock name key sz) ↔ listed s' sid (Clock name key sz)).

(** a response that reports failure *)
Definition is_failure (o : list out) : Prop :=
  ∃ r, OResp r ∈ o ∧ match r with RLock false _ (Some _) => True | RUnlock false _ => True | _ => False end.
