(** C13 at trace level: what the oracle remembers about lock objects ([t_mem]) is true of the model state
    (work package trackp). [Qn cfg s n sz x]: [x] is a sound "last reached" instant for the lock object of name [n],
    and [sz] its size — if the object exists it has that size and has been accessed at or after [x]; if it does not
    exist, more than min-idle has passed since [x] (so a request naming another size may be accepted). *)
From Coq Require Import Lia ZifyBool ZifyNat String.
From Ldlm Require Import Model.Base Model.Err Model.Seq Model.Track Proofs.SeqDefs Proofs.SeqLemmasKey Proofs.SeqInvBase
  Proofs.SeqInvOps Proofs.SeqTimeBase Proofs.SeqReq2 Proofs.TrackPBase.
From RecordUpdate Require Import RecordSet.
Import RecordSetNotations.
Local Open Scope Z_scope.

Definition Qn (cfg : config) (s : sstate) (n : str) (sz x : Z) : Prop :=
  x ≤ st_now s ∧
  match st_locks s !! n with
  | Some o => lo_size o = sz ∧ x ≤ lo_last o
  | None => c_gc_minidle cfg < st_now s - x
  end.

Definition MI (cfg : config) (s : sstate) (m : list (str * (Z * Z))) : Prop :=
  ∀ n sz x, mem_lookup n m = Some (sz, x) → Qn cfg s n sz x.

(** [s'] evolves from [s] without creating lock objects other than those named in [N] *)
Definition LEt (cfg : config) (N : list str) (s s' : sstate) : Prop :=
  ∀ n sz x, n ∉ N → Qn cfg s n sz x → Qn cfg s' n sz x.

Lemma LEt_refl cfg N s : LEt cfg N s s.
Proof. by intros n sz x _ H. Qed.
Lemma LEt_trans cfg N s1 s2 s3 : LEt cfg N s1 s2 → LEt cfg N s2 s3 → LEt cfg N s1 s3.
Proof. intros H1 H2 n sz x Hn H. by apply H2, H1. Qed.
Lemma LEt_weaken cfg N N' s s' : (∀ n, n ∈ N → n ∈ N') → LEt cfg N s s' → LEt cfg N' s s'.
Proof. intros Hs H n sz x Hn. apply H. intros ?. apply Hn. auto. Qed.

(** [Qn] reads only the lock table and the clock *)
Lemma LEt_same cfg N s s' : st_locks s' = st_locks s → st_now s' = st_now s → LEt cfg N s s'.
Proof. intros EL En n sz x _ H. unfold Qn in *. by rewrite EL, En. Qed.

(** ** The memory as a finite map *)

Lemma mem_lookup_upd n v m n' : mem_lookup n' (mem_upd n v m) = if decide (n' = n) then Some v else mem_lookup n' m.
Proof.
  unfold mem_lookup, mem_upd. simpl. destruct (decide (n' = n)) as [->|Hne].
  - by rewrite bool_decide_eq_true_2.
  - rewrite bool_decide_eq_false_2 by done. f_equal. f_equal. rewrite lfilter_lfilter. apply lfilter_ext.
    intros [n0 v0] _. simpl. repeat case_bool_decide; simpl; congruence.
Qed.

Lemma MI_upd cfg s n sz x m : MI cfg s m → Qn cfg s n sz x → MI cfg s (mem_upd n (sz, x) m).
Proof.
  intros HM HQ n' sz' x'. rewrite mem_lookup_upd. destruct (decide (n' = n)) as [->|]; [by intros [= <- <-]|apply HM].
Qed.

Lemma MI_LEt cfg s s' m : MI cfg s m → LEt cfg [] s s' → MI cfg s' m.
Proof. intros HM HL n sz x Hl. apply HL; [apply not_elem_of_nil|by apply HM]. Qed.

(** after creating / reaching the object of [n]: every other entry by [LEt], the entry of [n] is replaced *)
Lemma MI_LEt_upd cfg s s' m n sz x : MI cfg s m → LEt cfg [n] s s' → Qn cfg s' n sz x → MI cfg s' (mem_upd n (sz, x) m).
Proof.
  intros HM HL HQ n' sz' x'. rewrite mem_lookup_upd. destruct (decide (n' = n)) as [->|Hne]; [by intros [= <- <-]|].
  intros Hl. apply HL; [by intros ->%elem_of_list_singleton|by apply HM].
Qed.

Lemma MI_nil cfg s : MI cfg s [].
Proof. by intros n sz x. Qed.

(** ** Elementary changes of the lock table *)

(** the object of [n] is replaced by one of the same size accessed now *)
Lemma LEt_touch cfg N s s' n o o' :
  st_locks s !! n = Some o → st_locks s' = <[n := o']> (st_locks s) → st_now s' = st_now s →
  lo_size o' = lo_size o → lo_last o' = st_now s → LEt cfg N s s'.
Proof.
  intros Ho EL En Es Ela n' sz x _ [Hx H]. split; [by rewrite En|]. rewrite EL, En.
  destruct (decide (n' = n)) as [->|Hne].
  - rewrite lookup_insert. rewrite Ho in H. destruct H as [<- _]. split; [done|lia].
  - by rewrite lookup_insert_ne.
Qed.

(** the keys of the object of [n] change, nothing else *)
Lemma LEt_keys cfg N s s' n o o' :
  st_locks s !! n = Some o → st_locks s' = <[n := o']> (st_locks s) → st_now s' = st_now s →
  lo_size o' = lo_size o → lo_last o' = lo_last o → LEt cfg N s s'.
Proof.
  intros Ho EL En Es Ela n' sz x _ [Hx H]. split; [by rewrite En|]. rewrite EL, En.
  destruct (decide (n' = n)) as [->|Hne].
  - rewrite lookup_insert. rewrite Ho in H. by rewrite Es, Ela.
  - by rewrite lookup_insert_ne.
Qed.

(** a new object for [n] *)
Lemma LEt_create cfg s s' n o' :
  st_locks s' = <[n := o']> (st_locks s) → st_now s' = st_now s → LEt cfg [n] s s'.
Proof.
  intros EL En n' sz x Hn [Hx H]. split; [by rewrite En|]. rewrite EL, En.
  rewrite lookup_insert_ne; [done|]. intros <-. apply Hn. left.
Qed.

(** the collector runs (ticks up to [t]) and the clock moves to [t'] *)
Lemma LEt_gc_now cfg N s t t' : st_now s ≤ t' → t ≤ t' → LEt cfg N s (run_gc_until cfg t s <| st_now := t' |>).
Proof.
  intros Hle Htt n sz x _ [Hx H]. unfold Qn. cbn [st_now st_locks set]. split; [lia|].
  destruct (C13_gc_only_idle cfg t s) as (_ & _ & _ & _ & _ & Hsub & Hgone).
  destruct (st_locks (run_gc_until cfg t s) !! n) as [o'|] eqn:E'.
  - apply Hsub in E'. by rewrite E' in H.
  - destruct (st_locks s !! n) as [o|] eqn:E; [|lia]. destruct (Hgone _ _ E E') as (_ & _ & Hidle). destruct H. lia.
Qed.

Lemma LEt_tick cfg N s t : st_now s ≤ t → LEt cfg N s (tick cfg t s).
Proof. intros Hle. unfold tick. apply LEt_gc_now; [done|lia]. Qed.

Lemma LEt_finish cfg N s t : LEt cfg N s (finish_advance cfg t s).
Proof. unfold finish_advance. apply LEt_gc_now; lia. Qed.

(** after reaching the object of [n] at the current instant *)
Lemma Qn_touched cfg s n o : st_locks s !! n = Some o → lo_last o = st_now s → Qn cfg s n (lo_size o) (st_now s).
Proof. intros Ho El. split; [done|]. rewrite Ho. split; [done|lia]. Qed.
