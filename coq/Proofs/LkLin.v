(** C02: every interleaving of Mlk refines the atomic counting-lock specification (work package lklin).

    Forward simulation with fixed linearisation points: the ghost actions [EvLin] of the trace, in order, are a run of
    [spec_step false]; the abstraction of the concrete state is [spec_rel]. Main results (all relative to the invariant
    [T_linv_reach] that Proofs/LkInv.v proves):
      [refines_step], [C02_refines_from_inv], [C02_strict_from_inv], [C03_fifo_spec], and (from LkLinResp.v)
      [C02_responses]. Helper files: LkLinBase.v (traces, permutations, key bookkeeping, notify, frame lemmas),
      LkLinResp.v (responses). *)
From Coq Require Import Lia ZifyBool ZifyNat.
From Ldlm Require Import Model.Base Model.Err Model.Lk Proofs.LkDefs Proofs.LkLinBase Proofs.LkLinResp.
From RecordUpdate Require Import RecordSet.
Import RecordSetNotations.
Local Open Scope Z_scope.

(** ** Facts read off the invariant *)
Lemma thr_obj s tid t oid : LInv s → l_thr s !! tid = Some t → pc_oid (t_pc t) = Some oid →
  ∃ o, l_heap s !! oid = Some o ∧ o_name o = op_name (t_op t) ∧ (is_acq (t_op t) = true → o_size o = op_size (t_op t)) ∧
       o_deleted o = false ∧ l_map s !! op_name (t_op t) = Some oid.
Proof.
  intros I Ht Hpc. destruct (li_pc _ I tid t oid Ht Hpc) as (o & Ho & Hn & Hsz). exists o.
  assert (o_deleted o = false) as Hd.
  { destruct (o_deleted o) eqn:E; [|done]. destruct (li_deleted _ I oid o Ho E) as (Hu & _).
    rewrite (li_users _ I oid o Ho) in Hu.
    assert (refs oid t = true) as Hr by (unfold refs; by apply bool_decide_eq_true).
    pose proof (count_thr_pos _ s tid t Ht Hr). lia. }
  repeat split; auto. rewrite <- Hn. by apply (li_heap _ I oid o Ho).
Qed.

Lemma map_inj s n n' oid : LInv s → l_map s !! n = Some oid → l_map s !! n' = Some oid → n = n'.
Proof.
  intros I H1 H2. destruct (li_map _ I _ _ H1) as (o & Ho & <- & _). destruct (li_map _ I _ _ H2) as (o' & Ho' & <- & _).
  congruence.
Qed.

Lemma rel_thr sp s tid t oid : LInv s → spec_rel sp s → l_thr s !! tid = Some t → pc_oid (t_pc t) = Some oid →
  ∃ so o, sp !! op_name (t_op t) = Some so ∧ l_heap s !! oid = Some o ∧ l_map s !! op_name (t_op t) = Some oid ∧
    o_name o = op_name (t_op t) ∧ (is_acq (t_op t) = true → o_size o = op_size (t_op t)) ∧ o_deleted o = false ∧
    so_size so = o_size o ∧ so_q so = o_waitq o ∧
    so_live so ≡ₚ o_keys o ++ map (kof (l_thr s)) (o_ready o) ++ tk1 oid t ++ tkeys oid (delete tid (l_thr s)) ∧
    Z.of_nat (length (so_live so)) = o_cur o.
Proof.
  intros I Hrel Ht Hpc. destruct (thr_obj s tid t oid I Ht Hpc) as (o & Ho & Hn & Hsz & Hd & Hm).
  specialize (Hrel (op_name (t_op t))). rewrite Hm in Hrel. destruct (sp !! op_name (t_op t)) as [so|]; [|done].
  destruct Hrel as (o' & Ho' & Hs & Hq & Hl). assert (o' = o) as -> by congruence. exists so, o. repeat (split; [done|]). split.
  - by rewrite Hl, ready_keys_kof, transit_keys_tkeys, (tkeys_lookup oid _ tid t Ht).
  - rewrite (Permutation_length Hl), !app_length. destruct (li_units _ I oid o Ho) as [-> _].
    rewrite count_transit. unfold ready_keys. rewrite map_length. lia.
Qed.

Lemma so_free_eq so o : so_size so = o_size o → so_q so = o_waitq o → Z.of_nat (length (so_live so)) = o_cur o →
  so_free so = (o_cur o <? o_size o) && bool_decide (o_waitq o = []).
Proof. unfold so_free. by intros -> -> ->. Qed.

Lemma rel_thr_step sp sp' s s' tid t pc' oid so' o' :
  LInv s → spec_rel sp s → l_thr s !! tid = Some t → pc_oid (t_pc t) = Some oid →
  (pc_oid pc' = Some oid ∨ pc_oid pc' = None) →
  l_map s' = l_map s → l_heap s' = <[oid := o']> (l_heap s) → l_thr s' = <[tid := t <| t_pc := pc' |>]> (l_thr s) →
  sp' !! op_name (t_op t) = Some so' → (∀ n, n ≠ op_name (t_op t) → sp' !! n = sp !! n) →
  so_size so' = o_size o' → so_q so' = o_waitq o' →
  so_live so' ≡ₚ o_keys o' ++ map (kof (l_thr s)) (o_ready o') ++ tk1 oid (t <| t_pc := pc' |>) ++ tkeys oid (delete tid (l_thr s)) →
  spec_rel sp' s'.
Proof.
  intros I Hrel Ht Hpc Hpc' Hmap Hheap Hthr Hsp' Hne Hsz Hq Hlive n.
  destruct (thr_obj s tid t oid I Ht Hpc) as (o & Ho & Hn & _ & _ & Hm).
  destruct (decide (n = op_name (t_op t))) as [->|Hn'].
  - unfold nrel. rewrite Hsp', Hmap, Hm. exists o'. rewrite Hheap, lookup_insert. repeat (split; [done|]).
    rewrite ready_keys_kof, transit_keys_tkeys, Hthr, tkeys_insert, Hlive. f_equiv. f_equiv.
    apply reflexive_eq, map_ext. intros w. symmetry. by apply kof_replace with t.
  - apply (nrel_frame sp sp' s s' n (Hrel n)); [auto|by rewrite Hmap|]. intros oid' o1 Hm1 Ho1.
    assert (oid' ≠ oid) as Hoid by (intros ->; apply Hn'; by eapply map_inj).
    exists o1. rewrite Hheap, lookup_insert_ne by done. split; [done|]. split; [apply oeq_refl|]. split.
    + intros w _. rewrite !key_of_kof, Hthr. by apply kof_replace with t.
    + rewrite !transit_keys_tkeys, Hthr. apply tkeys_replace with t; [done|done|].
      rewrite (in_transit_other oid oid' t) by done.
      destruct Hpc'; [by apply in_transit_other with oid|by apply in_transit_none].
Qed.

(** ** One critical section *)
Lemma remove_first_length k l : k ∈ l → Z.of_nat (length (remove_first k l)) = Z.of_nat (length l) - 1.
Proof. intros H. rewrite (Permutation_length (remove_first_perm k l H)). simpl. lia. Qed.

Lemma release_run sp n o1 o2 woken kf a live1 :
  notified o1 o2 woken → spec_step false sp a = Some (<[n := SObj (o_size o1) live1 (o_waitq o1)]> sp) →
  Z.of_nat (length live1) = o_cur o1 →
  spec_run false sp (a :: map (λ w, LaGrant w n (kf w)) woken) =
    Some (<[n := SObj (o_size o1) (live1 ++ map kf woken) (o_waitq o2)]> sp).
Proof.
  intros Hnf Ha Hlen. simpl. rewrite Ha. rewrite (notified_run false _ n o1 o2 woken kf live1 Hnf); [|by rewrite lookup_insert|done].
  by rewrite insert_insert.
Qed.

Lemma no_transit_next s tid t : LInv s → l_thr s !! tid = Some t → in_transit (l_next s) t = false.
Proof.
  intros I Ht. destruct (in_transit (l_next s) t) eqn:E; [|done]. apply in_transit_refs in E. unfold refs in E.
  apply bool_decide_eq_true in E. destruct (li_pc _ I _ _ _ Ht E) as (o & Ho & _). apply (li_heap _ I) in Ho as [Hlt _]. lia.
Qed.

(** an Unlock call can only present a key that is recorded or gone: not one still on its way into the key list *)
Lemma unl_key_not_transit s tid t oid o :
  LInv s → l_thr s !! tid = Some t → is_acq (t_op t) = false → l_heap s !! oid = Some o →
  op_key (t_op t) ∉ map (kof (l_thr s)) (o_ready o) ∧ op_key (t_op t) ∉ tkeys oid (l_thr s).
Proof.
  intros I Ht Hacq Ho. split.
  - intros Hin. apply elem_of_list_In, in_map_iff in Hin as (w & Hk & Hw). apply elem_of_list_In in Hw.
    destruct (li_queue _ I oid o w Ho) as (tw & Htw & Hpcw); [apply elem_of_app; by right|].
    unfold kof in Hk. rewrite Htw in Hk.
    assert (is_acq (t_op tw) = true) as Haw.
    { destruct (li_lock_only _ I w tw oid Htw) as (n & k & z & ->); [|done]. destruct Hpcw; auto. }
    destruct (li_unl_key _ I tid t w tw Ht Hacq Htw Haw Hk) as [r Hr]. rewrite Hr in Hpcw. by destruct Hpcw.
  - intros Hin. apply elem_of_tkeys in Hin as (w & tw & Htw & Htr & Hk).
    assert (is_acq (t_op tw) = true) as Haw.
    { unfold in_transit in Htr. destruct (t_pc tw) eqn:Hpcw; try done.
      - destruct (li_lock_only _ I w tw oid0 Htw) as (n & k & z & ->); [|done]. auto.
      - destruct (li_lock_only _ I w tw oid0 Htw) as (n & k & z & ->); [|done]. auto 6.
      - apply (li_acq_pc _ I w tw oid0 Htw). auto. }
    destruct (li_unl_key _ I tid t w tw Ht Hacq Htw Haw Hk) as [r Hr]. unfold in_transit in Htr. by rewrite Hr in Htr.
Qed.

Ltac trace_tac Hrun :=
  rewrite ?lin_of_app, ?lin_of_grants, ?lin_of_cons, <- ?app_assoc, (spec_run_snoc _ _ _ _ _ Hrun); simpl lin1; simpl app.

Ltac open_step t Ht := unfold finish, set_obj, emit; rewrite ?emit_grants_eq; unfold emit; rewrite (set_pc_eq _ _ _ t) by exact Ht; simpl.

(* side condition "same transit status" of the frame lemma *)
Ltac same_transit Hpc := let oid := fresh "oid" in intros oid; unfold in_transit; simpl; rewrite Hpc; try done.

Ltac frame_same t Ht Hrel Hpc :=
  eapply (spec_rel_frame_thr _ _ _ _ t _ Hrel); [done|apply heap_same_oeq|exact Ht|simpl; reflexivity|done|same_transit Hpc].
Ltac frame_upd t Ht Hrel Hpc o Ho :=
  eapply (spec_rel_frame_thr _ _ _ _ t _ Hrel); [done|apply (heap_upd_oeq _ _ o); [exact Ho|by unfold oeq]|exact Ht|simpl; reflexivity|done|same_transit Hpc].

Ltac tk1_simpl Hpc H := unfold tk1, in_transit in H |- *; simpl in H |- *; rewrite Hpc in H; simpl in H |- *; rewrite ?bool_decide_eq_true_2 in H by done; rewrite ?bool_decide_eq_true_2 by done.

Lemma refines_run minidle s tid t sp :
  LInv s → l_thr s !! tid = Some t → LInv (run_thread minidle tid t s) →
  spec_run false ∅ (lin_of (l_trace s)) = Some sp → spec_rel sp s →
  ∃ sp', spec_run false ∅ (lin_of (l_trace (run_thread minidle tid t s))) = Some sp' ∧ spec_rel sp' (run_thread minidle tid t s).
Proof.
  intros I Ht I' Hrun Hrel. unfold run_thread in *. destruct (t_pc t) eqn:Hpc.
  - (* PEnter *) destruct (l_shut s).
    + open_step t Ht. trace_tac Hrun. eexists; split; [done|]. frame_same t Ht Hrel Hpc.
    + open_step t Ht. eexists; split; [done|]. frame_same t Ht Hrel Hpc.
  - (* PGet *) destruct (Z.leb_spec (op_size (t_op t)) 0) as [|Hpos].
    { open_step t Ht. trace_tac Hrun. eexists; split; [done|]. frame_same t Ht Hrel Hpc. }
    destruct (l_map s !! op_name (t_op t)) as [oid|] eqn:Hm.
    + destruct (li_map _ I _ _ Hm) as (o & Ho & Hn & Hd). rewrite Ho. destruct (_ && _).
      * open_step t Ht. trace_tac Hrun. eexists; split; [done|]. frame_same t Ht Hrel Hpc.
      * open_step t Ht. eexists; split; [done|]. frame_upd t Ht Hrel Hpc o Ho. by destruct (t_op t).
    + destruct (match t_op t with OUnl _ _ => false | _ => true end) eqn:Hcr.
      2:{ open_step t Ht. trace_tac Hrun. eexists; split; [done|]. frame_same t Ht Hrel Hpc. }
      open_step t Ht. trace_tac Hrun. simpl.
      pose proof (Hrel (op_name (t_op t))) as Hn. unfold nrel in Hn. rewrite Hm in Hn.
      destruct (sp !! op_name (t_op t)) eqn:Hsp; [done|]. destruct (Z.ltb_spec 0 (op_size (t_op t))); [|lia].
      eexists; split; [done|]. intros n. destruct (decide (n = op_name (t_op t))) as [->|Hne].
      * unfold nrel; cbn. rewrite !lookup_insert. eexists. rewrite ?lookup_insert. split; [done|]. simpl. repeat (split; [done|]).
        rewrite transit_keys_tkeys. simpl. rewrite tkeys_nil; [done|]. intros tid' t' Ht'.
        destruct (decide (tid' = tid)) as [->|Hne].
        -- rewrite lookup_insert in Ht'. by injection Ht' as <-.
        -- rewrite lookup_insert_ne in Ht' by done. by eapply no_transit_next.
      * apply (nrel_frame sp _ s _ n (Hrel n)); simpl; [by rewrite lookup_insert_ne|by rewrite lookup_insert_ne|].
        intros oid o Hmo Ho. exists o. destruct (li_heap _ I _ _ Ho) as [Hlt _].
        rewrite lookup_insert_ne by lia. split; [done|]. split; [apply oeq_refl|]. split.
        -- intros w _. rewrite !key_of_kof. simpl. by apply kof_replace with t.
        -- rewrite !transit_keys_tkeys. simpl. apply tkeys_replace with t; [done|done|]. unfold in_transit; simpl. by rewrite Hpc.
  - (* PChkDel *)
    destruct (rel_thr sp s tid t oid I Hrel Ht) as (so & o & Hsp & Ho & Hm & Hn & Hsz & Hd & Hss & Hsq & Hl & Hlen); [by rewrite Hpc|].
    rewrite Ho, Hd. open_step t Ht. eexists; split; [done|]. frame_same t Ht Hrel Hpc. by destruct (t_op t).
  - (* PTryAcq *)
    destruct (rel_thr sp s tid t oid I Hrel Ht) as (so & o & Hsp & Ho & Hm & Hn & Hsz & Hd & Hss & Hsq & Hl & Hlen); [by rewrite Hpc|].
    rewrite Ho. rewrite <- (so_free_eq so o) by done. destruct (so_free so) eqn:Hfree.
    + open_step t Ht. trace_tac Hrun. simpl. rewrite Hsp, Hfree. eexists; split; [done|].
      eapply (rel_thr_step sp _ s _ tid t (PAddKey oid) oid _ _ I Hrel Ht);
        [by rewrite Hpc|by left|done|done|done|apply lookup_insert|by intros; rewrite lookup_insert_ne|done|done|].
      simpl. tk1_simpl Hpc Hl. rewrite Hl. solve_Permutation.
    + open_step t Ht. trace_tac Hrun. simpl. rewrite Hsp, Hfree. eexists; split; [done|]. frame_same t Ht Hrel Hpc.
  - (* PAcqEnter *)
    destruct (rel_thr sp s tid t oid I Hrel Ht) as (so & o & Hsp & Ho & Hm & Hn & Hsz & Hd & Hss & Hsq & Hl & Hlen); [by rewrite Hpc|].
    rewrite Ho. destruct (t_cancel t) eqn:Hc.
    { open_step t Ht. trace_tac Hrun. eexists; split; [done|]. frame_same t Ht Hrel Hpc. }
    rewrite <- (so_free_eq so o) by done. destruct (so_free so) eqn:Hfree.
    + open_step t Ht. trace_tac Hrun. simpl. rewrite Hsp, Hfree. eexists; split; [done|].
      eapply (rel_thr_step sp _ s _ tid t (PAddKey oid) oid _ _ I Hrel Ht);
        [by rewrite Hpc|by left|done|done|done|apply lookup_insert|by intros; rewrite lookup_insert_ne|done|done|].
      simpl. tk1_simpl Hpc Hl. rewrite Hl. solve_Permutation.
    + open_step t Ht. trace_tac Hrun. simpl. rewrite Hsp, Hfree. eexists; split; [done|].
      eapply (rel_thr_step sp _ s _ tid t (PAcqWait oid) oid _ _ I Hrel Ht);
        [by rewrite Hpc|by left|done|done|done|apply lookup_insert|by intros; rewrite lookup_insert_ne|done|simpl; by rewrite Hsq|].
      simpl. tk1_simpl Hpc Hl. by rewrite Hl.
  - (* PAcqWait *)
    destruct (rel_thr sp s tid t oid I Hrel Ht) as (so & o & Hsp & Ho & Hm & Hn & Hsz & Hd & Hss & Hsq & Hl & Hlen); [by rewrite Hpc|].
    rewrite Ho. case_bool_decide as Hrdy.
    + open_step t Ht. exists sp; split; [done|].
      eapply (rel_thr_step sp sp s _ tid t (PAcqWoken oid) oid so _ I Hrel Ht);
        [by rewrite Hpc|by left|done|done|done|done|done|done|done|].
      simpl. tk1_simpl Hpc Hl. rewrite Hl.
      pose proof (li_queue_nodup _ I oid o Ho) as Hnd. apply NoDup_app in Hnd as (_ & _ & Hnd).
      rewrite (filter_ne_perm tid (o_ready o) Hnd Hrdy) at 1. simpl. unfold kof at 1. rewrite Ht. solve_Permutation.
    + destruct (t_cancel t) eqn:Hc.
      * open_step t Ht. exists sp; split; [done|]. frame_same t Ht Hrel Hpc.
      * by exists sp.
  - (* PAcqWoken *)
    destruct (t_cancel t) eqn:Hc; open_step t Ht; (exists sp; split; [done|]); frame_same t Ht Hrel Hpc.
  - (* PAcqCancel *)
    destruct (rel_thr sp s tid t oid I Hrel Ht) as (so & o & Hsp & Ho & Hm & Hn & Hsz & Hd & Hss & Hsq & Hl & Hlen); [by rewrite Hpc|].
    clear I'. rewrite Ho. tk1_simpl Hpc Hl. case_bool_decide as Hrdy.
    + (* handed a unit meanwhile: give it back *)
      match goal with |- context [notify ?x] => set (o1 := x) end.
      destruct (notify o1) as [o2 woken] eqn:Hnt. apply notify_notified in Hnt as Hnf.
      open_step t Ht. trace_tac Hrun.
      pose proof (li_queue_nodup _ I oid o Ho) as Hnd. apply NoDup_app in Hnd as (_ & _ & Hnd).
      assert (so_live so ≡ₚ op_key (t_op t) :: o_keys o ++ map (kof (l_thr s)) (filter (λ w, w ≠ tid) (o_ready o)) ++
                                             tkeys oid (delete tid (l_thr s))) as Hl'.
      { rewrite Hl. rewrite (filter_ne_perm tid (o_ready o) Hnd Hrdy) at 1. simpl. unfold kof at 1. rewrite Ht. solve_Permutation. }
      assert (op_key (t_op t) ∈ so_live so) as Hin by (rewrite Hl'; left).
      rewrite (release_run sp _ o1 o2 woken _ _ (remove_first (op_key (t_op t)) (so_live so)) Hnf).
      * eexists; split; [done|].
        eapply (rel_thr_step sp _ s _ tid t (PDone oid _) oid _ _ I Hrel Ht);
          [by rewrite Hpc|by left|done|done|done|apply lookup_insert|by intros; rewrite lookup_insert_ne|simpl|done|].
        { by destruct Hnf as (_ & _ & _ & -> & _). }
        simpl. destruct Hnf as (_ & -> & -> & _). simpl. rewrite (remove_first_perm_inv _ _ _ Hl'), map_app. solve_Permutation.
      * simpl. rewrite Hsp, bool_decide_eq_true_2 by done. by rewrite Hss, Hsq.
      * simpl. rewrite remove_first_length by done. lia.
    + (* still queued: leave *)
      match goal with |- context [notify ?x] => set (o1 := x) end.
      match goal with |- context [if ?c then notify o1 else _] => destruct (if c then notify o1 else (o1, [])) as [o2 woken] eqn:Hnt end.
      assert (notified o1 o2 woken) as Hnf.
      { destruct (_ && _); [by apply notify_notified|]. injection Hnt as <- <-. apply notified_refl. }
      open_step t Ht. trace_tac Hrun.
      assert (tid ∈ o_waitq o) as Hq.
      { destruct (li_waiting _ I tid t oid Ht) as (o' & Ho' & Hin); [by right|]. assert (o' = o) as -> by congruence.
        apply elem_of_app in Hin as [|]; done. }
      rewrite (release_run sp _ o1 o2 woken _ _ (so_live so) Hnf).
      * eexists; split; [done|].
        eapply (rel_thr_step sp _ s _ tid t (PDone oid _) oid _ _ I Hrel Ht);
          [by rewrite Hpc|by left|done|done|done|apply lookup_insert|by intros; rewrite lookup_insert_ne|simpl|done|].
        { by destruct Hnf as (_ & _ & _ & -> & _). }
        simpl. destruct Hnf as (_ & -> & -> & _). simpl. rewrite Hl, map_app. solve_Permutation.
      * simpl. rewrite Hsp, Hsq, bool_decide_eq_true_2 by done. by rewrite Hss.
      * done.
  - (* PRelCancel *)
    destruct (rel_thr sp s tid t oid I Hrel Ht) as (so & o & Hsp & Ho & Hm & Hn & Hsz & Hd & Hss & Hsq & Hl & Hlen); [by rewrite Hpc|].
    rewrite Ho in *. tk1_simpl Hpc Hl. destruct (Z.ltb_spec (o_cur o - 1) 0).
    { by pose proof (li_not_crashed _ I'). }
    clear I'. match goal with |- context [notify ?x] => set (o1 := x) end.
    destruct (notify o1) as [o2 woken] eqn:Hnt. apply notify_notified in Hnt as Hnf.
    open_step t Ht. trace_tac Hrun.
    assert (so_live so ≡ₚ op_key (t_op t) :: o_keys o ++ map (kof (l_thr s)) (o_ready o) ++ tkeys oid (delete tid (l_thr s))) as Hl'.
    { rewrite Hl. solve_Permutation. }
    assert (op_key (t_op t) ∈ so_live so) as Hin by (rewrite Hl'; left).
    rewrite (release_run sp _ o1 o2 woken _ _ (remove_first (op_key (t_op t)) (so_live so)) Hnf).
    + eexists; split; [done|].
      eapply (rel_thr_step sp _ s _ tid t (PDone oid _) oid _ _ I Hrel Ht);
        [by rewrite Hpc|by left|done|done|done|apply lookup_insert|by intros; rewrite lookup_insert_ne|simpl|done|].
      { by destruct Hnf as (_ & _ & _ & -> & _). }
      simpl. destruct Hnf as (_ & -> & -> & _). simpl. rewrite (remove_first_perm_inv _ _ _ Hl'), map_app. solve_Permutation.
    + simpl. rewrite Hsp, bool_decide_eq_true_2 by done. by rewrite Hss, Hsq.
    + simpl. rewrite remove_first_length by done. lia.
  - (* PAddKey *)
    destruct (rel_thr sp s tid t oid I Hrel Ht) as (so & o & Hsp & Ho & Hm & Hn & Hsz & Hd & Hss & Hsq & Hl & Hlen); [by rewrite Hpc|].
    rewrite Ho. open_step t Ht. exists sp; split; [done|].
    eapply (rel_thr_step sp sp s _ tid t (PDone oid _) oid so _ I Hrel Ht);
      [by rewrite Hpc|by left|done|done|done|done|done|done|done|].
    simpl. tk1_simpl Hpc Hl. rewrite Hl. solve_Permutation.
  - (* PUnlChk *)
    destruct (rel_thr sp s tid t oid I Hrel Ht) as (so & o & Hsp & Ho & Hm & Hn & Hsz & Hd & Hss & Hsq & Hl & Hlen); [by rewrite Hpc|].
    rewrite Ho, Hd. open_step t Ht. eexists; split; [done|]. frame_same t Ht Hrel Hpc.
  - (* PUnlRem *)
    destruct (rel_thr sp s tid t oid I Hrel Ht) as (so & o & Hsp & Ho & Hm & Hn & Hsz & Hd & Hss & Hsq & Hl & Hlen); [by rewrite Hpc|].
    rewrite Ho in *. tk1_simpl Hpc Hl. case_bool_decide as Hkey.
    + destruct (Z.ltb_spec (o_cur o - 1) 0).
      { by pose proof (li_not_crashed _ I'). }
      clear I'. match goal with |- context [notify ?x] => set (o1 := x) end.
      destruct (notify o1) as [o2 woken] eqn:Hnt. apply notify_notified in Hnt as Hnf.
      open_step t Ht. trace_tac Hrun.
      assert (so_live so ≡ₚ op_key (t_op t) :: remove_first (op_key (t_op t)) (o_keys o) ++ map (kof (l_thr s)) (o_ready o) ++
                                             tkeys oid (delete tid (l_thr s))) as Hl'.
      { rewrite Hl. rewrite (remove_first_perm _ _ Hkey) at 1. solve_Permutation. }
      assert (op_key (t_op t) ∈ so_live so) as Hin by (rewrite Hl'; left).
      rewrite (release_run sp _ o1 o2 woken _ _ (remove_first (op_key (t_op t)) (so_live so)) Hnf).
      * eexists; split; [done|].
        eapply (rel_thr_step sp _ s _ tid t (PDone oid _) oid _ _ I Hrel Ht);
          [by rewrite Hpc|by left|done|done|done|apply lookup_insert|by intros; rewrite lookup_insert_ne|simpl|done|].
        { by destruct Hnf as (_ & _ & _ & -> & _). }
        simpl. destruct Hnf as (_ & -> & -> & _). simpl. rewrite (remove_first_perm_inv _ _ _ Hl'), map_app. solve_Permutation.
      * simpl. rewrite Hsp, bool_decide_eq_true_2 by done. by rewrite Hss, Hsq.
      * simpl. rewrite remove_first_length by done. lia.
    + clear I'. open_step t Ht. trace_tac Hrun. simpl. rewrite Hsp.
      assert (is_acq (t_op t) = false) as Hacq by (apply (li_unl_pc _ I tid t oid Ht); auto).
      destruct (unl_key_not_transit s tid t oid o I Ht Hacq Ho) as [Hk1 Hk2].
      rewrite bool_decide_eq_false_2.
      * eexists; split; [done|]. frame_same t Ht Hrel Hpc.
      * rewrite Hl, !elem_of_app. intros [|[|Hin]]; try done. apply Hk2.
        apply elem_of_tkeys in Hin as (w & tw & Hw & Htr & Hk). apply elem_of_tkeys. exists w, tw.
        apply lookup_delete_Some in Hw as [_ Hw]. done.
  - (* PDone *)
    destruct (rel_thr sp s tid t oid I Hrel Ht) as (so & o & Hsp & Ho & Hm & Hn & Hsz & Hd & Hss & Hsq & Hl & Hlen); [by rewrite Hpc|].
    rewrite Ho. open_step t Ht. trace_tac Hrun. eexists; split; [done|]. frame_upd t Ht Hrel Hpc o Ho.
  - (* PFin *) by exists sp.
Qed.

(** ** Garbage collection and shutdown *)
Definition map_ok (s : lstate) : Prop := ∀ n oid, l_map s !! n = Some oid → ∃ o, l_heap s !! oid = Some o ∧ o_name o = n.
Definition quiet (s : lstate) : Prop :=
  (∀ oid o, l_heap s !! oid = Some o → o_waitq o = [] ∧ o_ready o = []) ∧ (∀ oid, transit_keys oid s = []).

Lemma linv_map_ok s : LInv s → map_ok s.
Proof. intros I n oid H. destruct (li_map _ I n oid H) as (o & ? & ? & _). eauto. Qed.

Lemma gc_one_refines m name s sp :
  map_ok s →
  (∀ oid o, l_map s !! name = Some oid → l_heap s !! oid = Some o → o_users o = 0 →
            o_waitq o = [] ∧ o_ready o = [] ∧ transit_keys oid s = []) →
  spec_run false ∅ (lin_of (l_trace s)) = Some sp → spec_rel sp s →
  ∃ sp', spec_run false ∅ (lin_of (l_trace (gc_one m name s))) = Some sp' ∧ spec_rel sp' (gc_one m name s).
Proof.
  intros Hmok Hquiet Hrun Hrel. unfold gc_one. destruct (l_map s !! name) as [oid|] eqn:Hm; [|by exists sp].
  destruct (l_heap s !! oid) as [o|] eqn:Ho; [|by exists sp]. destruct (_ && _) eqn:Hc; [|by exists sp].
  apply andb_true_iff in Hc as [Hc Hidle]. apply andb_true_iff in Hc as [Hk Hu].
  apply bool_decide_eq_true in Hk. apply Z.eqb_eq in Hu. destruct (Hquiet oid o eq_refl Ho Hu) as (Hw & Hr & Htr).
  unfold emit, set_obj; simpl. trace_tac Hrun. simpl.
  pose proof (Hrel name) as Hn. unfold nrel in Hn. rewrite Hm in Hn. destruct (sp !! name) as [so|] eqn:Hsp; [|done].
  destruct Hn as (o' & Ho' & Hss & Hsq & Hl). assert (o' = o) as -> by congruence.
  unfold ready_keys in Hl. rewrite Hk, Hr, Htr in Hl. simpl in Hl. symmetry in Hl. apply Permutation_nil in Hl.
  rewrite Hl, Hsq, Hw. simpl. eexists; split; [done|]. intros n. destruct (decide (n = name)) as [->|Hne].
  - unfold nrel; cbn. by rewrite !lookup_delete.
  - apply (nrel_frame sp _ s _ n (Hrel n)); cbn; [by rewrite lookup_delete_ne|by rewrite lookup_delete_ne|].
    intros oid' o2 Hm' Ho2. exists o2. rewrite lookup_insert_ne.
    + split; [done|]. split; [apply oeq_refl|]. done.
    + intros <-. destruct (Hmok _ _ Hm) as (o1 & Ho1 & Hn1). destruct (Hmok _ _ Hm') as (o3 & Ho3 & Hn3). congruence.
Qed.

Lemma gc_one_quiet m name s : map_ok s → quiet s → map_ok (gc_one m name s) ∧ quiet (gc_one m name s).
Proof.
  intros Hmok [Hq1 Hq2]. unfold gc_one. destruct (l_map s !! name) as [oid|] eqn:Hm; [|done].
  destruct (l_heap s !! oid) as [o|] eqn:Ho; [|done]. destruct (_ && _); [|done]. split; [|split].
  - intros n oid'. cbn. intros [Hne Hm']%lookup_delete_Some. destruct (Hmok _ _ Hm') as (o' & Ho' & Hn').
    destruct (decide (oid' = oid)) as [->|Hoid].
    + rewrite lookup_insert. eexists; split; [done|]. simpl. congruence.
    + rewrite lookup_insert_ne by done. eauto.
  - intros oid' o'. cbn. destruct (decide (oid' = oid)) as [->|Hoid].
    + rewrite lookup_insert. intros [= <-]. simpl. eauto.
    + rewrite lookup_insert_ne by done. eauto.
  - intros oid'. apply Hq2.
Qed.

Lemma gc_fold_refines l : ∀ s sp, map_ok s → quiet s →
  spec_run false ∅ (lin_of (l_trace s)) = Some sp → spec_rel sp s →
  ∃ sp', spec_run false ∅ (lin_of (l_trace (fold_left (λ s '(name, _), gc_one 0 name s) l s))) = Some sp' ∧
         spec_rel sp' (fold_left (λ (s : lstate) '((name, _) : str * nat), gc_one 0 name s) l s).
Proof.
  induction l as [|[name x] l IH]; intros s sp Hmok Hq Hrun Hrel; simpl; [by exists sp|].
  destruct (gc_one_refines 0 name s sp Hmok) as (sp1 & Hrun1 & Hrel1); [|done|done|].
  { intros oid o _ Ho _. destruct Hq as [Hq1 Hq2]. destruct (Hq1 _ _ Ho). auto. }
  destruct (gc_one_quiet 0 name s Hmok Hq) as [Hmok1 Hq1]. by apply (IH _ sp1).
Qed.

Lemma ncf_thr s tid t : no_call_in_flight s = true → l_thr s !! tid = Some t → in_flight (t_pc t) = false.
Proof.
  unfold no_call_in_flight. rewrite forallb_forall. intros H Ht. specialize (H (tid, t)). simpl in H.
  apply negb_true_iff, H, elem_of_list_In, elem_of_map_to_list, Ht.
Qed.

Lemma ncf_quiet s : LInv s → no_call_in_flight s = true → quiet s.
Proof.
  intros I Hncf. split.
  - intros oid o Ho. assert (∀ w, w ∈ o_waitq o ++ o_ready o → False) as Hno.
    { intros w Hw. destruct (li_queue _ I oid o w Ho Hw) as (tw & Htw & Hpc). apply (ncf_thr s w tw Hncf) in Htw.
      destruct Hpc as [Hpc|Hpc]; by rewrite Hpc in Htw. }
    destruct (o_waitq o) as [|w ?]; [|exfalso; apply (Hno w); left]. destruct (o_ready o) as [|w ?]; [done|]. exfalso; apply (Hno w); left.
  - intros oid. rewrite transit_keys_tkeys. apply tkeys_nil. intros w tw Htw. apply (ncf_thr s w tw Hncf) in Htw.
    unfold in_transit. by destruct (t_pc tw).
Qed.

(** ** The simulation step *)
Lemma refines_step minidle s it sp :
  LInv s → item_ok s it → LInv (lstep minidle s it) →
  spec_run false ∅ (lin_of (l_trace s)) = Some sp → spec_rel sp s →
  ∃ sp', spec_run false ∅ (lin_of (l_trace (lstep minidle s it))) = Some sp' ∧ spec_rel sp' (lstep minidle s it).
Proof.
  intros I Hok I' Hrun Hrel. unfold lstep in *. rewrite (li_not_crashed _ I) in *. destruct it as [tid op|tid|tid|tid cause|name|dt|].
  - (* ICall *) destruct (l_thr s !! tid) as [t|] eqn:Ht; [by exists sp|]. unfold emit; simpl. trace_tac Hrun. exists sp; split; [done|].
    apply (spec_rel_frame sp s _ Hrel); [done|apply heap_same_oeq| |].
    + intros oid o w Ho Hw. rewrite !key_of_kof. simpl. unfold kof. rewrite lookup_insert_ne; [done|]. intros <-.
      destruct (li_queue _ I oid o tid Ho) as (tw & Htw & _); [apply elem_of_app; by right|]. congruence.
    + intros oid. rewrite !transit_keys_tkeys. simpl. by rewrite tkeys_insert_None.
  - (* IRun *) destruct (l_thr s !! tid) as [t|] eqn:Ht; [|by exists sp]. by apply (refines_run minidle s tid t sp).
  - (* IRunCancel *) destruct (l_thr s !! tid) as [t|] eqn:Ht; [|by exists sp].
    destruct (t_pc t) eqn:Hpc; try by exists sp. destruct (t_cancel t) eqn:Hc; [|by exists sp].
    rewrite (set_pc_eq _ _ _ t) by exact Ht. exists sp; split; [done|]. frame_same t Ht Hrel Hpc.
  - (* ICancel *) destruct (l_thr s !! tid) as [t|] eqn:Ht; [|by exists sp].
    destruct (t_cancel t) eqn:Hc; [by exists sp|]. destruct (t_op t) eqn:Hop; try by exists sp.
    exists sp; split; [done|]. eapply (spec_rel_frame_thr _ _ _ _ t _ Hrel); [done|apply heap_same_oeq|exact Ht|simpl; reflexivity|done|done].
  - (* IGc *) apply (gc_one_refines minidle name s sp); [by apply linv_map_ok| |done|done].
    intros oid o Hm Ho Hu. rewrite (li_users _ I oid o Ho) in Hu.
    assert (∀ w, w ∈ o_waitq o ++ o_ready o → False) as Hno.
    { intros w Hw. destruct (li_queue _ I oid o w Ho Hw) as (tw & Htw & Hpc). apply (count_thr_zero _ _ _ _ Hu) in Htw.
      unfold refs in Htw. destruct Hpc as [Hpc|Hpc]; rewrite Hpc in Htw; simpl in Htw; by rewrite bool_decide_eq_true_2 in Htw. }
    split; [|split].
    + destruct (o_waitq o) as [|w ?]; [done|]. exfalso; apply (Hno w); left.
    + destruct (o_ready o) as [|w ?]; [done|]. exfalso; apply (Hno w). apply elem_of_app; right; left.
    + rewrite transit_keys_tkeys. apply tkeys_nil. intros w tw Htw. apply (count_thr_zero _ _ _ _ Hu) in Htw.
      destruct (in_transit oid tw) eqn:E; [|done]. apply in_transit_refs in E. congruence.
  - (* ITick *) exists sp; split; [done|]. by apply (spec_rel_frame_same sp s _ Hrel); [|apply heap_same_oeq|].
  - (* IShutdown *) destruct (l_shut s); [by exists sp|]. destruct (no_call_in_flight s) eqn:Hncf; [|by exists sp].
    unfold shutdown_all, emit.
    destruct (gc_fold_refines (map_to_list (l_map s)) s sp (linv_map_ok _ I) (ncf_quiet _ I Hncf) Hrun Hrel) as (sp' & Hrun' & Hrel').
    exists sp'. simpl. rewrite lin_of_cons, app_nil_r. split; [done|].
    by apply (spec_rel_frame_same sp' _ _ Hrel'); [|apply heap_same_oeq|].
Qed.

(** ** C02: the theorems *)
Theorem C02_refines_from_inv : T_linv_reach → T_C02_refines.
Proof.
  intros HI minidle s Hr. induction Hr as [|s it Hr IH Hok].
  - exists ∅. split; [done|]. intros n. simpl. by rewrite !lookup_empty.
  - destruct IH as (sp & Hrun & Hrel).
    apply (refines_step minidle s it sp); [by apply (HI minidle)|done|apply (HI minidle); by constructor|done|done].
Qed.

Theorem C02_strict_from_inv : T_linv_reach → T_C02_strict.
Proof.
  intros HI minidle s Hr Hgb. destruct (C02_refines_from_inv HI minidle s Hr) as (sp & Hrun & Hrel).
  exists sp. split; [|done]. rewrite spec_run_strict; [done|]. by apply has_giveback_lin.
Qed.

(** C03 (FIFO hand-off against the specification): every grant in a reachable trace goes to the head of the
    specification's queue at that moment *)
Corollary C03_fifo_spec : ∀ minidle s, lreach minidle s → T_linv_reach →
  ∀ pre t n k post, lin_of (l_trace s) = pre ++ LaGrant t n k :: post →
  ∃ sp o q, spec_run false ∅ pre = Some sp ∧ sp !! n = Some o ∧ so_q o = t :: q.
Proof.
  intros minidle s Hr HI pre t n k post Heq. destruct (C02_refines_from_inv HI minidle s Hr) as (sp' & Hrun & _).
  rewrite Heq, spec_run_app in Hrun. destruct (spec_run false ∅ pre) as [sp|]; [|done]. simpl in Hrun.
  destruct (sp !! n) as [o|] eqn:Ho; [|done]. destruct (so_q o) as [|t' q] eqn:Hq; [done|].
  case_bool_decide; [|done]. subst. eauto 6.
Qed.

(** responses agree with the linearisation (proved in LkLinResp.v; the proof uses the fields [li_queue] and
    [li_queue_nodup] of the invariant — a woken thread is a live waiter other than the releaser — hence the premise) *)
Theorem C02_responses : T_linv_reach → T_C02_responses.
Proof. exact C02_responses_from_inv. Qed.
