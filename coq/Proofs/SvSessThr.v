(** How one step of Msv moves the threads: operations never change, program counters only advance along [pc_edge]. *)
From Coq Require Import Lia ZifyBool ZifyNat.
From Ldlm Require Import Model.Base Model.Err Model.Sv Proofs.SvDefs Proofs.SvSessBase.
From RecordUpdate Require Import RecordSet.
Import RecordSetNotations.
Local Open Scope Z_scope.

Definition pc_edge (cfg : svcfg) (pc pc' : spc) : Prop :=
  match pc with
  | VMgrTry => pc' = VSessAdd ∨ ∃ r, pc' = VFin r ∧ sr_ok r = false
  | VMgrLock => pc' = VSessAdd ∨ pc' = VWait ∨ ∃ r, pc' = VFin r ∧ sr_ok r = false
  | VWait => pc' = VWoken ∨ ∃ r, pc' = VFin r ∧ sr_ok r = false
  | VWoken => pc' = VSessAdd ∨ ∃ r, pc' = VFin r ∧ sr_ok r = false
  | VSessAdd => pc' = VTmAdd ∨ pc' = VFin (SResp true None)
  | VTmAdd => pc' = VFin (SResp true None)
  | VTmRemove => pc' = VMgrUnlock ∨ pc' = VSessRemove
  | VMgrUnlock => pc' = VSessRemove ∨ ∃ r, pc' = VFin r ∧ sr_ok r = false
  | VSessRemove => pc' = VFin (SResp true None)
  | VTmReset => ∃ r, pc' = VFin r
  | VCbUnlock => pc' = VCbSessRemove
  | VCbSessRemove => pc' = VCbTmRemove
  | VCbTmRemove => pc' = VEnd
  | VDsFlag => pc' = VEnd ∨ pc' = (if sc_noclear cfg then VDsNoClear else VDsDestroy)
  | VDsNoClear => pc' = VEnd
  | VDsDestroy => ∃ l, pc' = ds_next l
  | VDsTmRemove todo => match todo with [] => pc' = VEnd | c :: rest => pc' = VDsUnlock c rest ∨ pc' = ds_next rest end
  | VDsUnlock c rest => pc' = ds_next rest
  | VShFlag => pc' = VShNet
  | VShNet => pc' = VShTimers
  | VShTimers => pc' = VShMgr
  | VShMgr => pc' = VEnd
  | VFin _ | VEnd => False
  end.
Definition pc_le (cfg : svcfg) : spc → spc → Prop := rtc (pc_edge cfg).

Definition thr_rel (cfg : svcfg) (o o' : option sthread) : Prop :=
  match o, o' with
  | Some t, Some t' => st_op t' = st_op t ∧ pc_le cfg (st_pc t) (st_pc t')
  | Some _, None => False
  | None, Some t' => pc_le cfg (first_pc (st_op t')) (st_pc t')
  | None, None => True
  end.
Definition thr_ext (cfg : svcfg) (m m' : gmap nat sthread) : Prop := ∀ x, thr_rel cfg (m !! x) (m' !! x).

Lemma thr_rel_refl cfg o : thr_rel cfg o o.
Proof. destruct o; simpl; [split; [done|apply rtc_refl]|done]. Qed.
Lemma thr_ext_refl cfg m : thr_ext cfg m m.
Proof. intros x. apply thr_rel_refl. Qed.
Lemma thr_rel_trans cfg o1 o2 o3 : thr_rel cfg o1 o2 → thr_rel cfg o2 o3 → thr_rel cfg o1 o3.
Proof.
  destruct o1, o2, o3; simpl; try done.
  - intros [-> H1] [-> H2]. split; [done|by etrans].
  - intros H1 [-> H2]. by etrans.
Qed.
Lemma thr_ext_trans cfg m1 m2 m3 : thr_ext cfg m1 m2 → thr_ext cfg m2 m3 → thr_ext cfg m1 m3.
Proof. intros H1 H2 x. eapply thr_rel_trans; eauto. Qed.

Lemma thr_ext_upd cfg m tid t t' : m !! tid = Some t → st_op t' = st_op t → pc_le cfg (st_pc t) (st_pc t') →
  thr_ext cfg m (<[tid := t']> m).
Proof.
  intros Ht Hop Hpc x. destruct (decide (x = tid)) as [->|Hne].
  - rewrite Ht, lookup_insert. done.
  - rewrite lookup_insert_ne by done. apply thr_rel_refl.
Qed.
Lemma thr_ext_new cfg m tid t' : m !! tid = None → st_pc t' = first_pc (st_op t') → thr_ext cfg m (<[tid := t']> m).
Proof.
  intros Ht Hpc x. destruct (decide (x = tid)) as [->|Hne].
  - rewrite Ht, lookup_insert. simpl. rewrite Hpc. apply rtc_refl.
  - rewrite lookup_insert_ne by done. apply thr_rel_refl.
Qed.
Lemma thr_ext_fmap cfg m (f : sthread → sthread) :
  (∀ t, st_op (f t) = st_op t ∧ st_pc (f t) = st_pc t) → thr_ext cfg m (f <$> m).
Proof.
  intros Hf x. rewrite lookup_fmap. destruct (m !! x) as [t|]; simpl; [|done].
  destruct (Hf t) as [-> ->]. split; [done|apply rtc_refl].
Qed.

Lemma pc_le_edge cfg pc pc' : pc_edge cfg pc pc' → pc_le cfg pc pc'.
Proof. apply rtc_once. Qed.

Lemma thr_ext_set_pc cfg s tid t pc : v_thr s !! tid = Some t → pc_edge cfg (st_pc t) pc →
  thr_ext cfg (v_thr s) (v_thr (vset_pc tid pc s)).
Proof.
  intros Ht He. rewrite (vset_pc_some _ _ _ _ Ht). simpl.
  eapply thr_ext_upd; [done|done|]. simpl. by apply pc_le_edge.
Qed.

(** closure under edges *)
Lemma pc_le_closed cfg (P : spc → Prop) pc pc' :
  (∀ p p', P p → pc_edge cfg p p' → P p') → P pc → pc_le cfg pc pc' → P pc'.
Proof. intros Hcl Hp Hle. induction Hle; eauto. Qed.

Lemma pc_le_fin cfg r pc' : pc_le cfg (VFin r) pc' → pc' = VFin r.
Proof. intros H. inversion H; subst; [done|]. simpl in *. done. Qed.
Lemma pc_le_end cfg pc' : pc_le cfg VEnd pc' → pc' = VEnd.
Proof. intros H. inversion H; subst; [done|]. simpl in *. done. Qed.

(** ** one step extends the thread pool *)
Ltac pair_norm :=
  repeat match goal with
         | H : ?f = (?a, ?b) |- _ =>
             is_var a;
             let H1 := fresh "Hp" in let H2 := fresh "Hp" in
             pose proof (f_equal fst H) as H1; pose proof (f_equal snd H) as H2; cbn [fst snd] in H1, H2; clear H;
             subst a; try subst b
         end.

Lemma thr_ext_set_pc' cfg m X tid t pc : v_thr X = m → m !! tid = Some t → pc_edge cfg (st_pc t) pc →
  thr_ext cfg m (v_thr (vset_pc tid pc X)).
Proof. intros <-. apply thr_ext_set_pc. Qed.

Definition queue_waits (s : svstate) : Prop :=
  ∀ n a w, v_locks s !! n = Some a → w ∈ al_q a → ∃ t, v_thr s !! w = Some t ∧ st_pc t = VWait.

Lemma svinv_queue_waits cfg s : SvInv cfg s → queue_waits s.
Proof.
  intros HI n a w Ha Hw. apply (vi_queue _ _ HI n a w Ha) in Hw as (t & ? & ? & ? & ? & ? & ? & ?). eauto.
Qed.

Lemma ho_grant_some name s a w q' : ho_grant name s = Some (a, w, q') →
  v_locks s !! name = Some a ∧ al_q a = w :: q' ∧ Z.of_nat (length (al_live a)) < al_size a.
Proof. unfold ho_grant. intros H. repeat case_match; simplify_eq. split_and!; [done|done|lia]. Qed.

Lemma hand_over_thr cfg name s :
  (∀ a w, v_locks s !! name = Some a → w ∈ al_q a → ∃ t, v_thr s !! w = Some t ∧ st_pc t = VWait) →
  thr_ext cfg (v_thr s) (v_thr (hand_over name s)).
Proof.
  intros Hq. rewrite hand_over_eq. destruct (ho_grant name s) as [[[a w] q']|] eqn:Hg; [|apply thr_ext_refl].
  apply ho_grant_some in Hg as (Ha & Hqa & _). destruct (Hq a w Ha) as (t & Ht & Hpc); [rewrite Hqa; left|].
  rewrite vemit_v_thr. eapply thr_ext_set_pc'; [reflexivity|exact Ht|]. rewrite Hpc. simpl. by left.
Qed.

Lemma mgr_unlock_thr cfg tid name key s : queue_waits s → thr_ext cfg (v_thr s) (v_thr (mgr_unlock tid name key s).1).
Proof.
  intros Hq. unfold mgr_unlock. repeat case_match; simpl; try apply thr_ext_refl.
  eapply thr_ext_trans; [|apply hand_over_thr]; [simpl; apply thr_ext_refl|].
  simpl. intros a' w. rewrite lookup_insert. intros [= <-]. simpl. eauto.
Qed.

Definition thr_bounded (s : svstate) : Prop := ∀ tid t, v_thr s !! tid = Some t → (tid < v_next s)%nat.
Lemma thr_bounded_fresh s : thr_bounded s → v_thr s !! v_next s = None.
Proof. intros H. destruct (v_thr s !! v_next s) eqn:E; [|done]. apply H in E. lia. Qed.

Definition thr_keeps (s s' : svstate) : Prop := ∀ x t, v_thr s !! x = Some t → v_thr s' !! x = Some t.
Lemma spawn_thr cfg op s : thr_bounded s →
  thr_ext cfg (v_thr s) (v_thr (spawn op (first_pc op) s)) ∧ thr_bounded (spawn op (first_pc op) s) ∧ thr_keeps s (spawn op (first_pc op) s).
Proof.
  intros Hb. split_and!.
  - simpl. apply thr_ext_new; [by apply thr_bounded_fresh|done].
  - intros tid t. simpl. destruct (decide (tid = v_next s)) as [->|Hne]; [lia|].
    rewrite lookup_insert_ne by done. intros H%Hb. lia.
  - intros x t Hx. simpl. rewrite lookup_insert_ne; [done|]. apply Hb in Hx. lia.
Qed.

Lemma fire_due_thr cfg s : thr_bounded s → thr_ext cfg (v_thr s) (v_thr (fire_due s)) ∧ thr_bounded (fire_due s) ∧ thr_keeps s (fire_due s).
Proof.
  intros Hb. unfold fire_due.
  apply (fold_left_inv (λ s', thr_ext cfg (v_thr s) (v_thr s') ∧ thr_bounded s' ∧ thr_keeps s s')); [split_and!; [apply thr_ext_refl|done|by intros ??]|].
  intros s' [id tm] (He & Hb' & Hk) _. repeat case_match; try (split_and!; done).
  destruct (spawn_thr cfg (SExpire id) (s' <| v_theap := <[id := tm <| tm_st := TFired |>]> (v_theap s') |>) Hb') as (H1 & H2 & H3).
  rewrite vemit_v_thr. split_and!.
  - eapply thr_ext_trans; [exact He|]. exact H1.
  - exact H2.
  - intros x t Hx. apply H3. simpl. by apply Hk.
Qed.

Lemma svinv_bounded cfg s : SvInv cfg s → thr_bounded s.
Proof. intros HI tid t Ht. by apply (vi_sys _ _ HI) in Ht as [? _]. Qed.


Lemma hand_over_thr_other name s x t :
  (∀ a w, v_locks s !! name = Some a → w ∈ al_q a → ∃ t, v_thr s !! w = Some t ∧ st_pc t = VWait) →
  v_thr s !! x = Some t → st_pc t ≠ VWait → v_thr (hand_over name s) !! x = Some t.
Proof.
  intros Hq Hx Hpc. rewrite hand_over_eq. destruct (ho_grant name s) as [[[a w] q']|] eqn:Hg; [|done].
  apply ho_grant_some in Hg as (Ha & Hqa & _). destruct (Hq a w Ha) as (t' & Ht' & Hpc'); [rewrite Hqa; left|].
  rewrite vemit_v_thr, vset_pc_lookup. simpl. case_decide; [|done]. subst. congruence.
Qed.
Lemma mgr_unlock_thr_other tid name key s x t : queue_waits s →
  v_thr s !! x = Some t → st_pc t ≠ VWait → v_thr (mgr_unlock tid name key s).1 !! x = Some t.
Proof.
  intros Hq Hx Hpc. unfold mgr_unlock. repeat case_match; simpl; try done.
  apply hand_over_thr_other; [|done|done].
  simpl. intros a' w. rewrite lookup_insert. intros [= <-]. simpl. eauto.
Qed.

Lemma thr_ext_set_pc_after cfg m X tid t pc : thr_ext cfg m (v_thr X) → m !! tid = Some t → v_thr X !! tid = Some t →
  pc_edge cfg (st_pc t) pc → thr_ext cfg m (v_thr (vset_pc tid pc X)).
Proof. intros He Ht Ht' Hpc. eapply thr_ext_trans; [exact He|]. by eapply thr_ext_set_pc. Qed.

Definition spawn_end (s : svstate) (sid : str) : svstate := vemit (SvConnEnd sid) (spawn (SConnEnd sid) VDsFlag s).
Lemma spawn_all_thr cfg (l : list str) s : thr_bounded s →
  thr_ext cfg (v_thr s) (v_thr (fold_left spawn_end l s)) ∧
  thr_bounded (fold_left spawn_end l s) ∧
  thr_keeps s (fold_left spawn_end l s).
Proof.
  intros Hb. apply (fold_left_inv (λ s', thr_ext cfg (v_thr s) (v_thr s') ∧ thr_bounded s' ∧ thr_keeps s s')); [split_and!; [apply thr_ext_refl|done|by intros ??]|].
  intros s' sid (He & Hb' & Hk) _. unfold spawn_end.
  destruct (spawn_thr cfg (SConnEnd sid) s' Hb') as (H1 & H2 & H3). split_and!.
  - eapply thr_ext_trans; [exact He|]. exact H1.
  - exact H2.
  - intros x t Hx. apply H3. by apply Hk.
Qed.

Lemma vrun_thread_thr cfg tid t s : SvInv cfg s → v_thr s !! tid = Some t → thr_ext cfg (v_thr s) (v_thr (vrun_thread cfg tid t s)).
Proof.
  intros HI Ht. pose proof (svinv_queue_waits _ _ HI) as Hq. pose proof (svinv_bounded _ _ HI) as Hb.
  destruct t as [op pc cn]. unfold vrun_thread. cbn [st_pc st_op st_cancel]. destruct cfg as [nc fl]; destruct nc.
  all: destruct pc, op; try apply thr_ext_refl.
  all: unfold vfinish; cbn [sc_noclear].
  all: repeat case_match; subst; pair_norm; rewrite ?vemit_v_thr; try apply thr_ext_refl.
  all: try (eapply thr_ext_set_pc'; [autorewrite with svframe; reflexivity|exact Ht|simpl; eauto 6]).
  all: try (eapply thr_ext_set_pc_after; [by apply mgr_unlock_thr|exact Ht|by apply mgr_unlock_thr_other|simpl; eauto 6]).
  (* VWoken, context ended: the unit goes back, hand-over *)
  1,3: (match goal with |- context [hand_over ?n ?X] => set (s0 := X);
        assert (Hq' : ∀ a' w, v_locks s0 !! n = Some a' → w ∈ al_q a' → ∃ t, v_thr s0 !! w = Some t ∧ st_pc t = VWait)
          by (subst s0; simpl; intros a' w; rewrite lookup_insert; intros [= <-]; simpl; eauto);
        eapply thr_ext_set_pc_after; [exact (hand_over_thr _ n s0 Hq')|exact Ht|by apply (hand_over_thr_other n s0)|simpl; eauto 6] end).
  (* the network stop *)
  all: match goal with |- context [fold_left _ _ ?X] => set (s1 := X) end.
  all: assert (Hb1 : thr_bounded s1) by (intros x t; subst s1; simpl; rewrite lookup_fmap; intros (t0 & H0 & _)%fmap_Some; by eapply Hb).
  all: match goal with |- thr_ext ?c _ _ => assert (He1 : thr_ext c (v_thr s) (v_thr s1)) by (subst s1; simpl; apply thr_ext_fmap; intros t; by repeat case_match) end.
  all: match goal with |- thr_ext ?c _ (v_thr (vset_pc _ _ (fold_left _ ?l _))) => destruct (spawn_all_thr c l s1 Hb1) as (He2 & Hb2 & Hk2) end.
  all: eapply thr_ext_trans; [exact He1|].
  all: eapply thr_ext_set_pc_after; [exact He2| |apply Hk2|]; [subst s1; simpl; rewrite lookup_fmap, Ht; reflexivity..|simpl; done].
Qed.

Lemma vstep_thr cfg s it : SvInv cfg s → thr_ext cfg (v_thr s) (v_thr (vstep cfg s it)).
Proof.
  intros HI. pose proof (svinv_bounded _ _ HI) as Hb. unfold vstep. rewrite (vi_not_crashed _ _ HI).
  destruct it as [tid op|tid|tid cause|sid|sid|dt|].
  - repeat case_match; try apply thr_ext_refl. rewrite vemit_v_thr. simpl. by apply thr_ext_new.
  - destruct (v_thr s !! tid) as [t|] eqn:Ht; [by apply vrun_thread_thr|apply thr_ext_refl].
  - repeat case_match; try apply thr_ext_refl. simpl. eapply thr_ext_upd; [done|done|apply rtc_refl].
  - rewrite vemit_v_thr. case_match; apply thr_ext_refl.
  - rewrite vemit_v_thr.
    match goal with |- context [spawn _ _ ?X] => set (s1 := X) end.
    assert (Hb1 : thr_bounded s1) by (intros x t; subst s1; simpl; rewrite lookup_fmap; intros (t0 & H0 & _)%fmap_Some; by eapply Hb).
    eapply thr_ext_trans; [|apply (proj1 (spawn_thr cfg (SConnEnd sid) s1 Hb1))].
    subst s1; simpl. apply thr_ext_fmap. intros t; by repeat case_match.
  - match goal with |- context [fire_due ?X] => exact (proj1 (fire_due_thr cfg X Hb)) end.
  - rewrite vemit_v_thr. exact (proj1 (spawn_thr cfg SShutdown s Hb)).
Qed.

(** consequences *)
Lemma thr_ext_lookup cfg m m' x t : thr_ext cfg m m' → m !! x = Some t →
  ∃ t', m' !! x = Some t' ∧ st_op t' = st_op t ∧ pc_le cfg (st_pc t) (st_pc t').
Proof. intros H Hx. specialize (H x). rewrite Hx in H. destruct (m' !! x) as [t'|]; [|done]. destruct H. eauto. Qed.

(** ** what a step does to the threads it does not run: nothing, except the hand-over (VWait -> VWoken) and the
    end of a request's context *)
Definition tstep_other (t t' : sthread) : Prop :=
  st_op t' = st_op t ∧ (st_pc t' = st_pc t ∨ (st_pc t = VWait ∧ st_pc t' = VWoken)).
Lemma tstep_other_refl t : tstep_other t t.
Proof. split; [done|by left]. Qed.

Lemma hand_over_thr_at name s x t :
  (∀ a w, v_locks s !! name = Some a → w ∈ al_q a → ∃ t, v_thr s !! w = Some t ∧ st_pc t = VWait) →
  v_thr s !! x = Some t → ∃ t', v_thr (hand_over name s) !! x = Some t' ∧ tstep_other t t'.
Proof.
  intros Hq Hx. rewrite hand_over_eq. destruct (ho_grant name s) as [[[a w] q']|] eqn:Hg; [|eauto using tstep_other_refl].
  apply ho_grant_some in Hg as (Ha & Hqa & _). destruct (Hq a w Ha) as (t' & Ht' & Hpc'); [rewrite Hqa; left|].
  rewrite vemit_v_thr, vset_pc_lookup. simpl. case_decide; [|eauto using tstep_other_refl]. subst.
  rewrite Hx. simpl. eexists; split; [done|]. split; [done|]. right. simpl. split; [congruence|done].
Qed.
Lemma mgr_unlock_thr_at tid name key s x t : queue_waits s →
  v_thr s !! x = Some t → ∃ t', v_thr (mgr_unlock tid name key s).1 !! x = Some t' ∧ tstep_other t t'.
Proof.
  intros Hq Hx. unfold mgr_unlock. repeat case_match; simpl; eauto using tstep_other_refl.
  apply hand_over_thr_at; [|done].
  simpl. intros a' w. rewrite lookup_insert. intros [= <-]. simpl. eauto.
Qed.

Lemma vset_pc_lookup_ne tid pc s x : x ≠ tid → v_thr (vset_pc tid pc s) !! x = v_thr s !! x.
Proof. intros. rewrite vset_pc_lookup. by case_decide. Qed.

Lemma vrun_thread_thr_other cfg tid t0 s x t : SvInv cfg s → x ≠ tid → v_thr s !! tid = Some t0 → v_thr s !! x = Some t →
  ∃ t', v_thr (vrun_thread cfg tid t0 s) !! x = Some t' ∧ tstep_other t t'.
Proof.
  intros HI Hne Ht0 Hx. pose proof (svinv_queue_waits _ _ HI) as Hq. pose proof (svinv_bounded _ _ HI) as Hb.
  destruct t0 as [op pc cn]. unfold vrun_thread. cbn [st_pc st_op st_cancel].
  destruct pc, op; try (eauto using tstep_other_refl; fail).
  all: unfold vfinish.
  all: repeat case_match; subst; pair_norm; rewrite ?vemit_v_thr, ?vset_pc_lookup_ne by done; eauto using tstep_other_refl.
  all: try (autorewrite with svframe; simpl; eauto using tstep_other_refl; fail).
  all: try (by apply mgr_unlock_thr_at).
  (* woken call gives the unit back *)
  1: (apply hand_over_thr_at; [|done]; simpl; intros a' w; rewrite lookup_insert; intros [= <-]; simpl; eauto).
  (* network stop *)
  match goal with |- context [fold_left _ ?l ?X] => destruct (spawn_all_thr cfg l X) as (_ & _ & Hk) end.
  { intros y ty. simpl. rewrite lookup_fmap. intros (t0 & H0 & _)%fmap_Some. by eapply Hb. }
  eexists. split; [apply Hk; simpl; rewrite lookup_fmap, Hx; reflexivity|].
  split; [by repeat case_match|left; by repeat case_match].
Qed.

Lemma vstep_thr_other cfg s it x t : SvInv cfg s → it ≠ VRun x → v_thr s !! x = Some t →
  ∃ t', v_thr (vstep cfg s it) !! x = Some t' ∧ tstep_other t t'.
Proof.
  intros HI Hit Hx. pose proof (svinv_bounded _ _ HI) as Hb. unfold vstep. rewrite (vi_not_crashed _ _ HI).
  destruct it as [tid op|tid|tid cause|sid|sid|dt|].
  - repeat case_match; eauto using tstep_other_refl. rewrite vemit_v_thr. simpl.
    rewrite lookup_insert_ne by congruence. eauto using tstep_other_refl.
  - destruct (v_thr s !! tid) as [t0|] eqn:Ht0; [|eauto using tstep_other_refl].
    apply (vrun_thread_thr_other cfg tid t0 s x t HI); [congruence|done|done].
  - repeat case_match; eauto using tstep_other_refl. simpl. destruct (decide (x = tid)) as [->|Hne].
    + rewrite lookup_insert. simplify_eq. eexists; split; [done|]. split; [done|by left].
    + rewrite lookup_insert_ne by done. eauto using tstep_other_refl.
  - rewrite vemit_v_thr. case_match; eauto using tstep_other_refl.
  - rewrite vemit_v_thr. simpl. rewrite lookup_insert_ne.
    + rewrite lookup_fmap, Hx. simpl. eexists; split; [done|]. split; [by repeat case_match|left; by repeat case_match].
    + apply Hb in Hx. lia.
  - match goal with |- context [fire_due ?X] => destruct (fire_due_thr cfg X Hb) as (_ & _ & Hk) end.
    eexists; split; [apply Hk; exact Hx|apply tstep_other_refl].
  - rewrite vemit_v_thr. simpl. rewrite lookup_insert_ne; [eauto using tstep_other_refl|]. apply Hb in Hx. lia.
Qed.

Lemma vstep_run_lookup cfg s tid t : v_crashed s = false → v_thr s !! tid = Some t →
  vstep cfg s (VRun tid) = vrun_thread cfg tid t s.
Proof. intros Hc Ht. unfold vstep. by rewrite Hc, Ht. Qed.

(** ** threads that appear in a step start at the first pc of their operation *)
Lemma hand_over_thr_none name s x : v_thr s !! x = None → v_thr (hand_over name s) !! x = None.
Proof.
  intros Hx. rewrite hand_over_eq. destruct (ho_grant name s) as [[[a w] q']|]; [|done].
  rewrite vemit_v_thr, vset_pc_lookup. simpl. case_decide; [subst; by rewrite Hx|done].
Qed.
Lemma mgr_unlock_thr_none tid name key s x : v_thr s !! x = None → v_thr (mgr_unlock tid name key s).1 !! x = None.
Proof. intros Hx. unfold mgr_unlock. repeat case_match; simpl; try done. by apply hand_over_thr_none. Qed.

Definition fresh_thread (t : sthread) : Prop := st_pc t = first_pc (st_op t) ∧ st_cancel t = None.

Lemma spawn_all_thr_new (l : list str) s x t' : v_thr s !! x = None →
  v_thr (fold_left spawn_end l s) !! x = Some t' → fresh_thread t' ∧ client_op (st_op t') = false.
Proof.
  intros Hx. revert t'.
  apply (fold_left_inv (λ s', ∀ t', v_thr s' !! x = Some t' → fresh_thread t' ∧ client_op (st_op t') = false)); [intros t'; by rewrite Hx|].
  intros s' sid IH _ t'. simpl. destruct (decide (x = v_next s')) as [->|Hne].
  - rewrite lookup_insert. by intros [= <-].
  - rewrite lookup_insert_ne by done. apply IH.
Qed.
Lemma fire_due_thr_new s x t' : v_thr s !! x = None → v_thr (fire_due s) !! x = Some t' → fresh_thread t' ∧ client_op (st_op t') = false.
Proof.
  intros Hx. revert t'. unfold fire_due.
  apply (fold_left_inv (λ s', ∀ t', v_thr s' !! x = Some t' → fresh_thread t' ∧ client_op (st_op t') = false)); [intros t'; by rewrite Hx|].
  intros s' [id tm] IH _ t'. repeat case_match; try apply IH. rewrite vemit_v_thr. simpl. destruct (decide (x = v_next s')) as [->|Hne].
  - rewrite lookup_insert. by intros [= <-].
  - rewrite lookup_insert_ne by done. apply IH.
Qed.

Lemma vrun_thread_thr_new cfg tid t0 s x t' : v_thr s !! tid = Some t0 → v_thr s !! x = None →
  v_thr (vrun_thread cfg tid t0 s) !! x = Some t' → fresh_thread t' ∧ client_op (st_op t') = false.
Proof.
  intros Ht0 Hx. assert (x ≠ tid) by congruence.
  destruct t0 as [op pc cn]. unfold vrun_thread. cbn [st_pc st_op st_cancel].
  destruct pc, op; try (by rewrite Hx).
  all: unfold vfinish.
  all: repeat case_match; subst; pair_norm; rewrite ?vemit_v_thr, ?vset_pc_lookup_ne by done; try (by rewrite Hx).
  all: try (autorewrite with svframe; simpl; by rewrite Hx).
  all: try (by rewrite mgr_unlock_thr_none).
  1: by rewrite hand_over_thr_none.
  apply spawn_all_thr_new. simpl. by rewrite lookup_fmap, Hx.
Qed.

Lemma vstep_thr_new cfg s it x t' : v_thr s !! x = None → v_thr (vstep cfg s it) !! x = Some t' →
  fresh_thread t' ∧ (client_op (st_op t') = false ∨ it = VCall x (st_op t')).
Proof.
  intros Hx. unfold vstep. destruct (v_crashed s); [by rewrite Hx|].
  destruct it as [tid op|tid|tid cause|sid|sid|dt|].
  - repeat case_match; try (by rewrite Hx). rewrite vemit_v_thr. simpl. destruct (decide (x = tid)) as [->|Hne].
    + rewrite lookup_insert. intros [= <-]. split; [done|by right].
    + rewrite lookup_insert_ne by done. by rewrite Hx.
  - destruct (v_thr s !! tid) as [t0|] eqn:Ht0; [|by rewrite Hx]. intros H. eapply vrun_thread_thr_new in H as [? ?]; eauto.
  - repeat case_match; try (by rewrite Hx). simpl. rewrite lookup_insert_ne by congruence. by rewrite Hx.
  - rewrite vemit_v_thr. case_match; simpl; by rewrite Hx.
  - rewrite vemit_v_thr. simpl. destruct (decide (x = v_next s)) as [->|Hne].
    + rewrite lookup_insert. intros [= <-]. split; [done|by left].
    + rewrite lookup_insert_ne by done. by rewrite lookup_fmap, Hx.
  - intros H. apply fire_due_thr_new in H as [? ?]; [eauto|done].
  - rewrite vemit_v_thr. simpl. destruct (decide (x = v_next s)) as [->|Hne].
    + rewrite lookup_insert. intros [= <-]. split; [done|by left].
    + rewrite lookup_insert_ne by done. by rewrite Hx.
Qed.

(** a thread of the post-state, traced back *)
Lemma vstep_thr_back cfg s it x t' : SvInv cfg s → v_thr (vstep cfg s it) !! x = Some t' →
  (v_thr s !! x = None ∧ fresh_thread t') ∨
  (∃ t, v_thr s !! x = Some t ∧ st_op t' = st_op t ∧ pc_le cfg (st_pc t) (st_pc t') ∧
        (it = VRun x ∨ st_pc t' = st_pc t ∨ (st_pc t = VWait ∧ st_pc t' = VWoken))).
Proof.
  intros HI Hx'. destruct (v_thr s !! x) as [t|] eqn:Hx.
  - right. exists t. split; [done|]. pose proof (vstep_thr cfg s it HI x) as Hrel. rewrite Hx, Hx' in Hrel. destruct Hrel as [Hop Hle].
    split_and!; [done..|].
    assert (it = VRun x ∨ it ≠ VRun x) as [->|Hne]; [|by left|right].
    { destruct it as [| tid | | | | |]; try (by right). destruct (decide (tid = x)) as [->|]; [by left|right; congruence]. }
    destruct (vstep_thr_other cfg s it x t HI Hne Hx) as (t'' & Ht'' & _ & Hpc). by simplify_eq.
  - left. split; [done|]. by eapply vstep_thr_new.
Qed.

(** only steps of threads move program counters *)
Lemma vstep_pc_norun cfg s it x t t' : SvInv cfg s → (∀ tid, it ≠ VRun tid) → v_thr s !! x = Some t →
  v_thr (vstep cfg s it) !! x = Some t' → st_pc t' = st_pc t ∧ st_op t' = st_op t.
Proof.
  intros HI Hit Hx. pose proof (svinv_bounded _ _ HI) as Hb. unfold vstep. rewrite (vi_not_crashed _ _ HI).
  destruct it as [tid op|tid|tid cause|sid|sid|dt|].
  - repeat case_match; try (rewrite Hx; by intros [= <-]). rewrite vemit_v_thr. simpl.
    rewrite lookup_insert_ne by congruence. rewrite Hx; by intros [= <-].
  - by destruct (Hit tid).
  - repeat case_match; try (rewrite Hx; by intros [= <-]). simpl. destruct (decide (x = tid)) as [->|Hne].
    + rewrite lookup_insert. simplify_eq. by intros [= <-].
    + rewrite lookup_insert_ne by done. rewrite Hx; by intros [= <-].
  - rewrite vemit_v_thr. case_match; simpl; rewrite Hx; by intros [= <-].
  - rewrite vemit_v_thr. simpl. rewrite lookup_insert_ne.
    + rewrite lookup_fmap, Hx. simpl. intros [= <-]. by repeat case_match.
    + apply Hb in Hx. lia.
  - match goal with |- context [fire_due ?X] => destruct (fire_due_thr cfg X Hb) as (_ & _ & Hk) end.
    rewrite (Hk x t Hx). by intros [= <-].
  - rewrite vemit_v_thr. simpl. rewrite lookup_insert_ne; [rewrite Hx; by intros [= <-]|]. apply Hb in Hx. lia.
Qed.
