(** EProbe, EIpcList and EConnect: the views the model shows agree with the oracle's expected live holds
    (work package trackp). *)
From Coq Require Import Lia ZifyBool ZifyNat String.
From Ldlm Require Import Model.Base Model.Err Model.Seq Model.Track Proofs.SeqDefs Proofs.SeqLemmasKey Proofs.SeqInvBase
  Proofs.SeqInvOps Proofs.SeqInvTime Proofs.SeqInv Proofs.SeqTimeBase Proofs.SeqTime1
  Proofs.TrackPBase Proofs.TrackPOrder Proofs.TrackPRel Proofs.TrackPStep Proofs.TrackPTR.
From RecordUpdate Require Import RecordSet.
Import RecordSetNotations.
Local Open Scope Z_scope.

(** ** The three views as duplicate-free lists *)

Lemma NoDup_concat_snd {K A} (l : list (K * list A)) :
  NoDup (l.*1) → (∀ k v, (k, v) ∈ l → NoDup v) →
  (∀ k1 v1 k2 v2 c, (k1, v1) ∈ l → (k2, v2) ∈ l → c ∈ v1 → c ∈ v2 → k1 = k2) →
  NoDup (concat (map snd l)).
Proof.
  induction l as [|[k v] l IH]; intros Hk Hv Ho; [constructor|]. simpl in *. apply NoDup_cons in Hk as [Hk Hl].
  apply NoDup_app. split; [apply (Hv k); left|]. split.
  - intros x Hx Hx'. apply elem_of_list_In, in_concat in Hx' as (v' & Hv' & Hx'). apply in_map_iff in Hv' as ([k2 v2] & <- & Hin).
    apply elem_of_list_In in Hin, Hx'. simpl in Hx'. apply Hk. apply elem_of_list_fmap. exists (k2, v2). split; [|done]. simpl.
    eapply (Ho k v k2 v2 x); [left|by right|done|done].
  - apply IH; [done|intros; eapply Hv; by right|]. intros k1 v1 k2 v2 c ? ?. eapply Ho; by right.
Qed.

Lemma elem_of_concat_snd {K A} (l : list (K * list A)) c : c ∈ concat (map snd l) ↔ ∃ k v, (k, v) ∈ l ∧ c ∈ v.
Proof.
  rewrite elem_of_list_In, in_concat. split.
  - intros (v & Hv & Hc). apply in_map_iff in Hv as ([k v'] & <- & Hin). exists k, v'. by rewrite !elem_of_list_In.
  - intros (k & v & Hin & Hc). exists v. rewrite <- !elem_of_list_In. split; [|done]. apply elem_of_list_In, in_map_iff.
    exists (k, v). split; [done|]. by apply elem_of_list_In.
Qed.

Lemma NoDup_concat_map (S : gmap str (list clock)) :
  (∀ sid l, S !! sid = Some l → NoDup l) →
  (∀ sid1 sid2 l1 l2 c, S !! sid1 = Some l1 → S !! sid2 = Some l2 → c ∈ l1 → c ∈ l2 → sid1 = sid2) →
  NoDup (concat (map snd (map_to_list S))).
Proof.
  intros Hn Ho. apply NoDup_concat_snd.
  - apply NoDup_fst_map_to_list.
  - intros k v Hin%elem_of_map_to_list. eauto.
  - intros k1 v1 k2 v2 c H1%elem_of_map_to_list H2%elem_of_map_to_list. eauto.
Qed.

Lemma listing_NoDup cfg s : Inv cfg s → NoDup (listing s).
Proof. intros HI. apply NoDup_concat_map; [apply (inv_nodup _ _ HI)|apply (inv_owner _ _ HI)]. Qed.

Definition tab_list (ml : list (str * lockobj)) : list (str * list clock) :=
  map (λ '(n, o), (n, map (λ k, Clock n k (lo_size o)) (lo_keys o))) ml.

Lemma table_holds_view_list ml :
  table_holds (map (λ '(n, o), (n, (lo_size o, lo_keys o, lo_last o))) ml) = concat (map snd (tab_list ml)).
Proof. induction ml as [|[n o] ml IH]; [done|]. simpl. by rewrite IH. Qed.

Lemma table_holds_view s : table_holds (table_view s) = concat (map snd (tab_list (map_to_list (st_locks s)))).
Proof. apply table_holds_view_list. Qed.

Lemma elem_of_tab_list L n v : (n, v) ∈ tab_list (map_to_list L) ↔ ∃ o, L !! n = Some o ∧ v = map (λ k, Clock n k (lo_size o)) (lo_keys o).
Proof.
  unfold tab_list. rewrite elem_of_list_In, in_map_iff. split.
  - intros ([n' o] & [= <- <-] & Hin). apply elem_of_list_In, elem_of_map_to_list in Hin. eauto.
  - intros (o & Ho & ->). exists (n, o). split; [done|]. by apply elem_of_list_In, elem_of_map_to_list.
Qed.

Lemma elem_of_table_holds s c : c ∈ table_holds (table_view s) ↔ in_table s c.
Proof.
  rewrite table_holds_view, elem_of_concat_snd. split.
  - intros (n & v & (o & Ho & ->)%elem_of_tab_list & Hc). apply elem_of_list_In, in_map_iff in Hc as (k & <- & Hk).
    apply elem_of_list_In in Hk. by exists o.
  - intros (o & Ho & Hk & Hs). exists (cl_name c), (map (λ k, Clock (cl_name c) k (lo_size o)) (lo_keys o)). split.
    + apply elem_of_tab_list. eauto.
    + apply elem_of_list_In, in_map_iff. exists (cl_key c). split; [destruct c; simpl in *; congruence|by apply elem_of_list_In].
Qed.

Lemma table_holds_NoDup cfg s : Inv cfg s → NoDup (table_holds (table_view s)).
Proof.
  intros HI. rewrite table_holds_view. apply NoDup_concat_snd.
  - assert ((tab_list (map_to_list (st_locks s))).*1 = (map_to_list (st_locks s)).*1) as ->.
    { unfold tab_list. generalize (map_to_list (st_locks s)). intros ml. induction ml as [|[n o] ml IH]; [done|]. simpl. by f_equal. }
    apply NoDup_fst_map_to_list.
  - intros n v (o & Ho & ->)%elem_of_tab_list. destruct (inv_cap _ _ HI _ _ Ho) as (_ & _ & Hnd).
    rewrite list_map_fmap. apply NoDup_fmap_2_strong; [|done]. intros k1 k2 _ _ [= ->]. done.
  - intros n1 v1 n2 v2 c (o1 & _ & ->)%elem_of_tab_list (o2 & _ & ->)%elem_of_tab_list H1 H2.
    apply elem_of_list_In, in_map_iff in H1 as (? & <- & _). apply elem_of_list_In, in_map_iff in H2 as (? & [= -> _ _] & _). done.
Qed.

Lemma listing_table_perm cfg s : Inv cfg s → listing s ≡ₚ table_holds (table_view s).
Proof.
  intros HI. apply NoDup_Permutation; [by eapply listing_NoDup|by eapply table_holds_NoDup|].
  intros c. rewrite elem_of_table_holds. apply (inv_views _ _ HI).
Qed.

Lemma file_pairs_snd fl : map snd (file_pairs fl) = concat (map snd fl).
Proof.
  induction fl as [|[sid l] fl IH]; [done|]. unfold file_pairs in *. simpl. rewrite map_app, IH. f_equal.
  rewrite map_map. simpl. apply map_id.
Qed.

Lemma file_listing_perm cfg s : Inv cfg s → c_file cfg = true →
  map snd (file_pairs (default [] (file_view s))) ≡ₚ listing s.
Proof.
  intros HI Hf. rewrite file_pairs_snd.
  assert (concat (map snd (default [] (file_view s))) = file_clocks s) as ->.
  { unfold file_view, file_clocks. by destruct (st_file s). }
  pose proof (inv_file_eq _ _ HI Hf) as Hfe.
  apply NoDup_Permutation; [|by eapply listing_NoDup|intros c; by apply (inv_views _ _ HI)].
  unfold file_clocks. destruct (st_file s) as [m|]; [|constructor]. simpl in Hfe.
  assert (∀ sid l, m !! sid = Some l → l = [] ∨ st_sessions s !! sid = Some l) as Hm.
  { intros sid l Hl. specialize (Hfe sid). rewrite Hl in Hfe. simpl in Hfe. destruct (st_sessions s !! sid); simpl in *; subst; auto. }
  apply NoDup_concat_map.
  - intros sid l Hl. destruct (Hm _ _ Hl) as [->|Hs]; [constructor|]. by eapply (inv_nodup _ _ HI).
  - intros sid1 sid2 l1 l2 c H1 H2 Hc1 Hc2.
    destruct (Hm _ _ H1) as [->|Hs1]; [by apply elem_of_nil in Hc1|]. destruct (Hm _ _ H2) as [->|Hs2]; [by apply elem_of_nil in Hc2|].
    by eapply (inv_owner _ _ HI).
Qed.

(** ** The tracker's holds against the views *)

Section views.
  Context (X : nat → string → Prop) (cfg : config) (s : sstate) (t : tstate).
  Context (HI : Inv cfg s) (HT : TR X cfg s t).

  Lemma TR_holds_NoDup : NoDup (hold_clock <$> t_holds t).
  Proof.
    pose proof (hr_nodup _ _ _ _ _ _ (tr_holds _ _ _ _ HT)) as H.
    assert (hkey <$> t_holds t = ckey <$> (hold_clock <$> t_holds t)) as E by (by rewrite <- list_fmap_compose).
    rewrite E in H. by apply NoDup_fmap_1 in H.
  Qed.

  Lemma TR_holds_table : hold_clock <$> t_holds t ≡ₚ table_holds (table_view s).
  Proof.
    apply NoDup_Permutation; [apply TR_holds_NoDup|by eapply table_holds_NoDup|]. intros c. rewrite elem_of_table_holds.
    pose proof (tr_holds _ _ _ _ HT) as HH. split.
    - intros (h & -> & Hh)%elem_of_list_fmap. by apply (hr_tab _ _ _ _ _ _ HH).
    - intros Hc. destruct (hr_all _ _ _ _ _ _ HH c Hc) as [[]%elem_of_nil|(h & Hh & <-)]. apply elem_of_list_fmap. eauto.
  Qed.

  Lemma TR_count n : count_name n t = match st_locks s !! n with Some o => Z.of_nat (length (lo_keys o)) | None => 0 end.
  Proof.
    pose proof (tr_holds _ _ _ _ HT) as HH. unfold count_name. fold (on_name n (t_holds t)).
    destruct (st_locks s !! n) as [o|] eqn:Ho.
    - erewrite hr_count_eq; [done|exact HH| |done|done]. intros n' o' Ho'. by destruct (inv_cap _ _ HI _ _ Ho') as (_ & _ & ?).
    - by erewrite hr_on_name_none.
  Qed.

  Lemma TR_live_some n k : SeqDefs.live s n k →
    ∃ h, Track.live n k t = Some h ∧ h ∈ t_holds t ∧ h_name h = n ∧ h_key h = k.
  Proof. intros Hl. eapply hr_live_some; [apply (tr_holds _ _ _ _ HT)|done|apply not_elem_of_nil]. Qed.

  Lemma TR_live_none n k : ¬ SeqDefs.live s n k → Track.live n k t = None.
  Proof. intros Hl. unfold Track.live. fold (nk_filter n k). by erewrite hr_live_none; [|apply (tr_holds _ _ _ _ HT)|]. Qed.

  (** the size the tracker knows for a lock is the size of the model's lock object *)
  Lemma TR_known_size n sz : known_size n t = Some sz → ∃ o, st_locks s !! n = Some o ∧ lo_size o = sz.
  Proof.
    unfold known_size. fold (on_name n (t_holds t)). destruct (on_name n (t_holds t)) as [|h r] eqn:E.
    - unfold waiters_on. fold (won n (t_waiters t)). destruct (won n (t_waiters t)) as [|tw r] eqn:Ew; [done|]. intros [= <-].
      assert (tw ∈ won n (t_waiters t)) as Hin by (rewrite Ew; left). apply elem_of_lfilter in Hin as [Hn%bool_decide_eq_true Hin].
      destruct (Forall2_elem_r _ _ _ _ (tr_waiters _ _ _ _ HT) Hin) as (w & Hw & (_ & Hnm & _ & Hs & _)).
      destruct (inv_waiters _ _ HI w Hw) as [(o & Ho & _ & Hz) _]. exists o. split; congruence.
    - intros [= <-]. eapply hr_size; [apply (tr_holds _ _ _ _ HT)|]. rewrite E. left.
  Qed.

  Lemma TR_known_size_none n : known_size n t = None → on_name n (t_holds t) = [] ∧ name_waiters n (st_waiters s) = [].
  Proof.
    unfold known_size. fold (on_name n (t_holds t)). destruct (on_name n (t_holds t)) as [|h r] eqn:E; [|done].
    unfold waiters_on. fold (won n (t_waiters t)). destruct (won n (t_waiters t)) as [|tw r] eqn:Ew; [|done]. intros _. split; [done|].
    pose proof (WR_name _ _ n (tr_waiters _ _ _ _ HT)) as HN. rewrite Ew in HN. by inversion HN.
  Qed.
End views.

(** ** EProbe *)

Lemma resolve_pending_nil th t : t_pending t = [] → resolve_pending th t = t <| t_pending := [] |>.
Proof. unfold resolve_pending. by intros ->. Qed.

Lemma track_probe_ok X cfg i s t : Inv cfg s → TR X cfg s t →
  TR X cfg s (track_step0 cfg i EProbe [OListing (listing s); OFile (file_view s); OTable (table_view s)] t).
Proof.
  intros HI HT. simpl. unfold t_probe. simpl. rewrite (resolve_pending_nil _ _ (tr_pending _ _ _ _ HT)).
  set (t0 := t <| t_pending := [] |>).
  assert (TR X cfg s t0) as HT0 by (destruct HT; by split).
  rewrite (flag_true _ _ (perm_by eqb_dec (listing s) _)) by (apply perm_by_perm; by eapply listing_table_perm).
  rewrite (flag_true _ "C08:file-vs-listing").
  2:{ destruct (c_file cfg) eqn:Hf; [|done]. simpl. apply perm_by_perm. by eapply file_listing_perm. }
  rewrite (flag_true _ "C01:table-over-capacity").
  2:{ apply forallb_forall. intros [n [[sz ks] la]] Hin. unfold table_view in Hin. apply in_map_iff in Hin as ([n' o] & [= -> <- <- <-] & Hin).
      apply elem_of_list_In, elem_of_map_to_list in Hin. destruct (inv_cap _ _ HI _ _ Hin) as (_ & ? & _). lia. }
  rewrite (flag_true _ "HOLDS:table-vs-expected-live-holds") by (apply perm_by_perm; by eapply TR_holds_table).
  rewrite (flag_true _ "C03:capacity-idle-while-waiting").
  2:{ apply forallb_forall. intros tw Hin%elem_of_list_In. apply bool_decide_eq_true.
      destruct (Forall2_elem_r _ _ _ _ (tr_waiters _ _ _ _ HT0) Hin) as (w & Hw & (_ & Hnm & _ & Hs & _)).
      destruct (inv_waiters _ _ HI w Hw) as [(o & Ho & Hfull & Hz) _]. rewrite (TR_count X cfg s t0 HI HT0), Hnm, Ho. lia. }
  rewrite flag_true; [done|].
  apply forallb_forall. intros tw Hin%elem_of_list_In.
  destruct (Forall2_elem_r _ _ _ _ (tr_waiters _ _ _ _ HT0) Hin) as (w & Hw & (_ & _ & _ & _ & _ & Hd)).
  destruct (inv_waiters _ _ HI w Hw) as [_ Hfut]. unfold wait_dl in Hd. destruct (tw_wt tw) as [v|]; [|done].
  destruct (0 <? v); [|done]. specialize (Hfut _ Hd). rewrite (tr_now _ _ _ _ HT0). lia.
Qed.

(** ** EIpcList *)

Lemma track_ipclist_ok X cfg i s t : Inv cfg s → TR X cfg s t →
  TR X cfg s (track_step0 cfg i EIpcList [OIpcList (listing s)] t).
Proof.
  intros HI HT. simpl. rewrite flag_true; [done|]. apply orb_true_iff. left. apply perm_by_perm.
  rewrite (listing_table_perm _ _ HI). symmetry. by eapply TR_holds_table.
Qed.

(** ** EConnect *)

Lemma track_connect_ok X cfg i s t sid :
  sid ∉ st_used s → st_sessions s !! sid = None → sid ∉ w_sid <$> st_waiters s → TR X cfg s t →
  TR X cfg (match st_sessions s !! sid with
            | Some _ => s
            | None => s <| st_sessions := <[sid := []]> (st_sessions s) |>
            end <| st_used := sid :: st_used s |>) (track_step0 cfg i (EConnect sid) [] t).
Proof.
  intros Hu Hs Hw [H1 H2 H3 H4 (K1 & K2 & K3) H6]. rewrite Hs. simpl.
  rewrite flag_true.
  2:{ apply negb_true_iff, orb_false_iff. split; [apply orb_false_iff; split|]; apply bool_decide_eq_false.
      - intros Hin. by apply Hu, K2.
      - intros (h' & Eh & Hh%elem_of_list_In)%elem_of_list_In%in_map_iff.
        destruct (hr_sid _ _ _ _ _ _ H3 h' Hh) as (l & Hl & _). congruence.
      - intros (tw & <- & Htw%elem_of_list_In)%elem_of_list_In%in_map_iff.
        destruct (Forall2_elem_r _ _ _ _ H4 Htw) as (w & Hw' & (_ & _ & Es & _)). apply Hw. rewrite Es. apply elem_of_list_fmap. eauto. }
  split; simpl; try done.
  - eapply HR_change; [exact H3|..]; try done.
    + intros h Hh. by apply (hr_tab _ _ _ _ _ _ H3).
    + intros c Hc. right. split; [done|apply not_elem_of_nil].
    + intros h l Hh Hsl Hc. rewrite lookup_insert_ne; [eauto|]. intros Es. rewrite Es in Hs. congruence.
    + by intros n k ?%elem_of_nil.
  - split_and!; simpl.
    + intros k Hk. right. by apply K1.
    + intros x [->|Hx]%elem_of_cons; [left|right; by apply K2].
    + done.
Qed.
