(** Effect of one step of Msv on the lock table: which keys become live, which stop being live, which releases are
    recorded in the ghost trace. Work package svsess. *)
From Coq Require Import Lia ZifyBool ZifyNat.
From Ldlm Require Import Model.Base Model.Err Model.Sv Proofs.SvDefs Proofs.SvSessBase Proofs.SvSessThr.
From RecordUpdate Require Import RecordSet.
Import RecordSetNotations.
Local Open Scope Z_scope.

Definition live_in (m : gmap str alock) (n k : str) : Prop := ∃ a, m !! n = Some a ∧ k ∈ al_live a.
Lemma slive_live_in s n k : slive s n k ↔ live_in (v_locks s) n k.
Proof. reflexivity. Qed.
Lemma slive_locks s s' n k : v_locks s' = v_locks s → slive s' n k ↔ slive s n k.
Proof. unfold slive. by intros ->. Qed.
Lemma live_in_insert m n0 a' n k : live_in (<[n0 := a']> m) n k ↔ (n = n0 ∧ k ∈ al_live a') ∨ (n ≠ n0 ∧ live_in m n k).
Proof.
  unfold live_in. destruct (decide (n = n0)) as [->|Hne].
  - rewrite lookup_insert. naive_solver.
  - rewrite lookup_insert_ne by done. naive_solver.
Qed.

(** the state after a release of [key] on [name] (whose lock object is [a]) with the hand-over *)
Definition rel_state (tid : nat) (name key : str) (a : alock) (s : svstate) : svstate :=
  hand_over name (vemit (SvReleased tid name key) (s <| v_locks := <[name := a <| al_live := remove_first key (al_live a) |>]> (v_locks s) |>)).

Lemma mgr_unlock_cases tid name key s :
  (mgr_unlock tid name key s).1 = s ∧ sr_ok (mgr_unlock tid name key s).2 = false ∧
    (v_mgrshut s = false → ¬ slive s name key) ∨
  ∃ a, v_mgrshut s = false ∧ v_locks s !! name = Some a ∧ key ∈ al_live a ∧
       mgr_unlock tid name key s = (rel_state tid name key a s, SResp true None).
Proof.
  unfold mgr_unlock. destruct (v_mgrshut s) eqn:Hsh; [left; simpl; split_and!; done|].
  destruct (v_locks s !! name) as [a|] eqn:Ha.
  - case_bool_decide as Hk.
    + right. exists a. split_and!; done.
    + left. simpl. split_and!; [done..|]. intros _ (a' & Ha' & Hk'). congruence.
  - left. simpl. split_and!; [done..|]. intros _ (a' & Ha' & Hk'). congruence.
Qed.

Lemma key_of_thr_rel tid name key a s w :
  key_of_thr (vemit (SvReleased tid name key) (s <| v_locks := <[name := a <| al_live := remove_first key (al_live a) |>]> (v_locks s) |>)) w = key_of_thr s w.
Proof. reflexivity. Qed.

Lemma rel_state_eq tid name key a s :
  rel_state tid name key a s =
  match al_q a with
  | w :: q' =>
      if Z.of_nat (length (remove_first key (al_live a))) <? al_size a then
        vemit (SvAcquired w name (key_of_thr s w))
          (vset_pc w VWoken (vemit (SvReleased tid name key)
             (s <| v_locks := <[name := a <| al_live := remove_first key (al_live a) ++ [key_of_thr s w] |> <| al_q := q' |>]> (v_locks s) |>)))
      else vemit (SvReleased tid name key) (s <| v_locks := <[name := a <| al_live := remove_first key (al_live a) |>]> (v_locks s) |>)
  | [] => vemit (SvReleased tid name key) (s <| v_locks := <[name := a <| al_live := remove_first key (al_live a) |>]> (v_locks s) |>)
  end.
Proof.
  unfold rel_state, hand_over. simpl. rewrite lookup_insert. simpl.
  destruct (al_q a) as [|w q']; [done|]. case_match; [|done].
  unfold vemit, vset_pc. simpl. rewrite insert_insert. reflexivity.
Qed.

Lemma rel_state_locks tid name key a s :
  ∃ a', v_locks (rel_state tid name key a s) = <[name := a']> (v_locks s) ∧
        ((al_live a' = remove_first key (al_live a) ∧ al_q a' = al_q a) ∨
         (∃ w q', al_q a = w :: q' ∧ al_live a' = remove_first key (al_live a) ++ [key_of_thr s w] ∧ al_q a' = q' ∧
                  Z.of_nat (length (remove_first key (al_live a))) < al_size a)) ∧ al_size a' = al_size a.
Proof.
  rewrite rel_state_eq. destruct (al_q a) as [|w q'] eqn:Hq.
  - eexists. split; [reflexivity|]. split; [left; done|done].
  - case_match.
    + eexists. split; [autorewrite with svframe; simpl; reflexivity|]. split; [right|done]. eexists _, _. split_and!; [done..|lia].
    + eexists. split; [reflexivity|]. split; [left; done|done].
Qed.

Lemma rel_state_trace tid name key a s :
  ∃ evs, v_trace (rel_state tid name key a s) = evs ++ SvReleased tid name key :: v_trace s ∧
         ∀ e, e ∈ evs → ∃ w k, e = SvAcquired w name k.
Proof.
  rewrite rel_state_eq. destruct (al_q a) as [|w q'] eqn:Hq.
  - exists []. split; [done|]. intros e []%elem_of_nil.
  - case_match.
    + eexists [_]. split; [simpl; rewrite vset_pc_v_trace; reflexivity|]. intros e ->%elem_of_list_singleton. eauto.
    + exists []. split; [done|]. intros e []%elem_of_nil.
Qed.

(** ** count_released *)
Lemma count_released_app n k l1 l2 : count_released n k (l1 ++ l2) = (count_released n k l1 + count_released n k l2)%nat.
Proof. induction l1 as [|e l1 IH]; simpl; [done|]. destruct e; simpl; rewrite ?IH; lia. Qed.
Lemma count_released_none n k l : (∀ e, e ∈ l → ∀ t n' k', e ≠ SvReleased t n' k') → count_released n k l = 0%nat.
Proof.
  induction l as [|e l IH]; simpl; [done|]. intros H. destruct e; try (apply IH; intros; apply H; by right).
  exfalso. eapply (H _ (elem_of_list_here _ _)). reflexivity.
Qed.
Lemma rel_state_count tid name key a s n k :
  count_released n k (v_trace (rel_state tid name key a s)) =
  ((if bool_decide (name = n ∧ key = k) then 1 else 0) + count_released n k (v_trace s))%nat.
Proof.
  destruct (rel_state_trace tid name key a s) as (evs & -> & Hevs).
  rewrite count_released_app. simpl. rewrite count_released_none; [done|].
  intros e He t n' k' ->. apply Hevs in He as (? & ? & ?). done.
Qed.

(** ** trace extension without release events *)
Definition is_rel (e : sev) : bool := match e with SvReleased _ _ _ => true | _ => false end.
Definition tr_ext (tr0 tr : list sev) : Prop := ∃ evs, tr = evs ++ tr0 ∧ forallb (λ e, negb (is_rel e)) evs = true.
Lemma tr_ext_refl tr : tr_ext tr tr.
Proof. by exists []. Qed.
Lemma tr_ext_cons tr0 tr e : is_rel e = false → tr_ext tr0 tr → tr_ext tr0 (e :: tr).
Proof. intros He (evs & -> & Hevs). exists (e :: evs). split; [done|]. simpl. by rewrite He. Qed.
Lemma tr_ext_trans tr0 tr1 tr2 : tr_ext tr0 tr1 → tr_ext tr1 tr2 → tr_ext tr0 tr2.
Proof.
  intros (e1 & -> & H1) (e2 & -> & H2). exists (e2 ++ e1). split; [by rewrite app_assoc|].
  rewrite forallb_app. by rewrite H1, H2.
Qed.
Lemma tr_ext_count n k tr0 tr : tr_ext tr0 tr → count_released n k tr = count_released n k tr0.
Proof.
  intros (evs & -> & Hevs). rewrite count_released_app, count_released_none; [done|].
  intros e He t n' k' ->. rewrite forallb_forall in Hevs. apply elem_of_list_In, Hevs in He. done.
Qed.
Lemma tr_ext_elem tr0 tr e : tr_ext tr0 tr → e ∈ tr0 → e ∈ tr.
Proof. intros (evs & -> & _) He. apply elem_of_app. by right. Qed.

Lemma tr_ext_vemit tr0 e s : is_rel e = false → tr_ext tr0 (v_trace s) → tr_ext tr0 (v_trace (vemit e s)).
Proof. intros. simpl. by apply tr_ext_cons. Qed.
Lemma tr_ext_vfinish tr0 tid r s : tr_ext tr0 (v_trace s) → tr_ext tr0 (v_trace (vfinish tid r s)).
Proof. intros. unfold vfinish. apply tr_ext_vemit; [done|]. by rewrite vset_pc_v_trace. Qed.
Lemma tr_ext_sess_add tr0 cfg tid sid c s : tr_ext tr0 (v_trace s) → tr_ext tr0 (v_trace (sess_add cfg tid sid c s)).
Proof. intros. unfold sess_add. apply tr_ext_vemit; [done|]. by rewrite vsave_v_trace. Qed.
Lemma tr_ext_sess_remove tr0 cfg tid n k s : tr_ext tr0 (v_trace s) → tr_ext tr0 (v_trace (sess_remove cfg tid n k s)).
Proof. intros. unfold sess_remove. apply tr_ext_vemit; [done|]. case_match; by rewrite ?vsave_v_trace. Qed.
Lemma tr_ext_sess_destroy tr0 cfg tid sid s : tr_ext tr0 (v_trace s) → tr_ext tr0 (v_trace (sess_destroy cfg tid sid s).1).
Proof. intros. unfold sess_destroy. case_match; simpl; [apply tr_ext_cons; [done|]; by rewrite vsave_v_trace|done]. Qed.
Lemma tr_ext_hand_over tr0 name s : tr_ext tr0 (v_trace s) → tr_ext tr0 (v_trace (hand_over name s)).
Proof.
  intros. rewrite hand_over_eq. destruct (ho_grant name s) as [[[a w] q']|]; [|done].
  apply tr_ext_vemit; [done|]. by rewrite vset_pc_v_trace.
Qed.
Lemma tr_ext_spawn_all tr0 (l : list str) s : tr_ext tr0 (v_trace s) →
  tr_ext tr0 (v_trace (fold_left (λ s sid, vemit (SvConnEnd sid) (spawn (SConnEnd sid) VDsFlag s)) l s)).
Proof. intros H. apply (fold_left_inv (λ s', tr_ext tr0 (v_trace s'))); [done|]. intros s' sid H' _. first [apply tr_ext_vemit|apply tr_xs_vemit]; [done|]. by rewrite spawn_v_trace. Qed.
Lemma tr_ext_fire_due tr0 s : tr_ext tr0 (v_trace s) → tr_ext tr0 (v_trace (fire_due s)).
Proof.
  intros H. unfold fire_due. apply (fold_left_inv (λ s', tr_ext tr0 (v_trace s'))); [done|].
  intros s' [id tm] H' _. repeat case_match; try done. apply tr_ext_vemit; [done|]. by rewrite spawn_v_trace.
Qed.

Ltac tr_tac :=
  repeat first [ apply tr_ext_refl
               | apply tr_ext_vfinish | apply tr_ext_sess_add | apply tr_ext_sess_remove | apply tr_ext_sess_destroy
               | apply tr_ext_hand_over | apply tr_ext_spawn_all | apply tr_ext_fire_due
               | apply tr_ext_vemit; [reflexivity|]
               | progress (autorewrite with svframe) | progress simpl ].

(** v_locks through the folds *)
Lemma spawn_all_v_locks (l : list str) s : v_locks (fold_left (λ s sid, vemit (SvConnEnd sid) (spawn (SConnEnd sid) VDsFlag s)) l s) = v_locks s.
Proof. apply (fold_left_inv (λ s', v_locks s' = v_locks s)); [done|]. intros s' sid H' _. by rewrite vemit_v_locks, spawn_v_locks. Qed.
Lemma fire_due_v_locks s : v_locks (fire_due s) = v_locks s.
Proof.
  unfold fire_due. apply (fold_left_inv (λ s', v_locks s' = v_locks s)); [done|].
  intros s' [id tm] H' _. repeat case_match; rewrite ?vemit_v_locks, ?spawn_v_locks; done.
Qed.

(** ** who can release *)
Definition releaser (s : svstate) (t : sthread) (n k : str) : Prop :=
  (st_op t = SUnlock n k ∧ st_pc t = VMgrUnlock) ∨
  (∃ id tm, st_op t = SExpire id ∧ st_pc t = VCbUnlock ∧ v_theap s !! id = Some tm ∧ tm_n tm = n ∧ tm_k tm = k) ∨
  (∃ sid c rest, st_op t = SConnEnd sid ∧ st_pc t = VDsUnlock c rest ∧ cl_name c = n ∧ cl_key c = k) ∨
  (∃ sid z lt e, st_op t = SLock sid n k z lt ∧ st_pc t = VWoken ∧ st_cancel t = Some e).

Definition lock_eff (s : svstate) (it : sitem) (s' : svstate) : Prop :=
  (v_locks s' = v_locks s ∧ tr_ext (v_trace s) (v_trace s'))
  ∨ (∃ n a' z, v_locks s' = <[n := a']> (v_locks s) ∧ tr_ext (v_trace s) (v_trace s') ∧
       (al_live a' = al_live (default (ALock z [] []) (v_locks s !! n)) ∨
        ∃ tid t sid k lt, it = VRun tid ∧ v_thr s !! tid = Some t ∧
          (st_op t = STry sid n k z lt ∧ st_pc t = VMgrTry ∨ st_op t = SLock sid n k z lt ∧ st_pc t = VMgrLock) ∧
          al_live a' = al_live (default (ALock z [] []) (v_locks s !! n)) ++ [k]))
  ∨ (∃ tid t name key a, it = VRun tid ∧ v_thr s !! tid = Some t ∧ releaser s t name key ∧ v_locks s !! name = Some a ∧
       v_locks s' = v_locks (rel_state tid name key a s) ∧ tr_ext (v_trace (rel_state tid name key a s)) (v_trace s') ∧
       (key ∈ al_live a ∨ st_pc t = VWoken)).

Lemma lock_eff_same s it s' : v_locks s' = v_locks s → tr_ext (v_trace s) (v_trace s') → lock_eff s it s'.
Proof. intros. left. done. Qed.

Lemma lock_eff_unlock s tid t name key X :
  v_thr s !! tid = Some t → releaser s t name key →
  v_locks X = v_locks (mgr_unlock tid name key s).1 → tr_ext (v_trace (mgr_unlock tid name key s).1) (v_trace X) →
  lock_eff s (VRun tid) X.
Proof.
  intros Ht Hrel HL HT. destruct (mgr_unlock_cases tid name key s) as [(H1 & _)|(a & Hsh & Ha & Hk & Hmu)].
  - rewrite H1 in HL, HT. by left.
  - rewrite Hmu in HL, HT. simpl in HL, HT. right; right. exists tid, t, name, key, a. split_and!; try done. by left.
Qed.

Lemma vrun_thread_lock_eff cfg tid t s : v_thr s !! tid = Some t → lock_eff s (VRun tid) (vrun_thread cfg tid t s).
Proof.
  intros Ht. destruct t as [op pc cn]. unfold vrun_thread. cbn [st_pc st_op st_cancel].
  destruct pc, op; try (apply lock_eff_same; [done|apply tr_ext_refl]).
  all: repeat case_match; subst; pair_norm.
  all: try (apply lock_eff_same; [by autorewrite with svframe|tr_tac; fail]).
  (* grants *)
  1,4: (right; left; eexists _, _, size; split_and!; [autorewrite with svframe; simpl; reflexivity|tr_tac|];
        right; eexists tid, _, _, _, _; split_and!; [done|exact Ht|simpl; eauto|done]).
  (* refused / enqueued / context ended before the attempt *)
  1-3: (right; left; eexists _, _, size; split_and!; [autorewrite with svframe; simpl; reflexivity|tr_tac|]; by left).
  (* a parked call gives up: it leaves the queue *)
  - right; left. eexists _, _, 0; split_and!; [autorewrite with svframe; simpl; reflexivity|tr_tac|]. left.
    match goal with H : v_locks s !! _ = Some _ |- _ => rewrite H end. done.
  (* a woken call whose context has ended gives the unit back *)
  - right; right. eexists tid, _, _, _, _. split_and!; [done|exact Ht| |eassumption| | |by right].
    + right; right; right. simpl. eauto 8.
    + unfold rel_state. by autorewrite with svframe.
    + unfold rel_state. tr_tac.
  (* Unlock *)
  - eapply lock_eff_unlock; [exact Ht|left; done|by autorewrite with svframe|tr_tac].
  - eapply lock_eff_unlock; [exact Ht|left; done|by autorewrite with svframe|tr_tac].
  (* expiry *)
  - eapply lock_eff_unlock; [exact Ht|right; left; simpl; eauto 8|by autorewrite with svframe|tr_tac].
  (* session end *)
  - eapply lock_eff_unlock; [exact Ht|right; right; left; simpl; eauto 8|by autorewrite with svframe|tr_tac].
  (* network stop *)
  - apply lock_eff_same; [autorewrite with svframe; by rewrite spawn_all_v_locks|tr_tac].
Qed.

Lemma vstep_lock_eff cfg s it : v_crashed s = false → lock_eff s it (vstep cfg s it).
Proof.
  intros Hc. unfold vstep. rewrite Hc.
  destruct it as [tid op|tid|tid cause|sid|sid|dt|].
  - repeat case_match; apply lock_eff_same; try done; try apply tr_ext_refl. tr_tac.
  - destruct (v_thr s !! tid) as [t|] eqn:Ht; [by apply vrun_thread_lock_eff|apply lock_eff_same; [done|apply tr_ext_refl]].
  - repeat case_match; apply lock_eff_same; try done; apply tr_ext_refl.
  - apply lock_eff_same; [by case_match|]. apply tr_ext_vemit; [done|]. case_match; apply tr_ext_refl.
  - apply lock_eff_same; [done|]. tr_tac.
  - apply lock_eff_same; [by rewrite fire_due_v_locks|]. tr_tac.
  - apply lock_eff_same; [done|]. tr_tac.
Qed.

(** ** consequences for liveness of keys *)
Definition pre_grant (pc : spc) : Prop := pc = VMgrTry ∨ pc = VMgrLock ∨ pc = VWait.
Definition post_grant (pc : spc) : Prop := pc = VWoken ∨ pc = VSessAdd ∨ pc = VTmAdd ∨ ∃ r, pc = VFin r.

Lemma key_of_thr_lock s w t sid n k z lt : v_thr s !! w = Some t → st_op t = SLock sid n k z lt → key_of_thr s w = k.
Proof. unfold key_of_thr. by intros -> ->. Qed.

(** a key becomes live only by the grant to its own call: at that call's own step, or by a hand-over to it while parked *)
Lemma vstep_live_new' cfg s it n k : SvInv cfg s → slive (vstep cfg s it) n k →
  slive s n k ∨ ∃ tid t sid z, v_thr s !! tid = Some t ∧ acquirer t sid n k z ∧
     ((it = VRun tid ∧ (st_pc t = VMgrTry ∨ st_pc t = VMgrLock)) ∨
      (st_pc t = VWait ∧ (∃ lt, st_op t = SLock sid n k z lt) ∧ ∃ tr ttr n' k', it = VRun tr ∧ v_thr s !! tr = Some ttr ∧ releaser s ttr n' k')).
Proof.
  intros HI. rewrite !slive_live_in.
  destruct (vstep_lock_eff cfg s it (vi_not_crashed _ _ HI)) as [[-> _]|[(n0 & a' & z & -> & _ & Hl)|(tid & t & name & key & a & Hit & Ht & Hrel & Ha & -> & _ & _)]]; [by left| |].
  - rewrite live_in_insert. intros [[-> Hk]|[_ ?]]; [|by left].
    destruct Hl as [Hl|(tid & t & sid & k0 & lt & Hit & Ht & Hop & Hl)]; rewrite Hl in Hk.
    + left. destruct (v_locks s !! n0) as [a|] eqn:Ha; simpl in Hk; [by exists a|by apply elem_of_nil in Hk].
    + apply elem_of_app in Hk as [Hk|Hk%elem_of_list_singleton].
      * left. destruct (v_locks s !! n0) as [a|] eqn:Ha; simpl in Hk; [by exists a|by apply elem_of_nil in Hk].
      * subst k0. right. exists tid, t, sid, z. split; [done|].
        destruct Hop as [[Hop Hpc]|[Hop Hpc]]; (split; [exists lt; eauto|left; split; [done|rewrite Hpc; eauto]]).
  - destruct (rel_state_locks tid name key a s) as (a' & -> & Hl & _). rewrite live_in_insert.
    intros [[-> Hk]|[_ ?]]; [|by left].
    destruct Hl as [[Hl _]|(w & q' & Hq & Hl & _)]; rewrite Hl in Hk.
    + left. exists a. split; [done|]. by eapply elem_of_remove_first.
    + apply elem_of_app in Hk as [Hk|Hk%elem_of_list_singleton].
      * left. exists a. split; [done|]. by eapply elem_of_remove_first.
      * right. destruct (proj1 (vi_queue _ _ HI name a w Ha)) as (tw & sid & kw & z & lt & Htw & Hop & Hpc); [rewrite Hq; left|].
        rewrite (key_of_thr_lock _ _ _ _ _ _ _ _ Htw Hop) in Hk. subst kw.
        exists w, tw, sid, z. split; [done|]. split; [exists lt; eauto|right; split; [done|split; [eauto|eauto 10]]].
Qed.
Lemma vstep_live_new cfg s it n k : SvInv cfg s → slive (vstep cfg s it) n k →
  slive s n k ∨ ∃ tid t sid z, v_thr s !! tid = Some t ∧ acquirer t sid n k z ∧ pre_grant (st_pc t).
Proof.
  intros HI Hl. apply (vstep_live_new' cfg s it n k HI) in Hl as [?|(tid & t & sid & z & Ht & Hacq & Hpc)]; [by left|right].
  exists tid, t, sid, z. split_and!; [done..|]. unfold pre_grant. naive_solver.
Qed.

(** a key stops being live only by a release step *)
Lemma vstep_live_lost cfg s it n k : SvInv cfg s → slive s n k → ¬ slive (vstep cfg s it) n k →
  ∃ tid t, it = VRun tid ∧ v_thr s !! tid = Some t ∧ releaser s t n k.
Proof.
  intros HI. rewrite !slive_live_in. intros (a0 & Ha0 & Hk0).
  destruct (vstep_lock_eff cfg s it (vi_not_crashed _ _ HI)) as [[-> _]|[(n0 & a' & z & -> & _ & Hl)|(tid & t & name & key & a & -> & Ht & Hrel & Ha & -> & _ & _)]].
  - intros []. by exists a0.
  - rewrite live_in_insert. intros []. destruct (decide (n = n0)) as [->|Hne]; [left|right; split; [done|by exists a0]].
    split; [done|]. rewrite Ha0 in Hl. simpl in Hl. destruct Hl as [->|(? & ? & ? & ? & ? & _ & _ & _ & ->)]; [done|].
    apply elem_of_app; by left.
  - destruct (rel_state_locks tid name key a s) as (a' & -> & Hl & _). rewrite live_in_insert. intros Hn.
    destruct (decide (n = name ∧ k = key)) as [[-> ->]|Hne]; [by exists tid, t|]. destruct Hn.
    destruct (decide (n = name)) as [->|Hnn]; [left|right; split; [done|by exists a0]].
    split; [done|]. assert (k ≠ key) by naive_solver. simplify_eq.
    destruct Hl as [[-> _]|(w & q' & Hq & -> & _)]; [by apply elem_of_remove_first_ne|].
    apply elem_of_app; left. by apply elem_of_remove_first_ne.
Qed.

(** the release count of a key changes only by a release step of a live key, which leaves it not live *)
Lemma vstep_count cfg s it n k : SvInv cfg s →
  let s' := vstep cfg s it in
  count_released n k (v_trace s') = count_released n k (v_trace s) ∨
  (count_released n k (v_trace s') = S (count_released n k (v_trace s)) ∧ ¬ slive s' n k ∧
   ∃ tid t, it = VRun tid ∧ v_thr s !! tid = Some t ∧ releaser s t n k ∧ (slive s n k ∨ st_pc t = VWoken)).
Proof.
  intros HI s'. subst s'.
  destruct (vstep_lock_eff cfg s it (vi_not_crashed _ _ HI)) as [[_ Htr]|[(n0 & a' & z & _ & Htr & _)|(tid & t & name & key & a & -> & Ht & Hrel & Ha & HL & Htr & Hk)]].
  - left. by apply tr_ext_count.
  - left. by apply tr_ext_count.
  - rewrite (tr_ext_count _ _ _ _ Htr), rel_state_count. case_bool_decide as Hnk; [|by left]. destruct Hnk as [-> ->]. right.
    split; [done|]. split; [|exists tid, t; split_and!; [done..|]; destruct Hk; [left; by exists a|by right]].
    rewrite slive_live_in, HL. destruct (rel_state_locks tid n k a s) as (a' & -> & Hl & _). rewrite live_in_insert.
    destruct (vi_cap _ _ HI n a Ha) as (_ & _ & Hnd & _).
    intros [[_ Hin]|[? _]]; [|done].
    destruct Hl as [[Hl _]|(w & q' & Hq & Hl & _)]; rewrite Hl in Hin; [by eapply not_elem_of_remove_first|].
    apply elem_of_app in Hin as [Hin|Hin%elem_of_list_singleton]; [by eapply not_elem_of_remove_first|].
    (* the parked call handed the unit does not own key k *)
    destruct (proj1 (vi_queue _ _ HI n a w Ha)) as (tw & sid & kw & z & lt & Htw & Hop & Hpc); [rewrite Hq; left|].
    rewrite (key_of_thr_lock _ _ _ _ _ _ _ _ Htw Hop) in Hin. subst kw.
    destruct Hk as [Hk|Hk].
    + destruct (vi_live_owner _ _ HI n k) as (tid' & t' & sid' & z' & Ht' & (lt' & Hacq) & Hpc'); [by exists a|].
      assert (tid' = w) as ->.
      { eapply (vi_keys_fresh _ _ HI tid' w t' tw k); try done; destruct Hacq as [Hacq|Hacq]; rewrite ?Hacq, ?Hop; done. }
      simplify_eq. rewrite Hpc in Hpc'. naive_solver.
    + destruct Hrel as [[Ho Hp]|[(? & ? & Ho & Hp & _)|[(? & ? & ? & Ho & Hp & _)|(sid' & z' & lt' & e & Ho & Hp & _)]]]; try congruence.
      assert (tid = w) as ->.
      { eapply (vi_keys_fresh _ _ HI tid w t tw k); try done; by rewrite ?Ho, ?Hop. }
      simplify_eq. congruence.
Qed.

(** ** a parked call moves to VWoken only when its key has been made live *)
Lemma hand_over_woken name s0 x t t' :
  v_thr s0 !! x = Some t → st_pc t ≠ VWoken → v_thr (hand_over name s0) !! x = Some t' → st_pc t' = VWoken →
  ∃ a, v_locks s0 !! name = Some a ∧ x ∈ al_q a ∧ live_in (v_locks (hand_over name s0)) name (key_of_thr s0 x).
Proof.
  intros Hx Hpc. rewrite hand_over_eq. destruct (ho_grant name s0) as [[[a w] q']|] eqn:Hg; [|rewrite Hx; intros [= <-]; done].
  apply ho_grant_some in Hg as (Ha & Hqa & _).
  rewrite vemit_v_thr, vset_pc_lookup, vemit_v_locks, vset_pc_v_locks. simpl. case_decide; [subst x|rewrite Hx; intros [= <-]; done].
  intros _ _. exists a. split; [done|]. split; [rewrite Hqa; left|].
  apply live_in_insert. left. split; [done|]. simpl. apply elem_of_app. right. by apply elem_of_list_singleton.
Qed.

Lemma mgr_unlock_woken tid name key s x t t' :
  v_thr s !! x = Some t → st_pc t ≠ VWoken → v_thr (mgr_unlock tid name key s).1 !! x = Some t' → st_pc t' = VWoken →
  ∃ a, v_locks s !! name = Some a ∧ x ∈ al_q a ∧ live_in (v_locks (mgr_unlock tid name key s).1) name (key_of_thr s x).
Proof.
  intros Hx Hpc. unfold mgr_unlock. repeat case_match; simpl; try (rewrite Hx; intros [= <-]; done).
  intros Hw1 Hw2. eapply hand_over_woken in Hw1 as (a' & Ha' & Hq' & Hl); [|exact Hx|done|done].
  simpl in Ha'. rewrite lookup_insert in Ha'. simplify_eq. simpl in Hq'. eauto.
Qed.

Lemma vrun_thread_woken cfg tid t0 s x t t' : thr_bounded s → v_thr s !! tid = Some t0 → v_thr s !! x = Some t → st_pc t = VWait →
  v_thr (vrun_thread cfg tid t0 s) !! x = Some t' → st_pc t' = VWoken →
  ∃ n a, v_locks s !! n = Some a ∧ x ∈ al_q a ∧ live_in (v_locks (vrun_thread cfg tid t0 s)) n (key_of_thr s x).
Proof.
  intros Hb Ht0 Hx Hpc. assert (Hnw : st_pc t ≠ VWoken) by congruence.
  destruct t0 as [op pc cn]. unfold vrun_thread. cbn [st_pc st_op st_cancel].
  destruct (decide (x = tid)) as [->|Hne].
  { simplify_eq. simpl in Hpc. subst pc. destruct op; try (rewrite Ht0; intros [= <-]; done).
    repeat case_match; try (rewrite Ht0; intros [= <-]; done).
    unfold vfinish. rewrite vemit_v_thr, vset_pc_lookup. case_decide; [|done]. simpl. rewrite Ht0. by intros [= <-]. }
  destruct pc, op; try (rewrite Hx; intros [= <-]; congruence).
  all: unfold vfinish.
  all: repeat case_match; subst; pair_norm; rewrite ?vemit_v_thr, ?vset_pc_lookup_ne by done; try (rewrite Hx; intros [= <-]; congruence).
  all: try (autorewrite with svframe; simpl; rewrite ?Hx; intros [= <-]; congruence).
  all: try (intros Hw1 Hw2; eapply mgr_unlock_woken in Hw1 as (a' & ? & ? & ?); [|exact Hx|done|done]; eexists _, a'; split_and!; [done|done|by autorewrite with svframe]).
  - (* woken call gives the unit back *)
    intros Hw1 Hw2. eapply hand_over_woken in Hw1 as (a' & Ha' & Hq' & Hl); [|exact Hx|done|done].
    simpl in Ha'. rewrite lookup_insert in Ha'. simplify_eq. simpl in Hq'. eexists _, _. split_and!; [eassumption|done|].
    by autorewrite with svframe.
  - (* network stop *)
    match goal with |- context [fold_left _ ?l ?X] => destruct (spawn_all_thr cfg l X) as (_ & _ & Hk) end.
    { intros y ty. simpl. rewrite lookup_fmap. intros (ty0 & Hy0 & _)%fmap_Some. by eapply Hb. }
    erewrite Hk; [|simpl; rewrite lookup_fmap, Hx; reflexivity]. intros [= <-] Hw. exfalso. revert Hw. by repeat case_match.
Qed.

Lemma vstep_woken cfg s it x t t' : SvInv cfg s → v_thr s !! x = Some t → st_pc t = VWait →
  v_thr (vstep cfg s it) !! x = Some t' → st_pc t' = VWoken →
  ∃ sid n k z lt, st_op t = SLock sid n k z lt ∧ slive (vstep cfg s it) n k.
Proof.
  intros HI Hx Hpc Hx' Hpc'.
  assert (∃ tid, it = VRun tid) as [tid ->].
  { destruct it as [| tid | | | | |]; eauto; exfalso;
      (eapply (vstep_pc_norun cfg s _ x t t' HI) in Hx' as [? _]; [congruence|by intros|done]). }
  destruct (v_thr s !! tid) as [t0|] eqn:Ht0.
  - rewrite (vstep_run_lookup cfg s tid t0 (vi_not_crashed _ _ HI) Ht0) in *.
    destruct (vrun_thread_woken cfg tid t0 s x t t' (svinv_bounded _ _ HI) Ht0 Hx Hpc Hx' Hpc') as (n & a & Ha & Hq & Hl).
    destruct (proj1 (vi_queue _ _ HI n a x Ha) Hq) as (tx & sid & k & z & lt & Htx & Hop & _). simplify_eq.
    rewrite (key_of_thr_lock _ _ _ _ _ _ _ _ Hx Hop) in Hl. eauto 8.
  - exfalso. unfold vstep in Hx'. rewrite (vi_not_crashed _ _ HI), Ht0 in Hx'. simplify_eq. congruence.
Qed.
