(** C06 — session end (work package svsess). Results about Msv (Model/Sv.v), all relative to the invariant theorem
    [T_svinv_reach] of work package svinv where an invariant of the pre-state is used:

      C06_leak_refuted            the witness of the recorded finding F-LEAK                        (SvSessWit.v; as stated)
      C06_once_from_inv           T_svinv_reach → T_C06_once                                        (SvSessDs.v;  as stated)
      C06_noclear'_from_inv       T_svinv_reach → T_C06_noclear'     + C06_noclear_refuted          (SvSessNc.v, SvSessWit.v)
      C06_frame'_from_inv         T_svinv_reach → T_C06_frame'       + C06_frame_refuted            (SvSessFrame.v)
      C06_release_all'_from_inv   T_svinv_reach → T_C06_release_all' + C06_release_all_refuted      (this file)

    Three target statements of SvDefs.v are false of the model as stated; each corrected statement is given next to a
    machine-checked counterexample of the original:
      - T_C06_noclear: no reachability premise; and a genuine race (F-NOCLEAR-RACE) at pc VDsDestroy: see SvSessNc.v;
      - T_C06_frame: the unit freed by the session end is handed to a parked Lock call of another session, whose key
        becomes live in that step (intended behaviour): see SvSessFrame.v;
      - T_C06_release_all: its premise lets the finished DestroySession be a SECOND goroutine for the same session (the one
        the shutdown's network stop starts, which sees the shutdown flag and returns at once) while the goroutine that did
        destroy the session is still in its unlock loop: see below. *)
From Coq Require Import Lia ZifyBool ZifyNat.
From Ldlm Require Import Model.Base Model.Err Model.Sv Proofs.SvDefs Proofs.SeqLemmasKey
  Proofs.SvSessBase Proofs.SvSessThr Proofs.SvSessLk Proofs.SvSessDs Proofs.SvSessSe Proofs.SvSessRel1 Proofs.SvSessRel2 Proofs.SvSessRel3.
From Ldlm Require Export Proofs.SvSessWit Proofs.SvSessNc Proofs.SvSessFrame.
From RecordUpdate Require Import RecordSet.
Import RecordSetNotations.
Local Open Scope Z_scope.

(** once the DestroySession that destroyed the session (and did clear) has run to its end: every hold acquired in that
    session is released or is being released by its own expiry — unless its entry was written after the destroy (F-LEAK) *)
Definition T_C06_release_all' : Prop := ∀ cfg s tid t sid,
  vreach cfg s → sc_noclear cfg = false → v_thr s !! tid = Some t → st_op t = SConnEnd sid → st_pc t = VEnd →
  ev_in (SvSessDestroy tid sid) s → add_after_destroy sid (v_trace s) = false → v_mgrshut s = false →
  ∀ tid' t' n k z, v_thr s !! tid' = Some t' → acquirer t' sid n k z → st_pc t' = VFin (SResp true None) →
  ¬ slive s n k ∨ expiry_pending s n k.

Record RelInv (s : svstate) : Prop := {
  ri_x : XInv s; ri_u : UInv s; ri_s : SessInv s; ri_e : EInv s; ri_a : AInv s
}.

Lemma rel_inv_init : RelInv sv_init.
Proof.
  split.
  - intros _ x t id tm Hx. simpl in Hx. by rewrite lookup_empty in Hx.
  - intros _ x t n k Hx. simpl in Hx. by rewrite lookup_empty in Hx.
  - split.
    + intros tid t sid Ht. simpl in Ht. by rewrite lookup_empty in Ht.
    + intros sid [? Hs]. simpl in Hs. by rewrite lookup_empty in Hs.
    + intros x sid Hin. simpl in Hin. by apply elem_of_nil in Hin.
    + intros sid [? Hs]. simpl in Hs. by rewrite lookup_empty in Hs.
  - intros _ tid t ? ? ? ? Ht. simpl in Ht. by rewrite lookup_empty in Ht.
  - intros _ tid t ? Ht. simpl in Ht. by rewrite lookup_empty in Ht.
Qed.

Lemma rel_inv_reach : T_svinv_reach → ∀ cfg s, sc_noclear cfg = false → vreach cfg s → RelInv s.
Proof.
  intros Hinv cfg s Hnc Hr. induction Hr as [|s it Hr IH Hok]; [apply rel_inv_init|].
  pose proof (Hinv _ _ Hr) as HI. pose proof (Hinv _ _ (vreach_step cfg s it Hr Hok)) as HI'.
  destruct IH as [HX HU HS HE HA]. split.
  - by apply x_inv_step.
  - by apply u_inv_step.
  - by eapply sess_inv_step.
  - by apply e_inv_step.
  - by apply a_inv_step.
Qed.

Theorem C06_release_all'_from_inv : T_svinv_reach → T_C06_release_all'.
Proof.
  intros Hinv cfg s tid t sid Hr Hnc Ht Hop Hpc Hev Haad Hsh tid' t' n k z Ht' Hacq Hpc'.
  destruct (rel_inv_reach Hinv cfg s Hnc Hr) as [_ _ _ _ HA].
  destruct (HA Hsh tid t sid Ht Hop Hev Haad tid' t' n k z Ht' Hacq) as [Hin|Hg]; [right; done| |exact Hg].
  rewrite Hpc in Hin. simpl in Hin. by apply elem_of_nil in Hin.
Qed.

(** the counterexample to [T_C06_release_all] as stated: thread 1002 is the ConnEnd goroutine of session A started by the
    shutdown's network stop (it returns at once: shutdown flag set); thread 1000, which destroyed the session, has not yet
    unlocked its hold *)
Definition rel_sched : list sitem :=
  [VConnect w_sid; VCall 1 (STry w_sid w_n w_k 1 None); VRun 1; VRun 1;   (* A holds n, answered *)
   VConnEnd w_sid; VRun 1000;                                              (* DestroySession(A): flag read (not shutting down) *)
   VSignal; VRun 1001; VRun 1001;                                          (* SIGTERM: PrepareShutdown; network stop: ConnEnd(A) again -> 1002 *)
   VRun 1002;                                                              (* sees the flag: returns *)
   VRun 1000].                                                             (* 1000: sessionMgr.DestroySession -> loop over [hold] *)

Theorem C06_release_all_refuted : ∃ cfg s tid t sid tid' t' n k z,
  vreach cfg s ∧ sc_noclear cfg = false ∧ v_thr s !! tid = Some t ∧ st_op t = SConnEnd sid ∧ st_pc t = VEnd ∧
  (∃ tid0, ev_in (SvSessDestroy tid0 sid) s) ∧ add_after_destroy sid (v_trace s) = false ∧ v_mgrshut s = false ∧
  v_thr s !! tid' = Some t' ∧ acquirer t' sid n k z ∧ st_pc t' = VFin (SResp true None) ∧
  slive s n k ∧ ¬ expiry_pending s n k.
Proof.
  exists (SvCfg false true), (vrun (SvCfg false true) rel_sched), 1002%nat, (SThread (SConnEnd w_sid) VEnd None), w_sid,
    1%nat, (SThread (STry w_sid w_n w_k 1 None) (VFin (SResp true None)) None), w_n, w_k, 1.
  split_and!.
  - apply vrun_reach. vm_compute. reflexivity.
  - reflexivity.
  - vm_compute. reflexivity.
  - reflexivity.
  - reflexivity.
  - exists 1000%nat. apply evb_true. vm_compute. reflexivity.
  - vm_compute. reflexivity.
  - vm_compute. reflexivity.
  - vm_compute. reflexivity.
  - exists None. by left.
  - reflexivity.
  - exists (ALock 1 [w_k] []). split; [vm_compute; reflexivity|]. simpl. apply elem_of_list_here.
  - intros (tid & t & id & tm & Ht & Hop & _).
    assert (Hall : thr_all (vrun (SvCfg false true) rel_sched) (λ _ t, match st_op t with SExpire _ => false | _ => true end) = true)
      by (vm_compute; reflexivity).
    pose proof (thr_all_sound _ _ Hall _ _ Ht) as H. simpl in H. by rewrite Hop in H.
Qed.
