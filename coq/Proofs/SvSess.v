(** C06 — session end (work packages svsess, svfix). Results about Msv (Model/Sv.v), all relative to the invariant theorem
    [T_svinv_reach] (proved in Proofs/SvInv.v; closed versions in Proofs/SvAll.v):

      C06_leak_refuted            the witness of the recorded finding F-LEAK                        (SvSessWit.v)
      C06_once_from_inv           T_svinv_reach → T_C06_once                                        (SvSessDs.v)
      C06_noclear_from_inv        T_svinv_reach → T_C06_noclear      + C06_noclear_race_closed      (SvSessNc.v, SvSessWit.v)
      C06_frame_from_inv          T_svinv_reach → T_C06_frame        + C06_frame_iff_refuted        (SvSessFrame.v)
      C06_release_all_from_inv    T_svinv_reach → T_C06_release_all                                 (this file)

    All target statements of SvDefs.v hold of the model as stated. [T_C06_release_all] holds with its original premise
    ([∃ tid', ev_in (SvSessDestroy tid' sid) s]): a connection ends once (client disconnect or the closer's network stop,
    which now delivers a ConnEnd only for connections still open), so there is one DestroySession goroutine per session
    ([vi_ds_unique]) and the goroutine that destroyed the session is the finished one. *)
From Coq Require Import Lia ZifyBool ZifyNat.
From Ldlm Require Import Model.Base Model.Err Model.Sv Proofs.SvDefs Proofs.SeqLemmasKey
  Proofs.SvSessBase Proofs.SvSessThr Proofs.SvSessLk Proofs.SvSessDs Proofs.SvSessSe Proofs.SvSessRel1 Proofs.SvSessRel2 Proofs.SvSessRel3.
From Ldlm Require Export Proofs.SvSessWit Proofs.SvSessNc Proofs.SvSessFrame.
From RecordUpdate Require Import RecordSet.
Import RecordSetNotations.
Local Open Scope Z_scope.

(** the form the accounting invariant gives directly: the finished goroutine is the one that destroyed the session *)
Definition T_C06_release_all_self : Prop := ∀ cfg s tid t sid,
  vreach cfg s → sc_noclear cfg = false → v_thr s !! tid = Some t → st_op t = SConnEnd sid → st_pc t = VEnd →
  ev_in (SvSessDestroy tid sid) s → add_after_destroy sid (v_trace s) = false → v_mgrshut s = false →
  ∀ tid' t' n k z, v_thr s !! tid' = Some t' → acquirer t' sid n k z → st_pc t' = VFin (SResp true None) →
  ¬ slive s n k ∨ expiry_pending s n k.

Record RelInv (s : svstate) : Prop := {
  ri_x : XInv s; ri_u : UInv s; ri_s : SessInv s; ri_e : EInv s; ri_a : AInv s
}.

Lemma rel_inv_init : RelInv sv_init.
Proof.
  split.
  - intros _ x t id tm Hx. simpl in Hx. by rewrite lookup_empty in Hx.
  - intros _ x t n k Hx. simpl in Hx. by rewrite lookup_empty in Hx.
  - split.
    + intros tid t sid Ht. simpl in Ht. by rewrite lookup_empty in Ht.
    + intros sid [? Hs]. simpl in Hs. by rewrite lookup_empty in Hs.
    + intros x sid Hin. simpl in Hin. by apply elem_of_nil in Hin.
    + intros sid [? Hs]. simpl in Hs. by rewrite lookup_empty in Hs.
  - intros _ tid t ? ? ? ? Ht. simpl in Ht. by rewrite lookup_empty in Ht.
  - intros _ tid t ? Ht. simpl in Ht. by rewrite lookup_empty in Ht.
Qed.

Lemma rel_inv_reach : T_svinv_reach → ∀ cfg s, sc_noclear cfg = false → vreach cfg s → RelInv s.
Proof.
  intros Hinv cfg s Hnc Hr. induction Hr as [|s it Hr IH Hok]; [apply rel_inv_init|].
  pose proof (Hinv _ _ Hr) as HI. pose proof (Hinv _ _ (vreach_step cfg s it Hr Hok)) as HI'.
  destruct IH as [HX HU HS HE HA]. split.
  - by apply x_inv_step.
  - by apply u_inv_step.
  - by eapply sess_inv_step.
  - by apply e_inv_step.
  - by apply a_inv_step.
Qed.

Lemma C06_release_all_self_from_inv : T_svinv_reach → T_C06_release_all_self.
Proof.
  intros Hinv cfg s tid t sid Hr Hnc Ht Hop Hpc Hev Haad Hsh tid' t' n k z Ht' Hacq Hpc'.
  destruct (rel_inv_reach Hinv cfg s Hnc Hr) as [_ _ _ _ HA].
  destruct (HA Hsh tid t sid Ht Hop Hev Haad tid' t' n k z Ht' Hacq) as [Hin|Hg]; [right; done| |exact Hg].
  rewrite Hpc in Hin. simpl in Hin. by apply elem_of_nil in Hin.
Qed.

Theorem C06_release_all_from_inv : T_svinv_reach → T_C06_release_all.
Proof.
  intros Hinv cfg s tid t sid Hr Hnc Ht Hop Hpc [tid0 Hev] Haad Hsh.
  destruct (rel_inv_reach Hinv cfg s Hnc Hr) as [_ _ HS _ _].
  destruct (si_destroy _ HS tid0 sid Hev) as (_ & t0 & Ht0 & Hop0).
  assert (tid0 = tid) as -> by (eapply (vi_ds_unique _ _ (Hinv _ _ Hr)); eauto).
  exact (C06_release_all_self_from_inv Hinv cfg s tid t sid Hr Hnc Ht Hop Hpc Hev Haad Hsh).
Qed.

(** the premises are satisfiable, and the conclusion is not vacuous: session A holds n, its connection ends,
    DestroySession runs to its end; the hold is released *)
Definition rel_sched : list sitem :=
  [VConnect w_sid; VCall 1 (STry w_sid w_n w_k 1 None); VRun 1; VRun 1;   (* A holds n, answered *)
   VConnEnd w_sid; VRun 1000; VRun 1000; VRun 1000; VRun 1000].            (* DestroySession(A): flag, destroy, timer removal, unlock *)
Example C06_release_all_premises : ∃ cfg s tid t sid tid' t' n k z,
  vreach cfg s ∧ sc_noclear cfg = false ∧ v_thr s !! tid = Some t ∧ st_op t = SConnEnd sid ∧ st_pc t = VEnd ∧
  (∃ tid0, ev_in (SvSessDestroy tid0 sid) s) ∧ add_after_destroy sid (v_trace s) = false ∧ v_mgrshut s = false ∧
  v_thr s !! tid' = Some t' ∧ acquirer t' sid n k z ∧ st_pc t' = VFin (SResp true None) ∧ ¬ slive s n k.
Proof.
  exists (SvCfg false true), (vrun (SvCfg false true) rel_sched), 1000%nat, (SThread (SConnEnd w_sid) VEnd None), w_sid,
    1%nat, (SThread (STry w_sid w_n w_k 1 None) (VFin (SResp true None)) None), w_n, w_k, 1.
  split_and!.
  - apply vrun_reach. vm_compute. reflexivity.
  - reflexivity.
  - vm_compute. reflexivity.
  - reflexivity.
  - reflexivity.
  - exists 1000%nat. apply evb_true. vm_compute. reflexivity.
  - vm_compute. reflexivity.
  - vm_compute. reflexivity.
  - vm_compute. reflexivity.
  - exists None. by left.
  - reflexivity.
  - intros (a & Ha & Hk). vm_compute in Ha. injection Ha as <-. simpl in Hk. by apply elem_of_nil in Hk.
Qed.

(** with a shutdown racing the session end there still is one DestroySession goroutine for the session: the closer's
    network stop starts none for a connection that has already ended (the earlier model started a second one, which
    refuted this statement) *)
Definition rel_sched2 : list sitem :=
  [VConnect w_sid; VCall 1 (STry w_sid w_n w_k 1 None); VRun 1; VRun 1;
   VConnEnd w_sid; VRun 1000;
   VSignal; VRun 1001; VRun 1001].
Example C06_one_connend_goroutine :
  let s := vrun (SvCfg false true) rel_sched2 in
  vreach (SvCfg false true) s ∧ v_thr s !! 1002%nat = None ∧ (st_pc <$> v_thr s !! 1001%nat) = Some VShTimers.
Proof. cbv zeta. split_and!; [apply vrun_reach|..]; vm_compute; reflexivity. Qed.
