(** Infrastructure for the C02 refinement proof (work package lklin): traces and runs of the
    specification, permutation facts about [remove_first], the key bookkeeping of the thread pool,
    [notify], and frame lemmas for [spec_rel]. *)
From Coq Require Import Lia ZifyBool ZifyNat.
From Ldlm Require Import Model.Base Model.Err Model.Lk Proofs.LkDefs.
From RecordUpdate Require Import RecordSet.
Import RecordSetNotations.
Local Open Scope Z_scope.

(** ** Traces and runs *)
Definition lin1 (e : lev) : list linact := match e with EvLin a => [a] | _ => [] end.

Lemma lin_of_app tr1 tr2 : lin_of (tr1 ++ tr2) = lin_of tr2 ++ lin_of tr1.
Proof. unfold lin_of. by rewrite rev_app_distr, omap_app. Qed.

Lemma lin_of_cons e tr : lin_of (e :: tr) = lin_of tr ++ lin1 e.
Proof. change (e :: tr) with ([e] ++ tr). rewrite lin_of_app. f_equal. by destruct e. Qed.

Lemma lin_of_grants (f : nat → linact) l : lin_of (rev (map (λ w, EvLin (f w)) l)) = map f l.
Proof. unfold lin_of. rewrite rev_involutive. induction l; simpl; by f_equal. Qed.

Lemma spec_run_app b sp l1 l2 :
  spec_run b sp (l1 ++ l2) = match spec_run b sp l1 with Some sp' => spec_run b sp' l2 | None => None end.
Proof. revert sp; induction l1 as [|a l1 IH]; intros sp; simpl; [done|]. destruct (spec_step b sp a); simpl; auto. Qed.

Lemma spec_run_snoc b sp sp' l l2 : spec_run b sp l = Some sp' → spec_run b sp (l ++ l2) = spec_run b sp' l2.
Proof. intros H. by rewrite spec_run_app, H. Qed.

(** the strict specification differs only on [LaGiveBack] *)
Definition is_giveback (a : linact) : bool := match a with LaGiveBack _ _ _ _ => true | _ => false end.

Lemma spec_step_strict sp a : is_giveback a = false → spec_step true sp a = spec_step false sp a.
Proof. by destruct a. Qed.

Lemma spec_run_strict sp l : Forall (λ a, is_giveback a = false) l → spec_run true sp l = spec_run false sp l.
Proof.
  intros H; revert sp; induction H as [|a l Ha _ IH]; intros sp; simpl; [done|].
  rewrite (spec_step_strict _ _ Ha). destruct (spec_step false sp a); auto.
Qed.

Lemma has_giveback_lin tr : has_giveback tr = false → Forall (λ a, is_giveback a = false) (lin_of tr).
Proof.
  induction tr as [|e tr IH]; simpl; intros H; [constructor|]. apply orb_false_iff in H as [He H].
  rewrite lin_of_cons. apply Forall_app; split; [auto|]. destruct e as [| |a| |]; simpl; by repeat constructor.
Qed.

(** ** [remove_first] up to permutation *)
Lemma remove_first_perm k l : k ∈ l → l ≡ₚ k :: remove_first k l.
Proof.
  induction l as [|x l IH]; intros H; [by apply elem_of_nil in H|]. simpl. case_bool_decide; subst; [done|].
  apply elem_of_cons in H as [->|H]; [done|]. rewrite (IH H) at 1. apply Permutation_swap.
Qed.

Lemma remove_first_perm_inv k l l' : l ≡ₚ k :: l' → remove_first k l ≡ₚ l'.
Proof.
  intros H. assert (k ∈ l) as Hk by (rewrite H; left). apply (Permutation_cons_inv (a := k)).
  by rewrite <- remove_first_perm.
Qed.

Lemma filter_ne_perm (tid : nat) l : NoDup l → tid ∈ l → l ≡ₚ tid :: filter (λ w, w ≠ tid) l.
Proof.
  induction 1 as [|x l Hx Hnd IH]; intros H; [by apply elem_of_nil in H|].
  rewrite filter_cons. destruct (decide (x ≠ tid)) as [Hne|Heq].
  - apply elem_of_cons in H as [->|H]; [done|]. rewrite (IH H) at 1. apply Permutation_swap.
  - apply dec_stable in Heq. subst x. f_equiv. clear IH H Hnd. induction l as [|y l IH]; [done|].
    rewrite filter_cons. apply not_elem_of_cons in Hx as [Hy Hx]. destruct (decide (y ≠ tid)) as [|Hn]; [|destruct Hn; congruence].
    f_equal; auto.
Qed.

(** ** Keys of the thread pool as functions of the thread map *)
Definition kof (m : gmap nat thread) (w : nat) : str := match m !! w with Some t => op_key (t_op t) | None => [] end.
Definition tkeys (oid : nat) (m : gmap nat thread) : list str :=
  map (λ x : nat * thread, op_key (t_op x.2)) (filter (λ x, in_transit oid x.2 = true) (map_to_list m)).
Definition tk1 (oid : nat) (t : thread) : list str := if in_transit oid t then [op_key (t_op t)] else [].

Lemma key_of_kof s w : key_of s w = kof (l_thr s) w.
Proof. done. Qed.
Lemma ready_keys_kof o s : ready_keys o s = map (kof (l_thr s)) (o_ready o).
Proof. done. Qed.
Lemma transit_keys_tkeys oid s : transit_keys oid s = tkeys oid (l_thr s).
Proof. done. Qed.

Lemma tkeys_insert_None oid m tid t : m !! tid = None → tkeys oid (<[tid := t]> m) ≡ₚ tk1 oid t ++ tkeys oid m.
Proof.
  intros H. unfold tkeys, tk1. rewrite (map_to_list_insert m tid t H), filter_cons. simpl.
  destruct (in_transit oid t); case_decide; try done.
Qed.

Lemma tkeys_lookup oid m tid t : m !! tid = Some t → tkeys oid m ≡ₚ tk1 oid t ++ tkeys oid (delete tid m).
Proof. intros H. rewrite <- (insert_delete m tid t H) at 1. apply tkeys_insert_None, lookup_delete. Qed.

Lemma tkeys_insert oid m tid t : tkeys oid (<[tid := t]> m) ≡ₚ tk1 oid t ++ tkeys oid (delete tid m).
Proof. rewrite <- insert_delete_insert. apply tkeys_insert_None, lookup_delete. Qed.

Lemma tkeys_replace oid m tid t t' :
  m !! tid = Some t → t_op t' = t_op t → in_transit oid t' = in_transit oid t → tkeys oid (<[tid := t']> m) ≡ₚ tkeys oid m.
Proof. intros H Hop Htr. rewrite tkeys_insert, (tkeys_lookup oid m tid t H). unfold tk1. by rewrite Hop, Htr. Qed.

Lemma kof_replace m tid t t' w : m !! tid = Some t → t_op t' = t_op t → kof (<[tid := t']> m) w = kof m w.
Proof.
  intros H Hop. unfold kof. destruct (decide (w = tid)) as [->|Hne].
  - by rewrite lookup_insert, H, Hop.
  - by rewrite lookup_insert_ne.
Qed.

Lemma elem_of_tkeys oid m k : k ∈ tkeys oid m ↔ ∃ tid t, m !! tid = Some t ∧ in_transit oid t = true ∧ op_key (t_op t) = k.
Proof.
  unfold tkeys. rewrite elem_of_list_In, in_map_iff. split.
  - intros ([tid t] & Hk & Hin). apply elem_of_list_In, elem_of_list_filter in Hin as [Htr Hin].
    apply elem_of_map_to_list in Hin. eauto.
  - intros (tid & t & Hm & Htr & Hk). exists (tid, t). split; [done|]. apply elem_of_list_In, elem_of_list_filter.
    split; [done|]. by apply elem_of_map_to_list.
Qed.

Lemma tkeys_nil oid m : (∀ tid t, m !! tid = Some t → in_transit oid t = false) → tkeys oid m = [].
Proof.
  intros H. destruct (tkeys oid m) as [|k l] eqn:E; [done|].
  assert (k ∈ tkeys oid m) as Hk by (rewrite E; left). apply elem_of_tkeys in Hk as (tid & t & Hm & Htr & _).
  rewrite (H _ _ Hm) in Htr. done.
Qed.

Lemma count_transit oid s : count_thr (in_transit oid) s = Z.of_nat (length (transit_keys oid s)).
Proof. unfold count_thr, transit_keys. by rewrite map_length. Qed.

Lemma count_thr_pos p s tid t : l_thr s !! tid = Some t → p t = true → 0 < count_thr p s.
Proof.
  intros Ht Hp. unfold count_thr.
  assert ((tid, t) ∈ filter (λ x : nat * thread, p x.2 = true) (threads s)) as Hin.
  { apply elem_of_list_filter. split; [done|]. by apply elem_of_map_to_list. }
  destruct (filter _ _); [by apply elem_of_nil in Hin|simpl; lia].
Qed.

Lemma count_thr_zero p s tid t : count_thr p s = 0 → l_thr s !! tid = Some t → p t = false.
Proof.
  intros H0 Ht. destruct (p t) eqn:Hp; [|done]. pose proof (count_thr_pos p s tid t Ht Hp). lia.
Qed.

(** ** pc bookkeeping *)
Lemma in_transit_refs oid t : in_transit oid t = true → refs oid t = true.
Proof. unfold in_transit, refs. destruct (t_pc t); try done; simpl; intros; case_bool_decide; subst; by rewrite ?bool_decide_eq_true. Qed.

Lemma in_transit_other oid oid' t : pc_oid (t_pc t) = Some oid → oid' ≠ oid → in_transit oid' t = false.
Proof. unfold in_transit. destruct (t_pc t); simpl; try done; intros [= ->] H; by apply bool_decide_eq_false. Qed.

Lemma in_transit_none oid t : pc_oid (t_pc t) = None → in_transit oid t = false.
Proof. unfold in_transit. by destruct (t_pc t). Qed.

(** ** notify *)
Definition notified (o1 o2 : lobj) (woken : list nat) : Prop :=
  o_waitq o1 = woken ++ o_waitq o2 ∧ o_ready o2 = o_ready o1 ++ woken ∧ o_keys o2 = o_keys o1 ∧ o_size o2 = o_size o1 ∧
  o_name o2 = o_name o1 ∧ (woken = [] ∨ o_cur o1 + Z.of_nat (length woken) ≤ o_size o1).

Lemma notify_loop_spec q : ∀ cur size ready q' cur' ready',
  notify_loop q cur size ready = (q', cur', ready') →
  ∃ woken, q = woken ++ q' ∧ ready' = ready ++ woken ∧ (woken = [] ∨ cur + Z.of_nat (length woken) ≤ size).
Proof.
  induction q as [|w q IH]; intros cur size ready q' cur' ready' H; simpl in H.
  - inversion H; subst. exists []. rewrite ?app_nil_r. auto.
  - destruct (Z.ltb_spec cur size) as [Hlt|Hge].
    + apply IH in H as (woken & -> & -> & Hc). exists (w :: woken). rewrite <- app_assoc. split; [done|]. split; [done|].
      right. destruct Hc as [->|Hc]; simpl length; lia.
    + inversion H; subst. exists []. rewrite ?app_nil_r. auto.
Qed.

Lemma notify_notified o1 o2 woken : notify o1 = (o2, woken) → notified o1 o2 woken.
Proof.
  unfold notify. destruct (notify_loop _ _ _ _) as [[q cur] ready] eqn:E. intros [= <- <-].
  apply notify_loop_spec in E as (woken & Hq & -> & Hc). unfold notified; simpl. auto 10.
Qed.

Lemma notified_refl o : notified o o [].
Proof. unfold notified. rewrite !app_nil_r. auto 10. Qed.

Lemma grants_run b n size kf woken : ∀ sp live q,
  sp !! n = Some (SObj size live (woken ++ q)) →
  (woken = [] ∨ Z.of_nat (length live) + Z.of_nat (length woken) ≤ size) →
  spec_run b sp (map (λ w, LaGrant w n (kf w)) woken) = Some (<[n := SObj size (live ++ map kf woken) q]> sp).
Proof.
  induction woken as [|w ws IH]; intros sp live q Hsp Hc; simpl.
  - rewrite app_nil_r. by rewrite insert_id.
  - destruct Hc as [|Hc]; [done|]. rewrite Hsp. simpl. rewrite bool_decide_eq_true_2 by done. simpl in Hc.
    destruct (Z.ltb_spec (Z.of_nat (length live)) size); [|lia]. simpl.
    rewrite (IH _ (live ++ [kf w]) q).
    + by rewrite insert_insert, <- app_assoc.
    + by rewrite lookup_insert.
    + right. rewrite app_length. simpl. lia.
Qed.

Lemma notified_run b sp n o1 o2 woken kf live :
  notified o1 o2 woken → sp !! n = Some (SObj (o_size o1) live (o_waitq o1)) → Z.of_nat (length live) = o_cur o1 →
  spec_run b sp (map (λ w, LaGrant w n (kf w)) woken) = Some (<[n := SObj (o_size o1) (live ++ map kf woken) (o_waitq o2)]> sp).
Proof.
  intros (Hq & _ & _ & _ & _ & Hc) Hsp Hl. apply grants_run; [by rewrite <- Hq|]. by rewrite Hl.
Qed.

(** ** State projections *)
Lemma emit_grants_eq name woken : ∀ s,
  emit_grants name woken s =
  s <| l_trace := rev (map (λ w, EvLin (LaGrant w name (kof (l_thr s) w))) woken) ++ l_trace s |>.
Proof.
  unfold emit_grants. induction woken as [|w ws IH]; intros s; simpl; [by destruct s|].
  rewrite IH. unfold emit. simpl. rewrite <- app_assoc. done.
Qed.

Lemma set_pc_eq tid pc s t : l_thr s !! tid = Some t → set_pc tid pc s = s <| l_thr := <[tid := t <| t_pc := pc |>]> (l_thr s) |>.
Proof. intros H. unfold set_pc. by rewrite H. Qed.

Lemma thread_eta (t : thread) : t <| t_pc := t_pc t |> = t.
Proof. by destruct t. Qed.

(** ** The per-name relation and its frame *)
Definition oeq (o o' : lobj) : Prop :=
  o_size o' = o_size o ∧ o_waitq o' = o_waitq o ∧ o_keys o' = o_keys o ∧ o_ready o' = o_ready o.

Lemma oeq_refl o : oeq o o.
Proof. by unfold oeq. Qed.

Definition nrel (sp : gmap str sobj) (s : lstate) (n : str) : Prop :=
  match sp !! n, l_map s !! n with
  | None, None => True
  | Some so, Some oid => ∃ o, l_heap s !! oid = Some o ∧ so_size so = o_size o ∧ so_q so = o_waitq o ∧
                              so_live so ≡ₚ o_keys o ++ ready_keys o s ++ transit_keys oid s
  | _, _ => False
  end.

Lemma spec_rel_nrel sp s : spec_rel sp s ↔ ∀ n, nrel sp s n.
Proof. done. Qed.

Lemma ready_keys_ext o o' s s' :
  o_ready o' = o_ready o → (∀ w, w ∈ o_ready o → key_of s' w = key_of s w) → ready_keys o' s' = ready_keys o s.
Proof.
  unfold ready_keys. intros -> H. induction (o_ready o) as [|w l IH]; simpl; [done|].
  rewrite H by left. f_equal. apply IH. intros; apply H. by right.
Qed.

Lemma nrel_frame sp sp' s s' n :
  nrel sp s n → sp' !! n = sp !! n → l_map s' !! n = l_map s !! n →
  (∀ oid o, l_map s !! n = Some oid → l_heap s !! oid = Some o →
            ∃ o', l_heap s' !! oid = Some o' ∧ oeq o o' ∧ (∀ w, w ∈ o_ready o → key_of s' w = key_of s w) ∧
                  transit_keys oid s' ≡ₚ transit_keys oid s) →
  nrel sp' s' n.
Proof.
  unfold nrel. intros H -> -> Hf. destruct (sp !! n) as [so|], (l_map s !! n) as [oid|]; try done.
  destruct H as (o & Ho & Hsz & Hq & Hl). destruct (Hf oid o eq_refl Ho) as (o' & Ho' & (E1 & E2 & E3 & E4) & Hk & Ht).
  exists o'. rewrite E1, E2, E3, Ht, (ready_keys_ext o o' s s' E4 Hk). done.
Qed.

(** a step that changes no queue, key list, ready set, key or transit status *)
Lemma spec_rel_frame sp s s' :
  spec_rel sp s → l_map s' = l_map s →
  (∀ oid o, l_heap s !! oid = Some o → ∃ o', l_heap s' !! oid = Some o' ∧ oeq o o') →
  (∀ oid o w, l_heap s !! oid = Some o → w ∈ o_ready o → key_of s' w = key_of s w) →
  (∀ oid, transit_keys oid s' ≡ₚ transit_keys oid s) →
  spec_rel sp s'.
Proof.
  intros Hrel Hmap Hheap Hkey Htr n. apply (nrel_frame sp sp s s' n (Hrel n) eq_refl); [by rewrite Hmap|].
  intros oid o _ Ho. destruct (Hheap oid o Ho) as (o' & Ho' & Heq). exists o'. eauto 6.
Qed.

(** ... where one thread is replaced by one with the same call and transit status *)
Lemma spec_rel_frame_thr sp s s' tid t t' :
  spec_rel sp s → l_map s' = l_map s →
  (∀ oid o, l_heap s !! oid = Some o → ∃ o', l_heap s' !! oid = Some o' ∧ oeq o o') →
  l_thr s !! tid = Some t → l_thr s' = <[tid := t']> (l_thr s) → t_op t' = t_op t →
  (∀ oid, in_transit oid t' = in_transit oid t) →
  spec_rel sp s'.
Proof.
  intros Hrel Hmap Hheap Ht Hthr Hop Htr. apply (spec_rel_frame sp s s' Hrel Hmap Hheap).
  - intros _ _ w _ _. rewrite !key_of_kof, Hthr. by apply kof_replace with t.
  - intros oid. rewrite !transit_keys_tkeys, Hthr. by apply tkeys_replace with t.
Qed.

Lemma spec_rel_frame_same sp s s' :
  spec_rel sp s → l_map s' = l_map s →
  (∀ oid o, l_heap s !! oid = Some o → ∃ o', l_heap s' !! oid = Some o' ∧ oeq o o') →
  l_thr s' = l_thr s → spec_rel sp s'.
Proof.
  intros Hrel Hmap Hheap Hthr. apply (spec_rel_frame sp s s' Hrel Hmap Hheap).
  - intros _ _ w _ _. by rewrite !key_of_kof, Hthr.
  - intros oid. by rewrite !transit_keys_tkeys, Hthr.
Qed.

Lemma heap_upd_oeq (h : gmap nat lobj) oid0 o0 o0' :
  h !! oid0 = Some o0 → oeq o0 o0' → ∀ oid o, h !! oid = Some o → ∃ o', <[oid0 := o0']> h !! oid = Some o' ∧ oeq o o'.
Proof.
  intros H0 Heq oid o Ho. destruct (decide (oid = oid0)) as [->|Hne].
  - rewrite lookup_insert. simplify_eq. eauto.
  - rewrite lookup_insert_ne by done. eauto using oeq_refl.
Qed.

Lemma heap_same_oeq (h : gmap nat lobj) : ∀ oid o, h !! oid = Some o → ∃ o', h !! oid = Some o' ∧ oeq o o'.
Proof. eauto using oeq_refl. Qed.
