(** Helper lemmas for the invariant proof of Mlk (Model/Lk.v): counting over the thread pool, the
    semaphore hand-off loop, frame properties of the small state transformers. *)
From Coq Require Import Lia ZifyBool ZifyNat.
From Ldlm Require Import Model.Base Model.Err Model.Lk Proofs.LkDefs.
From RecordUpdate Require Import RecordSet.
Import RecordSetNotations.
Local Open Scope Z_scope.

(** ** Counting threads *)
Definition cnt (p : thread → bool) (l : list (nat * thread)) : Z :=
  Z.of_nat (length (filter (λ x, p x.2 = true) l)).

Lemma cnt_perm p l1 l2 : l1 ≡ₚ l2 → cnt p l1 = cnt p l2.
Proof. intros H. unfold cnt. by rewrite H. Qed.
Lemma cnt_cons p x l : cnt p (x :: l) = Z.b2z (p x.2) + cnt p l.
Proof.
  unfold cnt. rewrite filter_cons. destruct (decide _) as [->|Hn]; simpl; [lia|].
  destruct (p x.2); [done|simpl; lia].
Qed.
Lemma cnt_nonneg p l : 0 ≤ cnt p l.
Proof. unfold cnt. lia. Qed.

Lemma count_thr_cnt p s : count_thr p s = cnt p (map_to_list (l_thr s)).
Proof. done. Qed.

Lemma count_thr_nonneg p s : 0 ≤ count_thr p s.
Proof. apply cnt_nonneg. Qed.

Lemma count_thr_insert p s s' tid t t' :
  l_thr s !! tid = Some t → l_thr s' = <[tid := t']> (l_thr s) →
  count_thr p s' = count_thr p s - Z.b2z (p t) + Z.b2z (p t').
Proof.
  intros H H'. rewrite !count_thr_cnt, H'.
  rewrite <-(insert_delete_insert (l_thr s)).
  rewrite (cnt_perm _ _ _ (map_to_list_insert _ _ _ (lookup_delete _ _))).
  rewrite <-(insert_delete (l_thr s) tid t) at 2 by done.
  rewrite (cnt_perm _ _ _ (map_to_list_insert (delete tid (l_thr s)) tid t (lookup_delete _ _))).
  rewrite !cnt_cons. simpl. lia.
Qed.

Lemma count_thr_insert_new p s s' tid t' :
  l_thr s !! tid = None → l_thr s' = <[tid := t']> (l_thr s) →
  count_thr p s' = count_thr p s + Z.b2z (p t').
Proof.
  intros H H'. rewrite !count_thr_cnt, H'.
  rewrite (cnt_perm _ _ _ (map_to_list_insert _ _ _ H)), cnt_cons. simpl. lia.
Qed.

Lemma count_thr_same p s s' : l_thr s' = l_thr s → count_thr p s' = count_thr p s.
Proof. intros H. by rewrite !count_thr_cnt, H. Qed.

Lemma cnt_zero p l : (∀ x, x ∈ l → p x.2 = false) → cnt p l = 0.
Proof.
  induction l as [|x l IH]; intros H; [done|].
  rewrite cnt_cons, IH, (H x) by set_solver. done.
Qed.
Lemma cnt_pos p l x : x ∈ l → p x.2 = true → 1 ≤ cnt p l.
Proof.
  induction 1 as [|x y l Hx IH]; intros Hp; rewrite cnt_cons.
  - rewrite Hp. pose proof (cnt_nonneg p l). simpl. lia.
  - specialize (IH Hp). destruct (p y.2); simpl; lia.
Qed.

Lemma count_thr_zero p s : (∀ tid t, l_thr s !! tid = Some t → p t = false) → count_thr p s = 0.
Proof.
  intros H. rewrite count_thr_cnt. apply cnt_zero. intros [tid t] Hx.
  apply elem_of_map_to_list in Hx. eauto.
Qed.
Lemma count_thr_pos p s tid t : l_thr s !! tid = Some t → p t = true → 1 ≤ count_thr p s.
Proof.
  intros H Hp. rewrite count_thr_cnt. apply (cnt_pos p _ (tid, t)); [|done].
  by apply elem_of_map_to_list.
Qed.
Lemma count_thr_zero_inv p s tid t : count_thr p s = 0 → l_thr s !! tid = Some t → p t = false.
Proof.
  intros H0 H. destruct (p t) eqn:Hp; [|done].
  pose proof (count_thr_pos p s tid t H Hp). lia.
Qed.

(** ** notify *)
Lemma notify_loop_spec q cur size ready q' cur' ready' :
  notify_loop q cur size ready = (q', cur', ready') →
  ∃ woken, q = woken ++ q' ∧ ready' = ready ++ woken ∧ cur' = cur + Z.of_nat (length woken) ∧
           (q' ≠ [] → size ≤ cur') ∧ (cur ≤ size → cur' ≤ size).
Proof.
  revert cur ready. induction q as [|w q IH]; intros cur ready; simpl.
  - intros [= <- <- <-]. exists []. simpl. rewrite !app_nil_r. split_and!; try done; try lia; intros; simpl in *; lia.
  - destruct (cur <? size) eqn:Hlt.
    + intros H. apply IH in H as (woken & -> & -> & -> & Hq & Hb).
      exists (w :: woken). rewrite <-app_assoc. simpl. split_and!; try done; intros; simpl in *; lia.
    + intros [= <- <- <-]. exists []. simpl. rewrite !app_nil_r. split_and!; try done; intros; simpl in *; lia.
Qed.

Lemma notify_spec o o' woken :
  notify o = (o', woken) →
  o_waitq o = woken ++ o_waitq o' ∧ o_ready o' = o_ready o ++ woken ∧
  o_cur o' = o_cur o + Z.of_nat (length woken) ∧ (o_waitq o' ≠ [] → o_size o ≤ o_cur o') ∧
  (o_cur o ≤ o_size o → o_cur o' ≤ o_size o) ∧
  o_name o' = o_name o ∧ o_size o' = o_size o ∧ o_keys o' = o_keys o ∧ o_last o' = o_last o ∧
  o_deleted o' = o_deleted o ∧ o_users o' = o_users o.
Proof.
  unfold notify. destruct (notify_loop _ _ _ _) as [[q cur] ready] eqn:H.
  intros [= <- <-]. apply notify_loop_spec in H as (woken & Hq & -> & -> & ? & ?).
  simpl. split_and!; done.
Qed.

(** ** remove_first *)
Lemma remove_first_length k l : k ∈ l → length l = S (length (remove_first k l)).
Proof.
  induction l as [|x l IH]; [by intros ?%elem_of_nil|].
  simpl. case_bool_decide; [done|]. intros [?|?]%elem_of_cons; [done|]. simpl. by rewrite <-IH.
Qed.
Lemma elem_of_remove_first k l x : x ∈ remove_first k l → x ∈ l.
Proof.
  induction l as [|y l IH]; [done|]. simpl. case_bool_decide; set_solver.
Qed.
Lemma elem_of_remove_first_ne k l x : x ∈ l → x ≠ k → x ∈ remove_first k l.
Proof.
  induction l as [|y l IH]; [done|]. simpl. case_bool_decide; set_solver.
Qed.
Lemma NoDup_remove_first k l : NoDup l → NoDup (remove_first k l).
Proof.
  induction 1 as [|y l Hy Hl IH]; [constructor|]. simpl. case_bool_decide; [done|].
  constructor; [|done]. intros ?%elem_of_remove_first. done.
Qed.

(** ** filter (≠ tid) on duplicate-free lists *)
Lemma filter_ne_length (tid : nat) (l : list nat) : NoDup l → tid ∈ l → length l = S (length (filter (λ w, w ≠ tid) l)).
Proof.
  induction 1 as [|y l Hy Hl IH]; [by intros ?%elem_of_nil|].
  rewrite filter_cons. destruct (decide (y ≠ tid)) as [Hne|Heq].
  - intros [?|?]%elem_of_cons; [done|]. simpl. by rewrite <-IH.
  - assert (y = tid) as -> by (destruct (decide (y = tid)); done). intros _. simpl. f_equal.
    clear IH Hl. induction l as [|z l IH]; [done|]. rewrite filter_cons.
    destruct (decide (z ≠ tid)); [|set_solver]. simpl. f_equal. apply IH. set_solver.
Qed.
Lemma filter_ne_id (tid : nat) (l : list nat) : tid ∉ l → filter (λ w, w ≠ tid) l = l.
Proof.
  induction l as [|z l IH]; [done|]. intros H. rewrite filter_cons.
  destruct (decide (z ≠ tid)); [|set_solver]. f_equal. apply IH. set_solver.
Qed.

(** ** The state transformers touch what they say they touch *)
Lemma emit_grants_trace n w s : ∃ tr, emit_grants n w s = s <| l_trace := tr |>.
Proof.
  unfold emit_grants. revert s. induction w as [|a w IH]; intros s; simpl.
  - exists (l_trace s). by destruct s.
  - destruct (IH (emit (EvLin (LaGrant a n (key_of s a))) s)) as [tr ->]. exists tr. by destruct s.
Qed.

Definition core_eq (s s' : lstate) : Prop :=
  l_heap s' = l_heap s ∧ l_map s' = l_map s ∧ l_next s' = l_next s ∧ l_shut s' = l_shut s ∧
  l_now s' = l_now s ∧ l_thr s' = l_thr s ∧ l_crashed s' = l_crashed s.

Lemma linv_core s s' : core_eq s s' → LInv s → LInv s'.
Proof.
  destruct s, s'. unfold core_eq. simpl. intros (->&->&->&->&->&->&->).
  intros []. constructor; assumption.
Qed.

Lemma forallb_no_flight s :
  no_call_in_flight s = true → ∀ tid t, l_thr s !! tid = Some t → in_flight (t_pc t) = false.
Proof.
  unfold no_call_in_flight. rewrite forallb_forall. intros H tid t Ht.
  specialize (H (tid, t)). simpl in H. rewrite negb_true_iff in H. apply H.
  apply elem_of_list_In, elem_of_map_to_list. done.
Qed.

Lemma list_empty_no_elem {A} (l : list A) : (∀ x, x ∉ l) → l = [].
Proof. destruct l as [|x l]; [done|]. intros H. destruct (H x). left. Qed.

(** in_transit implies refs *)
Lemma in_transit_refs oid t : in_transit oid t = true → refs oid t = true.
Proof.
  unfold in_transit, refs. destruct (t_pc t); try done; simpl; intros ?%bool_decide_eq_true; subst;
    by apply bool_decide_eq_true.
Qed.
Lemma refs_pc_oid oid t : refs oid t = true ↔ pc_oid (t_pc t) = Some oid.
Proof. unfold refs. apply bool_decide_eq_true. Qed.
Lemma refs_false oid t : refs oid t = false ↔ pc_oid (t_pc t) ≠ Some oid.
Proof. unfold refs. apply bool_decide_eq_false. Qed.
