(** Mrest, sequential layer: C15 — the REST gateway is transparent (Proofs/RestDefs.v):
    [C15_transparent], [C15_mixed_rest_to_grpc], [C15_mixed_grpc_to_rest], [C15_equiv]. *)
From Coq Require Import Lia ZifyBool ZifyNat ZifyN String.
From Ldlm Require Import Model.Base Model.Err Model.Seq Model.Track Model.Rest Proofs.RestDefs Proofs.RestSeq1.
From RecordUpdate Require Import RecordSet.
Import RecordSetNotations.
Local Open Scope Z_scope.

(** ** C15_transparent *)

Lemma C15_transparent : T_C15_transparent.
Proof.
  intros cfg tmo st c se q ev Hl Hlt Hev. cbn [mstep rstep]. rewrite Hl.
  destruct (Z.ltb_spec (r_now st) (rs_deadline se)); [|lia]. rewrite Hev.
  unfold lift_seq. rewrite !map_map. apply map_ext. intros [s' o']. cbn.
  rewrite app_nil_r. by rewrite strip_seq.
Qed.

(** ** A grant by TryLock is released by the next Unlock with that name and key, whoever calls it *)

Lemma record_grant_locks cfg sid n k sz lt s : st_locks (record_grant cfg sid n k sz lt s) = st_locks s.
Proof.
  unfold record_grant, save. destruct (c_file cfg), lt as [t|]; try destruct (0 <? t); done.
Qed.

Lemma get_lock_create_lookup n sz s o s1 : get_lock_create n sz s = inr (o, s1) → st_locks s1 !! n = Some o.
Proof.
  unfold get_lock_create. destruct (sz <=? 0); [done|].
  destruct (st_locks s !! n) as [o0|].
  - case_bool_decide; [|done]. intros [= <- <-]. cbn. by rewrite lookup_insert.
  - intros [= <- <-]. cbn. by rewrite lookup_insert.
Qed.

Lemma trylock_grant_holds cfg s sid n sz lt k s1 o1 :
  (s1, o1) ∈ sstep cfg s (ETryLock sid n sz lt k) → OResp (RLock true k None) ∈ o1 →
  ∃ o, st_locks s1 !! n = Some o ∧ k ∈ lo_keys o.
Proof.
  cbn [sstep]. unfold det. intros Hin%elem_of_list_singleton Hresp. revert Hin. unfold srv_trylock.
  assert (Hno : ∀ k' e, OResp (RLock true k None) ∈ [OResp (RLock false k' e)] → False).
  { intros k' e [Heq|Hn]%elem_of_cons; [discriminate|by apply elem_of_nil in Hn]. }
  destruct sid as [sid|]; [|intros [= -> ->]; by apply Hno in Hresp].
  destruct (opt_neg lt); [intros [= -> ->]; by apply Hno in Hresp|].
  unfold srv_acquire. case_bool_decide; [intros [= -> ->]; by apply Hno in Hresp|].
  destruct (get_lock_create _ _ _) as [e|[o s']] eqn:Hg; [intros [= -> ->]; by apply Hno in Hresp|].
  destruct (can_acquire n o s'); [|intros [= -> ->]; by apply Hno in Hresp].
  intros [= -> ->]. rewrite record_grant_locks. apply get_lock_create_lookup in Hg.
  unfold add_key. rewrite Hg. cbn. rewrite lookup_insert. eexists; split; [done|]. cbn.
  apply elem_of_app. right. by left.
Qed.

Lemma srv_unlock_ok cfg n k s o :
  st_locks s !! n = Some o → k ∈ lo_keys o → ∃ s' outs, srv_unlock cfg n k s = (s', (true, None), outs).
Proof.
  intros Hl Hk. unfold srv_unlock, mgr_unlock. cbn. rewrite Hl. rewrite bool_decide_true by done.
  destruct (hand_off _ _ _) as [s2 outs]. eauto.
Qed.

Lemma unlock_held cfg s n k o sid' s2 o2 :
  st_locks s !! n = Some o → k ∈ lo_keys o →
  (s2, o2) ∈ sstep cfg s (EUnlock sid' n k) → OResp (RUnlock true None) ∈ o2.
Proof.
  intros Hl Hk. cbn [sstep]. destruct (srv_unlock_ok cfg n k s o Hl Hk) as (s' & outs & ->).
  unfold det. intros [= -> ->]%elem_of_list_singleton. apply elem_of_app. right. by left.
Qed.

Lemma trylock_then_unlock cfg s sid n sz lt k s1 o1 sid' s2 o2 :
  (s1, o1) ∈ sstep cfg s (ETryLock sid n sz lt k) → OResp (RLock true k None) ∈ o1 →
  (s2, o2) ∈ sstep cfg s1 (EUnlock sid' n k) → OResp (RUnlock true None) ∈ o2.
Proof.
  intros H1 Hr H2. destruct (trylock_grant_holds _ _ _ _ _ _ _ _ _ H1 Hr) as (o & Hl & Hk).
  exact (unlock_held _ _ _ _ _ _ _ _ Hl Hk H2).
Qed.

Lemma elem_of_seq_in_lift x pre post o :
  (∀ y, ROSeq y ∉ pre) → (∀ y, ROSeq y ∉ post) → ROSeq x ∈ pre ++ map ROSeq o ++ post → x ∈ o.
Proof.
  intros Hpre Hpost [Hin|[Hin|Hin]%elem_of_app]%elem_of_app.
  - by apply Hpre in Hin.
  - by apply elem_of_seq_routs.
  - by apply Hpost in Hin.
Qed.

Lemma C15_mixed_rest_to_grpc : T_C15_mixed_rest_to_grpc.
Proof.
  intros cfg tmo st c n sz lt k st1 o1 sid' st2 o2 H1 Hr H2. cbn [mstep rstep] in H1, H2.
  assert (Hno : ∀ code, ROSeq (OResp (RLock true k None)) ∈ [ROStatus code] → False).
  { intros code [Heq|Hn]%elem_of_cons; [discriminate|by apply elem_of_nil in Hn]. }
  destruct (r_table st !! c) as [se|].
  2:{ apply elem_of_list_singleton in H1. inversion H1; subst. by apply Hno in Hr. }
  destruct (r_now st <? rs_deadline se).
  2:{ apply elem_of_list_singleton in H1. inversion H1; subst. by apply Hno in Hr. }
  cbn [req_event] in H1.
  apply elem_of_lift_seq in H1 as (s1 & oo1 & Hs1 & -> & ->).
  apply elem_of_lift_seq in H2 as (s2 & oo2 & Hs2 & -> & ->). cbn in Hs2.
  apply elem_of_seq_in_lift in Hr.
  2:{ intros y [Heq|Hn]%elem_of_cons; [discriminate|by apply elem_of_nil in Hn]. }
  2:{ intros y Hn. by apply elem_of_nil in Hn. }
  cbn. rewrite app_nil_r. apply elem_of_map. eexists; split; [done|].
  exact (trylock_then_unlock _ _ _ _ _ _ _ _ _ sid' _ _ Hs1 Hr Hs2).
Qed.

Lemma C15_mixed_grpc_to_rest : T_C15_mixed_grpc_to_rest.
Proof.
  intros cfg tmo st sid n sz lt k st1 o1 c st2 o2 H1 Hr (c' & se & [= <-] & Hl & Hlt) H2.
  cbn [mstep rstep] in H1, H2. rewrite Hl in H2.
  destruct (Z.ltb_spec (r_now st1) (rs_deadline se)); [|lia]. cbn [req_event] in H2.
  apply elem_of_lift_seq in H1 as (s1 & oo1 & Hs1 & -> & ->).
  apply elem_of_lift_seq in H2 as (s2 & oo2 & Hs2 & -> & ->). cbn in Hs2.
  cbn in Hr. rewrite app_nil_r in Hr. apply elem_of_seq_routs in Hr.
  split.
  - apply elem_of_app. right. rewrite app_nil_r. apply elem_of_map. eexists; split; [done|].
    exact (trylock_then_unlock _ _ _ _ _ _ _ _ _ (Some (rs_sid se)) _ _ Hs1 Hr Hs2).
  - rewrite !statuses_app, statuses_seq. cbn.
    intros [Heq|Hn]%elem_of_cons; [discriminate|by apply elem_of_nil in Hn].
Qed.

(** ** C15_equiv: lock-step simulation of the REST run by the gRPC run *)

Lemma not_refused_app a b : not_refused (a ++ b) = not_refused a && not_refused b.
Proof. apply forallb_app. Qed.
Lemma not_refused_seq o : not_refused (map ROSeq o) = true.
Proof. induction o; [done|]. cbn. apply IHo. Qed.

Lemma Forall2_map_same {A B C} (R : B → C → Prop) (f : A → B) (g : A → C) l :
  (∀ x, R (f x) (g x)) → Forall2 R (map f l) (map g l).
Proof. intros H. induction l; cbn; constructor; auto. Qed.

Lemma Forall2_elem_l {A B} (R : A → B → Prop) l k x : Forall2 R l k → x ∈ l → ∃ y, y ∈ k ∧ R x y.
Proof.
  induction 1 as [|a b l k Hab _ IH]; [by intros ?%elem_of_nil|].
  intros [->|Hin]%elem_of_cons.
  - exists b. split; [by left|done].
  - destruct (IH Hin) as (y & ? & ?). exists y. split; [by right|done].
Qed.

Lemma Forall2_flat_map_eq {A B C D E} (R : A → B → Prop) (f : A → list C) (g : B → list D)
    (p : C → E) (q : D → E) l k :
  Forall2 R l k → (∀ x y, R x y → map p (f x) = map q (g y)) →
  map p (flat_map f l) = map q (flat_map g k).
Proof.
  intros HF H. induction HF as [|x y l k Hxy _ IH]; [done|].
  cbn [flat_map]. rewrite !map_app. f_equal; [by apply H|exact IH].
Qed.

Lemma idle_due_none target st :
  (∀ c se, r_table st !! c = Some se → target < rs_deadline se) → idle_due target st = [].
Proof.
  intros H. unfold idle_due. destruct (list_min (deadlines st)) as [m|] eqn:Hm; [|done].
  apply list_min_spec in Hm as [Hin _]. unfold deadlines in Hin.
  apply elem_of_map in Hin as ([c se] & -> & Hin). apply elem_of_map_to_list in Hin. apply H in Hin.
  destruct (Z.leb_spec (rs_deadline se) target); [lia|done].
Qed.

Lemma advance_max0 cfg x dt s : Z.max 0 x = Z.max 0 dt → advance cfg x s = advance cfg dt s.
Proof. intros H. unfold advance. by rewrite H. Qed.

(** an advance that reaches no idle deadline is literally the lock server's advance *)
Lemma radvance_quiet cfg dt st :
  (∀ c se, r_table st !! c = Some se → r_now st + Z.max 0 dt < rs_deadline se) →
  radvance cfg dt st =
  map (λ '(s', o), (st <| r_seq := s' |> <| r_now := r_now st + Z.max 0 dt |>, map ROSeq o))
      (sstep cfg (r_seq st) (EAdvance dt)).
Proof.
  intros H. unfold radvance. cbn [radvance_loop]. rewrite idle_due_none by done. cbn [sstep].
  rewrite (advance_max0 cfg _ dt) by lia. apply map_ext. intros [s' o]. cbn [app].
  replace (Z.max (r_now st) (r_now st + Z.max 0 dt)) with (r_now st + Z.max 0 dt) by lia. done.
Qed.

Definition fresh (st : rstate) (l : list aitem) : Prop := ∀ c, c ∈ cookies_of l → r_table st !! c = None.

Section equiv.
  Context (cfg : config) (tmo : Z) (Htmo : 0 < tmo).

  Record sim (now : Z) (last : gmap nat Z) (st : rstate) (cookies : gmap nat str)
             (s : sstate) (conns : gmap nat str) : Prop := Sim {
    sim_seq : r_seq st = s;
    sim_now : r_now st = now;
    sim_conn : ∀ i c, cookies !! i = Some c →
      ∃ sid t, conns !! i = Some sid ∧ last !! i = Some t ∧
               r_table st !! c = Some (RSess sid (t + tmo)) ∧ now < t + tmo;
    sim_none : ∀ i, cookies !! i = None → conns !! i = None ∧ last !! i = None;
    sim_own : ∀ c se, r_table st !! c = Some se → ∃ i, cookies !! i = Some c;
    sim_inj : ∀ i j c, cookies !! i = Some c → cookies !! j = Some c → i = j
  }.

  Lemma sim_set_seq now last st cookies s conns s' :
    sim now last st cookies s conns → sim now last (st <| r_seq := s' |>) cookies s' conns.
  Proof. intros []. by constructor. Qed.

  Lemma sim_connect now last st cookies s conns i cookie sid s' :
    sim now last st cookies s conns → cookies !! i = None → r_table st !! cookie = None →
    sim now (<[i := now]> last)
        (st <| r_table := <[cookie := RSess sid (r_now st + tmo)]> (r_table st) |> <| r_seq := s' |>)
        (<[i := cookie]> cookies) s' (<[i := sid]> conns).
  Proof.
    intros [Hseq Hnow Hconn Hnone Hown Hinj] Hi Hfr. constructor; cbn.
    - done.
    - done.
    - intros j c [[<- <-]|[Hne Hj]]%lookup_insert_Some.
      + exists sid, now. rewrite !lookup_insert, Hnow. repeat split; lia.
      + destruct (Hconn _ _ Hj) as (sid0 & t & H1 & H2 & H3 & H4). exists sid0, t.
        rewrite !lookup_insert_ne by done. repeat split; try done.
        rewrite lookup_insert_ne; [done|]. intros <-. congruence.
    - intros j [Hj Hne]%lookup_insert_None. rewrite !lookup_insert_ne by done. by apply Hnone.
    - intros c se [[<- <-]|[Hne Hc]]%lookup_insert_Some.
      + exists i. apply lookup_insert.
      + destruct (Hown _ _ Hc) as [j Hj]. exists j. rewrite lookup_insert_ne; [done|]. intros <-. congruence.
    - intros j1 j2 c [[<- <-]|[Hne1 Hj1]]%lookup_insert_Some [[<- Heq]|[Hne2 Hj2]]%lookup_insert_Some; try done.
      + destruct (Hconn _ _ Hj2) as (? & ? & _ & _ & H3 & _). congruence.
      + subst c. destruct (Hconn _ _ Hj1) as (? & ? & _ & _ & H3 & _). congruence.
      + eauto.
  Qed.

  Lemma sim_disconnect now last st cookies s conns i c s' :
    sim now last st cookies s conns → cookies !! i = Some c →
    sim now (delete i last) (st <| r_table := delete c (r_table st) |> <| r_seq := s' |>)
        (delete i cookies) s' (delete i conns).
  Proof.
    intros [Hseq Hnow Hconn Hnone Hown Hinj] Hi. constructor; cbn.
    - done.
    - done.
    - intros j c0 [Hne Hj]%lookup_delete_Some.
      destruct (Hconn _ _ Hj) as (sid0 & t & H1 & H2 & H3 & H4). exists sid0, t.
      rewrite !lookup_delete_ne by done. repeat split; try done.
      rewrite lookup_delete_ne; [done|]. intros <-. apply Hne. eauto.
    - intros j Hj. destruct (decide (i = j)) as [<-|Hne].
      + by rewrite !lookup_delete.
      + rewrite lookup_delete_ne in Hj by done. rewrite !lookup_delete_ne by done. by apply Hnone.
    - intros c0 se [Hne Hc]%lookup_delete_Some. destruct (Hown _ _ Hc) as [j Hj]. exists j.
      rewrite lookup_delete_ne; [done|]. intros <-. congruence.
    - intros j1 j2 c0 [_ Hj1]%lookup_delete_Some [_ Hj2]%lookup_delete_Some. eauto.
  Qed.

  Lemma sim_touch now last st cookies s conns i c sid :
    sim now last st cookies s conns → cookies !! i = Some c → conns !! i = Some sid →
    sim now (<[i := now]> last) (st <| r_table := <[c := RSess sid (r_now st + tmo)]> (r_table st) |>)
        cookies s conns.
  Proof.
    intros [Hseq Hnow Hconn Hnone Hown Hinj] Hi Hsid. constructor; cbn.
    - done.
    - done.
    - intros j c0 Hj. destruct (decide (j = i)) as [->|Hne].
      + rewrite Hi in Hj. inversion Hj; subst c0. exists sid, now.
        rewrite !lookup_insert, Hnow. repeat split; try done; lia.
      + destruct (Hconn _ _ Hj) as (sid0 & t & H1 & H2 & H3 & H4). exists sid0, t.
        rewrite !lookup_insert_ne by done. repeat split; try done.
        rewrite lookup_insert_ne; [done|]. intros <-. apply Hne. eauto.
    - intros j Hj. destruct (Hnone _ Hj) as [H1 H2]. split; [done|].
      rewrite lookup_insert_ne; [done|]. intros <-. congruence.
    - intros c0 se [[<- <-]|[Hne Hc]]%lookup_insert_Some; eauto.
    - done.
  Qed.

  Lemma sim_advance now last st cookies s conns now' s' :
    sim now last st cookies s conns → now ≤ now' → (∀ i t, last !! i = Some t → now' < t + tmo) →
    sim now' last (st <| r_seq := s' |> <| r_now := now' |>) cookies s' conns.
  Proof.
    intros [Hseq Hnow Hconn Hnone Hown Hinj] Hle Hall. constructor; cbn; try done.
    intros j c Hj. destruct (Hconn _ _ Hj) as (sid0 & t & H1 & H2 & H3 & H4). exists sid0, t.
    repeat split; try done. by eapply Hall.
  Qed.

  Definition out_rel (P : rstate * gmap nat str → sstate * gmap nat str → Prop)
      (x : (rstate * gmap nat str) * list rout) (y : (sstate * gmap nat str) * list out) : Prop :=
    P x.1 y.1 ∧ strip x.2 = y.2 ∧ not_refused x.2 = true.

  Definition post (now : Z) (last : gmap nat Z) (l : list aitem)
      (r : rstate * gmap nat str) (g : sstate * gmap nat str) : Prop :=
    sim now last r.1 r.2 g.1 g.2 ∧ fresh r.1 l.

  Lemma fresh_tail st a l : fresh st (a :: l) → fresh st l.
  Proof.
    intros H c Hc. apply H. unfold cookies_of. cbn [omap list_omap].
    destruct a; try done. by right.
  Qed.

  Lemma skip_rel now last l st cookies s conns :
    sim now last st cookies s conns → fresh st l →
    Forall2 (out_rel (post now last l)) (skip (st, cookies)) (skip (s, conns)).
  Proof. intros H1 H2. constructor; [|constructor]. split; [split; [exact H1|exact H2]|split; done]. Qed.

  Lemma item_sim now last st cookies s conns a l :
    sim now last st cookies s conns → fresh st (a :: l) → NoDup (cookies_of (a :: l)) →
    (∀ i, a ≠ AReq i (QNoop 401)) →
    gaps_ok tmo now last (a :: l) = true →
    ∃ now' last', gaps_ok tmo now' last' l = true ∧
      Forall2 (out_rel (post now' last' l)) (rest_item cfg tmo (st, cookies) a) (grpc_item cfg (s, conns) a).
  Proof.
    intros Hsim Hfr Hnd Hq Hg. pose proof Hsim as [Hseq Hnow Hconn Hnone Hown Hinj].
    pose proof (fresh_tail _ _ _ Hfr) as Hfr'.
    destruct a as [i cookie sid|i|i q|dt|]; cbn [gaps_ok] in Hg; cbn [rest_item grpc_item].
    - (* connect *)
      destruct (cookies !! i) as [c|] eqn:Hc.
      + destruct (Hconn _ _ Hc) as (sid0 & t & H1 & H2 & H3 & H4). rewrite H1. rewrite H2 in Hg.
        exists now, last. split; [done|]. by apply skip_rel.
      + destruct (Hnone _ Hc) as [H1 H2]. rewrite H1. rewrite H2 in Hg.
        exists now, (<[i := now]> last). split; [done|].
        cbn [rstep]. unfold lift_seq. rewrite map_map, Hseq. apply Forall2_map_same. intros [s' o']. unfold out_rel, post. cbn [fst snd].
        assert (Hck : r_table st !! cookie = None) by (apply Hfr; by left).
        split; [split|split].
        * cbn. by apply (sim_connect now last st cookies s conns).
        * intros c0 Hc0. cbn. rewrite lookup_insert_ne; [by apply Hfr'|].
          intros <-. cbn in Hnd. apply NoDup_cons in Hnd as [Hn _]. done.
        * rewrite !strip_app, strip_seq. cbn. by rewrite ?app_nil_r.
        * rewrite !not_refused_app, not_refused_seq. done.
    - (* disconnect *)
      destruct (cookies !! i) as [c|] eqn:Hc.
      + destruct (Hconn _ _ Hc) as (sid0 & t & H1 & H2 & H3 & H4). rewrite H1.
        exists now, (delete i last). split; [done|].
        cbn [rstep]. rewrite H3. cbn [rs_sid]. unfold lift_seq. rewrite map_map, Hseq.
        apply Forall2_map_same. intros [s' o']. unfold out_rel, post. cbn [fst snd].
        split; [split|split].
        * cbn. by apply (sim_disconnect now last st cookies s conns).
        * intros c0 Hc0. cbn. apply lookup_delete_None. right. by apply Hfr'.
        * rewrite !strip_app, strip_seq. cbn. by rewrite ?app_nil_r.
        * rewrite !not_refused_app, not_refused_seq. done.
      + destruct (Hnone _ Hc) as [H1 H2]. rewrite H1. rewrite delete_notin in Hg by done.
        exists now, last. split; [done|]. by apply skip_rel.
    - (* request *)
      destruct (cookies !! i) as [c|] eqn:Hc.
      + destruct (Hconn _ _ Hc) as (sid0 & t & H1 & H2 & H3 & H4). rewrite H1. rewrite H2 in Hg.
        exists now, (<[i := now]> last). split; [done|].
        cbn [rstep]. rewrite H3. cbn [rs_sid rs_deadline]. rewrite Hnow.
        destruct (Z.ltb_spec now (t + tmo)); [|lia].
        pose proof (sim_touch _ _ _ _ _ _ _ _ _ Hsim Hc H1) as Hsim1. rewrite Hnow in Hsim1.
        assert (Hfr1 : ∀ s', fresh (st <| r_table := <[c := RSess sid0 (now + tmo)]> (r_table st) |> <| r_seq := s' |>) l).
        { intros s' c0 Hc0. cbn. rewrite lookup_insert_ne; [by apply Hfr'|].
          intros <-. apply Hfr' in Hc0. congruence. }
        destruct (req_event sid0 q) as [ev|] eqn:Hev.
        * unfold lift_seq. rewrite map_map, Hseq. apply Forall2_map_same. intros [s' o']. unfold out_rel, post. cbn [fst snd].
          split; [split|split].
          -- cbn. by apply (sim_set_seq _ _ _ _ s).
          -- apply Hfr1.
          -- rewrite !strip_app, strip_seq. cbn. by rewrite ?app_nil_r.
          -- rewrite !not_refused_app, not_refused_seq. done.
        * destruct q as [| | |code]; try discriminate. constructor; [|constructor].
          unfold out_rel, post. cbn [fst snd]. split; [split|split]; cbn.
          -- done.
          -- apply (Hfr1 (r_seq st)).
          -- done.
          -- rewrite andb_true_r. apply negb_true_iff, bool_decide_eq_false. intros ->. by apply (Hq i).
      + destruct (Hnone _ Hc) as [H1 H2]. rewrite H1. rewrite H2 in Hg.
        exists now, last. split; [done|]. by apply skip_rel.
    - (* advance *)
      apply andb_true_iff in Hg as [Hall Hg].
      assert (Hall' : ∀ i t, last !! i = Some t → now + Z.max 0 dt < t + tmo).
      { intros i t Hit. rewrite forallb_forall in Hall.
        specialize (Hall (i, t)). cbn in Hall. apply Z.ltb_lt, Hall, elem_of_list_In, elem_of_map_to_list. done. }
      exists (now + Z.max 0 dt), last. split; [done|].
      cbn [rstep]. rewrite radvance_quiet.
      2:{ intros c se Hcs. destruct (Hown _ _ Hcs) as [i Hi].
          destruct (Hconn _ _ Hi) as (sid0 & t & H1 & H2 & H3 & H4).
          rewrite Hcs in H3. inversion H3; subst se. cbn. rewrite Hnow. by eapply Hall'. }
      rewrite map_map, Hseq, Hnow. apply Forall2_map_same. intros [s' o']. unfold out_rel, post. cbn [fst snd].
      split; [split|split].
      * cbn. apply (sim_advance now last st cookies s conns); [done|lia|done].
      * intros c0 Hc0. cbn. by apply Hfr'.
      * by rewrite strip_seq.
      * apply not_refused_seq.
    - (* probe *)
      exists now, last. split; [done|].
      cbn [rstep]. unfold lift_seq. rewrite map_map, Hseq. apply Forall2_map_same. intros [s' o']. unfold out_rel, post. cbn [fst snd].
      split; [split|split].
      * cbn. by apply (sim_set_seq _ _ _ _ s).
      * intros c0 Hc0. cbn. by apply Hfr'.
      * rewrite !strip_app, strip_seq. cbn. by rewrite ?app_nil_r.
      * rewrite !not_refused_app, not_refused_seq. done.
  Qed.

  Definition proj_r (x : (rstate * gmap nat str) * list (list rout)) : sstate * list (list out) :=
    let '((st, _), os) := x in (r_seq st, map strip os).
  Definition proj_g (x : (sstate * gmap nat str) * list (list out)) : sstate * list (list out) :=
    let '((s, _), os) := x in (s, os).

  Lemma NoDup_cookies_tail a l : NoDup (cookies_of (a :: l)) → NoDup (cookies_of l).
  Proof.
    unfold cookies_of. cbn [omap list_omap]. destruct a; try done. by intros [_ ?]%NoDup_cons.
  Qed.

  Lemma runs_sim : ∀ l now last st cookies s conns,
    sim now last st cookies s conns → fresh st l → NoDup (cookies_of l) →
    (∀ i, AReq i (QNoop 401) ∉ l) → gaps_ok tmo now last l = true →
    map proj_r (rest_runs cfg tmo (st, cookies) l) = map proj_g (grpc_runs cfg (s, conns) l) ∧
    (∀ r os, (r, os) ∈ rest_runs cfg tmo (st, cookies) l → Forall (λ o, not_refused o = true) os).
  Proof.
    induction l as [|a l IH]; intros now last st cookies s conns Hsim Hfr Hnd Hq Hg.
    - cbn. split.
      + destruct Hsim as [Hseq _ _ _ _ _]. by rewrite Hseq.
      + intros r os [= -> ->]%elem_of_list_singleton. constructor.
    - destruct (item_sim now last st cookies s conns a l Hsim Hfr Hnd) as (now' & last' & Hg' & HF); [|done|].
      { intros i ->. apply (Hq i). by left. }
      assert (Hq' : ∀ i, AReq i (QNoop 401) ∉ l).
      { intros i Hin. apply (Hq i). by right. }
      pose proof (NoDup_cookies_tail _ _ Hnd) as Hnd'.
      cbn [rest_runs grpc_runs]. split.
      + eapply Forall2_flat_map_eq; [exact HF|]. intros [[st1 ck1] o1] [[s1 cn1] o1'] Hxy.
        destruct Hxy as ([Hsim1 Hfr1] & Hstrip & _). cbn [fst snd] in Hsim1, Hfr1, Hstrip.
        destruct (IH now' last' st1 ck1 s1 cn1 Hsim1 Hfr1 Hnd' Hq' Hg') as [IH1 _].
        rewrite !map_map.
        transitivity (map (λ x, (x.1, o1' :: x.2)) (map proj_r (rest_runs cfg tmo (st1, ck1) l))).
        { rewrite map_map. apply map_ext. intros [[st2 ck2] os]. cbn. by rewrite Hstrip. }
        rewrite IH1, map_map. apply map_ext. intros [[s2 cn2] os]. done.
      + intros r os Hin. apply elem_of_list_In, in_flat_map in Hin as ([[st1 ck1] o1] & Hin1 & Hin2).
        apply elem_of_list_In in Hin1, Hin2. apply elem_of_map in Hin2 as ([r2 os2] & [= -> ->] & Hin2).
        destruct (Forall2_elem_l _ _ _ _ HF Hin1) as ([[s1 cn1] o1'] & _ & ([Hsim1 Hfr1] & _ & Hnr)).
        cbn [fst snd] in Hsim1, Hfr1, Hnr. constructor; [done|].
        destruct (IH now' last' st1 ck1 s1 cn1 Hsim1 Hfr1 Hnd' Hq' Hg') as [_ IH2]. by eapply IH2.
  Qed.
End equiv.

Lemma C15_equiv : T_C15_equiv.
Proof.
  intros cfg tmo items Htmo Hnd Hg Hq.
  assert (Hsim : sim tmo 0 ∅ (rinit cfg) ∅ (init_state cfg) ∅).
  { constructor; cbn; try done; intros *; by rewrite lookup_empty. }
  assert (Hfr : fresh (rinit cfg) items) by (intros c _; apply lookup_empty).
  destruct (runs_sim cfg tmo Htmo items 0 ∅ _ _ _ _ Hsim Hfr Hnd Hq Hg) as [H1 H2].
  split; [exact H1|exact H2].
Qed.

