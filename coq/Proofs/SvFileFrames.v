(** Work package svfile, part 0: the helper operations of Msv (Model/Sv.v) leave most fields of the state alone.
    Frame lemmas [fr_<helper>_<field>], one per (helper, untouched field), collected in the rewrite database [svf]. *)
From Coq Require Import Lia ZifyBool ZifyNat.
From Ldlm Require Import Model.Base Model.Err Model.Sv Proofs.SvDefs.
From RecordUpdate Require Import RecordSet.
Import RecordSetNotations.
Local Open Scope Z_scope.

Ltac fr_solve :=
  intros; unfold sess_destroy, sess_remove, sess_add, tm_reset, tm_remove, tm_add, mgr_unlock, hand_over, vsave, spawn, vfinish, vset_pc, vemit;
  repeat case_match; simpl; congruence.

Lemma fr_vemit_locks e s : v_locks (vemit e s) = v_locks s.
Proof. fr_solve. Qed.
Lemma fr_vemit_timers e s : v_timers (vemit e s) = v_timers s.
Proof. fr_solve. Qed.
Lemma fr_vemit_theap e s : v_theap (vemit e s) = v_theap s.
Proof. fr_solve. Qed.
Lemma fr_vemit_tnext e s : v_tnext (vemit e s) = v_tnext s.
Proof. fr_solve. Qed.
Lemma fr_vemit_tmshut e s : v_tmshut (vemit e s) = v_tmshut s.
Proof. fr_solve. Qed.
Lemma fr_vemit_sess e s : v_sess (vemit e s) = v_sess s.
Proof. fr_solve. Qed.
Lemma fr_vemit_file e s : v_file (vemit e s) = v_file s.
Proof. fr_solve. Qed.
Lemma fr_vemit_shut e s : v_shut (vemit e s) = v_shut s.
Proof. fr_solve. Qed.
Lemma fr_vemit_mgrshut e s : v_mgrshut (vemit e s) = v_mgrshut s.
Proof. fr_solve. Qed.
Lemma fr_vemit_now e s : v_now (vemit e s) = v_now s.
Proof. fr_solve. Qed.
Lemma fr_vemit_thr e s : v_thr (vemit e s) = v_thr s.
Proof. fr_solve. Qed.
Lemma fr_vemit_next e s : v_next (vemit e s) = v_next s.
Proof. fr_solve. Qed.
Lemma fr_vemit_crashed e s : v_crashed (vemit e s) = v_crashed s.
Proof. fr_solve. Qed.
Lemma fr_vset_pc_locks tid pc s : v_locks (vset_pc tid pc s) = v_locks s.
Proof. fr_solve. Qed.
Lemma fr_vset_pc_timers tid pc s : v_timers (vset_pc tid pc s) = v_timers s.
Proof. fr_solve. Qed.
Lemma fr_vset_pc_theap tid pc s : v_theap (vset_pc tid pc s) = v_theap s.
Proof. fr_solve. Qed.
Lemma fr_vset_pc_tnext tid pc s : v_tnext (vset_pc tid pc s) = v_tnext s.
Proof. fr_solve. Qed.
Lemma fr_vset_pc_tmshut tid pc s : v_tmshut (vset_pc tid pc s) = v_tmshut s.
Proof. fr_solve. Qed.
Lemma fr_vset_pc_sess tid pc s : v_sess (vset_pc tid pc s) = v_sess s.
Proof. fr_solve. Qed.
Lemma fr_vset_pc_file tid pc s : v_file (vset_pc tid pc s) = v_file s.
Proof. fr_solve. Qed.
Lemma fr_vset_pc_shut tid pc s : v_shut (vset_pc tid pc s) = v_shut s.
Proof. fr_solve. Qed.
Lemma fr_vset_pc_mgrshut tid pc s : v_mgrshut (vset_pc tid pc s) = v_mgrshut s.
Proof. fr_solve. Qed.
Lemma fr_vset_pc_now tid pc s : v_now (vset_pc tid pc s) = v_now s.
Proof. fr_solve. Qed.
Lemma fr_vset_pc_next tid pc s : v_next (vset_pc tid pc s) = v_next s.
Proof. fr_solve. Qed.
Lemma fr_vset_pc_crashed tid pc s : v_crashed (vset_pc tid pc s) = v_crashed s.
Proof. fr_solve. Qed.
Lemma fr_vset_pc_trace tid pc s : v_trace (vset_pc tid pc s) = v_trace s.
Proof. fr_solve. Qed.
Lemma fr_spawn_locks op pc s : v_locks (spawn op pc s) = v_locks s.
Proof. fr_solve. Qed.
Lemma fr_spawn_timers op pc s : v_timers (spawn op pc s) = v_timers s.
Proof. fr_solve. Qed.
Lemma fr_spawn_theap op pc s : v_theap (spawn op pc s) = v_theap s.
Proof. fr_solve. Qed.
Lemma fr_spawn_tnext op pc s : v_tnext (spawn op pc s) = v_tnext s.
Proof. fr_solve. Qed.
Lemma fr_spawn_tmshut op pc s : v_tmshut (spawn op pc s) = v_tmshut s.
Proof. fr_solve. Qed.
Lemma fr_spawn_sess op pc s : v_sess (spawn op pc s) = v_sess s.
Proof. fr_solve. Qed.
Lemma fr_spawn_file op pc s : v_file (spawn op pc s) = v_file s.
Proof. fr_solve. Qed.
Lemma fr_spawn_shut op pc s : v_shut (spawn op pc s) = v_shut s.
Proof. fr_solve. Qed.
Lemma fr_spawn_mgrshut op pc s : v_mgrshut (spawn op pc s) = v_mgrshut s.
Proof. fr_solve. Qed.
Lemma fr_spawn_now op pc s : v_now (spawn op pc s) = v_now s.
Proof. fr_solve. Qed.
Lemma fr_spawn_crashed op pc s : v_crashed (spawn op pc s) = v_crashed s.
Proof. fr_solve. Qed.
Lemma fr_spawn_trace op pc s : v_trace (spawn op pc s) = v_trace s.
Proof. fr_solve. Qed.
Lemma fr_vsave_locks cfg s : v_locks (vsave cfg s) = v_locks s.
Proof. fr_solve. Qed.
Lemma fr_vsave_timers cfg s : v_timers (vsave cfg s) = v_timers s.
Proof. fr_solve. Qed.
Lemma fr_vsave_theap cfg s : v_theap (vsave cfg s) = v_theap s.
Proof. fr_solve. Qed.
Lemma fr_vsave_tnext cfg s : v_tnext (vsave cfg s) = v_tnext s.
Proof. fr_solve. Qed.
Lemma fr_vsave_tmshut cfg s : v_tmshut (vsave cfg s) = v_tmshut s.
Proof. fr_solve. Qed.
Lemma fr_vsave_sess cfg s : v_sess (vsave cfg s) = v_sess s.
Proof. fr_solve. Qed.
Lemma fr_vsave_shut cfg s : v_shut (vsave cfg s) = v_shut s.
Proof. fr_solve. Qed.
Lemma fr_vsave_mgrshut cfg s : v_mgrshut (vsave cfg s) = v_mgrshut s.
Proof. fr_solve. Qed.
Lemma fr_vsave_now cfg s : v_now (vsave cfg s) = v_now s.
Proof. fr_solve. Qed.
Lemma fr_vsave_thr cfg s : v_thr (vsave cfg s) = v_thr s.
Proof. fr_solve. Qed.
Lemma fr_vsave_next cfg s : v_next (vsave cfg s) = v_next s.
Proof. fr_solve. Qed.
Lemma fr_vsave_crashed cfg s : v_crashed (vsave cfg s) = v_crashed s.
Proof. fr_solve. Qed.
Lemma fr_vsave_trace cfg s : v_trace (vsave cfg s) = v_trace s.
Proof. fr_solve. Qed.
Lemma fr_hand_over_timers n s : v_timers (hand_over n s) = v_timers s.
Proof. fr_solve. Qed.
Lemma fr_hand_over_theap n s : v_theap (hand_over n s) = v_theap s.
Proof. fr_solve. Qed.
Lemma fr_hand_over_tnext n s : v_tnext (hand_over n s) = v_tnext s.
Proof. fr_solve. Qed.
Lemma fr_hand_over_tmshut n s : v_tmshut (hand_over n s) = v_tmshut s.
Proof. fr_solve. Qed.
Lemma fr_hand_over_sess n s : v_sess (hand_over n s) = v_sess s.
Proof. fr_solve. Qed.
Lemma fr_hand_over_file n s : v_file (hand_over n s) = v_file s.
Proof. fr_solve. Qed.
Lemma fr_hand_over_shut n s : v_shut (hand_over n s) = v_shut s.
Proof. fr_solve. Qed.
Lemma fr_hand_over_mgrshut n s : v_mgrshut (hand_over n s) = v_mgrshut s.
Proof. fr_solve. Qed.
Lemma fr_hand_over_now n s : v_now (hand_over n s) = v_now s.
Proof. fr_solve. Qed.
Lemma fr_hand_over_next n s : v_next (hand_over n s) = v_next s.
Proof. fr_solve. Qed.
Lemma fr_hand_over_crashed n s : v_crashed (hand_over n s) = v_crashed s.
Proof. fr_solve. Qed.
Lemma fr_mgr_unlock_timers tid n k s : v_timers ((mgr_unlock tid n k s).1) = v_timers s.
Proof. fr_solve. Qed.
Lemma fr_mgr_unlock_theap tid n k s : v_theap ((mgr_unlock tid n k s).1) = v_theap s.
Proof. fr_solve. Qed.
Lemma fr_mgr_unlock_tnext tid n k s : v_tnext ((mgr_unlock tid n k s).1) = v_tnext s.
Proof. fr_solve. Qed.
Lemma fr_mgr_unlock_tmshut tid n k s : v_tmshut ((mgr_unlock tid n k s).1) = v_tmshut s.
Proof. fr_solve. Qed.
Lemma fr_mgr_unlock_sess tid n k s : v_sess ((mgr_unlock tid n k s).1) = v_sess s.
Proof. fr_solve. Qed.
Lemma fr_mgr_unlock_file tid n k s : v_file ((mgr_unlock tid n k s).1) = v_file s.
Proof. fr_solve. Qed.
Lemma fr_mgr_unlock_shut tid n k s : v_shut ((mgr_unlock tid n k s).1) = v_shut s.
Proof. fr_solve. Qed.
Lemma fr_mgr_unlock_mgrshut tid n k s : v_mgrshut ((mgr_unlock tid n k s).1) = v_mgrshut s.
Proof. fr_solve. Qed.
Lemma fr_mgr_unlock_now tid n k s : v_now ((mgr_unlock tid n k s).1) = v_now s.
Proof. fr_solve. Qed.
Lemma fr_mgr_unlock_next tid n k s : v_next ((mgr_unlock tid n k s).1) = v_next s.
Proof. fr_solve. Qed.
Lemma fr_mgr_unlock_crashed tid n k s : v_crashed ((mgr_unlock tid n k s).1) = v_crashed s.
Proof. fr_solve. Qed.
Lemma fr_tm_add_locks n k sid d s : v_locks (tm_add n k sid d s) = v_locks s.
Proof. fr_solve. Qed.
Lemma fr_tm_add_tmshut n k sid d s : v_tmshut (tm_add n k sid d s) = v_tmshut s.
Proof. fr_solve. Qed.
Lemma fr_tm_add_sess n k sid d s : v_sess (tm_add n k sid d s) = v_sess s.
Proof. fr_solve. Qed.
Lemma fr_tm_add_file n k sid d s : v_file (tm_add n k sid d s) = v_file s.
Proof. fr_solve. Qed.
Lemma fr_tm_add_shut n k sid d s : v_shut (tm_add n k sid d s) = v_shut s.
Proof. fr_solve. Qed.
Lemma fr_tm_add_mgrshut n k sid d s : v_mgrshut (tm_add n k sid d s) = v_mgrshut s.
Proof. fr_solve. Qed.
Lemma fr_tm_add_now n k sid d s : v_now (tm_add n k sid d s) = v_now s.
Proof. fr_solve. Qed.
Lemma fr_tm_add_thr n k sid d s : v_thr (tm_add n k sid d s) = v_thr s.
Proof. fr_solve. Qed.
Lemma fr_tm_add_next n k sid d s : v_next (tm_add n k sid d s) = v_next s.
Proof. fr_solve. Qed.
Lemma fr_tm_add_crashed n k sid d s : v_crashed (tm_add n k sid d s) = v_crashed s.
Proof. fr_solve. Qed.
Lemma fr_tm_add_trace n k sid d s : v_trace (tm_add n k sid d s) = v_trace s.
Proof. fr_solve. Qed.
Lemma fr_tm_remove_locks tk s : v_locks ((tm_remove tk s).1) = v_locks s.
Proof. fr_solve. Qed.
Lemma fr_tm_remove_tnext tk s : v_tnext ((tm_remove tk s).1) = v_tnext s.
Proof. fr_solve. Qed.
Lemma fr_tm_remove_tmshut tk s : v_tmshut ((tm_remove tk s).1) = v_tmshut s.
Proof. fr_solve. Qed.
Lemma fr_tm_remove_sess tk s : v_sess ((tm_remove tk s).1) = v_sess s.
Proof. fr_solve. Qed.
Lemma fr_tm_remove_file tk s : v_file ((tm_remove tk s).1) = v_file s.
Proof. fr_solve. Qed.
Lemma fr_tm_remove_shut tk s : v_shut ((tm_remove tk s).1) = v_shut s.
Proof. fr_solve. Qed.
Lemma fr_tm_remove_mgrshut tk s : v_mgrshut ((tm_remove tk s).1) = v_mgrshut s.
Proof. fr_solve. Qed.
Lemma fr_tm_remove_now tk s : v_now ((tm_remove tk s).1) = v_now s.
Proof. fr_solve. Qed.
Lemma fr_tm_remove_thr tk s : v_thr ((tm_remove tk s).1) = v_thr s.
Proof. fr_solve. Qed.
Lemma fr_tm_remove_next tk s : v_next ((tm_remove tk s).1) = v_next s.
Proof. fr_solve. Qed.
Lemma fr_tm_remove_crashed tk s : v_crashed ((tm_remove tk s).1) = v_crashed s.
Proof. fr_solve. Qed.
Lemma fr_tm_remove_trace tk s : v_trace ((tm_remove tk s).1) = v_trace s.
Proof. fr_solve. Qed.
Lemma fr_tm_reset_locks tk d s : v_locks ((tm_reset tk d s).1) = v_locks s.
Proof. fr_solve. Qed.
Lemma fr_tm_reset_timers tk d s : v_timers ((tm_reset tk d s).1) = v_timers s.
Proof. fr_solve. Qed.
Lemma fr_tm_reset_tnext tk d s : v_tnext ((tm_reset tk d s).1) = v_tnext s.
Proof. fr_solve. Qed.
Lemma fr_tm_reset_tmshut tk d s : v_tmshut ((tm_reset tk d s).1) = v_tmshut s.
Proof. fr_solve. Qed.
Lemma fr_tm_reset_sess tk d s : v_sess ((tm_reset tk d s).1) = v_sess s.
Proof. fr_solve. Qed.
Lemma fr_tm_reset_file tk d s : v_file ((tm_reset tk d s).1) = v_file s.
Proof. fr_solve. Qed.
Lemma fr_tm_reset_shut tk d s : v_shut ((tm_reset tk d s).1) = v_shut s.
Proof. fr_solve. Qed.
Lemma fr_tm_reset_mgrshut tk d s : v_mgrshut ((tm_reset tk d s).1) = v_mgrshut s.
Proof. fr_solve. Qed.
Lemma fr_tm_reset_now tk d s : v_now ((tm_reset tk d s).1) = v_now s.
Proof. fr_solve. Qed.
Lemma fr_tm_reset_thr tk d s : v_thr ((tm_reset tk d s).1) = v_thr s.
Proof. fr_solve. Qed.
Lemma fr_tm_reset_next tk d s : v_next ((tm_reset tk d s).1) = v_next s.
Proof. fr_solve. Qed.
Lemma fr_tm_reset_crashed tk d s : v_crashed ((tm_reset tk d s).1) = v_crashed s.
Proof. fr_solve. Qed.
Lemma fr_tm_reset_trace tk d s : v_trace ((tm_reset tk d s).1) = v_trace s.
Proof. fr_solve. Qed.
Lemma fr_sess_add_locks cfg tid sid c s : v_locks (sess_add cfg tid sid c s) = v_locks s.
Proof. fr_solve. Qed.
Lemma fr_sess_add_timers cfg tid sid c s : v_timers (sess_add cfg tid sid c s) = v_timers s.
Proof. fr_solve. Qed.
Lemma fr_sess_add_theap cfg tid sid c s : v_theap (sess_add cfg tid sid c s) = v_theap s.
Proof. fr_solve. Qed.
Lemma fr_sess_add_tnext cfg tid sid c s : v_tnext (sess_add cfg tid sid c s) = v_tnext s.
Proof. fr_solve. Qed.
Lemma fr_sess_add_tmshut cfg tid sid c s : v_tmshut (sess_add cfg tid sid c s) = v_tmshut s.
Proof. fr_solve. Qed.
Lemma fr_sess_add_shut cfg tid sid c s : v_shut (sess_add cfg tid sid c s) = v_shut s.
Proof. fr_solve. Qed.
Lemma fr_sess_add_mgrshut cfg tid sid c s : v_mgrshut (sess_add cfg tid sid c s) = v_mgrshut s.
Proof. fr_solve. Qed.
Lemma fr_sess_add_now cfg tid sid c s : v_now (sess_add cfg tid sid c s) = v_now s.
Proof. fr_solve. Qed.
Lemma fr_sess_add_thr cfg tid sid c s : v_thr (sess_add cfg tid sid c s) = v_thr s.
Proof. fr_solve. Qed.
Lemma fr_sess_add_next cfg tid sid c s : v_next (sess_add cfg tid sid c s) = v_next s.
Proof. fr_solve. Qed.
Lemma fr_sess_add_crashed cfg tid sid c s : v_crashed (sess_add cfg tid sid c s) = v_crashed s.
Proof. fr_solve. Qed.
Lemma fr_sess_remove_locks cfg tid n k s : v_locks (sess_remove cfg tid n k s) = v_locks s.
Proof. fr_solve. Qed.
Lemma fr_sess_remove_timers cfg tid n k s : v_timers (sess_remove cfg tid n k s) = v_timers s.
Proof. fr_solve. Qed.
Lemma fr_sess_remove_theap cfg tid n k s : v_theap (sess_remove cfg tid n k s) = v_theap s.
Proof. fr_solve. Qed.
Lemma fr_sess_remove_tnext cfg tid n k s : v_tnext (sess_remove cfg tid n k s) = v_tnext s.
Proof. fr_solve. Qed.
Lemma fr_sess_remove_tmshut cfg tid n k s : v_tmshut (sess_remove cfg tid n k s) = v_tmshut s.
Proof. fr_solve. Qed.
Lemma fr_sess_remove_shut cfg tid n k s : v_shut (sess_remove cfg tid n k s) = v_shut s.
Proof. fr_solve. Qed.
Lemma fr_sess_remove_mgrshut cfg tid n k s : v_mgrshut (sess_remove cfg tid n k s) = v_mgrshut s.
Proof. fr_solve. Qed.
Lemma fr_sess_remove_now cfg tid n k s : v_now (sess_remove cfg tid n k s) = v_now s.
Proof. fr_solve. Qed.
Lemma fr_sess_remove_thr cfg tid n k s : v_thr (sess_remove cfg tid n k s) = v_thr s.
Proof. fr_solve. Qed.
Lemma fr_sess_remove_next cfg tid n k s : v_next (sess_remove cfg tid n k s) = v_next s.
Proof. fr_solve. Qed.
Lemma fr_sess_remove_crashed cfg tid n k s : v_crashed (sess_remove cfg tid n k s) = v_crashed s.
Proof. fr_solve. Qed.
Lemma fr_sess_destroy_locks cfg tid sid s : v_locks ((sess_destroy cfg tid sid s).1) = v_locks s.
Proof. fr_solve. Qed.
Lemma fr_sess_destroy_timers cfg tid sid s : v_timers ((sess_destroy cfg tid sid s).1) = v_timers s.
Proof. fr_solve. Qed.
Lemma fr_sess_destroy_theap cfg tid sid s : v_theap ((sess_destroy cfg tid sid s).1) = v_theap s.
Proof. fr_solve. Qed.
Lemma fr_sess_destroy_tnext cfg tid sid s : v_tnext ((sess_destroy cfg tid sid s).1) = v_tnext s.
Proof. fr_solve. Qed.
Lemma fr_sess_destroy_tmshut cfg tid sid s : v_tmshut ((sess_destroy cfg tid sid s).1) = v_tmshut s.
Proof. fr_solve. Qed.
Lemma fr_sess_destroy_shut cfg tid sid s : v_shut ((sess_destroy cfg tid sid s).1) = v_shut s.
Proof. fr_solve. Qed.
Lemma fr_sess_destroy_mgrshut cfg tid sid s : v_mgrshut ((sess_destroy cfg tid sid s).1) = v_mgrshut s.
Proof. fr_solve. Qed.
Lemma fr_sess_destroy_now cfg tid sid s : v_now ((sess_destroy cfg tid sid s).1) = v_now s.
Proof. fr_solve. Qed.
Lemma fr_sess_destroy_thr cfg tid sid s : v_thr ((sess_destroy cfg tid sid s).1) = v_thr s.
Proof. fr_solve. Qed.
Lemma fr_sess_destroy_next cfg tid sid s : v_next ((sess_destroy cfg tid sid s).1) = v_next s.
Proof. fr_solve. Qed.
Lemma fr_sess_destroy_crashed cfg tid sid s : v_crashed ((sess_destroy cfg tid sid s).1) = v_crashed s.
Proof. fr_solve. Qed.
#[export] Hint Rewrite fr_vemit_locks fr_vemit_timers fr_vemit_theap fr_vemit_tnext fr_vemit_tmshut fr_vemit_sess fr_vemit_file fr_vemit_shut fr_vemit_mgrshut fr_vemit_now fr_vemit_thr fr_vemit_next fr_vemit_crashed fr_vset_pc_locks fr_vset_pc_timers fr_vset_pc_theap fr_vset_pc_tnext fr_vset_pc_tmshut fr_vset_pc_sess fr_vset_pc_file fr_vset_pc_shut fr_vset_pc_mgrshut fr_vset_pc_now fr_vset_pc_next fr_vset_pc_crashed fr_vset_pc_trace fr_spawn_locks fr_spawn_timers fr_spawn_theap fr_spawn_tnext fr_spawn_tmshut fr_spawn_sess fr_spawn_file fr_spawn_shut fr_spawn_mgrshut fr_spawn_now fr_spawn_crashed fr_spawn_trace fr_vsave_locks fr_vsave_timers fr_vsave_theap fr_vsave_tnext fr_vsave_tmshut fr_vsave_sess fr_vsave_shut fr_vsave_mgrshut fr_vsave_now fr_vsave_thr fr_vsave_next fr_vsave_crashed fr_vsave_trace fr_hand_over_timers fr_hand_over_theap fr_hand_over_tnext fr_hand_over_tmshut fr_hand_over_sess fr_hand_over_file fr_hand_over_shut fr_hand_over_mgrshut fr_hand_over_now fr_hand_over_next fr_hand_over_crashed fr_mgr_unlock_timers fr_mgr_unlock_theap fr_mgr_unlock_tnext fr_mgr_unlock_tmshut fr_mgr_unlock_sess fr_mgr_unlock_file fr_mgr_unlock_shut fr_mgr_unlock_mgrshut fr_mgr_unlock_now fr_mgr_unlock_next fr_mgr_unlock_crashed fr_tm_add_locks fr_tm_add_tmshut fr_tm_add_sess fr_tm_add_file fr_tm_add_shut fr_tm_add_mgrshut fr_tm_add_now fr_tm_add_thr fr_tm_add_next fr_tm_add_crashed fr_tm_add_trace fr_tm_remove_locks fr_tm_remove_tnext fr_tm_remove_tmshut fr_tm_remove_sess fr_tm_remove_file fr_tm_remove_shut fr_tm_remove_mgrshut fr_tm_remove_now fr_tm_remove_thr fr_tm_remove_next fr_tm_remove_crashed fr_tm_remove_trace fr_tm_reset_locks fr_tm_reset_timers fr_tm_reset_tnext fr_tm_reset_tmshut fr_tm_reset_sess fr_tm_reset_file fr_tm_reset_shut fr_tm_reset_mgrshut fr_tm_reset_now fr_tm_reset_thr fr_tm_reset_next fr_tm_reset_crashed fr_tm_reset_trace fr_sess_add_locks fr_sess_add_timers fr_sess_add_theap fr_sess_add_tnext fr_sess_add_tmshut fr_sess_add_shut fr_sess_add_mgrshut fr_sess_add_now fr_sess_add_thr fr_sess_add_next fr_sess_add_crashed fr_sess_remove_locks fr_sess_remove_timers fr_sess_remove_theap fr_sess_remove_tnext fr_sess_remove_tmshut fr_sess_remove_shut fr_sess_remove_mgrshut fr_sess_remove_now fr_sess_remove_thr fr_sess_remove_next fr_sess_remove_crashed fr_sess_destroy_locks fr_sess_destroy_timers fr_sess_destroy_theap fr_sess_destroy_tnext fr_sess_destroy_tmshut fr_sess_destroy_shut fr_sess_destroy_mgrshut fr_sess_destroy_now fr_sess_destroy_thr fr_sess_destroy_next fr_sess_destroy_crashed : svf.
