(** * Booting on an ARBITRARY well-formed state file (work package seqfile)

    The C10 theorems of SeqTime4.v / SeqProps.v assume that the file was written by a reachable quiescent state of
    the model; then no entry is ever refused by the reload. Here the file is any map [m] whose (name, key) pairs are
    pairwise distinct ([file_wf]): more entries of a lock than its size (finding F-OVER), size mismatches, invalid sizes.
    [boot_on cfg order m] (Model/SeqFile.v) is the model's [restart] from [file_state cfg m].

    Statements first ([T_...]), proofs below. All statements are about [c_file cfg = true]; nothing needs [cfg_ok]. *)
From Coq Require Import Lia ZifyBool ZifyNat.
From Ldlm Require Import Model.Base Model.Err Model.Seq Model.Track Model.SeqFile
  Proofs.SeqDefs Proofs.SeqLemmasKey Proofs.SeqInvBase Proofs.SeqInvOps Proofs.SeqInvTime Proofs.SeqInv
  Proofs.SeqTimeBase Proofs.SeqTime1 Proofs.SeqTime4 Proofs.TrackPBase Proofs.TrackPProbe.
From RecordUpdate Require Import RecordSet.
Import RecordSetNotations.
Local Open Scope Z_scope.

(** ** Vocabulary of the statements *)

Definition nk (c : clock) : str * str := (cl_name c, cl_key c).

(** [c] is an entry of the file under session [sid] *)
Definition m_listed (m : gmap str (list clock)) (sid : str) (c : clock) : Prop := ∃ l, m !! sid = Some l ∧ c ∈ l.
Definition file_entries (m : gmap str (list clock)) : list clock := concat (map snd (map_to_list m)).

(** the state in which server.New starts the reload, the sequence of (session, entry) visits, and the state in which
    the visit after [pre] happens *)
Definition boot_start (cfg : config) (m : gmap str (list clock)) : sstate :=
  SState ∅ m ∅ [] (Some m) 0 (0 + c_gc_interval cfg) false [].
Definition boot_todo (order : list str) (m : gmap str (list clock)) : list (str * clock) :=
  todo_list m (reload_order order m).
Definition boot_at (cfg : config) (m : gmap str (list clock)) (pre : list (str * clock)) : sstate :=
  fold_left (rstep cfg) pre (boot_start cfg m).

(** lockMgr.TryLock refuses the entry in state [s]: getLock fails (invalid size, size mismatch) or the lock is full *)
Definition refused_b (c : clock) (s : sstate) : bool :=
  match get_lock_create (cl_name c) (cl_size c) s with
  | inl _ => true
  | inr (o, s1) => negb (can_acquire (cl_name c) o s1)
  end.

(** a file the reload can take over completely: per name one positive size and at most that many entries *)
Definition file_consistent (m : gmap str (list clock)) : Prop :=
  ∀ sid c, m_listed m sid c →
    0 < cl_size c ∧
    Z.of_nat (length (filter (λ p, p.1 = cl_name c) (file_keys m))) ≤ cl_size c ∧
    ∀ sid' c', m_listed m sid' c' → cl_name c' = cl_name c → cl_size c' = cl_size c.

(** keys are uuids: no key occurs twice in the file, whatever the lock names *)
Definition file_keys_unique (m : gmap str (list clock)) : Prop := NoDup ((file_keys m).*2).

(** the ghost field [st_used] (keys drawn so far) of a machine that finds [m] on disk *)
Definition file_state' (cfg : config) (U : list str) (m : gmap str (list clock)) : sstate :=
  file_state cfg m <| st_used := U |>.
Definition boot_on' (cfg : config) (order : list str) (U : list str) (m : gmap str (list clock)) :=
  restart cfg order (file_state' cfg U m).

(** fresh uuids along a history, as [reachable] demands of every step *)
Fixpoint hist_fresh (cfg : config) (s : sstate) (h : list event) : Prop :=
  match h with
  | [] => True
  | ev :: h' => ev_ok s ev ∧ ∀ s1 o, (s1, o) ∈ sstep cfg s ev → hist_fresh cfg s1 h'
  end.

(** ** Targets *)

(** (A) the three views of the booted server show the same holds, and no lock is over capacity *)
Definition T_boot_views_agree : Prop := ∀ cfg order m s' outs,
  c_file cfg = true → file_wf m → (s', outs) ∈ boot_on cfg order m →
  views_ok_b true [OListing (listing s'); OFile (file_view s'); OTable (table_view s')] = true.

Definition T_boot_views_perm : Prop := ∀ cfg order m s' outs,
  c_file cfg = true → file_wf m → (s', outs) ∈ boot_on cfg order m →
  listing s' ≡ₚ table_holds (table_view s') ∧
  st_file s' = Some (st_sessions s') ∧
  (∀ f, file_view s' = Some f → map snd (file_pairs f) = listing s') ∧
  (∀ c, c ∈ listing s' ↔ in_table s' c) ∧
  outs = [] ∧ st_now s' = 0 ∧ st_waiters s' = [].

(** (B) C01 after a boot on any file *)
Definition T_boot_capacity : Prop := ∀ cfg order m s' outs,
  c_file cfg = true → file_wf m → (s', outs) ∈ boot_on cfg order m →
  ∀ n o, st_locks s' !! n = Some o →
    0 < lo_size o ∧ Z.of_nat (length (lo_keys o)) ≤ lo_size o ∧ NoDup (lo_keys o).

(** (C) nothing is invented, and every hold that is kept has its lease armed *)
Definition T_boot_subset : Prop := ∀ cfg order m s' outs,
  c_file cfg = true → file_wf m → (s', outs) ∈ boot_on cfg order m →
  ∀ sid c, listed s' sid c →
    m_listed m sid c ∧ in_table s' c ∧
    (0 < c_default_lt cfg →
       st_timers s' !! tkey (cl_name c) (cl_key c) = Some (Timer (c_default_lt cfg) (cl_name c) (cl_key c) sid)).

(** (D) an entry is kept iff lockMgr.TryLock accepted it at the moment it was visited ... *)
Definition T_boot_refusals_exact : Prop := ∀ cfg order m s' outs pre sid c post,
  c_file cfg = true → 0 < c_default_lt cfg → file_wf m → (s', outs) ∈ boot_on cfg order m →
  boot_todo order m = pre ++ (sid, c) :: post →
  (c ∈ listing s' ↔ refused_b c (boot_at cfg m pre) = false).

(** ... and a refusal has one of three reasons, each in terms of the entries visited EARLIER *)
Definition T_boot_refusals_justified : Prop := ∀ cfg order m s' outs pre sid c post,
  c_file cfg = true → 0 < c_default_lt cfg → file_wf m → (s', outs) ∈ boot_on cfg order m →
  boot_todo order m = pre ++ (sid, c) :: post →
  c ∉ listing s' →
  cl_size c ≤ 0
  ∨ (∃ c0, c0 ∈ pre.*2 ∧ cl_name c0 = cl_name c ∧ 0 < cl_size c0 ∧ cl_size c0 ≠ cl_size c)
  ∨ (∃ ks, NoDup ks ∧ cl_size c ≤ Z.of_nat (length ks) ∧
           ∀ k, k ∈ ks → Clock (cl_name c) k (cl_size c) ∈ pre.*2 ∧ Clock (cl_name c) k (cl_size c) ∈ listing s').

(** (E) the old C10 statement for any consistent file: everything is restored, the file is left as it is *)
Definition T_boot_consistent_file_restores_all : Prop := ∀ cfg order m s' outs,
  c_file cfg = true → 0 < c_default_lt cfg → file_wf m → file_consistent m → (s', outs) ∈ boot_on cfg order m →
  listing s' ≡ₚ file_entries m ∧ st_sessions s' = m ∧ st_file s' = Some m ∧
  (∀ sid c, m_listed m sid c → in_table s' c).

(** (F) the full invariant: it needs the ghost field to contain the file's keys, and keys unique across names *)
Definition T_boot_inv : Prop := ∀ cfg order U m s' outs,
  cfg_ok cfg → c_file cfg = true → file_keys_unique m → (∀ p, p ∈ file_keys m → p.2 ∈ U) →
  (s', outs) ∈ boot_on' cfg order U m → Inv cfg s'.

(** the ghost field is transparent: the boot on [file_state'] is the boot on [file_state] with the field set *)
Definition T_boot_ghost : Prop := ∀ cfg order U m,
  boot_on' cfg order U m = map (λ '(s', o), (s' <| st_used := U |>, o)) (boot_on cfg order m).

Definition T_boot_then_history_inv : Prop := ∀ cfg order U m s' outs h s'' os,
  cfg_ok cfg → c_file cfg = true → file_keys_unique m → (∀ p, p ∈ file_keys m → p.2 ∈ U) →
  (s', outs) ∈ boot_on' cfg order U m → hist_fresh cfg s' h → (s'', os) ∈ runs cfg s' h → Inv cfg s''.

(** DefaultLockTimeout ≤ 0 (C10's third clause for any file): every restored lease is due at once *)
Definition T_boot_nonpositive_lease : Prop := ∀ cfg order m s' outs,
  c_file cfg = true → c_default_lt cfg ≤ 0 → file_wf m → (s', outs) ∈ boot_on cfg order m →
  listing s' = [] ∧ (∀ c, ¬ in_table s' c) ∧ st_timers s' = ∅.

(** (A) without [file_wf] is FALSE: see [boot_duplicate_key_refuted] at the end *)
Definition T_boot_views_agree_any_file : Prop := ∀ cfg order m s' outs,
  c_file cfg = true → (s', outs) ∈ boot_on cfg order m →
  views_ok_b true [OListing (listing s'); OFile (file_view s'); OTable (table_view s')] = true.

(** ** Small facts *)

Lemma fmap_snd_map {A B} (l : list (A * B)) : map snd l = l.*2.
Proof. done. Qed.

Lemma boot_on_eq cfg order m : c_file cfg = true →
  boot_on cfg order m =
    advance_loop cfg (advance_fuel (boot_at cfg m (boot_todo order m))) (st_now (boot_at cfg m (boot_todo order m)))
                 (boot_at cfg m (boot_todo order m)) [].
Proof.
  intros Hf. unfold boot_on, restart, boot_at, boot_todo, boot_start. rewrite Hf.
  unfold file_state, init_state. cbn [st_file st_now st_used set default]. by rewrite restore_fold_flat.
Qed.

Lemma boot_todo_elem order m sid c : (sid, c) ∈ boot_todo order m ↔ m_listed m sid c.
Proof.
  unfold boot_todo, m_listed. rewrite todo_list_elem, reload_order_elem. split.
  - intros [_ Hc]. destruct (m !! sid) as [l|]; [eauto|by apply elem_of_nil in Hc].
  - intros (l & Hl & Hc). rewrite Hl. eauto.
Qed.

Lemma elem_of_file_entries m c : c ∈ file_entries m ↔ ∃ sid, m_listed m sid c.
Proof. unfold file_entries, m_listed. by rewrite elem_of_concat_map. Qed.

(** *** what [file_wf] gives *)

Lemma NoDup_flat_map_inv {A B} (g : A → list B) (l : list A) :
  NoDup (flat_map g l) →
  (∀ x, x ∈ l → NoDup (g x)) ∧
  (NoDup l → ∀ x y b, x ∈ l → y ∈ l → b ∈ g x → b ∈ g y → x = y).
Proof.
  induction l as [|a l IH]; simpl.
  - intros _. split; [by intros ? ?%elem_of_nil|by intros _ ? ? ? ?%elem_of_nil].
  - intros (Ha & Hd & Hl)%NoDup_app. destruct (IH Hl) as [IH1 IH2]. split.
    + intros x [->|Hx]%elem_of_cons; auto.
    + intros [Hna Hnl]%NoDup_cons x y b Hx Hy Hbx Hby.
      assert (∀ z, z ∈ l → b ∈ g z → b ∈ flat_map g l) as Hfm.
      { intros z Hz Hb. apply elem_of_flat_map. eauto. }
      apply elem_of_cons in Hx as [->|Hx]; apply elem_of_cons in Hy as [->|Hy]; [done| | |by eapply IH2].
      * destruct (Hd b Hbx). eauto.
      * destruct (Hd b Hby). eauto.
Qed.

Lemma file_keys_elem m p : p ∈ file_keys m ↔ ∃ sid c, m_listed m sid c ∧ p = nk c.
Proof.
  unfold file_keys. rewrite elem_of_flat_map. split.
  - intros ([sid l] & Hin%elem_of_map_to_list & Hp). apply elem_of_list_In, in_map_iff in Hp as (c & <- & Hc%elem_of_list_In).
    exists sid, c. split; [by exists l|done].
  - intros (sid & c & (l & Hl & Hc) & ->). exists (sid, l). split; [by apply elem_of_map_to_list|].
    apply elem_of_list_In, in_map_iff. exists c. split; [done|by apply elem_of_list_In].
Qed.

Lemma file_wf_nodup m sid l : file_wf m → m !! sid = Some l → NoDup (nk <$> l).
Proof.
  intros Hwf Hl. destruct (NoDup_flat_map_inv _ _ Hwf) as [H _].
  specialize (H (sid, l)). simpl in H. apply H. by apply elem_of_map_to_list.
Qed.

Lemma file_wf_owner m sid1 sid2 c1 c2 :
  file_wf m → m_listed m sid1 c1 → m_listed m sid2 c2 → nk c1 = nk c2 → sid1 = sid2.
Proof.
  intros Hwf (l1 & Hl1 & Hc1) (l2 & Hl2 & Hc2) E. destruct (NoDup_flat_map_inv _ _ Hwf) as [_ H].
  specialize (H (NoDup_map_to_list m) (sid1, l1) (sid2, l2) (nk c1)). simpl in H.
  assert ((sid1, l1) = (sid2, l2)) as [= -> _]; [|done].
  apply H; try by apply elem_of_map_to_list.
  - apply elem_of_list_In, in_map_iff. exists c1. split; [done|by apply elem_of_list_In].
  - rewrite E. apply elem_of_list_In, in_map_iff. exists c2. split; [done|by apply elem_of_list_In].
Qed.

Lemma todo_keys_flat (m : gmap str (list clock)) (ml : list (str * list clock)) :
  (∀ sid l, (sid, l) ∈ ml → m !! sid = Some l) →
  nk <$> flat_map (λ sid, default [] (m !! sid)) (map fst ml) = flat_map (λ '(_, l), map (λ c, (cl_name c, cl_key c)) l) ml.
Proof.
  induction ml as [|[sid l] ml IH]; intros H; [done|]. simpl. rewrite fmap_app, IH by (intros; apply H; by right).
  rewrite (H sid l) by left. done.
Qed.

Lemma boot_todo_keys order m : nk <$> (boot_todo order m).*2 ≡ₚ file_keys m.
Proof.
  unfold boot_todo. rewrite <- fmap_snd_map, todo_list_snd.
  rewrite (Permutation_flat_map _ (reload_order_perm order m)).
  unfold file_keys. rewrite todo_keys_flat; [done|]. intros sid l. apply elem_of_map_to_list.
Qed.

Lemma boot_todo_nodup order m : file_wf m → NoDup (nk <$> (boot_todo order m).*2).
Proof. intros H. by rewrite boot_todo_keys. Qed.

(** ** The invariant of the reload and of the lease loop that follows it

    [Pend] are the visits still to come. Unlike [RInv] of SeqInvTime.v nothing is said about [st_used], keys may repeat
    across lock names, and the file may list more than fits. *)
Record BInv (m : gmap str (list clock)) (Pend : list (str * clock)) (s : sstate) : Prop := {
  bi_w : st_waiters s = [];
  bi_file : st_file s = Some (st_sessions s);
  bi_cap : ∀ n o, st_locks s !! n = Some o →
      0 < lo_size o ∧ Z.of_nat (length (lo_keys o)) ≤ lo_size o ∧ NoDup (lo_keys o);
  bi_nd : ∀ sid l, st_sessions s !! sid = Some l → NoDup l;
  bi_sub : ∀ sid c, listed s sid c → m_listed m sid c;
  bi_views : ∀ c, listedS (st_sessions s) c ↔ intab (st_locks s) c ∨ c ∈ Pend.*2;
  bi_pl : ∀ p, p ∈ Pend → listed s p.1 p.2;
  bi_pn : NoDup (nk <$> Pend.*2);
  bi_pd : ∀ p, p ∈ Pend → ¬ livel (st_locks s) (cl_name p.2) (cl_key p.2)
}.

Lemma listed_listedS s sid c : listed s sid c → listedS (st_sessions s) c.
Proof. intros (l & ? & ?). exists sid, l. done. Qed.

Lemma rle_listed_sid cfg name key s sid c :
  listed (remove_lock_entry cfg name key s) sid c ↔ listed s sid c ∧ ¬ (cl_name c = name ∧ cl_key c = key).
Proof.
  unfold listed. rewrite rle_sessions, lookup_fmap.
  assert (∀ l : list clock, c ∈ filter (λ c, is_hold name key c = false) l ↔ c ∈ l ∧ ¬ (cl_name c = name ∧ cl_key c = key)) as Hf.
  { intros l. rewrite elem_of_list_filter. unfold is_hold.
    destruct (bool_decide (cl_name c = name)) eqn:E1; destruct (bool_decide (cl_key c = key)) eqn:E2; simpl;
      try apply bool_decide_eq_true in E1; try apply bool_decide_eq_true in E2;
      try apply bool_decide_eq_false in E1; try apply bool_decide_eq_false in E2; naive_solver. }
  split.
  - intros (l' & Hs & Hc). destruct (st_sessions s !! sid) as [l|] eqn:E; simpl in Hs; [|done].
    simplify_eq. apply Hf in Hc as [? ?]. eauto.
  - intros [(l & Hs & Hc) Hn]. exists (filter (λ c, is_hold name key c = false) l). rewrite Hs. simpl.
    split; [done|]. apply Hf. auto.
Qed.

Lemma rle_file_eq cfg name key s : c_file cfg = true → st_file s = Some (st_sessions s) →
  st_file (remove_lock_entry cfg name key s) = Some (st_sessions (remove_lock_entry cfg name key s)).
Proof. intros Hf E. destruct (SeqInvOps.rle_file cfg name key s Hf) as [->|[-> ->]]; done. Qed.

Lemma rle_nd cfg name key s : (∀ sid l, st_sessions s !! sid = Some l → NoDup l) →
  ∀ sid l, st_sessions (remove_lock_entry cfg name key s) !! sid = Some l → NoDup l.
Proof.
  intros H sid l. rewrite rle_sessions, lookup_fmap. destruct (st_sessions s !! sid) as [l0|] eqn:E; simpl; [|done].
  intros [= <-]. apply NoDup_filter. eauto.
Qed.

(** the refused entry leaves the session table (and the file); everything else stays *)
Lemma BI_remove cfg m sid c Pend s : c_file cfg = true →
  BInv m ((sid, c) :: Pend) s → BInv m Pend (remove_lock_entry cfg (cl_name c) (cl_key c) s).
Proof.
  intros Hf [Hw HF Hcap Hnd Hsub HV HPL HPN HPD].
  rewrite fmap_cons, fmap_cons in HPN. simpl in HPN. apply NoDup_cons in HPN as [HcP HPN].
  assert (∀ p, p ∈ Pend → ¬ (cl_name p.2 = cl_name c ∧ cl_key p.2 = cl_key c)) as Hother.
  { intros p Hp [En Ek]. apply HcP. apply elem_of_list_fmap. exists p.2. split; [unfold nk; congruence|].
    apply elem_of_list_fmap. eauto. }
  split.
  - by rewrite rle_waiters.
  - by apply rle_file_eq.
  - by rewrite rle_locks.
  - by apply rle_nd.
  - intros sid' c' [H _]%rle_listed_sid. auto.
  - intros c'. rewrite rle_listed, rle_locks, (HV c'). rewrite fmap_cons, elem_of_cons. simpl. split.
    + intros [[?|[->|?]] Hn]; tauto.
    + intros [Hi|Hp].
      * split; [by left|]. intros [En Ek]. apply (HPD (sid, c) (elem_of_list_here _ _)). simpl.
        rewrite <- En, <- Ek. by apply intab_livel.
      * split; [by right; right|]. apply elem_of_list_fmap in Hp as (p & -> & Hp). by apply Hother.
  - intros p Hp. apply rle_listed_sid. split; [apply HPL; by right|by apply Hother].
  - done.
  - rewrite rle_locks. intros p Hp. apply HPD. by right.
Qed.

(** getLock only touches lastAccessed or creates an empty lock object *)
Lemma BI_glc m name size s o s1 Pend :
  get_lock_create name size s = inr (o, s1) → BInv m Pend s → BInv m Pend s1.
Proof.
  intros Hg [Hw HF Hcap Hnd Hsub HV HPL HPN HPD].
  pose proof (λ c, glc_intab _ _ _ _ _ c Hg) as Hi1.
  pose proof (λ n k, glc_livel _ _ _ _ _ n k Hg) as Hl1.
  apply glc_shape in Hg as (Hsz & Hosz & -> & Hsh). split; cbn [st_waiters st_file st_sessions st_locks set]; try done.
  - intros n o'. destruct (decide (n = name)) as [->|Hne]; rewrite ?lookup_insert, ?lookup_insert_ne by done; [|by apply Hcap].
    intros [= <-]. destruct Hsh as [(o0 & Ho0 & ->)|[_ ->]]; [by apply (Hcap _ _ Ho0)|].
    simpl. split_and!; [done|lia|constructor].
  - intros c. cbn [st_locks set] in Hi1. rewrite Hi1. apply HV.
  - intros p Hp. cbn [st_locks set] in Hl1. rewrite Hl1. by apply HPD.
Qed.

(** the closed forms of one visit *)
Lemma restore_one_refused cfg sid c s : refused_b c s = true →
  ∃ s1, restore_one cfg sid c s = remove_lock_entry cfg (cl_name c) (cl_key c) s1 ∧
        (s1 = s ∨ ∃ o, get_lock_create (cl_name c) (cl_size c) s = inr (o, s1)).
Proof.
  unfold refused_b, restore_one. destruct (get_lock_create _ _ _) as [e|[o s1]] eqn:Hg.
  - intros _. exists s. auto.
  - intros Hc%negb_true_iff. rewrite Hc. exists s1. eauto.
Qed.

Lemma restore_one_accepted cfg sid c s : refused_b c s = false →
  ∃ o s1, get_lock_create (cl_name c) (cl_size c) s = inr (o, s1) ∧ can_acquire (cl_name c) o s1 = true ∧
    restore_one cfg sid c s =
      s1 <| st_locks := <[cl_name c := o <| lo_keys := lo_keys o ++ [cl_key c] |>]> (st_locks s1) |>
         <| st_timers := <[tkey (cl_name c) (cl_key c) := Timer (st_now s + c_default_lt cfg) (cl_name c) (cl_key c) sid]>
                           (st_timers s1) |>.
Proof.
  unfold refused_b, restore_one. destruct (get_lock_create _ _ _) as [e|[o s1]] eqn:Hg; [done|].
  intros Hc%negb_false_iff. rewrite Hc. exists o, s1. split_and!; [done|done|].
  apply glc_shape in Hg as (_ & _ & -> & _). unfold add_key. cbn [st_locks set]. by rewrite lookup_insert.
Qed.

Lemma restore_one_BI cfg m sid c Pend s : c_file cfg = true →
  BInv m ((sid, c) :: Pend) s → BInv m Pend (restore_one cfg sid c s).
Proof.
  intros Hf HB. destruct (refused_b c s) eqn:Hr.
  - apply restore_one_refused with (cfg := cfg) (sid := sid) in Hr as (s1 & -> & [->|[o Hg]]); [by apply (BI_remove cfg m sid)|].
    apply (BI_remove cfg m sid); [done|]. by eapply BI_glc.
  - apply restore_one_accepted with (cfg := cfg) (sid := sid) in Hr as (o & s1 & Hg & Hc & ->).
    pose proof (BI_glc _ _ _ _ _ _ _ Hg HB) as [Hw HF Hcap Hnd Hsub HV HPL HPN HPD].
    apply glc_shape in Hg as (Hsz & Hosz & Es1 & _).
    assert (st_locks s1 !! cl_name c = Some o) as Ho by (rewrite Es1; apply lookup_insert).
    clear Es1 HB. apply andb_true_iff in Hc as [Hlt%bool_decide_eq_true _].
    rewrite fmap_cons, fmap_cons in HPN. simpl in HPN. apply NoDup_cons in HPN as [HcP HPN].
    set (o' := o <| lo_keys := lo_keys o ++ [cl_key c] |>).
    assert (Clock (cl_name c) (cl_key c) (lo_size o) = c) as Ec by (destruct c; simpl in *; congruence).
    assert (cl_key c ∉ lo_keys o) as Hfresh.
    { intros Hk. apply (HPD (sid, c) (elem_of_list_here _ _)). exists o. auto. }
    split; cbn [st_waiters st_file st_sessions st_locks set]; try done.
    + intros n ob. destruct (decide (n = cl_name c)) as [->|Hne]; rewrite ?lookup_insert, ?lookup_insert_ne by done; [|by apply Hcap].
      intros [= <-]. destruct (Hcap _ _ Ho) as (? & ? & Hnd'). unfold o'. simpl. rewrite app_length. simpl.
      split_and!; [done|lia|]. apply NoDup_app. split_and!; [done| |apply NoDup_singleton].
      intros k Hk ->%elem_of_list_singleton. done.
    + intros c'. rewrite (intab_add_key _ _ o) by done. rewrite (HV c'), fmap_cons, elem_of_cons, Ec. simpl. tauto.
    + intros p Hp. apply HPL. by right.
    + intros p Hp. rewrite (livel_add_key _ _ o) by done. intros [Hl|[En Ek]].
      * eapply HPD; [by right|exact Hl].
      * apply HcP. apply elem_of_list_fmap. exists p.2. split; [unfold nk; congruence|]. apply elem_of_list_fmap. eauto.
Qed.

Lemma restore_fold_BI cfg m post : c_file cfg = true → ∀ s, BInv m post s → BInv m [] (fold_left (rstep cfg) post s).
Proof.
  intros Hf. induction post as [|[sid c] post IH]; intros s HB; [done|]. simpl. apply IH. by apply restore_one_BI.
Qed.

Lemma boot_start_BI cfg order m : file_wf m → BInv m (boot_todo order m) (boot_start cfg m).
Proof.
  intros Hwf. split; simpl.
  - done.
  - done.
  - intros n o H. by rewrite lookup_empty in H.
  - intros sid l Hl. eapply NoDup_fmap_1, file_wf_nodup; eauto.
  - intros sid c H. exact H.
  - intros c. split.
    + intros (sid & l & Hl & Hc). right. apply elem_of_list_fmap. exists (sid, c). split; [done|].
      apply boot_todo_elem. by exists l.
    + intros [(? & H & _)|Hc]; [by rewrite lookup_empty in H|].
      apply elem_of_list_fmap in Hc as ([sid c'] & -> & (l & ? & ?)%boot_todo_elem). by exists sid, l.
  - intros [sid c] Hp%boot_todo_elem. exact Hp.
  - by apply boot_todo_nodup.
  - intros p _ (? & H & _). by rewrite lookup_empty in H.
Qed.

(** ** The lease loop at the end of [restart] (it fires everything when DefaultLockTimeout ≤ 0) *)

Lemma BI_gc cfg m t now' s : BInv m [] s → BInv m [] (run_gc_until cfg t s <| st_now := now' |>).
Proof.
  intros [Hw HF Hcap Hnd Hsub HV HPL HPN HPD].
  assert (∀ c, intab (st_locks (run_gc_until cfg t s)) c ↔ intab (st_locks s) c) as Hi.
  { intros c. split; intros (o & Ho & Hk & Hs); exists o; (split; [|done]).
    - by apply gc_locks_sub in Ho.
    - apply gc_locks_keep; [done|]. left. intros E. rewrite E in Hk. by apply elem_of_nil in Hk. }
  split; cbn [st_waiters st_file st_sessions st_locks set].
  - by rewrite gc_waiters.
  - by rewrite gc_file, gc_sessions.
  - intros n o Ho%gc_locks_sub. eauto.
  - rewrite gc_sessions. done.
  - unfold listed. cbn [st_sessions set]. rewrite gc_sessions. apply Hsub.
  - intros c. rewrite gc_sessions, Hi. apply HV.
  - by intros p ?%elem_of_nil.
  - done.
  - by intros p ?%elem_of_nil.
Qed.

Lemma expire_BI cfg m tk t s s2 o : c_file cfg = true →
  BInv m [] s → expire cfg tk t s = (s2, o) → BInv m [] s2 ∧ o = [] ∧ st_now s2 = st_now s.
Proof.
  intros Hf [Hw HF Hcap Hnd Hsub HV HPL HPN HPD]. unfold expire.
  destruct (mgr_unlock _ _ _ _) as [[s1 r] o1] eqn:Hm. intros [= <- <-].
  apply mgr_unlock_spec in Hm as (x & Hs & Hnow & _ & _ & _ & _ & Hse & Hfi & _).
  destruct x as [w|].
  { destruct (unlock_shape_granted _ _ _ _ _ _ _ _ w Hs eq_refl) as [Hin _]. rewrite Hw in Hin. by apply elem_of_nil in Hin. }
  destruct Hs as (_ & -> & Hw1 & Hl1). cbn [granted_key] in Hl1.
  set (n := tm_name t) in *. set (k := tm_key t) in *.
  assert (∀ c, intab (st_locks s1) c ↔ intab (st_locks s) c ∧ ¬ (cl_name c = n ∧ cl_key c = k)) as Hi.
  { intros c. destruct (st_locks s !! n) as [ob|] eqn:Hob.
    - rewrite app_nil_r in Hl1. rewrite Hl1. apply (intab_remove_key _ _ ob); [done| |done|done]. by destruct (Hcap _ _ Hob) as (_ & _ & ?).
    - destruct Hl1 as [-> _]. split; [|tauto]. intros Hc. split; [done|]. intros [En _].
      destruct Hc as (? & Hc & _). congruence. }
  split; [|split; [done|]; cbn [st_now set]; by rewrite rle_now].
  split; cbn [st_waiters st_file st_sessions st_locks set].
  - by rewrite rle_waiters, Hw1.
  - apply rle_file_eq; [done|]. by rewrite Hfi, Hse.
  - rewrite rle_locks. intros n' o'. destruct (st_locks s !! n) as [ob|] eqn:Hob.
    + rewrite app_nil_r in Hl1. rewrite Hl1.
      destruct (decide (n' = n)) as [->|Hne]; rewrite ?lookup_insert, ?lookup_insert_ne by done; [|by apply Hcap].
      intros [= <-]. simpl. destruct (Hcap _ _ Hob) as (? & ? & Hnd').
      pose proof (remove_first_length_le k (lo_keys ob)). split_and!; [done|lia|].
      by destruct (remove_first_NoDup k _ Hnd').
    + destruct Hl1 as [-> _]. apply Hcap.
  - apply rle_nd. by rewrite Hse.
  - intros sid c [H _]%rle_listed_sid. apply Hsub. unfold listed in *. by rewrite <- Hse.
  - intros c. rewrite rle_listed, rle_locks, Hse, Hi, (HV c). simpl. rewrite elem_of_nil. tauto.
  - by intros p ?%elem_of_nil.
  - done.
  - by intros p ?%elem_of_nil.
Qed.

Lemma boot_loop_BI cfg m fuel s s' outs : c_file cfg = true →
  (measure s < fuel)%nat → BInv m [] s →
  (s', outs) ∈ advance_loop cfg fuel (st_now s) s [] →
  ∃ sf, BInv m [] sf ∧ st_now sf = st_now s ∧ next_due (st_now s) sf = [] ∧ s' = finish_advance cfg (st_now s) sf ∧ outs = [].
Proof.
  intros Hf Hm HB Hin. remember (st_now s) as t0 eqn:Et0. symmetry in Et0.
  eapply (advance_loop_inv cfg t0 (λ s o, BInv m [] s ∧ o = [] ∧ st_now s = t0))
    in Hin as (sf & (HBf & -> & Hn) & Hnd & ->); [by eauto 8| |done|done].
  clear dependent s. clear outs. intros s outs d s2 o (HB & -> & Hn) Hd Hfire.
  apply next_due_elem in Hd as (Hd & Hle & _).
  apply all_items_spec in Hd as [(tk & t & -> & Ht)|(w & _ & Hw & _)].
  2:{ rewrite (bi_w _ _ _ HB) in Hw. by apply elem_of_nil in Hw. }
  simpl in Hfire, Hle. eapply expire_BI in Hfire as (HB2 & -> & Hn2); [|done|by apply BI_gc].
  split; [done|]. split; [done|]. rewrite Hn2. unfold tick. cbn [st_now set]. lia.
Qed.

Lemma rstep_fold_clock cfg pre : ∀ s, same_clock s (fold_left (rstep cfg) pre s).
Proof.
  induction pre as [|[sid c] pre IH]; intros s; [done|]. simpl.
  eapply same_clock_trans; [apply restore_one_clock|apply IH].
Qed.

Lemma boot_at_now cfg m pre : st_now (boot_at cfg m pre) = 0.
Proof. unfold boot_at. by destruct (rstep_fold_clock cfg pre (boot_start cfg m)) as [-> _]. Qed.

(** the state after the boot: the invariant holds with nothing pending, no output, the clock has not moved *)
Lemma boot_BI cfg order m s' outs : c_file cfg = true → file_wf m → (s', outs) ∈ boot_on cfg order m →
  BInv m [] s' ∧ outs = [] ∧ st_now s' = 0 ∧
  ∃ sf, BInv m [] sf ∧ next_due 0 sf = [] ∧ s' = finish_advance cfg 0 sf.
Proof.
  intros Hf Hwf Hin. rewrite boot_on_eq in Hin by done.
  set (s1 := boot_at cfg m (boot_todo order m)) in *.
  assert (BInv m [] s1) as HB1 by (apply restore_fold_BI; [done|]; by apply boot_start_BI).
  assert (st_now s1 = 0) as Hn1 by apply boot_at_now.
  eapply boot_loop_BI in Hin as (sf & HBf & Hnf & Hnd & -> & ->); [|done|apply advance_fuel_measure|done].
  rewrite Hn1 in *. split_and!; [by apply BI_gc|done|rewrite fin_now; lia|eauto].
Qed.

(** ** (A), (B): the views after the boot *)

Lemma table_holds_NoDup_cap s :
  (∀ n o, st_locks s !! n = Some o → NoDup (lo_keys o)) → NoDup (table_holds (table_view s)).
Proof.
  intros Hcap. rewrite table_holds_view. apply NoDup_concat_snd.
  - assert ((tab_list (map_to_list (st_locks s))).*1 = (map_to_list (st_locks s)).*1) as ->.
    { unfold tab_list. generalize (map_to_list (st_locks s)). intros ml. induction ml as [|[n o] ml IH]; [done|]. simpl. by f_equal. }
    apply NoDup_fst_map_to_list.
  - intros n v (o & Ho & ->)%elem_of_tab_list. rewrite list_map_fmap. apply NoDup_fmap_2_strong; [|by eapply Hcap].
    intros k1 k2 _ _ [= ->]. done.
  - intros n1 v1 n2 v2 c (o1 & _ & ->)%elem_of_tab_list (o2 & _ & ->)%elem_of_tab_list H1 H2.
    apply elem_of_list_In, in_map_iff in H1 as (? & <- & _). apply elem_of_list_In, in_map_iff in H2 as (? & [= -> _ _] & _). done.
Qed.

Lemma BI_listing_NoDup m s : file_wf m → BInv m [] s → NoDup (listing s).
Proof.
  intros Hwf HB. apply NoDup_concat_map; [apply (bi_nd _ _ _ HB)|].
  intros sid1 sid2 l1 l2 c H1 H2 Hc1 Hc2. eapply (file_wf_owner m sid1 sid2 c c); [done| | |done].
  - apply (bi_sub _ _ _ HB). by exists l1.
  - apply (bi_sub _ _ _ HB). by exists l2.
Qed.

Lemma BI_listing_table m s c : BInv m [] s → c ∈ listing s ↔ in_table s c.
Proof. intros HB. rewrite elem_of_listing, (bi_views _ _ _ HB c). simpl. rewrite elem_of_nil. unfold in_table, intab. tauto. Qed.

Lemma BI_views_perm m s : file_wf m → BInv m [] s → listing s ≡ₚ table_holds (table_view s).
Proof.
  intros Hwf HB. apply NoDup_Permutation; [by eapply BI_listing_NoDup| |].
  - apply table_holds_NoDup_cap. intros n o Ho. by destruct (bi_cap _ _ _ HB _ _ Ho) as (_ & _ & ?).
  - intros c. rewrite elem_of_table_holds. by eapply BI_listing_table.
Qed.

Lemma BI_file_view m P s : BInv m P s → ∀ f, file_view s = Some f → map snd (file_pairs f) = listing s.
Proof.
  intros HB f. unfold file_view. rewrite (bi_file _ _ _ HB). simpl. intros [= <-]. by rewrite file_pairs_snd.
Qed.

Lemma BI_views_ok m s : file_wf m → BInv m [] s →
  views_ok_b true [OListing (listing s); OFile (file_view s); OTable (table_view s)] = true.
Proof.
  intros Hwf HB. unfold views_ok_b. rewrite !andb_true_iff. split_and!.
  - apply perm_by_perm. by eapply BI_views_perm.
  - simpl. destruct (file_view s) as [f|] eqn:Ef.
    + apply perm_by_perm. by rewrite (BI_file_view _ _ _ HB f Ef).
    + unfold file_view in Ef. by rewrite (bi_file _ _ _ HB) in Ef.
  - apply forallb_forall. intros [n [[sz ks] la]] Hin. unfold table_view in Hin.
    apply in_map_iff in Hin as ([n' o] & [= <- <- <- <-] & Hin%elem_of_list_In%elem_of_map_to_list).
    destruct (bi_cap _ _ _ HB _ _ Hin) as (? & ? & _). apply andb_true_iff. split; [by apply Z.ltb_lt|by apply Z.leb_le].
Qed.

Theorem boot_views_agree : T_boot_views_agree.
Proof. intros cfg order m s' outs Hf Hwf Hin. destruct (boot_BI _ _ _ _ _ Hf Hwf Hin) as (HB & _). by eapply BI_views_ok. Qed.
Print Assumptions boot_views_agree.

Theorem boot_views_perm : T_boot_views_perm.
Proof.
  intros cfg order m s' outs Hf Hwf Hin. destruct (boot_BI _ _ _ _ _ Hf Hwf Hin) as (HB & -> & Hn & _).
  split_and!; [by eapply BI_views_perm|apply (bi_file _ _ _ HB)|by eapply BI_file_view|intros c; by eapply BI_listing_table|
               done|done|apply (bi_w _ _ _ HB)].
Qed.
Print Assumptions boot_views_perm.

Theorem boot_capacity : T_boot_capacity.
Proof. intros cfg order m s' outs Hf Hwf Hin. destruct (boot_BI _ _ _ _ _ Hf Hwf Hin) as (HB & _). apply (bi_cap _ _ _ HB). Qed.
Print Assumptions boot_capacity.

(** ** The reload visit by visit: leases, verdicts, where a lock object comes from *)

Lemma restore_fold_BI_gen cfg m pre : c_file cfg = true →
  ∀ post s, BInv m (pre ++ post) s → BInv m post (fold_left (rstep cfg) pre s).
Proof.
  intros Hf. induction pre as [|[sid c] pre IH]; intros post s HB; [done|]. simpl. apply IH. by apply restore_one_BI.
Qed.

Lemma boot_at_BI cfg order m pre post : c_file cfg = true → file_wf m →
  boot_todo order m = pre ++ post → BInv m post (boot_at cfg m pre).
Proof. intros Hf Hwf E. apply restore_fold_BI_gen; [done|]. rewrite <- E. by apply boot_start_BI. Qed.

Lemma glc_fields name size s o s1 : get_lock_create name size s = inr (o, s1) →
  st_sessions s1 = st_sessions s ∧ st_timers s1 = st_timers s ∧ st_now s1 = st_now s ∧ st_waiters s1 = st_waiters s ∧
  st_locks s1 !! name = Some o ∧ lo_size o = size ∧
  ∀ n ob, st_locks s1 !! n = Some ob →
    (∃ ob0, st_locks s !! n = Some ob0 ∧ lo_size ob = lo_size ob0 ∧ lo_keys ob = lo_keys ob0)
    ∨ (n = name ∧ lo_size ob = size ∧ lo_keys ob = [] ∧ 0 < size).
Proof.
  intros (Hsz & Hosz & -> & Hsh)%glc_shape. cbn [st_sessions st_timers st_now st_waiters st_locks set].
  split_and!; try done; [apply lookup_insert|].
  intros n ob. destruct (decide (n = name)) as [->|Hne]; rewrite ?lookup_insert, ?lookup_insert_ne by done; [|by eauto 6].
  intros [= <-]. destruct Hsh as [(o0 & Ho0 & ->)|[_ ->]]; [left; eauto|right; done].
Qed.

Lemma refused_b_spec c s : st_waiters s = [] → refused_b c s = true →
  cl_size c ≤ 0 ∨
  ∃ o, st_locks s !! cl_name c = Some o ∧ (lo_size o ≠ cl_size c ∨ lo_size o ≤ Z.of_nat (length (lo_keys o))).
Proof.
  intros Hw. unfold refused_b, get_lock_create. destruct (Z.leb_spec (cl_size c) 0); [by left|]. right.
  destruct (st_locks s !! cl_name c) as [o|] eqn:Ho.
  - case_bool_decide as Es; [|exists o; split; [done|left; congruence]].
    unfold can_acquire in H0. cbn [st_waiters lo_keys lo_size set] in H0. rewrite Hw in H0. simpl in H0.
    rewrite andb_true_r in H0. apply negb_true_iff, bool_decide_eq_false in H0. exists o. split; [done|right; lia].
  - unfold can_acquire in H0. cbn [st_waiters lo_keys lo_size set] in H0. rewrite Hw in H0. simpl in H0.
    rewrite andb_true_r in H0. apply negb_true_iff, bool_decide_eq_false in H0. simpl in H0. lia.
Qed.

Record TInv (cfg : config) (m : gmap str (list clock)) (pre : list (str * clock)) (cur : sstate) : Prop := {
  tv_tm : ∀ tk t, st_timers cur !! tk = Some t → tm_deadline t = 0 + c_default_lt cfg;
  tv_lease : ∀ c, intab (st_locks cur) c →
      ∃ sid, listed cur sid c ∧
             st_timers cur !! tkey (cl_name c) (cl_key c) = Some (Timer (0 + c_default_lt cfg) (cl_name c) (cl_key c) sid);
  tv_verdict : ∀ pre' p post', pre = pre' ++ p :: post' →
      (listedS (st_sessions cur) p.2 ↔ refused_b p.2 (boot_at cfg m pre') = false);
  tv_origin : ∀ n o, st_locks cur !! n = Some o →
      (∃ c0, c0 ∈ pre.*2 ∧ cl_name c0 = n ∧ cl_size c0 = lo_size o) ∧
      ∀ k, k ∈ lo_keys o → Clock n k (lo_size o) ∈ pre.*2;
  tv_same : (∀ p, p ∈ pre → listedS (st_sessions cur) p.2) → st_sessions cur = m;
  tv_tk : ∀ tk t, st_timers cur !! tk = Some t → tk = tkey (tm_name t) (tm_key t)
}.

Lemma snoc_split {A} (pre pre' post' : list A) (p q : A) :
  pre ++ [q] = pre' ++ p :: post' →
  (pre' = pre ∧ p = q ∧ post' = []) ∨ (∃ post'', pre = pre' ++ p :: post'' ∧ post' = post'' ++ [q]).
Proof.
  destruct post' as [|x post'' _] using rev_ind.
  - intros [-> ->]%app_inj_tail. by left.
  - rewrite app_comm_cons, app_assoc. intros [-> ->]%app_inj_tail. right. eauto.
Qed.

Lemma TV_step cfg m pre sid c post :
  c_file cfg = true → NoDup (nk <$> (pre ++ (sid, c) :: post).*2) →
  BInv m ((sid, c) :: post) (boot_at cfg m pre) → TInv cfg m pre (boot_at cfg m pre) →
  TInv cfg m (pre ++ [(sid, c)]) (restore_one cfg sid c (boot_at cfg m pre)).
Proof.
  intros Hf Hnd HB [Htm Hlease Hverd Horig Hsame Htk]. set (cur := boot_at cfg m pre) in *.
  assert (st_now cur = 0) as Hnow by apply boot_at_now.
  assert (∀ p, p ∈ pre → ¬ (cl_name p.2 = cl_name c ∧ cl_key p.2 = cl_key c)) as Hold.
  { intros p Hp [En Ek]. rewrite fmap_app, fmap_app, fmap_cons, fmap_cons in Hnd. apply NoDup_app in Hnd as (_ & Hd & _).
    apply (Hd (nk p.2)); [apply elem_of_list_fmap; exists p.2; split; [done|]; apply elem_of_list_fmap; eauto|].
    assert (nk p.2 = nk (sid, c).2) as -> by (unfold nk; simpl; congruence). left. }
  assert (∀ c', intab (st_locks cur) c' → ¬ (cl_name c' = cl_name c ∧ cl_key c' = cl_key c)) as Hnotab.
  { intros c' Hc' [En Ek]. apply (bi_pd _ _ _ HB (sid, c) (elem_of_list_here _ _)). simpl. rewrite <- En, <- Ek. by apply intab_livel. }
  assert (∀ (P : list (str * clock) → Prop), (∀ x, x ∈ pre → x ∈ pre ++ [(sid, c)])) as Hin1.
  { intros _ x Hx. apply elem_of_app. by left. }
  assert ((sid, c).2 ∈ (pre ++ [(sid, c)]).*2) as Hcin.
  { rewrite fmap_app. apply elem_of_app. right. left. }
  assert (∀ x, x ∈ pre.*2 → x ∈ (pre ++ [(sid, c)]).*2) as Hin2.
  { intros x Hx. rewrite fmap_app. apply elem_of_app. by left. }
  destruct (refused_b c cur) eqn:Hr.
  - (* refused *)
    destruct (restore_one_refused cfg sid c cur Hr) as (s1 & -> & Hs1).
    assert (st_sessions s1 = st_sessions cur ∧ st_timers s1 = st_timers cur ∧
            (∀ c', intab (st_locks s1) c' ↔ intab (st_locks cur) c') ∧
            ∀ n ob, st_locks s1 !! n = Some ob →
              (∃ ob0, st_locks cur !! n = Some ob0 ∧ lo_size ob = lo_size ob0 ∧ lo_keys ob = lo_keys ob0)
              ∨ (n = cl_name c ∧ lo_size ob = cl_size c ∧ lo_keys ob = [] ∧ 0 < cl_size c)) as (Es & Et & Ei & El).
    { destruct Hs1 as [->|[o Hg]]; [split_and!; try done; by eauto 6|].
      pose proof (λ c', glc_intab _ _ _ _ _ c' Hg). apply glc_fields in Hg as (? & ? & _ & _ & _ & _ & ?). done. }
    split.
    + rewrite rle_timers, Et. done.
    + intros c'. rewrite rle_locks, Ei. intros Hc'. destruct (Hlease c' Hc') as (sid' & Hl & Ht). exists sid'. split.
      * apply rle_listed_sid. split; [|by apply Hnotab]. unfold listed in *. by rewrite Es.
      * by rewrite rle_timers, Et.
    + intros pre' p post' [(-> & -> & ->)|(post'' & -> & ->)]%snoc_split.
      * rewrite rle_listed. simpl. fold cur. rewrite Hr. split; [intros [_ H]; by destruct H|done].
      * rewrite rle_listed, Es, <- (Hverd pre' p post'' eq_refl). split; [tauto|]. intros H. split; [done|].
        apply Hold. apply elem_of_app. right. left.
    + rewrite rle_locks. intros n ob Hob. destruct (El _ _ Hob) as [(ob0 & Hob0 & -> & ->)|(-> & -> & -> & _)].
      * destruct (Horig _ _ Hob0) as [(c0 & ? & ? & ?) Hk]. split; [exists c0; auto|]. intros k Hk'. auto.
      * split; [exists c; auto|]. by intros k ?%elem_of_nil.
    + intros Hall. exfalso. specialize (Hall (sid, c)). rewrite rle_listed in Hall. simpl in Hall.
      destruct Hall as [_ Hall]; [apply elem_of_app; right; left|]. by apply Hall.
    + rewrite rle_timers, Et. done.
  - (* accepted *)
    destruct (restore_one_accepted cfg sid c cur Hr) as (o & s1 & Hg & Hc & ->).
    pose proof (λ c', glc_intab _ _ _ _ _ c' Hg) as Ei.
    destruct (glc_fields _ _ _ _ _ Hg) as (Es & Et & _ & _ & Ho & Hosz & El). clear Hg.
    assert (Clock (cl_name c) (cl_key c) (lo_size o) = c) as Ec by (destruct c; simpl in *; congruence).
    split; cbn [st_timers st_locks st_sessions set].
    + intros tk t. destruct (decide (tk = tkey (cl_name c) (cl_key c))) as [->|Hne];
        rewrite ?lookup_insert, ?lookup_insert_ne by done; [|rewrite Et; apply Htm]. intros [= <-]. simpl. by rewrite Hnow.
    + intros c'. rewrite (intab_add_key _ _ o) by done. rewrite Ec, Ei. unfold listed. cbn [st_sessions set]. rewrite Es.
      intros [Hc'| ->].
      * destruct (Hlease c' Hc') as (sid' & Hl & Ht). exists sid'. split; [done|].
        rewrite lookup_insert_ne, Et; [done|]. intros [? ?]%tkey_inj. by apply (Hnotab c' Hc').
      * exists sid. split; [apply (bi_pl _ _ _ HB (sid, c)); left|]. by rewrite lookup_insert, Hnow.
    + rewrite Es. intros pre' p post' [(-> & -> & ->)|(post'' & -> & ->)]%snoc_split.
      * simpl. fold cur. rewrite Hr. split; [done|]. intros _. apply listed_listedS with (sid := sid).
        apply (bi_pl _ _ _ HB (sid, c)). left.
      * apply (Hverd pre' p post'' eq_refl).
    + intros n ob. destruct (decide (n = cl_name c)) as [->|Hne]; rewrite ?lookup_insert, ?lookup_insert_ne by done.
      * intros [= <-]. simpl. split; [exists c; auto|]. intros k [Hk| ->%elem_of_list_singleton]%elem_of_app.
        -- destruct (El _ _ Ho) as [(ob0 & Hob0 & -> & Ek)|(_ & _ & Ek & _)]; rewrite Ek in Hk; [|by apply elem_of_nil in Hk].
           destruct (Horig _ _ Hob0) as [_ Hk']. auto.
        -- rewrite Ec. exact Hcin.
      * intros Hob. destruct (El _ _ Hob) as [(ob0 & Hob0 & -> & ->)|(-> & _)]; [|done].
        destruct (Horig _ _ Hob0) as [(c0 & ? & ? & ?) Hk]. split; [exists c0; auto|]. intros k Hk'. auto.
    + rewrite Es. intros Hall. apply Hsame. intros p Hp. apply Hall. apply elem_of_app. by left.
    + intros tk t. destruct (decide (tk = tkey (cl_name c) (cl_key c))) as [->|Hne];
        rewrite ?lookup_insert, ?lookup_insert_ne by done; [|rewrite Et; apply Htk]. by intros [= <-].
Qed.

Lemma boot_at_snoc cfg m pre p : boot_at cfg m (pre ++ [p]) = rstep cfg (boot_at cfg m pre) p.
Proof. unfold boot_at. by rewrite fold_left_app. Qed.

Lemma boot_at_TV cfg order m pre : c_file cfg = true → file_wf m →
  ∀ post, boot_todo order m = pre ++ post → TInv cfg m pre (boot_at cfg m pre).
Proof.
  intros Hf Hwf. induction pre as [|[sid c] pre IH] using rev_ind; intros post E.
  - split; simpl.
    + intros tk t H. by rewrite lookup_empty in H.
    + intros c (? & H & _). by rewrite lookup_empty in H.
    + intros pre' p post' H. by destruct pre'.
    + intros n o H. by rewrite lookup_empty in H.
    + done.
    + intros tk t H. by rewrite lookup_empty in H.
  - rewrite <- app_assoc in E. simpl in E. rewrite boot_at_snoc. unfold rstep. simpl. apply (TV_step cfg m pre sid c post).
    + done.
    + rewrite <- E. by apply boot_todo_nodup.
    + by eapply boot_at_BI.
    + by eapply IH.
Qed.

(** ** With a positive default lease nothing is due at boot: the booted state is the reloaded state *)

Lemma boot_pos cfg order m s' outs : c_file cfg = true → 0 < c_default_lt cfg → file_wf m →
  (s', outs) ∈ boot_on cfg order m →
  s' = finish_advance cfg 0 (boot_at cfg m (boot_todo order m)) ∧ outs = [].
Proof.
  intros Hf Hlt Hwf Hin. rewrite boot_on_eq in Hin by done.
  set (s1 := boot_at cfg m (boot_todo order m)) in *.
  assert (st_now s1 = 0) as Hn1 by apply boot_at_now. rewrite Hn1 in Hin.
  pose proof (boot_at_BI cfg order m (boot_todo order m) [] Hf Hwf (eq_sym (app_nil_r _))) as HB. fold s1 in HB.
  pose proof (boot_at_TV cfg order m (boot_todo order m) Hf Hwf [] (eq_sym (app_nil_r _))) as HT. fold s1 in HT.
  unfold advance_fuel in Hin. rewrite Nat.add_1_r in Hin.
  apply advance_loop_elem in Hin as [[_ [= -> ->]]|(d & s2 & o2 & Hd & _)]; [done|].
  exfalso. apply next_due_elem in Hd as (Hd & Hle & _).
  apply all_items_spec in Hd as [(tk & t & -> & Ht)|(w & _ & Hw & _)].
  - apply (tv_tm _ _ _ _ HT) in Ht. simpl in Hle. lia.
  - rewrite (bi_w _ _ _ HB) in Hw. by apply elem_of_nil in Hw.
Qed.

(** ** (C) *)

Theorem boot_subset : T_boot_subset.
Proof.
  intros cfg order m s' outs Hf Hwf Hin sid c Hl. destruct (boot_BI _ _ _ _ _ Hf Hwf Hin) as (HB & _).
  split_and!.
  - by apply (bi_sub _ _ _ HB).
  - eapply BI_listing_table; [done|]. apply elem_of_listing. by eapply listed_listedS.
  - intros Hlt. destruct (boot_pos _ _ _ _ _ Hf Hlt Hwf Hin) as [-> _].
    set (s1 := boot_at cfg m (boot_todo order m)) in *.
    pose proof (boot_at_BI cfg order m (boot_todo order m) [] Hf Hwf (eq_sym (app_nil_r _))) as HB1. fold s1 in HB1.
    pose proof (boot_at_TV cfg order m (boot_todo order m) Hf Hwf [] (eq_sym (app_nil_r _))) as HT. fold s1 in HT.
    rewrite fin_timers. unfold listed in Hl. rewrite fin_sessions in Hl.
    assert (intab (st_locks s1) c) as Hi.
    { apply listed_listedS in Hl. apply (bi_views _ _ _ HB1) in Hl as [?|[]%elem_of_nil]. done. }
    destruct (tv_lease _ _ _ _ HT c Hi) as (sid' & Hl' & Ht). rewrite Z.add_0_l in Ht.
    assert (sid' = sid) as ->; [|done].
    eapply (file_wf_owner m sid' sid c c); [done|by apply (bi_sub _ _ _ HB1)|by apply (bi_sub _ _ _ HB1)|done].
Qed.
Print Assumptions boot_subset.

(** ** (D) *)

Theorem boot_refusals_exact : T_boot_refusals_exact.
Proof.
  intros cfg order m s' outs pre sid c post Hf Hlt Hwf Hin E.
  destruct (boot_pos _ _ _ _ _ Hf Hlt Hwf Hin) as [-> _].
  pose proof (boot_at_TV cfg order m (boot_todo order m) Hf Hwf [] (eq_sym (app_nil_r _))) as HT.
  rewrite elem_of_listing, fin_sessions. apply (tv_verdict _ _ _ _ HT pre (sid, c) post E).
Qed.
Print Assumptions boot_refusals_exact.

(** an entry that is in the table when a later entry is visited is still listed at the end *)
Lemma kept_until_end cfg order m pre post c0 : c_file cfg = true → file_wf m →
  boot_todo order m = pre ++ post → c0 ∈ pre.*2 → listedS (st_sessions (boot_at cfg m pre)) c0 →
  listedS (st_sessions (boot_at cfg m (boot_todo order m))) c0.
Proof.
  intros Hf Hwf E Hc0 Hl. apply elem_of_list_fmap in Hc0 as (p & -> & Hp).
  apply elem_of_list_split in Hp as (pre' & post' & ->).
  pose proof (boot_at_TV cfg order m _ Hf Hwf post E) as HT1.
  pose proof (boot_at_TV cfg order m (boot_todo order m) Hf Hwf [] (eq_sym (app_nil_r _))) as HT.
  apply (tv_verdict _ _ _ _ HT1 pre' p post' eq_refl) in Hl.
  apply (tv_verdict _ _ _ _ HT pre' p (post' ++ post)); [|done]. rewrite E, <- app_assoc. done.
Qed.

Theorem boot_refusals_justified : T_boot_refusals_justified.
Proof.
  intros cfg order m s' outs pre sid c post Hf Hlt Hwf Hin E Hnl.
  assert (refused_b c (boot_at cfg m pre) = true) as Hr.
  { destruct (refused_b c (boot_at cfg m pre)) eqn:Hr; [done|]. destruct Hnl.
    by apply (boot_refusals_exact cfg order m s' outs pre sid c post). }
  destruct (boot_pos _ _ _ _ _ Hf Hlt Hwf Hin) as [-> _].
  pose proof (boot_at_BI cfg order m pre _ Hf Hwf E) as HB.
  pose proof (boot_at_TV cfg order m pre Hf Hwf _ E) as HT.
  apply refused_b_spec in Hr; [|apply (bi_w _ _ _ HB)]. destruct Hr as [?|(o & Ho & Hwhy)]; [by left|]. right.
  destruct (tv_origin _ _ _ _ HT _ _ Ho) as [(c0 & Hc0 & En & Es) Hk].
  destruct (bi_cap _ _ _ HB _ _ Ho) as (Hpos & Hlen & Hnd).
  destruct (decide (lo_size o = cl_size c)) as [Esz|Hne].
  - right. destruct Hwhy as [?|Hfull]; [done|]. exists (lo_keys o). split_and!; [done|lia|].
    intros k Hk'. rewrite <- Esz. split; [by apply Hk|].
    rewrite elem_of_listing, fin_sessions. eapply kept_until_end; [done|done|exact E|by apply Hk|].
    apply (bi_views _ _ _ HB). left. exists o. auto.
  - left. exists c0. split_and!; [done|done|lia|lia].
Qed.
Print Assumptions boot_refusals_justified.

(** ** (E) *)

Lemma file_entries_NoDup m : file_wf m → NoDup (file_entries m).
Proof.
  intros Hwf. apply NoDup_concat_map.
  - intros sid l Hl. eapply NoDup_fmap_1, file_wf_nodup; eauto.
  - intros sid1 sid2 l1 l2 c H1 H2 Hc1 Hc2. eapply (file_wf_owner m sid1 sid2 c c); [done| | |done]; eexists; eauto.
Qed.

Lemma consistent_not_refused cfg order m pre sid c post : c_file cfg = true → file_wf m → file_consistent m →
  boot_todo order m = pre ++ (sid, c) :: post → refused_b c (boot_at cfg m pre) = false.
Proof.
  intros Hf Hwf Hcons E. destruct (refused_b c (boot_at cfg m pre)) eqn:Hr; [exfalso|done].
  pose proof (boot_at_BI cfg order m pre _ Hf Hwf E) as HB.
  pose proof (boot_at_TV cfg order m pre Hf Hwf _ E) as HT.
  assert (m_listed m sid c) as Hmc by (apply (boot_todo_elem order); rewrite E; apply elem_of_app; right; left).
  destruct (Hcons _ _ Hmc) as (Hpos & Hcount & Hsame).
  assert (∀ c0, c0 ∈ pre.*2 → ∃ sid0, m_listed m sid0 c0) as Hpre.
  { intros c0 ([sid0 c0'] & -> & Hp)%elem_of_list_fmap. exists sid0. apply (boot_todo_elem order). rewrite E. apply elem_of_app. by left. }
  apply refused_b_spec in Hr; [|apply (bi_w _ _ _ HB)]. destruct Hr as [?|(o & Ho & Hwhy)]; [lia|].
  destruct (tv_origin _ _ _ _ HT _ _ Ho) as [(c0 & Hc0 & En & Es) Hk].
  destruct (bi_cap _ _ _ HB _ _ Ho) as (_ & _ & Hnd).
  destruct (Hpre _ Hc0) as (sid0 & Hm0). pose proof (Hsame _ _ Hm0 En) as Esz.
  destruct Hwhy as [?|Hfull]; [congruence|].
  assert (pair (cl_name c) <$> (cl_key c :: lo_keys o) ⊆+ filter (λ p, p.1 = cl_name c) (file_keys m)) as Hsub.
  { apply NoDup_submseteq.
    - apply NoDup_fmap_2; [by intros ? ? [= ->]|]. apply NoDup_cons. split; [|done]. intros Hk'.
      apply (bi_pd _ _ _ HB (sid, c) (elem_of_list_here _ _)). exists o. auto.
    - intros x (k & -> & Hk')%elem_of_list_fmap. apply elem_of_list_filter. split; [done|]. apply file_keys_elem.
      apply elem_of_cons in Hk' as [->|Hk']; [exists sid, c; done|].
      destruct (Hpre _ (Hk _ Hk')) as (sid1 & Hm1). exists sid1, (Clock (cl_name c) k (lo_size o)). done. }
  apply submseteq_length in Hsub. rewrite fmap_length in Hsub. simpl in Hsub. lia.
Qed.

Theorem boot_consistent_file_restores_all : T_boot_consistent_file_restores_all.
Proof.
  intros cfg order m s' outs Hf Hlt Hwf Hcons Hin.
  destruct (boot_BI _ _ _ _ _ Hf Hwf Hin) as (HB & _).
  assert (∀ sid c, m_listed m sid c → c ∈ listing s') as Hall.
  { intros sid c Hm. apply (boot_todo_elem order) in Hm. apply elem_of_list_split in Hm as (pre & post & E).
    apply (boot_refusals_exact cfg order m s' outs pre sid c post); try done. by eapply consistent_not_refused. }
  destruct (boot_pos _ _ _ _ _ Hf Hlt Hwf Hin) as [Es' _].
  pose proof (boot_at_TV cfg order m (boot_todo order m) Hf Hwf [] (eq_sym (app_nil_r _))) as HT.
  assert (st_sessions s' = m) as Hsm.
  { rewrite Es', fin_sessions. apply (tv_same _ _ _ _ HT). intros [sid c] Hp%boot_todo_elem.
    apply Hall in Hp. rewrite Es', elem_of_listing, fin_sessions in Hp. done. }
  split_and!.
  - apply NoDup_Permutation; [by eapply BI_listing_NoDup|by apply file_entries_NoDup|].
    intros c. rewrite elem_of_file_entries. split; [|intros [sid ?]; eauto].
    intros (sid & l & Hl & Hc)%elem_of_listing. exists sid. apply (bi_sub _ _ _ HB). by exists l.
  - done.
  - by rewrite (bi_file _ _ _ HB), Hsm.
  - intros sid c Hm. eapply BI_listing_table; eauto.
Qed.
Print Assumptions boot_consistent_file_restores_all.

(** ** DefaultLockTimeout ≤ 0: every restored lease is due at once, the boot ends with no hold at all *)

Definition due_all (s : sstate) : Prop :=
  (∀ tk t, st_timers s !! tk = Some t → tk = tkey (tm_name t) (tm_key t) ∧ tm_deadline t ≤ 0) ∧
  (∀ c, intab (st_locks s) c → is_Some (st_timers s !! tkey (cl_name c) (cl_key c))).

Lemma due_all_gc cfg t now' s : due_all s → due_all (run_gc_until cfg t s <| st_now := now' |>).
Proof.
  intros [H1 H2]. split; cbn [st_timers st_locks set]; rewrite gc_timers; [done|].
  intros c (o & Ho%gc_locks_sub & ?). apply H2. by exists o.
Qed.

Lemma due_all_expire cfg m tk t s s2 o : BInv m [] s → due_all s → st_timers s !! tk = Some t →
  expire cfg tk t s = (s2, o) → due_all s2.
Proof.
  intros HB [H1 H2] Ht He. apply expire_spec in He as (x & Hs & _ & Htm).
  destruct x as [w|].
  { destruct (unlock_shape_granted _ _ _ _ _ _ _ _ w Hs eq_refl) as [Hin _]. rewrite (bi_w _ _ _ HB) in Hin. by apply elem_of_nil in Hin. }
  destruct Hs as (_ & _ & _ & Hl1). cbn [granted_key] in Hl1.
  destruct (H1 _ _ Ht) as [Etk _].
  assert (∀ c, intab (st_locks s2) c → intab (st_locks s) c ∧ ¬ (cl_name c = tm_name t ∧ cl_key c = tm_key t)) as Hi.
  { intros c. destruct (st_locks s !! tm_name t) as [ob|] eqn:Hob.
    - rewrite app_nil_r in Hl1. rewrite Hl1. apply (intab_remove_key _ _ ob); [done| |done|done].
      by destruct (bi_cap _ _ _ HB _ _ Hob) as (_ & _ & ?).
    - destruct Hl1 as [-> _]. intros Hc. split; [done|]. intros [En _]. destruct Hc as (? & Hc & _). congruence. }
  split; rewrite Htm.
  - intros tk' t' [_ H]%lookup_delete_Some. auto.
  - intros c [Hc Hne]%Hi. rewrite lookup_delete_ne; [by apply H2|]. rewrite Etk. intros [? ?]%tkey_inj. by apply Hne.
Qed.

Theorem boot_nonpositive_lease : T_boot_nonpositive_lease.
Proof.
  intros cfg order m s' outs Hf Hlt Hwf Hin. destruct (boot_BI _ _ _ _ _ Hf Hwf Hin) as (HB' & _).
  rewrite boot_on_eq in Hin by done. set (s1 := boot_at cfg m (boot_todo order m)) in *.
  assert (st_now s1 = 0) as Hn1 by apply boot_at_now. rewrite Hn1 in Hin.
  pose proof (boot_at_BI cfg order m (boot_todo order m) [] Hf Hwf (eq_sym (app_nil_r _))) as HB. fold s1 in HB.
  pose proof (boot_at_TV cfg order m (boot_todo order m) Hf Hwf [] (eq_sym (app_nil_r _))) as HT. fold s1 in HT.
  assert (due_all s1) as HD.
  { split.
    - intros tk t Ht. split; [by apply (tv_tk _ _ _ _ HT)|]. rewrite (tv_tm _ _ _ _ HT _ _ Ht). lia.
    - intros c Hc. destruct (tv_lease _ _ _ _ HT c Hc) as (sid & _ & ->). eauto. }
  eapply (advance_loop_inv cfg 0 (λ s _, BInv m [] s ∧ due_all s))
    in Hin as (sf & (HBf & [HD1 HD2]) & Hnd & ->); [|clear dependent s1 s'|apply advance_fuel_measure|done].
  - assert (st_timers sf = ∅) as Hte.
    { apply map_empty. intros tk. destruct (st_timers sf !! tk) as [t|] eqn:Ht; [exfalso|done].
      destruct (HD1 _ _ Ht) as [_ Hle].
      assert (DTimer tk t ∈ all_items sf) as Hi by (apply all_items_spec; left; eauto).
      apply (next_due_nil _ _ _ Hnd) in Hi. simpl in Hi. lia. }
    assert (∀ c, ¬ in_table (finish_advance cfg 0 sf) c) as Hnone.
    { intros c (o & Ho & Hk). rewrite fin_locks in Ho. apply gc_locks_sub in Ho.
      destruct (HD2 c) as [t Ht]; [by exists o|]. by rewrite Hte, lookup_empty in Ht. }
    split_and!; [|done|by rewrite fin_timers].
    apply elem_of_nil_inv. intros c Hc. apply (Hnone c). by eapply BI_listing_table.
  - intros s outs' d s2 o [HBs HDs] Hd Hfire. apply next_due_elem in Hd as (Hd & _).
    apply all_items_spec in Hd as [(tk & t & -> & Ht)|(w & _ & Hw & _)].
    2:{ rewrite (bi_w _ _ _ HBs) in Hw. by apply elem_of_nil in Hw. }
    simpl in Hfire. split.
    + eapply expire_BI in Hfire as (? & _); [done|done|by apply BI_gc].
    + eapply due_all_expire; [by apply (BI_gc cfg m)|by apply due_all_gc| |exact Hfire].
      unfold tick. cbn [st_timers set]. by rewrite gc_timers.
Qed.
Print Assumptions boot_nonpositive_lease.

(** ** (F) The full invariant, with the ghost field [st_used] filled in *)

Lemma file_keys_unique_wf m : file_keys_unique m → file_wf m.
Proof. unfold file_keys_unique, file_wf. apply NoDup_fmap_1. Qed.

Lemma boot_on'_eq cfg order U m : c_file cfg = true →
  boot_on' cfg order U m =
    let s0 := SState ∅ m ∅ [] (Some m) 0 (0 + c_gc_interval cfg) false U in
    let s1 := fold_left (λ s sid, fold_left (λ s c, restore_one cfg sid c s) (default [] (m !! sid)) s)
                        (reload_order order m) s0 in
    advance_loop cfg (advance_fuel s1) (st_now s1) s1 [].
Proof.
  intros Hf. unfold boot_on', restart, file_state', file_state, init_state. rewrite Hf.
  cbn [st_file st_now st_used set default]. done.
Qed.

Theorem boot_inv : T_boot_inv.
Proof.
  intros cfg order U m s' outs Hcfg Hf Huniq HU Hin. apply QInv_Inv.
  pose proof (file_keys_unique_wf _ Huniq) as Hwf.
  rewrite boot_on'_eq in Hin by done. cbv zeta in Hin.
  set (s0 := SState ∅ m ∅ [] (Some m) 0 (0 + c_gc_interval cfg) false U) in *.
  set (ro := reload_order order m) in *.
  set (f := λ sid, default [] (m !! sid)).
  assert (LI cfg m (Some m) [] U) as HL0.
  { split.
    - intros sid1 sid2 l1 l2 c H1 H2 Hc1 Hc2. eapply (file_wf_owner m sid1 sid2 c c); [done| | |done]; eexists; eauto.
    - intros sid l Hl. eapply NoDup_fmap_1, file_wf_nodup; eauto.
    - done.
    - intros c (sid & l & Hl & Hc). apply (HU (nk c)). apply file_keys_elem. exists sid, c. split; [by exists l|done].
    - by intros c w _ ?%elem_of_nil. }
  assert (RInv cfg s0 (flat_map f ro)) as HR.
  { split_and!.
    - apply TI_empty.
    - exact HL0.
    - done.
    - assert (cl_key <$> flat_map f ro = (nk <$> (boot_todo order m).*2).*2) as ->.
      { unfold boot_todo. rewrite <- fmap_snd_map, todo_list_snd. fold ro. fold f. rewrite <- list_fmap_compose. done. }
      rewrite boot_todo_keys. exact Huniq.
    - intros c. simpl. rewrite elem_of_flat_map. split.
      + intros (sid & l & Hm & Hc). right. exists sid. split; [apply reload_order_elem; eauto|]. unfold f. by rewrite Hm.
      + intros [(? & H & _)|(sid & _ & Hc)]; [by rewrite lookup_empty in H|]. exists sid, (f sid). split; [|done].
        unfold f in *. destruct (m !! sid); [done|by apply elem_of_nil in Hc].
    - intros c _ n (? & H & _). simpl in H. by rewrite lookup_empty in H. }
  apply restore_outer in HR. cbv zeta in HR. destruct HR as [(HT1 & HL1 & HW1 & _ & HV1 & _) [Hn1 Hg1]].
  match type of Hin with _ ∈ advance_loop _ _ _ ?x _ => set (s1 := x) in * end.
  eapply advance_loop_QInv; [done| | |exact Hin].
  - unfold advance_fuel, mu. lia.
  - split_and!; [split_and!| |]; try done.
    + intros c. rewrite (HV1 c), elem_of_nil. tauto.
    + apply STM_trivial. intros d. lia.
    + rewrite Hn1, Hg1. unfold s0. simpl. unfold cfg_ok in Hcfg. lia.
Qed.
Print Assumptions boot_inv.

Theorem boot_then_history_inv : T_boot_then_history_inv.
Proof.
  intros cfg order U m s' outs h s'' os Hcfg Hf Huniq HU Hin Hh Hr.
  pose proof (boot_inv cfg order U m s' outs Hcfg Hf Huniq HU Hin) as HI. clear Hin.
  revert s' os HI Hh Hr. induction h as [|ev h IH]; intros s' os HI Hh Hr.
  - simpl in Hr. apply elem_of_list_singleton in Hr. by injection Hr as -> _.
  - simpl in Hr. destruct Hh as [Hok Hh]. apply elem_of_flat_map in Hr as ([s1 o] & Hs1 & Hr).
    apply elem_of_list_In, in_map_iff in Hr as ([s2 os2] & [= <- <-] & Hr%elem_of_list_In).
    eapply IH; [eapply inv_step; eauto|eauto|exact Hr].
Qed.
Print Assumptions boot_then_history_inv.

(** *** the ghost field is transparent: [restart] never reads [st_used] *)

Definition wu (U : list str) (s : sstate) : sstate := s <| st_used := U |>.
Definition wu2 (U : list str) (r : sstate * list out) : sstate * list out := (wu U r.1, r.2).

Lemma wu_rle cfg n k U s : remove_lock_entry cfg n k (wu U s) = wu U (remove_lock_entry cfg n k s).
Proof. unfold remove_lock_entry, save, wu. cbn [st_sessions set]. repeat case_match; reflexivity. Qed.

Lemma wu_add_key n k U s : add_key n k (wu U s) = wu U (add_key n k s).
Proof. unfold add_key, wu. cbn [st_locks set]. repeat case_match; reflexivity. Qed.

Lemma wu_glc n sz U s : get_lock_create n sz (wu U s) =
  match get_lock_create n sz s with inl e => inl e | inr (o, s1) => inr (o, wu U s1) end.
Proof. unfold get_lock_create, wu. cbn [st_locks st_now set]. repeat case_match; reflexivity. Qed.

Lemma wu_record_grant cfg sid n k sz lt U s :
  record_grant cfg sid n k sz lt (wu U s) = wu U (record_grant cfg sid n k sz lt s).
Proof. unfold record_grant, save, wu. cbn [st_sessions st_now st_timers set]. repeat case_match; reflexivity. Qed.

Lemma wu_hand_off cfg n U s : hand_off cfg n (wu U s) = wu2 U (hand_off cfg n s).
Proof.
  unfold hand_off, wu2. cbn [st_locks st_waiters st_now wu set].
  destruct (st_locks s !! n); [|done]. destruct (name_waiters n (st_waiters s)); [done|].
  case_bool_decide; [|done]. simpl. f_equal. rewrite wu_add_key.
  rewrite <- wu_record_grant. f_equal.
Qed.

Lemma wu_mgr_unlock cfg n k U s : mgr_unlock cfg n k (wu U s) =
  let '(s1, r, o) := mgr_unlock cfg n k s in (wu U s1, r, o).
Proof.
  unfold mgr_unlock. change (st_locks (wu U s)) with (st_locks s). change (st_now (wu U s)) with (st_now s).
  destruct (st_locks s !! n); [|done].
  case_bool_decide; [|done].
  match goal with |- context [hand_off cfg n (wu U s <| st_locks := ?L |>)] =>
    change (wu U s <| st_locks := L |>) with (wu U (s <| st_locks := L |>)) end.
  rewrite wu_hand_off. by destruct (hand_off _ _ _).
Qed.

Lemma wu_expire cfg tk t U s : expire cfg tk t (wu U s) = wu2 U (expire cfg tk t s).
Proof.
  unfold expire. rewrite wu_mgr_unlock. destruct (mgr_unlock _ _ _ _) as [[s1 r] o]. rewrite wu_rle. done.
Qed.

Lemma wu_fire cfg d U s : fire cfg d (wu U s) = wu2 U (fire cfg d s).
Proof. destruct d; simpl; [apply wu_expire|done]. Qed.

Lemma wu_gc cfg t U s : run_gc_until cfg t (wu U s) = wu U (run_gc_until cfg t s).
Proof. unfold run_gc_until, wu. cbn [st_gc_next st_locks st_waiters set]. repeat case_match; reflexivity. Qed.

Lemma wu_restore_one cfg sid c U s : restore_one cfg sid c (wu U s) = wu U (restore_one cfg sid c s).
Proof.
  unfold restore_one. rewrite wu_glc. destruct (get_lock_create _ _ _) as [e|[o s1]]; [apply wu_rle|].
  unfold can_acquire. cbn [st_waiters wu set]. destruct (_ && _); [|apply wu_rle].
  rewrite wu_add_key. done.
Qed.

Lemma wu_advance_loop cfg fuel target U : ∀ s outs,
  advance_loop cfg fuel target (wu U s) outs = map (wu2 U) (advance_loop cfg fuel target s outs).
Proof.
  induction fuel as [|fuel IH]; intros s outs; cbn [advance_loop].
  - unfold finish_advance. rewrite wu_gc. done.
  - change (next_due target (wu U s)) with (next_due target s).
    destruct (next_due target s) as [|d0 ds] eqn:E.
    + unfold finish_advance. rewrite wu_gc. done.
    + generalize (d0 :: ds). intros l. induction l as [|d l IHl]; [done|]. cbn [flat_map]. rewrite map_app, <- IHl. f_equal.
      cbn [st_now wu set]. rewrite wu_gc.
      change (wu U (run_gc_until cfg ?t s) <| st_now := ?t |>) with (wu U (run_gc_until cfg t s <| st_now := t |>)).
      rewrite wu_fire. destruct (fire _ _ _) as [s2 o]. simpl. apply IH.
Qed.

Lemma wu_restore_inner cfg sid U l : ∀ s,
  fold_left (λ s c, restore_one cfg sid c s) l (wu U s) = wu U (fold_left (λ s c, restore_one cfg sid c s) l s).
Proof. induction l as [|c l IH]; intros s; [done|]. simpl. by rewrite wu_restore_one, IH. Qed.

Lemma wu_restore_outer (cfg : config) (m : gmap str (list clock)) (U : list str) (ro : list str) : ∀ s : sstate,
  fold_left (λ s sid, fold_left (λ s c, restore_one cfg sid c s) (default [] (m !! sid)) s) ro (wu U s)
  = wu U (fold_left (λ s sid, fold_left (λ s c, restore_one cfg sid c s) (default [] (m !! sid)) s) ro s).
Proof. induction ro as [|sid ro IH]; intros s; [done|]. simpl. by rewrite wu_restore_inner, IH. Qed.

Theorem boot_ghost : T_boot_ghost.
Proof.
  intros cfg order U m. unfold boot_on', boot_on, restart, file_state'.
  change (st_file (file_state cfg m <| st_used := U |>)) with (st_file (file_state cfg m)).
  change (st_now (file_state cfg m <| st_used := U |>)) with (st_now (file_state cfg m)).
  set (m0 := if c_file cfg then default ∅ (st_file (file_state cfg m)) else ∅).
  change (st_used (file_state cfg m <| st_used := U |>)) with U.
  match goal with |- context [fold_left _ (reload_order order m0) ?s0] =>
    match s0 with SState _ _ _ _ _ _ _ _ U =>
      change s0 with (wu U (SState ∅ m0 ∅ [] (if c_file cfg then st_file (file_state cfg m) else None) (st_now (file_state cfg m))
                                   (st_now (file_state cfg m) + c_gc_interval cfg) false (st_used (file_state cfg m))))
    end end.
  rewrite wu_restore_outer.
  match goal with |- context [wu U ?s] => set (s1 := s) end.
  change (advance_fuel (wu U s1)) with (advance_fuel s1). change (st_now (wu U s1)) with (st_now s1).
  rewrite wu_advance_loop. apply map_ext. by intros [s' o].
Qed.
Print Assumptions boot_ghost.

Corollary boot_inv_ghost cfg order U m s' outs :
  cfg_ok cfg → c_file cfg = true → file_keys_unique m → (∀ p, p ∈ file_keys m → p.2 ∈ U) →
  (s', outs) ∈ boot_on cfg order m → Inv cfg (s' <| st_used := U |>).
Proof.
  intros Hcfg Hf Hu HU Hin. apply (boot_inv cfg order U m _ outs); try done.
  rewrite boot_ghost. apply elem_of_list_In, in_map_iff. exists (s', outs). split; [done|by apply elem_of_list_In].
Qed.
Print Assumptions boot_inv_ghost.

(** ** (G) Non-vacuity: concrete files, by computation *)

Definition bcfg : config := Config false true (30 * second) (5 * second) (10 * second).
Definition fA : str := [x61]. Definition fB : str := [x62].
Definition fk1 : str := [x6b; x31]. Definition fk2 : str := [x6b; x32]. Definition fk3 : str := [x6b; x33].
Definition fs1 : str := [x73; x31]. Definition fs2 : str := [x73; x32].

(** what a probe and the timer table show after each possible boot *)
Definition boot_obs (r : list (sstate * list out)) :=
  map (λ '(s', o), (listing s', file_view s', table_view s', map_to_list (st_timers s'), o)) r.

Lemma file_wf_dec m : bool_decide (NoDup (file_keys m)) = true → file_wf m.
Proof. intros H. by apply bool_decide_eq_true in H. Qed.

(** F-OVER image: a size-1 lock listed twice, then another lock's entry in the same session. The first entry holds, the
    second is refused and leaves listing and file, the THIRD IS RESTORED (seeds C01d / C07c lose it). *)
Definition m_over := file_of_list [(fs1, [Clock fA fk1 1; Clock fA fk2 1; Clock fB fk3 1])].
Example ex_over_capacity :
  file_wf m_over ∧ ¬ file_consistent m_over ∧
  boot_obs (boot_on bcfg [] m_over) =
    [([Clock fA fk1 1; Clock fB fk3 1],
      Some [(fs1, [Clock fA fk1 1; Clock fB fk3 1])],
      [(fA, (1, [fk1], 0)); (fB, (1, [fk3], 0))],
      [(tkey fA fk1, Timer (10 * second) fA fk1 fs1); (tkey fB fk3, Timer (10 * second) fB fk3 fs1)],
      [])].
Proof.
  split; [by apply file_wf_dec|]. split; [|by vm_compute].
  intros H. destruct (H fs1 (Clock fA fk1 1)) as (_ & Hc & _); [eexists; split; [by vm_compute|left]|].
  vm_compute in Hc. by apply Hc.
Qed.
Print Assumptions ex_over_capacity.

(** a consistent file (a size-2 lock shared by two sessions, a size-1 lock) is restored completely, in either order *)
Definition m_ok := file_of_list [(fs1, [Clock fA fk1 2; Clock fB fk3 1]); (fs2, [Clock fA fk2 2])].
Example ex_consistent :
  file_wf m_ok ∧
  boot_obs (boot_on bcfg [] m_ok) =
    [([Clock fA fk1 2; Clock fB fk3 1; Clock fA fk2 2],
      Some [(fs1, [Clock fA fk1 2; Clock fB fk3 1]); (fs2, [Clock fA fk2 2])],
      [(fA, (2, [fk1; fk2], 0)); (fB, (1, [fk3], 0))],
      [(tkey fA fk1, Timer (10 * second) fA fk1 fs1); (tkey fA fk2, Timer (10 * second) fA fk2 fs2);
       (tkey fB fk3, Timer (10 * second) fB fk3 fs1)],
      [])] ∧
  boot_obs (boot_on bcfg [fs2; fs1] m_ok) =
    [([Clock fA fk1 2; Clock fB fk3 1; Clock fA fk2 2],
      Some [(fs1, [Clock fA fk1 2; Clock fB fk3 1]); (fs2, [Clock fA fk2 2])],
      [(fA, (2, [fk2; fk1], 0)); (fB, (1, [fk3], 0))],
      [(tkey fA fk1, Timer (10 * second) fA fk1 fs1); (tkey fA fk2, Timer (10 * second) fA fk2 fs2);
       (tkey fB fk3, Timer (10 * second) fB fk3 fs1)],
      [])].
Proof. split; [by apply file_wf_dec|]. split; by vm_compute. Qed.
Print Assumptions ex_consistent.

Example ex_consistent_hyp : file_consistent m_ok.
Proof.
  intros sid c (l & Hl & Hc).
  assert (sid = fs1 ∧ l = [Clock fA fk1 2; Clock fB fk3 1] ∨ sid = fs2 ∧ l = [Clock fA fk2 2]) as Hcases.
  { apply elem_of_map_to_list in Hl. vm_compute in Hl. apply elem_of_list_In in Hl. simpl in Hl.
    destruct Hl as [[= <- <-]|[[= <- <-]|[]]]; auto. }
  assert (∀ sid' c', m_listed m_ok sid' c' → c' ∈ [Clock fA fk1 2; Clock fB fk3 1; Clock fA fk2 2]) as Hall.
  { intros sid' c' (l' & Hl'%elem_of_map_to_list & Hc'). vm_compute in Hl'. apply elem_of_list_In in Hl'. simpl in Hl'.
    destruct Hl' as [[= <- <-]|[[= <- <-]|[]]]; set_solver. }
  assert (c ∈ [Clock fA fk1 2; Clock fB fk3 1; Clock fA fk2 2]) as Hc3 by (apply (Hall sid); by exists l).
  repeat (apply elem_of_cons in Hc3 as [->|Hc3]); try (by apply elem_of_nil in Hc3);
    (split; [done|]; split; [by vm_compute|]; intros sid' c' Hc'%Hall;
     repeat (apply elem_of_cons in Hc' as [->|Hc']); try (by apply elem_of_nil in Hc'); by vm_compute).
Qed.
Print Assumptions ex_consistent_hyp.

Example ex_keys_unique : file_keys_unique m_ok ∧ ∀ p, p ∈ file_keys m_ok → p.2 ∈ [fk1; fk2; fk3].
Proof.
  split; [unfold file_keys_unique; by apply (bool_decide_eq_true (NoDup (file_keys m_ok).*2))|].
  intros p Hp. vm_compute in Hp. repeat (apply elem_of_cons in Hp as [->|Hp]); [set_solver..|by apply elem_of_nil in Hp].
Qed.
Print Assumptions ex_keys_unique.

(** an entry with size 0 is dropped, the rest of the session is kept *)
Definition m_zero := file_of_list [(fs1, [Clock fA fk1 0; Clock fB fk3 1])].
Example ex_invalid_size :
  file_wf m_zero ∧
  boot_obs (boot_on bcfg [] m_zero) =
    [([Clock fB fk3 1], Some [(fs1, [Clock fB fk3 1])], [(fB, (1, [fk3], 0))],
      [(tkey fB fk3, Timer (10 * second) fB fk3 fs1)], [])].
Proof. split; [by apply file_wf_dec|by vm_compute]. Qed.
Print Assumptions ex_invalid_size.

(** a size mismatch drops the mismatching entry only *)
Definition m_mis := file_of_list [(fs1, [Clock fA fk1 2; Clock fA fk2 1; Clock fA fk3 2])].
Example ex_size_mismatch :
  file_wf m_mis ∧
  boot_obs (boot_on bcfg [] m_mis) =
    [([Clock fA fk1 2; Clock fA fk3 2], Some [(fs1, [Clock fA fk1 2; Clock fA fk3 2])], [(fA, (2, [fk1; fk3], 0))],
      [(tkey fA fk1, Timer (10 * second) fA fk1 fs1); (tkey fA fk3, Timer (10 * second) fA fk3 fs1)], [])].
Proof. split; [by apply file_wf_dec|by vm_compute]. Qed.
Print Assumptions ex_size_mismatch.

(** *** why [file_wf] is required: the same (name, key) twice in a size-1 lock. The first restore takes the lock, the
    second is refused, and RemoveLock removes BOTH entries: the key holds the lock (with a lease) but is not listed. *)
Definition m_dup := file_of_list [(fs1, [Clock fA fk1 1; Clock fA fk1 1])].

Example ex_duplicate_key :
  ¬ file_wf m_dup ∧
  boot_obs (boot_on bcfg [] m_dup) =
    [([], Some [(fs1, [])], [(fA, (1, [fk1], 0))], [(tkey fA fk1, Timer (10 * second) fA fk1 fs1)], [])].
Proof.
  split; [|by vm_compute]. unfold file_wf. intros H.
  assert (bool_decide (NoDup (file_keys m_dup)) = true) as Hb by (by apply bool_decide_eq_true). by vm_compute in Hb.
Qed.
Print Assumptions ex_duplicate_key.

(** every outcome of a boot shows up in [boot_obs] *)
Lemma boot_obs_elem r s' o : (s', o) ∈ r →
  (listing s', file_view s', table_view s', map_to_list (st_timers s'), o) ∈ boot_obs r.
Proof. intros H. unfold boot_obs. apply elem_of_list_In, in_map_iff. exists (s', o). split; [done|by apply elem_of_list_In]. Qed.

Lemma dup_outcome s' o : (s', o) ∈ boot_on bcfg [] m_dup →
  listing s' = [] ∧ file_view s' = Some [(fs1, [])] ∧ table_view s' = [(fA, (1, [fk1], 0))] ∧
  map_to_list (st_timers s') = [(tkey fA fk1, Timer (10 * second) fA fk1 fs1)].
Proof.
  intros H%boot_obs_elem. rewrite (proj2 ex_duplicate_key) in H. apply elem_of_list_singleton in H.
  by injection H as -> -> -> -> _.
Qed.

Lemma dup_has_outcome : ∃ s' o, (s', o) ∈ boot_on bcfg [] m_dup.
Proof.
  destruct (boot_on bcfg [] m_dup) as [|[s' o] l] eqn:E.
  - pose proof (proj2 ex_duplicate_key) as H. rewrite E in H. discriminate H.
  - exists s', o. left.
Qed.

Theorem boot_duplicate_key_refuted : ¬ T_boot_views_agree_any_file.
Proof.
  intros H. destruct dup_has_outcome as (s' & o & Hin). specialize (H bcfg [] m_dup s' o eq_refl Hin).
  destruct (dup_outcome _ _ Hin) as (E1 & E2 & E3 & _). rewrite E1, E2, E3 in H. by vm_compute in H.
Qed.
Print Assumptions boot_duplicate_key_refuted.

Theorem boot_duplicate_key_witness : ∃ m s' outs,
  ¬ file_wf m ∧ (s', outs) ∈ boot_on bcfg [] m ∧
  in_table s' (Clock fA fk1 1) ∧ Clock fA fk1 1 ∉ listing s' ∧ is_Some (st_timers s' !! tkey fA fk1).
Proof.
  destruct dup_has_outcome as (s' & o & Hin). exists m_dup, s', o.
  destruct (dup_outcome _ _ Hin) as (El & _ & Et & Etm).
  split; [apply ex_duplicate_key|]. split; [done|]. split_and!.
  - apply elem_of_table_holds. rewrite Et. vm_compute. left.
  - rewrite El. by intros ?%elem_of_nil.
  - eexists. apply elem_of_map_to_list. rewrite Etm. left.
Qed.
Print Assumptions boot_duplicate_key_witness.
