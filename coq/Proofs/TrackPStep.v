(** The micro-steps of Mseq that complete parked calls (the manager's Unlock with its hand-off, a call
    giving up) simulated by the oracle's [t_waiter_done], processed in the order the model emits the
    completions (work package trackp). *)
From Coq Require Import Lia ZifyBool ZifyNat String.
From Ldlm Require Import Model.Base Model.Err Model.Seq Model.Track Proofs.SeqDefs Proofs.SeqLemmasKey Proofs.SeqInvBase
  Proofs.SeqInvOps Proofs.SeqTimeBase Proofs.SeqTime1 Proofs.TrackPBase Proofs.TrackPOrder Proofs.TrackPRel.
From RecordUpdate Require Import RecordSet.
Import RecordSetNotations.
Local Open Scope Z_scope.

(** the relation inside an event: the tracker's effective holds at the model's instant, minus the written-off [D] *)
(** FRESH: the keys and session ids the oracle has seen were drawn (ghost [st_used]), and the key of a parked call
    has not been seen in a grant yet *)
Definition KI (s : sstate) (t : tstate) : Prop :=
  (∀ k, k ∈ t_keys t → k ∈ st_used s) ∧ (∀ x, x ∈ t_sids t → x ∈ st_used s) ∧
  (∀ w, w ∈ st_waiters s → w_key w ∉ t_keys t).

Definition LR (s : sstate) (D : list (str * str)) (t : tstate) : Prop :=
  HR (st_locks s) (st_sessions s) (st_timers s) True D (ef (st_now s) (t_holds t)) ∧
  Forall2 WR (st_waiters s) (t_waiters t) ∧ KI s t.

Lemma KI_frame s s' t : KI s t → (∀ k, k ∈ st_used s → k ∈ st_used s') → (∀ w, w ∈ st_waiters s' → w ∈ st_waiters s) → KI s' t.
Proof. intros (H1 & H2 & H3) Hu Hw. split_and!; auto. Qed.

Definition Dminus (p : str * str) (D : list (str * str)) : list (str * str) := filter (λ d, d ≠ p) D.

Lemma elem_of_Dminus p D d : d ∈ Dminus p D ↔ d ≠ p ∧ d ∈ D.
Proof. unfold Dminus. by rewrite elem_of_list_filter. Qed.

(** ** manager.Unlock of a live key, with its outputs *)

Lemma mgr_unlock_live cfg n k s s2 r o ob :
  mgr_unlock cfg n k s = (s2, r, o) → st_locks s !! n = Some ob → k ∈ lo_keys ob →
  r = inr tt ∧
  let ks := remove_first k (lo_keys ob) in
  ((o = [] ∧ s2 = s <| st_locks := <[n := LockObj (lo_size ob) ks (st_now s)]> (st_locks s) |>) ∨
   (∃ w rest, name_waiters n (st_waiters s) = w :: rest ∧ Z.of_nat (length ks) < lo_size ob ∧
      o = [OWaiter (w_id w) (st_now s) (RLock true (w_key w) None)] ∧
      s2 = record_grant cfg (w_sid w) n (w_key w) (w_size w) (w_lt w)
             (s <| st_locks := <[n := LockObj (lo_size ob) (ks ++ [w_key w]) (st_now s)]> (st_locks s) |>
                <| st_waiters := filter (λ w', bool_decide (w_id w' ≠ w_id w)) (st_waiters s) |>))).
Proof.
  intros Hm Ho Hk. unfold mgr_unlock in Hm. rewrite Ho in Hm. rewrite bool_decide_eq_true_2 in Hm by done.
  destruct (hand_off _ _ _) as [s3 outs3] eqn:Hh. injection Hm as <- <- <-. split; [done|].
  revert Hh. unfold hand_off. cbn [st_locks set]. rewrite lookup_insert. cbn [st_waiters set].
  destruct (name_waiters n (st_waiters s)) as [|w rest] eqn:Hw.
  { intros [= <- <-]. left. destruct ob; simpl. auto. }
  simpl. case_bool_decide as Hlt.
  2:{ intros [= <- <-]. left. destruct ob; simpl in *. auto. }
  intros [= <- <-]. right. exists w, rest. split_and!; [done|done|done|].
  unfold add_key. cbn [st_locks set]. rewrite lookup_insert. f_equal. destruct ob, s; simpl.
  by rewrite insert_insert.
Qed.

(** ** Frame: the parts of the model state [LR] does not read may change *)

Lemma LR_frame s s' D t :
  LR s D t → st_locks s' = st_locks s → st_waiters s' = st_waiters s → st_now s' = st_now s → st_used s' = st_used s →
  (∀ h l, h ∈ ef (st_now s) (t_holds t) → st_sessions s !! h_sid h = Some l → hold_clock h ∈ l →
      ∃ l', st_sessions s' !! h_sid h = Some l' ∧ hold_clock h ∈ l') →
  (∀ h, h ∈ ef (st_now s) (t_holds t) → tdl (st_timers s') (h_name h) (h_key h) = tdl (st_timers s) (h_name h) (h_key h)) →
  LR s' D t.
Proof.
  intros (HH & HW & HK) EL EW En EU HS HT. split; [|split; [by rewrite EW|eapply KI_frame; [exact HK|by rewrite EU|by rewrite EW]]]. rewrite EL, En.
  eapply HR_change; [exact HH|..].
  - intros h Hh. by apply (hr_tab _ _ _ _ _ _ HH).
  - intros c Hc. destruct (hr_all _ _ _ _ _ _ HH c Hc) as [?|(h & Hh & <-)]; [by left|].
    destruct (hr_tab _ _ _ _ _ _ HH h Hh). by right.
  - done.
  - done.
  - apply (hr_D _ _ _ _ _ _ HH).
Qed.

(** removing the session entries and the lease timer of a pair that is no longer in the table *)
Lemma LR_cleanup cfg n k s s' D t :
  LR s D t → ¬ livel (st_locks s) n k →
  st_locks s' = st_locks s → st_waiters s' = st_waiters s → st_now s' = st_now s → st_used s' = st_used s →
  (st_sessions s' = st_sessions s ∨ st_sessions s' = st_sessions (remove_lock_entry cfg n k s)) →
  (st_timers s' = st_timers s ∨ st_timers s' = delete (tkey n k) (st_timers s)) →
  LR s' D t.
Proof.
  intros HL Hnl EL EW En EU HS HT. pose proof HL as [HH _].
  assert (∀ h, h ∈ ef (st_now s) (t_holds t) → hkey h ≠ (n, k)) as Hne.
  { intros h Hh E. apply Hnl. destruct (hr_tab _ _ _ _ _ _ HH h Hh) as [Hi _]. apply intab_livel in Hi.
    unfold hkey in E. injection E as <- <-. exact Hi. }
  eapply LR_frame; try done.
  - intros h l Hh Hs Hc. destruct HS as [->| ->]; [eauto|]. rewrite rle_sessions, lookup_fmap, Hs. simpl.
    eexists. split; [done|]. apply elem_of_list_filter. split; [|done].
    unfold is_hold. simpl. specialize (Hne h Hh). unfold hkey in Hne.
    repeat case_bool_decide; simpl; try done. congruence.
  - intros h Hh. destruct HT as [->| ->]; [done|]. unfold tdl. rewrite lookup_delete_ne; [done|].
    intros E%tkey_inj. apply (Hne h Hh). unfold hkey. destruct E. congruence.
Qed.

(** ** A grant to a parked call, seen by [t_waiter_done] *)

Section step.
  Context (cfg : config) (i : nat) (cause : option err) (X : nat → string → Prop).

  Lemma mgr_unlock_LR n k s s2 r o D t :
    mgr_unlock cfg n k s = (s2, r, o) →
    STI s [] → (n, k) ∈ D → LR s D t → fails_ok X t → t_pending t = [] →
    let t' := done_list cfg i cause (comps o) t in
    r = inr tt ∧ LR s2 (Dminus (n, k) D) t' ∧ fails_ok X t' ∧ st_now s2 = st_now s ∧ ¬ livel (st_locks s2) n k ∧
    (∀ c, c ∈ comps o → c_at c = st_now s ∧ rlock c ∧ c_wid c ∈ w_id <$> st_waiters s ∧ c_wid c ∉ w_id <$> st_waiters s2) ∧
    (∀ w, w ∈ st_waiters s2 → w ∈ st_waiters s) ∧ NoDup (c_wid <$> comps o) ∧ NoDup (w_id <$> st_waiters s2).
  Proof.
    intros Hm HT HD (HH & HW & HK) HX Hpend t'.
    destruct (hr_D _ _ _ _ _ _ HH _ _ HD) as (ob & Ho & Hk).
    destruct (ti_cap _ _ _ _ _ HT _ _ Ho) as (Hsz & Hlen & Hnd).
    destruct (remove_first_nodup k _ Hnd) as [Hnd' Hkn].
    eapply mgr_unlock_live in Hm as [-> Hm]; [|done..]. split; [done|]. simpl in Hm.
    set (L := st_locks s) in *. set (ks := remove_first k (lo_keys ob)) in *.
    set (L1 := <[n := LockObj (lo_size ob) ks (st_now s)]> L).
    assert (∀ c, intab L1 c ↔ intab L c ∧ ¬ (cl_name c = n ∧ cl_key c = k)) as Hi1.
    { intros c. by apply (intab_remove_key L n ob). }
    assert (∀ n' k', (n', k') ∈ Dminus (n, k) D → livel L1 n' k') as HD1.
    { intros n' k' [Hne HD']%elem_of_Dminus. destruct (hr_D _ _ _ _ _ _ HH _ _ HD') as (o' & Ho' & Hk').
      apply livel_insert. destruct (decide (n' = n)) as [->|]; [left|right; split; [done|by exists o']].
      simplify_eq. split; [done|]. simpl. apply remove_first_ne; [done|]. congruence. }
    assert (HR L1 (st_sessions s) (st_timers s) True (Dminus (n, k) D) (ef (st_now s) (t_holds t))) as HH1.
    { eapply HR_change; [exact HH|..]; try done.
      - intros h Hh. destruct (hr_tab _ _ _ _ _ _ HH h Hh) as [Hi HnD]. split.
        + apply Hi1. split; [done|]. intros [En Ek]. apply HnD. unfold hkey. simpl in *. by rewrite En, Ek.
        + intros [_ ?]%elem_of_Dminus. done.
      - intros c [Hc Hne]%Hi1. destruct (decide (ckey c ∈ D)) as [HcD|HcD]; [left|by right].
        apply elem_of_Dminus. split; [|done]. unfold ckey. intros [= ? ?]. by apply Hne.
      - eauto. }
    assert (¬ livel L1 n k) as Hnl1.
    { intros [[_ Hk']|[? _]]%livel_insert; done. }
    destruct Hm as [[-> ->]|(w & rest & Hw & Hcap & -> & ->)].
    - (* nobody to hand the capacity to *)
      split_and!; [split; [exact HH1|split; [exact HW|exact HK]]|done|done|done|by intros c ?%elem_of_nil|done|constructor|apply (ti_ids _ _ _ _ _ HT)].
    - apply name_waiters_cons in Hw as Hw'. destruct Hw' as [HwW Hwn].
      destruct (ti_waiters _ _ _ _ _ HT w HwW) as (o1 & Ho1 & _ & Hwsz). rewrite Hwn in Ho1. fold L in Ho1. simplify_eq.
      destruct (ti_used_waiters _ _ _ _ _ HT w HwW) as [_ Hwdead].
      destruct (WR_findw _ _ _ HW (ti_ids _ _ _ _ _ HT) HwW) as (tw & Hf & (Hid & Hnm & Hsid & Hsize & Hlt & Hdl)).
      assert (fifo_ok tw (t_waiters t) = true) as Hfifo.
      { pose proof (WR_name _ _ (w_name w) HW) as HN. rewrite Hw in HN. unfold fifo_ok. rewrite Hnm.
        inversion HN as [|? tw0 ? ? (Hid0 & _) _]; subst. apply bool_decide_eq_true. congruence. }
      assert (cap_ok tw (st_now s) (t_holds t) (t_pending t) = true) as Hcapok.
      { unfold cap_ok, pend_on. rewrite Hpend, Hnm, Hsize, Hwsz. simpl.
        pose proof (hr_count_le _ _ _ _ _ _ HH (w_name w) ob k Ho HD Hk). fold ks in H. lia. }
      subst t'. simpl. unfold done1, c_wid, c_at, c_resp. simpl. erewrite wd_known by exact Hf. simpl.
      unfold grant_flags. rewrite Hcapok, Hfifo. simpl.
      destruct HK as (HK1 & HK2 & HK3). rewrite (bool_decide_eq_false_2 (w_key w ∈ t_keys t)) by (by apply HK3). simpl.
      unfold LR. rewrite !rg_locks, rg_sessions, rg_timers, !rg_waiters, !rg_now. simpl.
      set (L2 := <[w_name w := LockObj (lo_size ob) (ks ++ [w_key w]) (st_now s)]> L).
      assert (L2 = <[w_name w := LockObj (lo_size ob) (ks ++ [w_key w]) (st_now s)]> L1) as EL2.
      { unfold L2, L1. by rewrite insert_insert. }
      assert (¬ livel L1 (w_name w) (w_key w)) as Hnlw.
      { intros [[_ Hk']|[? _]]%livel_insert; [|done]. simpl in Hk'. apply (Hwdead (w_name w)). exists ob. split; [done|].
        by eapply remove_first_incl. }
      split_and!; try done.
      + rewrite ef_app, ef_ef by lia. unfold ef at 2. simpl. rewrite lease_alive'.
        rewrite Hnm, Hsize, Hsid, Hlt.
        eapply HR_grant; [exact HH1|..].
        -- intros c. rewrite EL2, Hwsz. apply (intab_add_key L1 (w_name w) (LockObj (lo_size ob) ks (st_now s))); [|done..].
           unfold L1. apply lookup_insert.
        -- done.
        -- intros n' k' Hd. specialize (HD1 _ _ Hd). rewrite EL2. apply livel_insert.
           destruct (decide (n' = w_name w)) as [->|]; [left|by right]. split; [done|]. simpl.
           apply livel_insert in HD1 as [[_ ?]|[? _]]; [|done]. apply elem_of_app. by left.
        -- intros _. split.
           ++ unfold tdl, lease. destruct (w_lt w) as [v|].
              ** destruct (0 <? v); [by rewrite lookup_insert|].
                 destruct (st_timers s !! tkey (w_name w) (w_key w)) as [tm|] eqn:Et; [|done].
                 destruct (ti_timers _ _ _ _ _ HT _ _ Et) as [E [Hl|[]%elem_of_nil]].
                 apply tkey_inj in E as [E1 E2]. rewrite <- E1, <- E2 in Hl. by apply Hwdead in Hl.
              ** destruct (st_timers s !! tkey (w_name w) (w_key w)) as [tm|] eqn:Et; [|done].
                 destruct (ti_timers _ _ _ _ _ HT _ _ Et) as [E [Hl|[]%elem_of_nil]].
                 apply tkey_inj in E as [E1 E2]. rewrite <- E1, <- E2 in Hl. by apply Hwdead in Hl.
           ++ intros h Hh. unfold tdl. destruct (w_lt w) as [v|]; [|done]. destruct (0 <? v); [|done].
              rewrite lookup_insert_ne; [done|]. intros [En Ek]%tkey_inj. apply Hnlw.
              destruct (hr_tab _ _ _ _ _ _ HH1 h Hh) as [Hi _]. apply intab_livel in Hi. simpl in Hi. by rewrite En, Ek.
      + by apply WR_filter_id.
      + unfold KI. rewrite rg_used, rg_waiters. simpl. split_and!.
        * intros k' [->|Hk']%elem_of_cons; [|by apply HK1]. by destruct (ti_used_waiters _ _ _ _ _ HT w HwW).
        * exact HK2.
        * intros w' [Hne Hw']%elem_of_list_filter [E|Hk']%elem_of_cons; [|by apply (HK3 w')].
          apply bool_decide_unpack in Hne. apply Hne. f_equal. eapply (NoDup_fmap_inj_on w_key); eauto. eapply ti_wkeys; eauto.
      + intros [[_ Hk']|[? _]]%livel_insert; [|done]. simpl in Hk'. apply elem_of_app in Hk' as [?|Hk']; [done|].
        apply elem_of_list_singleton in Hk'. apply (Hwdead (w_name w)). exists ob. split; [done|]. by rewrite <- Hk'.
      + intros c ->%elem_of_list_singleton. unfold c_at, c_wid, rlock, c_resp. simpl. split_and!; try done.
        * apply elem_of_list_fmap. eauto.
        * intros (w' & E & [Hne _]%elem_of_list_filter)%elem_of_list_fmap. apply bool_decide_unpack in Hne. congruence.
      + intros w' [_ ?]%elem_of_list_filter. done.
      + apply NoDup_singleton.
      + apply NoDup_fmap_filter, (ti_ids _ _ _ _ _ HT).
  Qed.

  (** a parked call gives up *)
  Lemma leave_LR w e s D t :
    NoDup (w_id <$> st_waiters s) → w ∈ st_waiters s → LR s D t → fails_ok X t →
    (e = ESrvLockWaitTimeout ∧ w_deadline w = Some (st_now s) ∨ e ≠ ESrvLockWaitTimeout ∧ cause = Some e) →
    let '(s', o) := waiter_leave w e s in
    let t' := done_list cfg i cause (comps o) t in
    LR s' D t' ∧ fails_ok X t'.
  Proof.
    intros Hnd Hw (HH & HW & HK) HX He. simpl.
    destruct (WR_findw _ _ _ HW Hnd Hw) as (tw & Hf & (Hid & Hnm & Hsid & Hsize & Hlt & Hdl)).
    unfold done1, c_wid, c_at, c_resp. simpl. erewrite wd_known by exact Hf. simpl.
    split; [split; [|split]; simpl|].
    - rewrite app_nil_r, ef_ef by lia. done.
    - by apply WR_filter_id.
    - eapply KI_frame; [exact HK|done|]. by intros w' [_ ?]%elem_of_list_filter.
    - intros j tag. simpl. rewrite elem_of_app. intros [Hj|Hj]; [|by apply HX]. exfalso.
      destruct He as [[-> Hd]|[Hne ->]].
      + rewrite <- Hdl, Hd, bool_decide_eq_true_2 in Hj by done. by apply elem_of_nil in Hj.
      + destruct e; try done; rewrite bool_decide_eq_true_2 in Hj by done; by apply elem_of_nil in Hj.
  Qed.
End step.
