(** Preservation of the invariants by the passing of time (GC ticks, lease expiry, wait timeouts)
    and by a restart. *)
From Coq Require Import Lia ZifyBool ZifyNat.
From Ldlm Require Import Model.Base Model.Err Model.Seq Proofs.SeqDefs Proofs.SeqLemmasKey Proofs.SeqInvBase
  Proofs.SeqInvOps.
From RecordUpdate Require Import RecordSet.
Import RecordSetNotations.
Local Open Scope Z_scope.

(** ** Garbage collection *)

Lemma gc_spec cfg t s :
  let s' := run_gc_until cfg t s in
  st_sessions s' = st_sessions s ∧ st_timers s' = st_timers s ∧ st_waiters s' = st_waiters s ∧
  st_file s' = st_file s ∧ st_now s' = st_now s ∧ st_used s' = st_used s ∧
  (∀ n o, st_locks s' !! n = Some o → st_locks s !! n = Some o) ∧
  (∀ n o, st_locks s !! n = Some o → st_locks s' !! n = None →
          lo_keys o = [] ∧ name_waiters n (st_waiters s) = []).
Proof.
  unfold run_gc_until. destruct (c_gc_interval cfg <=? 0); [by split_and!; intros; simplify_eq|].
  destruct (st_gc_next s <=? t); [|by split_and!; intros; simplify_eq]. simpl.
  split_and!; try done.
  - intros n o [? _]%map_filter_lookup_Some. done.
  - intros n o Ho [Hn|Hn]%map_filter_lookup_None; [congruence|].
    specialize (Hn _ Ho). simpl in Hn. unfold gc_collectable in *.
    destruct (bool_decide (lo_keys o = [])) eqn:E1; [|done].
    destruct (bool_decide (name_waiters n (st_waiters s) = [])) eqn:E2; [|done].
    apply bool_decide_eq_true in E1, E2. done.
Qed.

Lemma gc_next_spec cfg t s :
  0 < c_gc_interval cfg →
  t < st_gc_next (run_gc_until cfg t s) ∧ st_gc_next s ≤ st_gc_next (run_gc_until cfg t s).
Proof.
  intros Hi. unfold run_gc_until. destruct (c_gc_interval cfg <=? 0) eqn:E0; [lia|].
  destruct (st_gc_next s <=? t) eqn:E; [|lia]. cbn [st_gc_next set].
  set (g := st_gc_next s) in *. set (i := c_gc_interval cfg) in *.
  pose proof (Z.div_mod (t - g) i ltac:(lia)) as H1.
  pose proof (Z.mod_pos_bound (t - g) i Hi) as H2.
  assert (0 ≤ (t - g) / i) as H3 by (apply Z.div_pos; lia).
  set (k := (t - g) / i) in *.
  assert (0 ≤ k * i) by (apply Z.mul_nonneg_nonneg; lia). lia.
Qed.

Lemma gc_SI cfg t s : SI cfg s → SI cfg (run_gc_until cfg t s).
Proof.
  intros (HT & HL & HV). destruct (gc_spec cfg t s) as (Es & Et & Ew & Ef & En & Eu & H1 & H2).
  split_and!.
  - unfold STI. rewrite Et, Ew, Eu. eapply TI_gc; [exact H1| |exact HT].
    intros n o Ho Hn. destruct (H2 _ _ Ho Hn) as [? Hw]. split; [done|]. intros w. by apply name_waiters_nil_ne.
  - unfold SLI. by rewrite Es, Ef, Ew, Eu.
  - intros c. unfold SVW. rewrite Es, (HV c). unfold intab. split.
    + intros (o & Ho & Hk & ?). destruct (st_locks (run_gc_until cfg t s) !! cl_name c) as [o'|] eqn:E.
      * pose proof (H1 _ _ E). simplify_eq. eauto.
      * destruct (H2 _ _ Ho E) as [E' _]. rewrite E' in Hk. by apply elem_of_nil in Hk.
    + intros (o & Ho & ?). eauto.
Qed.

Lemma gc_STM cfg t s P : STM P s → STM P (run_gc_until cfg t s).
Proof.
  destruct (gc_spec cfg t s) as (Es & Et & Ew & _). unfold STM. by rewrite Et, Ew.
Qed.

(** ** The fuel of [advance_loop] is sufficient: every firing removes a timer or a parked call,
    and a hand-off removes a parked call for the timer it may add *)

Definition mu (s : sstate) : nat := (size (st_timers s) + 2 * length (st_waiters s))%nat.

Lemma mgr_unlock_mu cfg name key s s' r outs :
  mgr_unlock cfg name key s = (s', r, outs) →
  (∀ tk, is_Some (st_timers s !! tk) → is_Some (st_timers s' !! tk)) ∧ (mu s' ≤ mu s)%nat.
Proof.
  intros [(Hn & -> & He)|[(o & Ho & Hk & He & ->)|(o & Ho & Hk & -> & Hm)]]%mgr_unlock_shape; [done..|].
  simpl in Hm. destruct Hm as [[-> _]|(w & rest & Hw & _ & ->)]; [done|].
  apply name_waiters_cons in Hw as [Hw _].
  assert (length (filter (λ w', bool_decide (w_id w' ≠ w_id w)) (st_waiters s)) < length (st_waiters s))%nat as Hlen.
  { eapply filter_length_lt; [exact Hw|]. intros H%bool_decide_spec. done. }
  unfold mu. rewrite rg_timers, rg_waiters. cbn [st_timers st_waiters st_now set].
  destruct (w_lt w) as [t|]; [|split; [done|lia]]. destruct (0 <? t); [|split; [done|lia]]. split.
  - intros tk Hs. destruct (decide (tk = tkey name (w_key w))) as [->|]; [rewrite lookup_insert; eauto|].
    by rewrite lookup_insert_ne.
  - rewrite map_size_insert. destruct (st_timers s !! tkey name (w_key w)); simpl; lia.
Qed.

Lemma fire_mu cfg d s s' outs :
  d ∈ all_items s → fire cfg d s = (s', outs) → (mu s' < mu s)%nat.
Proof.
  intros Hd Hf. unfold all_items in Hd. apply elem_of_app in Hd as [Hd|Hd].
  - rewrite map_is_fmap in Hd. apply elem_of_list_fmap in Hd as ([tk t] & -> & Hd).
    apply elem_of_map_to_list in Hd. simpl in Hf. unfold expire in Hf.
    destruct (mgr_unlock _ _ _ _) as [[s1 r1] outs1] eqn:Hm. injection Hf as <- <-.
    apply mgr_unlock_mu in Hm as [Hs Hmu]. destruct (Hs tk) as [t' Ht']; [eauto|].
    unfold mu in *. cbn [st_timers st_waiters set]. rewrite rle_timers, rle_waiters, map_size_delete, Ht'.
    assert (size (st_timers s1) ≠ 0)%nat.
    { apply map_size_non_empty_iff. intros E. rewrite E in Ht'. by rewrite lookup_empty in Ht'. }
    simpl. lia.
  - rewrite map_is_fmap in Hd. apply elem_of_list_fmap in Hd as (w & -> & Hd).
    apply elem_of_list_filter in Hd as [_ Hd]. simpl in Hf. injection Hf as <- <-.
    unfold mu. cbn [st_timers st_waiters set].
    assert (length (filter (λ w', bool_decide (w_id w' ≠ w_id w)) (st_waiters s)) < length (st_waiters s))%nat.
    { eapply filter_length_lt; [exact Hd|]. intros H%bool_decide_spec. done. }
    lia.
Qed.

(** ** What is due *)

Lemma min_time_least l m :
  min_time l = Some m → (∀ d, d ∈ l → m ≤ due_time d) ∧ ∃ d, d ∈ l ∧ due_time d = m.
Proof.
  destruct l as [|d0 l]; [done|]. simpl. intros [= <-].
  assert (∀ l a, (∀ d, d ∈ l → fold_left (λ m d', Z.min m (due_time d')) l a ≤ due_time d) ∧
                 fold_left (λ m d', Z.min m (due_time d')) l a ≤ a ∧
                 (fold_left (λ m d', Z.min m (due_time d')) l a = a ∨
                  ∃ d, d ∈ l ∧ due_time d = fold_left (λ m d', Z.min m (due_time d')) l a)) as H.
  { clear. induction l as [|x l IH]; intros a; simpl.
    - split_and!; [by intros d ?%elem_of_nil|lia|by left].
    - destruct (IH (Z.min a (due_time x))) as (H1 & H2 & H3). split_and!.
      + intros d [->|?]%elem_of_cons; [lia|auto].
      + lia.
      + destruct H3 as [H3|(d & ? & ?)]; [|right; exists d; split; [by right|done]].
        rewrite H3. destruct (Z.min_spec a (due_time x)) as [[? ->]|[? ->]]; [by left|].
        right. exists x. split; [by left|done]. }
  destruct (H l (due_time d0)) as (H1 & H2 & H3). split.
  - intros d [->|?]%elem_of_cons; auto.
  - destruct H3 as [H3|(d & ? & ?)]; [exists d0; split; [by left|done]|exists d; split; [by right|done]].
Qed.

Lemma next_due_in target s d :
  d ∈ next_due target s → d ∈ all_items s ∧ due_time d ≤ target.
Proof.
  unfold next_due. destruct (min_time (all_items s)) as [m|]; [|by intros ?%elem_of_nil].
  destruct (m <=? target) eqn:E; [|by intros ?%elem_of_nil].
  intros [Hd ?]%elem_of_list_filter. split; [done|]. apply Is_true_eq_true in Hd. lia.
Qed.

Lemma next_due_none target s d : next_due target s = [] → d ∈ all_items s → target < due_time d.
Proof.
  unfold next_due. destruct (min_time (all_items s)) as [m|] eqn:Hm.
  2:{ destruct (all_items s); [by intros _ ?%elem_of_nil|done]. }
  apply min_time_least in Hm as [Hmin (d0 & Hd0 & E0)].
  destruct (m <=? target) eqn:E; [|intros _ Hd; specialize (Hmin _ Hd); lia].
  intros Hf. assert (d0 ∈ filter (λ d, due_time d =? m) (all_items s)) as H.
  { apply elem_of_list_filter. split; [|done]. apply Is_true_eq_left. lia. }
  rewrite Hf in H. by apply elem_of_nil in H.
Qed.

Lemma all_items_timer s tk t : DTimer tk t ∈ all_items s ↔ st_timers s !! tk = Some t.
Proof.
  unfold all_items. rewrite elem_of_app, !map_is_fmap, !elem_of_list_fmap. split.
  - intros [([tk' t'] & [= -> ->] & H)|(w & ? & _)]; [|done]. by apply elem_of_map_to_list in H.
  - intros H. left. exists (tk, t). split; [done|]. by apply elem_of_map_to_list.
Qed.

Lemma all_items_waiter s w : DWaiter w ∈ all_items s ↔ w ∈ st_waiters s ∧ w_deadline w ≠ None.
Proof.
  unfold all_items. rewrite elem_of_app, !map_is_fmap, !elem_of_list_fmap. split.
  - intros [([tk' t'] & ? & _)|(w' & [= ->] & H)]; [done|].
    apply elem_of_list_filter in H as [H ?]. apply bool_decide_spec in H. done.
  - intros [H1 H2]. right. exists w. split; [done|]. apply elem_of_list_filter. split; [|done].
    by apply bool_decide_spec.
Qed.

Lemma STM_items (P : Z → Prop) s : STM P s ↔ ∀ d, d ∈ all_items s → P (due_time d).
Proof.
  split.
  - intros [H1 H2] [tk t|w].
    + intros H%all_items_timer. simpl. eauto.
    + intros [Hw Hd]%all_items_waiter. simpl. destruct (w_deadline w) as [d|] eqn:E; [|done]. simpl. eauto.
  - intros H. split.
    + intros tk t Ht. apply (H (DTimer tk t)). by apply all_items_timer.
    + intros w d Hw Hd. specialize (H (DWaiter w)). simpl in H. rewrite Hd in H. apply H.
      apply all_items_waiter. split; [done|]. by rewrite Hd.
Qed.

(** ** Firing one due item *)

Lemma fire_inv cfg d s s' outs (P : Z → Prop) :
  d ∈ all_items s → fire cfg d s = (s', outs) →
  SI cfg s → STM P s → (∀ t, 0 < t → P (st_now s + t * second)) →
  SI cfg s' ∧ STM P s' ∧ same_clock s s'.
Proof.
  intros Hd Hf HS HM HP. destruct d as [tk t|w]; simpl in Hf.
  - apply all_items_timer in Hd. by eapply expire_inv.
  - destruct HS as (HT & HL & HV). injection Hf as <- <-. split_and!; [split_and!|..]; try done.
    + unfold STI. simpl. by apply TI_filter_waiters.
    + unfold SLI. simpl. eapply LI_waiters_sub; [|done|exact HL]. by intros w' [_ ?]%elem_of_list_filter.
    + unfold STM. simpl. eapply TM_waiters_sub; [|exact HM]. by intros w' [_ ?]%elem_of_list_filter.
Qed.

(** ** The loop of [advance] *)

(** quiescent: [Inv] in component form *)
Definition QInv (cfg : config) (s : sstate) : Prop :=
  SI cfg s ∧ STM (λ d, st_now s < d) s ∧ st_now s < st_gc_next s.

(** inside the loop: what is not in the future is due before the target *)
Definition LoopInv (cfg : config) (target : Z) (s : sstate) : Prop :=
  SI cfg s ∧ STM (λ d, st_now s < d ∨ d ≤ target) s ∧ st_now s < st_gc_next s.

Lemma SI_now cfg s t : SI cfg s → SI cfg (s <| st_now := t |>).
Proof. done. Qed.

Lemma finish_advance_inv cfg target s :
  cfg_ok cfg → LoopInv cfg target s → next_due target s = [] → QInv cfg (finish_advance cfg target s).
Proof.
  intros Hcfg (HS & HM & Hgc) Hnd. unfold finish_advance.
  destruct (gc_spec cfg target s) as (Es & Et & Ew & Ef & En & Eu & _).
  destruct (gc_next_spec cfg target s Hcfg) as [Hg1 Hg2].
  split_and!.
  - apply SI_now. by apply gc_SI.
  - unfold STM. cbn [st_timers st_waiters st_now set]. rewrite Et, Ew.
    apply STM_items. intros d Hd. pose proof (next_due_none _ _ _ Hnd Hd).
    rewrite STM_items in HM. specialize (HM _ Hd). simpl in HM. lia.
  - cbn [st_now st_gc_next set]. lia.
Qed.

Lemma elem_of_flat_map {A B} (f : A → list B) (l : list A) y :
  y ∈ flat_map f l ↔ ∃ x, x ∈ l ∧ y ∈ f x.
Proof.
  rewrite elem_of_list_In, in_flat_map. setoid_rewrite elem_of_list_In. done.
Qed.

Lemma second_gt0 : 0 < second.
Proof. unfold second. lia. Qed.

Lemma advance_loop_S cfg fuel target s outs :
  advance_loop cfg (S fuel) target s outs =
  if decide (next_due target s = []) then [(finish_advance cfg target s, outs)]
  else flat_map (λ d, let t := Z.max (st_now s) (due_time d) in
                      let s1 := (run_gc_until cfg t s) <| st_now := t |> in
                      let '(s2, o) := fire cfg d s1 in
                      advance_loop cfg fuel target s2 (outs ++ o)) (next_due target s).
Proof. cbn [advance_loop]. by destruct (next_due target s). Qed.

Lemma advance_loop_QInv cfg target fuel : ∀ s outs s' o,
  cfg_ok cfg → (mu s < fuel)%nat → LoopInv cfg target s →
  (s', o) ∈ advance_loop cfg fuel target s outs → QInv cfg s'.
Proof.
  induction fuel as [|fuel IH]; intros s outs s' o Hcfg Hmu HI Hin; [lia|].
  rewrite advance_loop_S in Hin. destruct (decide (next_due target s = [])) as [Hnd|_].
  { apply elem_of_list_singleton in Hin. injection Hin as -> _. by apply finish_advance_inv. }
  apply elem_of_flat_map in Hin as (d & Hd & Hin). apply next_due_in in Hd as [Hd Hdt].
  cbv zeta in Hin.
  set (t := Z.max (st_now s) (due_time d)) in *.
  set (s1 := run_gc_until cfg t s <| st_now := t |>) in *.
  destruct (fire cfg d s1) as [s2 o2] eqn:Hf.
  destruct HI as (HS & HM & Hgc).
  destruct (gc_spec cfg t s) as (Es & Et & Ew & Ef & En & Eu & _).
  destruct (gc_next_spec cfg t s Hcfg) as [Hg1 Hg2].
  assert (all_items s1 = all_items s) as Hai.
  { unfold all_items, s1. cbn [st_timers st_waiters set]. by rewrite Et, Ew. }
  assert (mu s1 = mu s) as Hmu1.
  { unfold mu, s1. cbn [st_timers st_waiters set]. by rewrite Et, Ew. }
  assert (SI cfg s1) as HS1 by (apply SI_now; by apply gc_SI).
  assert (STM (λ d', t < d' ∨ d' ≤ target) s1) as HM1.
  { unfold STM, s1. cbn [st_timers st_waiters set]. rewrite Et, Ew. eapply TM_mono; [|exact HM].
    simpl. intros d'. lia. }
  eapply IH; [done| | |exact Hin].
  - eapply fire_mu in Hf; [|by rewrite Hai]. lia.
  - eapply fire_inv in Hf as (HS2 & HM2 & [Hn2 Hg2']); [| by rewrite Hai|done|exact HM1|].
    + split_and!; [done| |].
      * rewrite Hn2. unfold s1. cbn [st_now set]. done.
      * rewrite Hn2, Hg2'. unfold s1. cbn [st_now st_gc_next set]. done.
    + intros x Hx. unfold s1. cbn [st_now set]. left. pose proof second_gt0. nia.
Qed.

Lemma advance_inv cfg dt s s' o :
  cfg_ok cfg → QInv cfg s → (s', o) ∈ advance cfg dt s → QInv cfg s'.
Proof.
  intros Hcfg (HS & HM & Hgc) Hin. unfold advance in Hin.
  eapply advance_loop_QInv; [done| | |exact Hin].
  - unfold advance_fuel, mu. lia.
  - split_and!; [done| |done]. eapply TM_mono; [|exact HM]. simpl. intros d. lia.
Qed.

(** ** Restart *)

Lemma livel_add_key L n o o' k n' k' :
  L !! n = Some o → lo_keys o' = lo_keys o ++ [k] →
  livel (<[n := o']> L) n' k' ↔ livel L n' k' ∨ (n' = n ∧ k' = k).
Proof.
  intros Ho Ek. rewrite livel_insert, Ek, elem_of_app, elem_of_list_singleton. split.
  - intros [[-> [?|?]]|[? ?]]; eauto. left. exists o; eauto.
  - intros [H|[-> ->]]; [|eauto]. destruct (decide (n' = n)) as [->|]; [|eauto].
    left. destruct H as (o1 & ? & ?). simplify_eq. eauto.
Qed.

(** the invariant of the reload: [Pend] are the holds of the file still to be re-acquired *)
Definition RInv (cfg : config) (s : sstate) (Pend : list clock) : Prop :=
  STI s [] ∧ SLI cfg s ∧ st_waiters s = [] ∧ NoDup (cl_key <$> Pend) ∧
  (∀ c, listedS (st_sessions s) c ↔ intab (st_locks s) c ∨ c ∈ Pend) ∧
  (∀ c, c ∈ Pend → ∀ n, ¬ livel (st_locks s) n (cl_key c)).

Lemma RI_remove cfg s c Pend :
  RInv cfg s (c :: Pend) → RInv cfg (remove_lock_entry cfg (cl_name c) (cl_key c) s) Pend.
Proof.
  intros (HT & HL & HW & HN & HV & HD). rewrite fmap_cons in HN. apply NoDup_cons in HN as [HcP HN].
  split_and!.
  - by apply rle_STI.
  - by apply rle_SLI.
  - by rewrite rle_waiters.
  - done.
  - intros c'. rewrite rle_listed, rle_locks, (HV c'), elem_of_cons. split.
    + intros [[?|[->|?]] Hn]; tauto.
    + intros [Hi|Hp].
      * split; [by left|]. intros [En Ek]. apply (HD c (elem_of_list_here _ _) (cl_name c')).
        rewrite <-Ek. by apply intab_livel.
      * split; [by right; right|]. intros [En Ek]. apply HcP. rewrite <-Ek. apply elem_of_list_fmap. eauto.
  - rewrite rle_locks. intros c' Hc'. apply HD. by right.
Qed.

Lemma RI_glc cfg name size s o s1 Pend :
  get_lock_create name size s = inr (o, s1) → RInv cfg s Pend → RInv cfg s1 Pend.
Proof.
  intros Hg (HT & HL & HW & HN & HV & HD).
  pose proof (glc_STI _ _ _ _ _ [] Hg HT) as HT1.
  pose proof (λ c, glc_intab _ _ _ _ _ c Hg) as Hi1.
  pose proof (λ n k, glc_livel _ _ _ _ _ n k Hg) as Hl1.
  apply glc_shape in Hg as (_ & _ & -> & _). simpl in *. split_and!; try done.
  - intros c. rewrite Hi1. apply HV.
  - intros c Hc n. rewrite Hl1. by apply HD.
Qed.

Lemma restore_one_inv cfg sid c s Pend :
  RInv cfg s (c :: Pend) → RInv cfg (restore_one cfg sid c s) Pend.
Proof.
  intros HR. unfold restore_one.
  destruct (get_lock_create (cl_name c) (cl_size c) s) as [e|[o s1]] eqn:Hg; [by apply RI_remove|].
  pose proof (RI_glc _ _ _ _ _ _ _ Hg HR) as HR1.
  apply glc_shape in Hg as (_ & Hosz & Es1 & _).
  assert (st_locks s1 !! cl_name c = Some o) as Ho by (rewrite Es1; apply lookup_insert).
  assert (st_now s1 = st_now s) as Enow by (by rewrite Es1).
  clear Es1 HR.
  destruct (can_acquire _ _ _) eqn:Hc; [|by apply RI_remove].
  apply andb_true_iff in Hc as [Hlt%bool_decide_eq_true _].
  destruct HR1 as (HT & HL & HW & HN & HV & HD). rewrite fmap_cons in HN. apply NoDup_cons in HN as [HcP HN].
  unfold add_key. rewrite Ho. cbn [st_locks st_timers set].
  set (o' := o <| lo_keys := lo_keys o ++ [cl_key c] |>).
  assert (livel (<[cl_name c := o']> (st_locks s1)) (cl_name c) (cl_key c)) as Hlive.
  { rewrite (livel_add_key _ _ o) by done. by right. }
  split_and!; simpl.
  - unfold STI. simpl. apply TI_timer_insert; [done|]. eapply (TI_add_key _ _ _ _ _ _ o); eauto.
    + apply HD. left.
    + eapply li_used; [exact HL|]. apply HV. right. left.
    + rewrite HW. by intros w ?%elem_of_nil.
    + rewrite HW. by intros w ?%elem_of_nil.
  - done.
  - done.
  - done.
  - intros c'. rewrite (intab_add_key _ _ o) by done. rewrite (HV c'), elem_of_cons.
    assert (Clock (cl_name c) (cl_key c) (lo_size o) = c) as -> by (destruct c; simpl in *; congruence). tauto.
  - intros c' Hc' n. rewrite (livel_add_key _ _ o) by done. intros [Hl|[_ Ek]].
    + eapply HD; [by right|exact Hl].
    + apply HcP. rewrite <-Ek. apply elem_of_list_fmap. eauto.
Qed.

Lemma restore_one_clock cfg sid c s : same_clock s (restore_one cfg sid c s).
Proof.
  unfold restore_one. destruct (get_lock_create _ _ _) as [e|[o s1]] eqn:Hg.
  - split; [apply rle_now|apply rle_gc_next].
  - apply glc_shape in Hg as (_ & _ & -> & _). destruct (can_acquire _ _ _).
    + unfold add_key. cbn [st_locks set]. rewrite lookup_insert. done.
    + split; [by rewrite rle_now|by rewrite rle_gc_next].
Qed.

Lemma restore_inner cfg sid l : ∀ s Pend,
  RInv cfg s (l ++ Pend) →
  RInv cfg (fold_left (λ s c, restore_one cfg sid c s) l s) Pend ∧
  same_clock s (fold_left (λ s c, restore_one cfg sid c s) l s).
Proof.
  induction l as [|c l IH]; intros s Pend HR; simpl; [done|].
  apply restore_one_inv with (sid := sid) in HR. destruct (IH _ _ HR) as [? ?]. split; [done|].
  eapply same_clock_trans; [apply restore_one_clock|done].
Qed.

Lemma restore_outer (cfg : config) (m : gmap str (list clock)) (ro : list str) : ∀ s : sstate,
  RInv cfg s (flat_map (λ sid, default [] (m !! sid)) ro) →
  let s' := fold_left (λ s sid, fold_left (λ s c, restore_one cfg sid c s) (default [] (m !! sid)) s) ro s in
  RInv cfg s' [] ∧ same_clock s s'.
Proof.
  induction ro as [|sid ro IH]; intros s HR; simpl; [done|].
  simpl in HR. apply restore_inner with (sid := sid) in HR as [HR ?].
  destruct (IH _ HR) as [? ?]. split; [done|]. by eapply same_clock_trans.
Qed.

Lemma file_listed cfg S F W U c :
  LI cfg S F W U → c_file cfg = true → listedS (default ∅ F) c ↔ listedS S c.
Proof.
  intros HL Hf. pose proof (li_file _ _ _ _ _ HL Hf) as HF. unfold listedS. split.
  - intros (sid & l & Hm & Hc). specialize (HF sid). rewrite Hm in HF. simpl in HF. exists sid, l.
    destruct (S !! sid) as [l'|]; simpl in HF; subst; [done|by apply elem_of_nil in Hc].
  - intros (sid & l & Hm & Hc). specialize (HF sid). rewrite Hm in HF. simpl in HF. exists sid, l.
    destruct (default ∅ F !! sid) as [l'|]; simpl in HF; subst; [done|by apply elem_of_nil in Hc].
Qed.

Lemma NoDup_fmap_flat_map {A B C} (f : B → C) (g : A → list B) (l : list A) :
  NoDup l → (∀ a, a ∈ l → NoDup (f <$> g a)) →
  (∀ a1 a2 x1 x2, a1 ∈ l → a2 ∈ l → x1 ∈ g a1 → x2 ∈ g a2 → f x1 = f x2 → a1 = a2) →
  NoDup (f <$> flat_map g l).
Proof.
  induction l as [|a l IH]; simpl; [intros; apply NoDup_nil_2|].
  intros [Ha Hl]%NoDup_cons H1 H2. rewrite fmap_app. apply NoDup_app. split_and!.
  - apply H1. left.
  - intros y (x1 & -> & Hx1)%elem_of_list_fmap (x2 & E & Hx2)%elem_of_list_fmap.
    apply elem_of_flat_map in Hx2 as (a2 & Ha2 & Hx2). apply Ha.
    rewrite (H2 a a2 x1 x2); [done|left|by right|done|done|done].
  - apply IH; [done| |].
    + intros a' Ha'. apply H1. by right.
    + intros a1 a2 x1 x2 ? ?. apply H2; by right.
Qed.

Lemma NoDup_fmap_on {A B} (f : A → B) (l : list A) :
  NoDup l → (∀ x y, x ∈ l → y ∈ l → f x = f y → x = y) → NoDup (f <$> l).
Proof.
  induction l as [|a l IH]; [intros; apply NoDup_nil_2|].
  intros [Ha Hl]%NoDup_cons Hinj. rewrite fmap_cons. apply NoDup_cons. split.
  - intros (y & E & Hy)%elem_of_list_fmap. apply Ha. rewrite (Hinj a y); [done|left|by right|done].
  - apply IH; [done|]. intros x y ? ?. apply Hinj; by right.
Qed.

Lemma reload_order_spec (order : list str) (m : gmap str (list clock)) :
  NoDup (reload_order order m) ∧ ∀ sid, sid ∈ reload_order order m ↔ is_Some (m !! sid).
Proof.
  assert (NoDup (map fst (map_to_list m)) ∧ ∀ sid, sid ∈ map fst (map_to_list m) ↔ is_Some (m !! sid)) as [H1 H2].
  { split; [apply NoDup_fst_map_to_list|]. intros sid. rewrite map_is_fmap, elem_of_list_fmap. split.
    - intros ([sid' l] & -> & H%elem_of_map_to_list). simpl. eauto.
    - intros [l H]. exists (sid, l). split; [done|]. by apply elem_of_map_to_list. }
  unfold reload_order. case_bool_decide as Hp; [|done]. split.
  - by rewrite Hp.
  - intros sid. by rewrite Hp.
Qed.

Lemma STM_trivial (P : Z → Prop) s : (∀ d, P d) → STM P s.
Proof. intros H. split; intros; apply H. Qed.

Lemma restart_inv cfg order s s' o :
  cfg_ok cfg → QInv cfg s → (s', o) ∈ restart cfg order s → QInv cfg s'.
Proof.
  intros Hcfg ((HT & HL & HV) & _ & _) Hin. unfold restart in Hin.
  set (m := if c_file cfg then default ∅ (st_file s) else ∅) in *.
  set (s0 := SState ∅ m ∅ [] _ _ _ false _) in *.
  set (ro := reload_order order m) in *.
  set (f := λ sid, default [] (m !! sid)).
  assert (LI cfg m (st_file s0) [] (st_used s)) as HL0 by apply (LI_restart _ _ _ _ _ HL).
  assert (∀ c, listedS m c → intab (st_locks s) c) as Hmi.
  { intros c Hc. apply HV. unfold m in Hc. destruct (c_file cfg) eqn:Hf.
    - by eapply file_listed.
    - destruct Hc as (? & ? & H & _). simpl in H. by rewrite lookup_empty in H. }
  assert (∀ c1 c2, listedS m c1 → listedS m c2 → cl_key c1 = cl_key c2 → c1 = c2) as Hinj.
  { intros c1 c2 H1%Hmi H2%Hmi Ek. eapply intab_same_hold; [exact H2|exact H1| |done].
    apply intab_livel in H1, H2. rewrite Ek in H1. eapply ti_key_once; eauto. }
  assert (∀ sid c, c ∈ f sid → m !! sid = Some (f sid)) as Hf.
  { intros sid c. unfold f. destruct (m !! sid); simpl; [done|by intros ?%elem_of_nil]. }
  destruct (reload_order_spec order m) as [Hro1 Hro2]. fold ro in Hro1, Hro2.
  assert (RInv cfg s0 (flat_map f ro)) as HR.
  { split_and!.
    - apply TI_empty.
    - exact HL0.
    - done.
    - apply NoDup_fmap_flat_map; [done| |].
      + intros sid _. destruct (m !! sid) as [l|] eqn:E; unfold f; rewrite E; simpl; [|apply NoDup_nil_2].
        apply NoDup_fmap_on; [by eapply li_nodup|]. intros x y Hx Hy. apply Hinj; exists sid, l; auto.
      + intros sid1 sid2 c1 c2 _ _ H1 H2 Ek.
        assert (c1 = c2) as ->.
        { apply Hinj; [exists sid1, (f sid1)|exists sid2, (f sid2)|done]; eauto. }
        eapply li_owner; [exact HL0|by eapply Hf|by eapply Hf|done|done].
    - intros c. simpl. rewrite elem_of_flat_map. split.
      + intros (sid & l & Hm & Hc). right. exists sid. split; [apply Hro2; eauto|]. unfold f. by rewrite Hm.
      + intros [(? & H & _)|(sid & _ & Hc)]; [by rewrite lookup_empty in H|]. exists sid, (f sid). eauto.
    - intros c _ n (? & H & _). simpl in H. by rewrite lookup_empty in H. }
  apply restore_outer in HR. cbv zeta in HR. destruct HR as [(HT1 & HL1 & HW1 & _ & HV1 & _) [Hn1 Hg1]].
  match type of Hin with _ ∈ advance_loop _ _ _ ?x _ => set (s1 := x) in * end.
  eapply advance_loop_QInv; [done| | |exact Hin].
  - unfold advance_fuel, mu. lia.
  - split_and!; [split_and!| |]; try done.
    + intros c. rewrite (HV1 c), elem_of_nil. tauto.
    + apply STM_trivial. intros d. lia.
    + rewrite Hn1, Hg1. unfold s0. simpl. unfold cfg_ok in Hcfg. lia.
Qed.
