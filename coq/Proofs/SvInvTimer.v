(** Work package svinv, part 5: the timer fields of the invariant are preserved by every step. *)
From Coq Require Import Lia ZifyBool ZifyNat.
From Ldlm Require Import Model.Base Model.Err Model.Sv Proofs.SeqLemmasKey.
From Ldlm Require Import Proofs.SvDefs Proofs.SvInvBase Proofs.SvInvFrame Proofs.SvInvKeys.
From RecordUpdate Require Import RecordSet.
Import RecordSetNotations.
Local Open Scope Z_scope.

Lemma step_vi_expire_heap cfg s it s' (I : SvInv cfg s) (Hok : sitem_ok s it) (Hv : vsr cfg s it s') :
  ∀ tid t id, v_thr s' !! tid = Some t → st_op t = SExpire id → is_Some (v_theap s' !! id).
Proof.
  intros x t' id Ql Qo.
  assert (is_Some (v_theap s !! id)) as [tm Htm].
  { destruct (vsr_thr_bwd _ _ _ _ _ _ I Hv Ql) as [(y & Hy & Ho & _)|[Hn N]].
    - rewrite Ho in Qo. eapply (vi_expire_heap _ _ I); eauto.
    - destruct N as [(op & -> & -> & Hc)|(_ & _ & _ & [[? Ho]|[Ho|(id' & tm & d & Ho & Htm & Hst)]])]; simpl in *; try congruence.
      + subst op. done.
      + rewrite Ho in Qo. simplify_eq. eauto. }
  destruct (vsr_heap_fwd _ _ _ _ _ _ I Hv Htm) as (tm' & -> & _). eauto.
Qed.

Lemma step_vi_tmadd_pos cfg s it s' (I : SvInv cfg s) (Hok : sitem_ok s it) (Hv : vsr cfg s it s') :
  ∀ tid t sid n k z lt, v_thr s' !! tid = Some t → st_op t = STry sid n k z lt ∨ st_op t = SLock sid n k z lt →
      st_pc t = VTmAdd → lt_pos lt = true.
Proof.
  pose proof (vi_tmadd_pos _ _ I) as Hc.
  destruct Hv; unfold st_go; simpl; intros x t' sid0 n0 k0 z0 lt0 Ql Qo Qp; lk; simpl in *; try done; try (by eapply Hc).
  all: try (try site_inv; subst; try destruct (sc_noclear _); ds_next_cases; congruence).
  - destruct Qo as [-> | ->]; done.
  - destruct (connend_cancel_ok sid x0) as (Ho & Hp & _). rewrite Ho in Qo. rewrite Hp in Qp. by eapply Hc.
  - destruct (lt_pos lt) eqn:Hlt; [|done]. destruct Hop as [Hop|Hop], Qo as [Qo|Qo]; rewrite Hop in Qo; by simplify_eq.
  - destruct (shnet_cancel_ok x0) as (Ho & Hp & _). rewrite Ho in Qo. rewrite Hp in Qp. by eapply Hc.
Qed.

Lemma vsr_tnext_mono cfg s it s' : vsr cfg s it s' → (v_tnext s ≤ v_tnext s')%nat.
Proof. destruct 1; simpl; lia. Qed.

Definition tm_entry_ok (s : svstate) (tk : str) (id : nat) : Prop :=
  ∃ tm, v_theap s !! id = Some tm ∧ tk = tkey (tm_n tm) (tm_k tm) ∧ tm_st tm ≠ TStopped ∧ (id < v_tnext s)%nat.

Lemma step_vi_tm_entry cfg s it s' (I : SvInv cfg s) (Hok : sitem_ok s it) (Hv : vsr cfg s it s') :
  ∀ tk id, v_timers s' !! tk = Some id → tm_entry_ok s' tk id.
Proof.
  assert (Hc : ∀ tk id, v_timers s !! tk = Some id → tm_entry_ok s tk id) by apply (vi_tm_entry _ _ I).
  destruct Hv; unfold st_go; simpl; intros tk0 id0 Ql; try (by eapply Hc).
  - (* fire *)
    destruct (Hc _ _ Ql) as (tm0 & H0 & Hk & Hs & Hlt). unfold tm_entry_ok; simpl.
    destruct (decide (id0 = id)) as [->|]; [rewrite lookup_insert; simplify_eq; eexists; split; [done|]; simpl; done|].
    rewrite lookup_insert_ne by done. eauto.
  - (* add *)
    unfold tm_entry_ok; simpl. apply lookup_insert_Some in Ql as [[<- <-]|[Hne Ql]].
    + rewrite lookup_insert. eexists; split; [done|]. simpl. split; [done|]. split; [done|lia].
    + destruct (Hc _ _ Ql) as (tm0 & H0 & Hk & Hs & Hlt). rewrite lookup_insert_ne by lia. exists tm0. split; [done|]. split; [done|]. split; [done|lia].
  - (* remove, armed *)
    unfold tm_entry_ok; simpl. apply lookup_delete_Some in Ql as [Hne Ql].
    destruct (Hc _ _ Ql) as (tm0 & H0 & Hk & Hs & Hlt). destruct (Hc _ _ Hid) as (tm1 & H1 & Hk1 & _).
    destruct (decide (id0 = id)) as [->|]; [simplify_eq|]. rewrite lookup_insert_ne by done. eauto.
  - (* remove, fired *)
    apply lookup_delete_Some in Ql as [Hne Ql]. by eapply Hc.
  - (* renew *)
    destruct (Hc _ _ Ql) as (tm0 & H0 & Hk & Hs & Hlt). unfold tm_entry_ok; simpl.
    destruct (decide (id0 = id)) as [->|]; [rewrite lookup_insert; simplify_eq; eexists; split; [done|]; simpl; done|].
    rewrite lookup_insert_ne by done. eauto.
  - (* shutdown *) by rewrite lookup_empty in Ql.
Qed.

Lemma step_vi_tm_heap cfg s it s' (I : SvInv cfg s) (Hok : sitem_ok s it) (Hv : vsr cfg s it s') :
  ∀ id tm, v_theap s' !! id = Some tm → (id < v_tnext s')%nat ∧
      ∃ tid t sid z, v_thr s' !! tid = Some t ∧ acquirer t sid (tm_n tm) (tm_k tm) z ∧ tm_s tm = sid ∧ (∃ r, st_pc t = VFin r).
Proof.
  intros id tm' Ql. pose proof (vsr_thr_fwd _ _ _ _ I Hv) as Hf. pose proof (vsr_tnext_mono _ _ _ _ Hv) as Hn.
  destruct (vsr_heap_bwd _ _ _ _ _ _ Hv Ql) as [(tm & Htm & (En & Ek & Es) & _)|(tid & t & sid & n & k & z & lt & -> & Ht & Hop & Hpc & -> & -> & Ht' & Hn' & _)].
  - destruct (vi_tm_heap _ _ I _ _ Htm) as (Hlt & x & tx & sid & z & Hx & Hax & Hsx & r & Hpx). split; [lia|].
    exists x, tx, sid, z. rewrite En, Ek, Es. split; [|eauto]. eapply fin_frozen; eauto. by rewrite Hpx.
  - split; [lia|]. exists tid, (with_pc t (VFin (SResp true None))), sid, z. simpl.
    split; [done|]. split; [by eapply acq_op_acquirer|]. eauto.
Qed.

Lemma step_vi_tm_unique cfg s it s' (I : SvInv cfg s) (Hok : sitem_ok s it) (Hv : vsr cfg s it s') :
  ∀ id1 id2 tm1 tm2, v_theap s' !! id1 = Some tm1 → v_theap s' !! id2 = Some tm2 → tm_k tm1 = tm_k tm2 → id1 = id2.
Proof.
  intros id1 id2 tm1 tm2 H1 H2 Hk.
  assert (∀ tm tid t sid n k z lt, v_theap s !! id1 = Some tm ∨ v_theap s !! id2 = Some tm → tm_k tm = k →
            v_thr s !! tid = Some t → acq_op t sid n k z lt → st_pc t = VTmAdd → False) as Hnew.
  { intros tm tid t sid n k z lt Htm Hkk Ht Hop Hpc.
    assert (∃ id, v_theap s !! id = Some tm) as [id Hid] by (destruct Htm; eauto).
    destruct (vi_tm_heap _ _ I _ _ Hid) as (_ & x & tx & sidx & zx & Hx & Hax & _ & r & Hpx). rewrite Hkk in Hax.
    destruct (acq_unique _ _ _ _ _ _ _ _ _ _ _ _ _ I Hx Ht Hax (acq_op_acquirer _ _ _ _ _ _ Hop)) as (-> & -> & _). congruence. }
  destruct (vsr_heap_bwd _ _ _ _ _ _ Hv H1) as [(y1 & Hy1 & (_ & Ek1 & _) & _)|(tid & t & sid & n & k & z & lt & -> & Ht & Hop & Hpc & -> & -> & _)];
  destruct (vsr_heap_bwd _ _ _ _ _ _ Hv H2) as [(y2 & Hy2 & (_ & Ek2 & _) & _)|(tid' & t' & sid' & n' & k' & z' & lt' & E' & Ht' & Hop' & Hpc' & -> & -> & _)].
  - eapply (vi_tm_unique _ _ I); eauto. congruence.
  - exfalso. simpl in Hk. eapply (Hnew y1 tid' t' sid' n' k' z' lt'); eauto; congruence.
  - exfalso. simpl in Hk. eapply (Hnew y2 tid t sid n k z lt); eauto; congruence.
  - done.
Qed.

(** threads that run the callback of timer [id] *)
Definition expthr (m : gmap nat sthread) (id : nat) : Prop := ∃ tid t, m !! tid = Some t ∧ st_op t = SExpire id.

Lemma expthr_upd m tid t pc' id : m !! tid = Some t → expthr (<[tid := with_pc t pc']> m) id ↔ expthr m id.
Proof.
  intros Ht. unfold expthr. split.
  - intros (x & tx & Hx & Ho). apply lookup_insert_Some in Hx as [[<- <-]|[? Hx]]; eauto.
  - intros (x & tx & Hx & Ho). destruct (decide (x = tid)) as [->|].
    + simplify_eq. exists tid, (with_pc t pc'). by rewrite lookup_insert.
    + exists x, tx. by rewrite lookup_insert_ne.
Qed.
Lemma expthr_new m tid t0 id : m !! tid = None → st_op t0 ≠ SExpire id → expthr (<[tid := t0]> m) id ↔ expthr m id.
Proof.
  intros Hn Hp. unfold expthr. split.
  - intros (x & tx & Hx & Ho). apply lookup_insert_Some in Hx as [[<- <-]|[? Hx]]; [done|eauto].
  - intros (x & tx & Hx & Ho). exists x, tx. rewrite lookup_insert_ne by congruence. done.
Qed.
Lemma expthr_fmap m (f : sthread → sthread) id : (∀ t, st_op (f t) = st_op t) → expthr (f <$> m) id ↔ expthr m id.
Proof.
  intros Hf. unfold expthr. split.
  - intros (x & tx & Hx & Ho). rewrite lookup_fmap in Hx. apply fmap_Some in Hx as (t & Hx & ->). rewrite Hf in Ho. eauto.
  - intros (x & tx & Hx & Ho). exists x, (f tx). rewrite lookup_fmap, Hx, Hf. done.
Qed.
Lemma expthr_cancel m tid t c id : m !! tid = Some t → expthr (<[tid := t <| st_cancel := c |>]> m) id ↔ expthr m id.
Proof.
  intros Ht. unfold expthr. split.
  - intros (x & tx & Hx & Ho). apply lookup_insert_Some in Hx as [[<- <-]|[? Hx]]; eauto.
  - intros (x & tx & Hx & Ho). destruct (decide (x = tid)) as [->|].
    + simplify_eq. eexists tid, _. rewrite lookup_insert. done.
    + exists x, tx. by rewrite lookup_insert_ne.
Qed.

Lemma step_vi_tm_fired cfg s it s' (I : SvInv cfg s) (Hok : sitem_ok s it) (Hv : vsr cfg s it s') :
  ∀ id tm, v_theap s' !! id = Some tm → (tm_st tm = TFired ↔ expthr (v_thr s') id).
Proof.
  assert (Hc : ∀ id tm, v_theap s !! id = Some tm → (tm_st tm = TFired ↔ expthr (v_thr s) id)) by apply (vi_tm_fired _ _ I).
  pose proof (next_fresh _ _ I) as Hnx.
  destruct Hv; unfold st_go; simpl; intros id0 tm0 Ql; try (by eapply Hc).
  all: try (rewrite expthr_upd by (try (by rewrite lookup_insert_ne); done)).
  all: try (rewrite expthr_upd by done).
  all: try (rewrite expthr_new by done).
  all: try (rewrite expthr_cancel by done).
  all: try (by eapply Hc).
  - rewrite expthr_new by (try done; simpl; intros ->; done). by eapply Hc.
  - rewrite expthr_new by (try done; by rewrite lookup_fmap, Hnx).
    rewrite expthr_fmap by (intros t0; by destruct (connend_cancel_ok sid t0) as (? & _)). by eapply Hc.
  - (* fire *)
    apply lookup_insert_Some in Ql as [[<- <-]|[Hne Ql]].
    + simpl. split; [intros _|done]. eexists (v_next s), _. by rewrite lookup_insert.
    + rewrite expthr_new by (try done; simpl; congruence). by eapply Hc.
  - (* add *)
    apply lookup_insert_Some in Ql as [[<- <-]|[Hne Ql]]; [|by eapply Hc]. simpl. split; [done|].
    intros (x & tx & Hx & Hox). destruct (vi_expire_heap _ _ I _ _ _ Hx Hox) as [tm Htm].
    destruct (vi_tm_heap _ _ I _ _ Htm) as [? _]. lia.
  - (* remove, armed *)
    apply lookup_insert_Some in Ql as [[<- <-]|[Hne Ql]]; [|by eapply Hc]. simpl. rewrite <- (Hc _ _ Htm), Hst. done.
  - (* renew *)
    apply lookup_insert_Some in Ql as [[<- <-]|[Hne Ql]]; [|by eapply Hc]. simpl. rewrite <- (Hc _ _ Htm), Hst. done.
  - rewrite expthr_fmap by (intros t0; by destruct (shnet_cancel_ok t0) as (? & _)). by eapply Hc.
  - (* shutdown of the timer map *)
    rewrite lookup_fmap in Ql. apply fmap_Some in Ql as (tm & Ql & ->). rewrite <- (Hc _ _ Ql).
    destruct (tm_st tm) eqn:Hst'; simpl; rewrite ?Hst'; done.
Qed.

Lemma step_vi_tm_shut cfg s it s' (I : SvInv cfg s) (Hok : sitem_ok s it) (Hv : vsr cfg s it s') :
  v_tmshut s' = true → v_timers s' = ∅ ∧ ∀ id tm, v_theap s' !! id = Some tm → ∀ d, tm_st tm ≠ TArmed d.
Proof.
  pose proof (vi_tm_shut _ _ I) as Hc.
  destruct Hv; unfold st_go; simpl; intros Qs; try (by eapply Hc).
  all: try (destruct (Hc Qs) as [Hc1 Hc2]).
  - exfalso. by eapply Hc2.
  - congruence.
  - rewrite Hc1 in Hid. by rewrite lookup_empty in Hid.
  - rewrite Hc1 in Hid. by rewrite lookup_empty in Hid.
  - rewrite Hc1 in Hid. by rewrite lookup_empty in Hid.
  - split; [done|]. intros id tm Ql d. rewrite lookup_fmap in Ql. apply fmap_Some in Ql as (tm0 & Ql & ->).
    destruct (tm_st tm0) eqn:Hst'; simpl; rewrite ?Hst'; done.
Qed.


(** an armed lease timer of the new state was armed before (possibly re-armed by a Renew), or was just created *)
Lemma vsr_armed_bwd cfg s it s' tk id tm' d : SvInv cfg s → vsr cfg s it s' → armed_at s' tk id tm' d →
  (∃ tm0 d0, armed_at s tk id tm0 d0 ∧ tm_same tm0 tm' ∧
             (d = d0 ∨ ∃ tid t n k lt, v_thr s !! tid = Some t ∧ st_op t = SRenew n k lt ∧ d = v_now s + lt * second)) ∨
  (∃ tid t sid n k z lt, it = VRun tid ∧ v_thr s !! tid = Some t ∧ acq_op t sid n k z lt ∧ st_pc t = VTmAdd ∧ tk = tkey n k ∧
      tm' = STimer (TArmed (v_now s + default 0 lt * second)) n k sid ∧ d = v_now s + default 0 lt * second ∧
      v_thr s' !! tid = Some (with_pc t (VFin (SResp true None))) ∧ v_locks s' = v_locks s).
Proof.
  intros I. assert (∀ tm, tm_same tm tm) as Hrefl by done.
  destruct 1; unfold st_go, armed_at; simpl; intros (Q1 & Q2 & Q3); eauto 10.
  - (* fire *)
    apply lookup_insert_Some in Q2 as [[<- <-]|[Hne Q2]]; [done|]. left. eauto 10.
  - (* add *)
    apply lookup_insert_Some in Q1 as [[<- <-]|[Hne Q1]].
    + rewrite lookup_insert in Q2. simplify_eq. simpl in Q3. simplify_eq. right. exists tid, t, sid, n, k, z, lt. rewrite lookup_insert. done.
    + destruct (vi_tm_entry _ _ I _ _ Q1) as (? & ? & _ & _ & ?). rewrite lookup_insert_ne in Q2 by lia. left. eauto 10.
  - (* remove, armed *)
    apply lookup_delete_Some in Q1 as [Hne Q1].
    apply lookup_insert_Some in Q2 as [[<- <-]|[Hne' Q2]]; [done|]. left. eauto 10.
  - apply lookup_delete_Some in Q1 as [Hne Q1]. left. eauto 10.
  - (* renew *)
    apply lookup_insert_Some in Q2 as [[<- <-]|[Hne' Q2]]; [|left; eauto 10]. simpl in Q3. simplify_eq.
    left. exists tm, d0. split; [done|]. split; [done|]. right. eauto 10.
  - by rewrite lookup_empty in Q1.
Qed.

Lemma step_vi_tm_future cfg s it s' (I : SvInv cfg s) (Hok : sitem_ok s it) (Hv : vsr cfg s it s') :
  ∀ tk id tm d, armed_at s' tk id tm d → v_now s' < d.
Proof.
  intros tk id tm d Ha. assert (v_now s' = v_now s) as -> by (destruct Hv; done). pose proof second_pos'.
  destruct (vsr_armed_bwd _ _ _ _ _ _ _ _ I Hv Ha) as [(tm0 & d0 & Ha0 & _ & [->|(x & tx & n & k & lt & Hx & Hox & ->)])|
     (tid & t & sid & n & k & z & lt & _ & Ht & Hop & Hpc & _ & _ & -> & _)].
  - eapply (vi_tm_future _ _ I); eauto.
  - pose proof (vi_renew_pos _ _ I _ _ _ _ _ Hx Hox). nia.
  - pose proof (vi_tmadd_pos _ _ I _ _ _ _ _ _ _ Ht Hop Hpc) as Hlt. destruct lt as [l|]; simpl in *; [|done]. nia.
Qed.

Definition cancelled (s : svstate) (n k : str) : Prop :=
  ∃ tid t sid z, v_thr s !! tid = Some t ∧ acquirer t sid n k z ∧ st_cancel t = Some ECtxCanceled.
Lemma cancelled_fwd s s' n k : thr_fwd s s' → cancelled s n k → cancelled s' n k.
Proof.
  intros Hf (tid & t & sid & z & Ht & [lt Ha] & Hc). destruct (Hf _ _ Ht) as (t' & Ht' & Ho & Hc' & _).
  exists tid, t', sid, z. split; [done|]. split; [exists lt; by rewrite Ho|auto].
Qed.

Lemma step_vi_lease cfg s it s' (I : SvInv cfg s) (Hok : sitem_ok s it) (Hv : vsr cfg s it s') :
  ∀ tk id tm d, armed_at s' tk id tm d → slive s' (tm_n tm) (tm_k tm) ∨ cancelled s' (tm_n tm) (tm_k tm).
Proof.
  intros tk id tm' d Ha. pose proof (vsr_thr_fwd _ _ _ _ I Hv) as Hf.
  destruct (vsr_armed_bwd _ _ _ _ _ _ _ _ I Hv Ha) as [(tm0 & d0 & Ha0 & (En & Ek & Es) & _)|
     (tid & t & sid & n & k & z & lt & _ & Ht & Hop & Hpc & _ & -> & _ & Ht' & Hl)].
  - rewrite En, Ek. destruct (vi_lease _ _ I _ _ _ _ Ha0) as [Hlv|Hcn]; [|right; by eapply cancelled_fwd].
    destruct (vsr_live_fwd _ _ _ _ _ _ Hv Hlv) as [?|(x & tx & pc' & -> & Hx & Hsite & _)]; [by left|].
    destruct Ha0 as (Htk & Hh0 & Hst0). destruct (vi_tm_entry _ _ I _ _ Htk) as (tm1 & Hh1 & -> & _). simplify_eq.
    destruct Hsite as [Hox Hpx _|id' tm'' Hox Hpx Hh' En' Ek' _|sidx c rest Hox Hpx En' Ek' _|sidx zx ltx e Hox Hpx Hcx].
    + exfalso. pose proof (vi_unl_notimer _ _ I _ _ _ _ Hx Hox Hpx). congruence.
    + exfalso. assert (id' = id) as -> by (eapply (vi_tm_unique _ _ I); eauto). simplify_eq.
      assert (tm_st tm0 = TFired) by (apply (vi_tm_fired _ _ I _ _ Hh0); eauto). congruence.
    + right. eapply cancelled_fwd; [done|]. unfold cancelled. rewrite <- En', <- Ek'.
      eapply (vi_ds_unlock _ _ I _ _ _ c rest id tm0 d0); eauto. rewrite En', Ek'. by split.
    + exfalso. destruct (vi_tm_heap _ _ I _ _ Hh0) as (_ & y & ty & sidy & zy & Hy & Hay & _ & r & Hpy).
      assert (acquirer tx sidx (tm_n tm0) (tm_k tm0) zx) as Hax by (exists ltx; by right).
      destruct (acq_unique _ _ _ _ _ _ _ _ _ _ _ _ _ I Hy Hx Hay Hax) as (-> & -> & _). congruence.
  - simpl. destruct (vi_tmadd_live _ _ I _ _ _ _ _ _ Ht (acq_op_acquirer _ _ _ _ _ _ Hop) Hpc) as [Hlv|Hcn].
    + left. destruct Hlv as (a & Hla & Hk). exists a. by rewrite Hl.
    + right. exists tid, (with_pc t (VFin (SResp true None))), sid, z. split; [done|]. split; [by eapply acq_op_acquirer|done].
Qed.
