(** Session end releases every hold of the session, part 3: every grant recorded in the session is accounted for.
    Work package svsess. *)
From Coq Require Import Lia ZifyBool ZifyNat.
From Ldlm Require Import Model.Base Model.Err Model.Sv Proofs.SvDefs Proofs.SeqLemmasKey
  Proofs.SvSessBase Proofs.SvSessThr Proofs.SvSessLk Proofs.SvSessDs Proofs.SvSessSe Proofs.SvSessRel1 Proofs.SvSessRel2.
From RecordUpdate Require Import RecordSet.
Import RecordSetNotations.
Local Open Scope Z_scope.

(** the call has written its session entry and will answer (or has answered) locked=true *)
Definition added (pc : spc) : Prop := pc = VTmAdd ∨ pc = VFin (SResp true None).
#[global] Instance added_dec pc : Decision (added pc).
Proof. unfold added. apply _. Defined.
Lemma added_post_grant pc : added pc → post_grant pc.
Proof. unfold added, post_grant. naive_solver. Qed.

(** ** the own steps of an acquisition call around AddLock *)
Lemma acq_self_step cfg s x t sid n k z t' : v_thr s !! x = Some t → acquirer t sid n k z →
  v_thr (vrun_thread cfg x t s) !! x = Some t' → added (st_pc t') → added (st_pc t) ∨ st_pc t = VSessAdd.
Proof.
  intros Hx [lt Hop]. destruct t as [op pc cn]. simpl in Hop. unfold vrun_thread. cbn [st_pc st_op st_cancel].
  destruct Hop as [-> | ->].
  all: destruct pc; try (rewrite Hx; intros [=]; subst t'; simpl; eauto; fail); try (simpl; eauto; fail).
  all: unfold vfinish; repeat case_match; subst; rewrite ?vemit_v_thr, ?vset_pc_lookup, ?decide_True by done.
  all: try (rewrite Hx; intros [=]; subst t'; simpl; eauto; fail).
  all: try (intros (t0 & _ & ->)%fmap_Some; unfold added; simpl; intros [?|?]; congruence).
  all: intros _ _; left; by left.
Qed.

Lemma sess_add_self cfg s x t sid n k z : v_thr s !! x = Some t → acquirer t sid n k z → st_pc t = VSessAdd →
  entry_of (vrun_thread cfg x t s) sid (Clock n k z) ∧
  ∃ evs, v_trace (vrun_thread cfg x t s) = evs ++ SvSessAdd x sid (Clock n k z) :: v_trace s.
Proof.
  intros Hx [lt Hop]. destruct t as [op pc cn]. simpl in Hop. simpl. intros ->. unfold vrun_thread. cbn [st_pc st_op st_cancel].
  destruct Hop as [-> | ->].
  all: case_match; unfold vfinish, entry_of; autorewrite with svframe; rewrite sess_add_v_sess, lookup_insert.
  all: (split; [eexists; split; [done|]; apply elem_of_app; right; by apply elem_of_list_singleton|]).
  1,3: (exists []; by rewrite ?vset_pc_v_trace, sess_add_v_trace).
  all: eexists [_]; rewrite ?vemit_v_trace; simpl; by rewrite ?vset_pc_v_trace, sess_add_v_trace.
Qed.

(** ** every recorded grant is listed, gone, or its session has been destroyed *)
Definition EInv (s : svstate) : Prop := v_mgrshut s = false →
  ∀ tid' t' sid n k z, v_thr s !! tid' = Some t' → acquirer t' sid n k z → added (st_pc t') →
  entry_of s sid (Clock n k z) ∨ gone s n k ∨ has_destroy sid (v_trace s) = true.

Lemma is_hold_true n0 k0 c : is_hold n0 k0 c = true → cl_name c = n0 ∧ cl_key c = k0.
Proof. unfold is_hold. intros [?%bool_decide_eq_true ?%bool_decide_eq_true]%andb_prop. done. Qed.

Lemma e_inv_step cfg s it : SvInv cfg s → SvInv cfg (vstep cfg s it) → XInv s → UInv s → EInv s → EInv (vstep cfg s it).
Proof.
  intros HI HI' HX HU IH Hsh' tid' t' sid n k z Ht' Hacq' Hadd'. pose proof (vstep_mgrshut cfg s it Hsh') as Hsh.
  pose proof (vi_not_crashed _ _ HI) as Hc.
  destruct (vstep_thr_back cfg s it tid' t' HI Ht') as [[_ [Hfp _]]|(t0 & Ht0 & Hop0 & _ & Hcase)].
  { exfalso. destruct Hacq' as [lt [Ho|Ho]]; rewrite Ho in Hfp; simpl in Hfp; destruct Hadd'; congruence. }
  assert (Hacq0 : acquirer t0 sid n k z) by (unfold acquirer in *; by rewrite <- Hop0).
  destruct (decide (added (st_pc t0))) as [Hadd0|Hnadd0].
  - assert (Hown : ∃ tid t sid z, v_thr s !! tid = Some t ∧ acquirer t sid n k z ∧ post_grant (st_pc t)) by eauto 8 using added_post_grant.
    destruct (IH Hsh tid' t0 sid n k z Ht0 Hacq0 Hadd0) as [He|[Hg|Hd]].
    2: { right; left. by eapply gone_step. }
    2: { right; right. destruct (vstep_trace_app cfg s it Hc) as (evs & ->). rewrite has_destroy_app, Hd. apply orb_true_r. }
    destruct He as (l & Hl & Hin).
    destruct (vstep_sess_eff cfg s it Hc) as [[Hse Htr]|[(sid0 & -> & Htr & Hse)|[(tid & t & sid0 & n0 & k0 & z0 & -> & Ht & Hacq & Hpc & Hse & Htr)|
      [(tid & t & n0 & k0 & -> & Ht & Hwho & Hse & Htr)|(tid & t & sid0 & l0 & -> & Ht & Hop & Hpc & Hl0 & Hse & Htr)]]]].
    + left. exists l. by rewrite Hse.
    + left. exists l. rewrite Hse. destruct (v_sess s !! sid0) eqn:E; [done|]. rewrite lookup_insert_ne; [done|congruence].
    + left. unfold entry_of. rewrite Hse. destruct (decide (sid = sid0)) as [->|Hne].
      * rewrite lookup_insert, Hl. simpl. eexists; split; [done|]. apply elem_of_app; by left.
      * rewrite lookup_insert_ne by done. eauto.
    + destruct (is_hold n0 k0 (Clock n k z)) eqn:Hh.
      * apply is_hold_true in Hh as [<- <-]. simpl in *. right; left. eapply gone_step; [done|done| |done].
        destruct Hwho as [[Ho Hp]|(id & tm & Ho & Hp & Hh & Hn & Hk)].
        -- eapply (HU Hsh tid t n k Ht Ho Hp). exists tid', t0, sid, z. done.
        -- left. subst n k. eapply (HX Hsh tid t id tm Ht Ho Hh). congruence.
      * left. unfold entry_of. rewrite Hse, lookup_fmap, Hl. simpl. eexists; split; [done|].
        apply elem_of_list_filter. done.
    + destruct (decide (sid = sid0)) as [->|Hne].
      * right; right. rewrite Htr. apply has_destroy_true. eexists. left.
      * left. exists l. rewrite Hse, lookup_delete_ne; done.
  - left. destruct Hcase as [->|[Hsame|[_ Hw]]]; [|congruence|destruct Hadd'; congruence].
    rewrite (vstep_run_lookup cfg s tid' t0 Hc Ht0) in *.
    destruct (acq_self_step cfg s tid' t0 sid n k z t' Ht0 Hacq0 Ht' Hadd') as [?|Hsa]; [done|].
    by apply sess_add_self.
Qed.

(** ** the own steps of DestroySession, exactly *)
Lemma ds_self_step2 cfg s tid sid pc cn t' : queue_waits s →
  v_thr s !! tid = Some (SThread (SConnEnd sid) pc cn) →
  v_thr (vrun_thread cfg tid (SThread (SConnEnd sid) pc cn) s) !! tid = Some t' →
  match pc with
  | VDsDestroy => st_pc t' = ds_next (sess_destroy cfg tid sid s).2
  | VDsTmRemove (c0 :: rest) =>
      st_pc t' = if (tm_remove (tkey (cl_name c0) (cl_key c0)) s).2 then VDsUnlock c0 rest else ds_next rest
  | VDsUnlock c0 rest => st_pc t' = ds_next rest
  | _ => pending_of (st_pc t') = []
  end.
Proof.
  intros Hq Ht. unfold vrun_thread. cbn [st_pc st_op st_cancel].
  destruct pc; try (rewrite Ht; intros [=]; subst t'; done).
  all: repeat case_match; subst; pair_norm; rewrite vset_pc_lookup, ?decide_True by done.
  all: autorewrite with svframe; rewrite ?Ht; simpl.
  all: try (intros [=]; subst t'; simpl; done).
  all: try (match goal with H : _ = true |- _ => rewrite H | H : _ = false |- _ => rewrite H end; intros [=]; subst t'; simpl; done).
  rewrite (mgr_unlock_thr_other _ _ _ _ _ _ Hq Ht) by done. simpl. intros [=]; subst t'; done.
Qed.

(** ** accounting: after the destroy, every recorded grant of the session is still to be processed, or gone *)
Definition AInv (s : svstate) : Prop := v_mgrshut s = false →
  ∀ tid t sid, v_thr s !! tid = Some t → st_op t = SConnEnd sid → SvSessDestroy tid sid ∈ v_trace s →
  add_after_destroy sid (v_trace s) = false →
  ∀ tid' t' n k z, v_thr s !! tid' = Some t' → acquirer t' sid n k z → added (st_pc t') →
  Clock n k z ∈ pending_of (st_pc t) ∨ gone s n k.

Lemma a_inv_step cfg s it : sc_noclear cfg = false → SvInv cfg s → SvInv cfg (vstep cfg s it) →
  SessInv s → XInv s → EInv s → AInv s → AInv (vstep cfg s it).
Proof.
  intros Hnc HI HI' HS HX HE IH Hsh' tid tS' sid HtS' HopS Hev' Haad' tid' t' n k z Ht' Hacq' Hadd'.
  pose proof (vstep_mgrshut cfg s it Hsh') as Hsh. pose proof (vi_not_crashed _ _ HI) as Hc.
  pose proof (add_after_destroy_mono cfg s it sid Hc Haad') as Haad.
  pose proof (svinv_queue_waits _ _ HI) as Hq.
  (* the acquisition call, before the step *)
  destruct (vstep_thr_back cfg s it tid' t' HI Ht') as [[_ [Hfp _]]|(t0 & Ht0 & Hop0 & _ & Hcase0)].
  { exfalso. destruct Hacq' as [lt [Ho|Ho]]; rewrite Ho in Hfp; simpl in Hfp; destruct Hadd'; congruence. }
  assert (Hacq0 : acquirer t0 sid n k z) by (unfold acquirer in *; by rewrite <- Hop0).
  (* is this the destroy step of [tid]? *)
  assert (Hdes : SvSessDestroy tid sid ∈ v_trace s ∨
                 ∃ tS l, it = VRun tid ∧ v_thr s !! tid = Some tS ∧ st_op tS = SConnEnd sid ∧ st_pc tS = VDsDestroy ∧ v_sess s !! sid = Some l).
  { destruct (vstep_sess_eff cfg s it Hc) as [[Hse Htr]|[(sid0 & -> & Htr & Hse)|[(tid1 & t1 & sid0 & n0 & k0 & z0 & -> & Ht1 & Hacq & Hpc & Hse & Htr)|
      [(tid1 & t1 & n0 & k0 & -> & Ht1 & _ & Hse & Htr)|(tid1 & t1 & sid0 & l & -> & Ht1 & Hop & Hpc & Hl & Hse & Htr)]]]].
    - left. by eapply tr_xs_elem_back.
    - left. rewrite Htr in Hev'. by apply elem_of_cons in Hev' as [?|?].
    - left. eapply tr_xs_elem_back in Hev'; [|exact Htr|done]. by apply elem_of_cons in Hev' as [?|?].
    - left. by eapply tr_xs_elem_back.
    - rewrite Htr in Hev'. apply elem_of_cons in Hev' as [[= -> ->]|?]; [|by left].
      destruct Hpc as [Hpc|[Hpc _]]; [right; eauto 8|].
      exfalso. pose proof (vi_ds_noclear _ _ HI _ _ _ Ht1 Hop) as Q. rewrite Hnc in Q. done. }
  destruct Hdes as [Hev|(tS & l & -> & HtS & HopS0 & HpcS & Hl)].
  2: { (* the destroy step: the list taken is the session's list *)
    assert (tid' ≠ tid) as Hne by (intros ->; simplify_eq; destruct Hacq0 as [? [?|?]]; congruence).
    assert (Hadd0 : added (st_pc t0)).
    { destruct Hcase0 as [[= ?]|[Hsame|[_ Hw]]]; [done|by rewrite <- Hsame|destruct Hadd'; congruence]. }
    assert (Hown : ∃ tid t sid z, v_thr s !! tid = Some t ∧ acquirer t sid n k z ∧ post_grant (st_pc t)) by eauto 8 using added_post_grant.
    destruct (HE Hsh tid' t0 sid n k z Ht0 Hacq0 Hadd0) as [(l' & Hl' & Hin)|[Hg|Hd]].
    - left. rewrite Hl in Hl'. injection Hl' as <-. rewrite (vstep_run_lookup cfg s tid tS Hc HtS) in HtS'. destruct tS as [opS pcS cnS]. simpl in *. subst opS pcS.
      pose proof (ds_self_step2 cfg s tid sid VDsDestroy cnS tS' Hq HtS HtS') as Hpc. simpl in Hpc.
      rewrite Hpc, pending_of_ds_next. by rewrite (proj2 (proj2 (sess_destroy_some cfg tid sid s l Hl))).
    - right. by eapply gone_step.
    - exfalso. destruct (si_fresh _ HS sid) as [?|?]; [by rewrite Hl|congruence..]. }
  (* any other step *)
  destruct (si_destroy _ HS tid sid Hev) as (_ & tS & HtS & HopS0).
  destruct (decide (added (st_pc t0))) as [Hadd0|Hnadd0].
  2: { (* AddLock after the destroy: F-LEAK, excluded *)
    exfalso. destruct Hcase0 as [->|[Hsame|[_ Hw]]]; [|congruence|destruct Hadd'; congruence].
    rewrite (vstep_run_lookup cfg s tid' t0 Hc Ht0) in *.
    destruct (acq_self_step cfg s tid' t0 sid n k z t' Ht0 Hacq0 Ht' Hadd') as [?|Hsa]; [done|].
    destruct (sess_add_self cfg s tid' t0 sid n k z Ht0 Hacq0 Hsa) as (_ & evs & Htr).
    rewrite Htr in Haad'. by rewrite (add_after_destroy_hit sid evs tid' (Clock n k z) (v_trace s) tid Hev) in Haad'. }
  assert (Hown : ∃ tid t sid z, v_thr s !! tid = Some t ∧ acquirer t sid n k z ∧ post_grant (st_pc t)) by eauto 8 using added_post_grant.
  destruct (IH Hsh tid tS sid HtS HopS0 Hev Haad tid' t0 n k z Ht0 Hacq0 Hadd0) as [Hin|Hg]; [|right; by eapply gone_step].
  destruct (item_run_dec it tid) as [->|Hnr].
  - (* a step of DestroySession's loop *)
    rewrite (vstep_run_lookup cfg s tid tS Hc HtS) in HtS'. destruct tS as [opS pcS cnS]. simpl in HopS0, Hin. subst opS.
    pose proof (ds_self_step2 cfg s tid sid pcS cnS tS' Hq HtS HtS') as Hpc.
    destruct pcS as [| | | | | | | | | | | | | | | |todo|c0 rest| | | | | |]; simpl in Hin; try (by apply elem_of_nil in Hin).
    + destruct todo as [|c0 rest]; [by apply elem_of_nil in Hin|].
      destruct (tm_remove (tkey (cl_name c0) (cl_key c0)) s).2 eqn:Hst; rewrite Hpc, ?pending_of_ds_next; simpl; [by left|].
      apply elem_of_cons in Hin as [<-|Hin]; [|by left]. right. simpl in Hst.
      eapply gone_step; [done|done| |done]. by eapply not_stopped_gone.
    + rewrite Hpc, pending_of_ds_next. apply elem_of_cons in Hin as [<-|Hin]; [|by left]. right. left.
      eapply unlock_step_not_live; [done|exact HtS| |done]. right; right. simpl. eauto 8.
  - left. destruct (vstep_thr_other cfg s it tid tS HI Hnr HtS) as (tS'' & HtS'' & _ & Hpc). simplify_eq.
    destruct Hpc as [->|[Hw _]]; [done|]. rewrite Hw in Hin. by apply elem_of_nil in Hin.
Qed.
