(** Mclient: effect lemmas for the primitives of Model/Client.v, the structural invariant [basic] (T_basic) and
    the no-twin invariant outside F-RENEWMAP (T_no_twin). Statements: Proofs/ClientInvDefs.v. The server is used
    only through [srv_facts_hold] (Proofs/ClientSrv.v); [srv_event] is opaque here.

    Contents
      generic          step_crashed run_from_app any_pre_orb run_inv key_of_inj key_of_xkey
      set_ren          set_ren_holds set_ren_other set_ren_<field> ren_of_set_ren
      relations        hold_le hold_sim (reflexive, transitive), [ren_frame adv J st st'] (record; refl / trans /
                       weaken / lookup lemmas) and its atoms frame_emit frame_do_crash frame_set_srv frame_set_ren
      primitives       <prim>_frame, <prim>_srv, <prim>_crashed for stop_renewer ren_send ren_recv set_arm ren_send_on
                       ren_fire do_step srv_advance_to adv_loop do_advance stop_all; do_close_eq; do_compete_spec;
                       do_probe_frame; next_fire_some / _min / _none
      Unlock           do_unlock_eq = unlock_stop ; unlock_rpc ; mark_unl (all of Model/Client.v), each with its frame / spec
      Unlock in steps  do_unlock_begin_eq / _send_eq / _end_eq, _noop, _locked;
                       do_unlock_begin_frame _srv _now _map _other _holds_other _trace _crashed _le _unl
                       (with stop_renewer_trace_eq unlock_stop_trace_cases unlock_begin_stop_frame);
                       do_unlock_send_frame _holds _crashed _map _srv _le; do_unlock_end_frame _other _srv _map _holds
                       _crashed _trace _le
      Lock / TryLock   do_acquire_cases acquire_event_facts acquire_answered_fields
      basic            basic_frame basic_push ... basic_emit basic_do_unlock_begin / _send / _end basic_init basic_step t_basic
      steps            step_holds_cases step_hold_mono run_hold_mono step_exited step_now(_mono/_same)
                       step_crash_kinds do_unlock_crashed do_acquire_crashed (IUnlockBegin like IUnlock; IUnlockSend /
                       IUnlockEnd never panic)
      no twin          no_twin_step no_outofsync_step t_no_twin *)
From Coq Require Import Lia ZifyBool ZifyNat ZifyN Decimal DecimalNat.
From Ldlm Require Import Model.Base Model.Err Model.Seq Model.Client Gen.Consts Proofs.SeqLemmasKey
  Proofs.ClientSrvDefs Proofs.ClientSrv Proofs.ClientInvDefs.
From RecordUpdate Require Import RecordSet.
Import RecordSetNotations.
Local Open Scope Z_scope.
Local Opaque second srv_event interval.

Lemma step_crashed cc st it c : cs_crashed st = Some c → step cc st it = st.
Proof. intros H. unfold step. by rewrite H. Qed.

Lemma run_from_app cc st s1 s2 : run_from cc st (s1 ++ s2) = run_from cc (run_from cc st s1) s2.
Proof. apply fold_left_app. Qed.

Lemma any_pre_orb cc p q st sched :
  any_pre cc (λ s i, p s i || q s i) st sched = any_pre cc p st sched || any_pre cc q st sched.
Proof.
  revert st. induction sched as [|it rest IH]; intros st; cbn [any_pre]; [done|]. rewrite IH.
  destruct (p st it), (q st it), (any_pre cc p _ _), (any_pre cc q _ _); done.
Qed.

Lemma run_inv cc (bad : cstate → item → bool) (P : cstate → Prop) :
  (∀ st it, P st → bad st it = false → P (step cc st it)) →
  ∀ sched st, P st → any_pre cc bad st sched = false → P (run_from cc st sched).
Proof.
  intros Hs. induction sched as [|it rest IH]; intros st HP Hb; [done|].
  cbn [any_pre] in Hb. apply orb_false_elim in Hb as [H1 H2].
  unfold run_from; cbn [fold_left]. apply IH; auto.
Qed.

Lemma key_of_inj i j : key_of i = key_of j → i = j.
Proof. unfold key_of, itoa. intros [= E]. apply uint_bytes_inj, Unsigned.to_uint_inj in E. done. Qed.

Lemma key_of_xkey i n : key_of i ≠ xkey_of n.
Proof. unfold key_of, xkey_of. intros [=]. Qed.

Lemma set_ren_holds i f st j : cs_holds (set_ren i f st) !! j =
   if decide (i = j) then (λ h, h <| h_ren := f <$> h_ren h |>) <$> (cs_holds st !! j) else cs_holds st !! j.
Proof.
  unfold set_ren. destruct (cs_holds st !! i) as [h|] eqn:E.
  - cbn. destruct (decide (i = j)) as [<-|Hne].
    + rewrite list_lookup_insert by (eapply lookup_lt_Some; eauto). by rewrite E.
    + by rewrite list_lookup_insert_ne.
  - destruct (decide (i = j)) as [<-|]; [by rewrite E|done].
Qed.

Lemma set_ren_other i f st : cs_srv (set_ren i f st) = cs_srv st ∧ cs_map (set_ren i f st) = cs_map st ∧ cs_crashed (set_ren i f st) = cs_crashed st ∧ cs_closed (set_ren i f st) = cs_closed st ∧ cs_parked (set_ren i f st) = cs_parked st ∧ cs_trace (set_ren i f st) = cs_trace st ∧ cs_ncomp (set_ren i f st) = cs_ncomp st ∧ length (cs_holds (set_ren i f st)) = length (cs_holds st).
Proof.
  unfold set_ren. destruct (cs_holds st !! i) as [h|] eqn:E; cbn; rewrite ?insert_length; done.
Qed.

Lemma set_ren_srv i f st : cs_srv (set_ren i f st) = cs_srv st. Proof. apply set_ren_other. Qed.
Lemma set_ren_map i f st : cs_map (set_ren i f st) = cs_map st. Proof. apply set_ren_other. Qed.
Lemma set_ren_crashed i f st : cs_crashed (set_ren i f st) = cs_crashed st. Proof. apply set_ren_other. Qed.
Lemma set_ren_closed i f st : cs_closed (set_ren i f st) = cs_closed st. Proof. apply set_ren_other. Qed.
Lemma set_ren_parked i f st : cs_parked (set_ren i f st) = cs_parked st. Proof. apply set_ren_other. Qed.
Lemma set_ren_trace i f st : cs_trace (set_ren i f st) = cs_trace st. Proof. apply set_ren_other. Qed.
Lemma set_ren_ncomp i f st : cs_ncomp (set_ren i f st) = cs_ncomp st. Proof. apply set_ren_other. Qed.
Lemma set_ren_length i f st : length (cs_holds (set_ren i f st)) = length (cs_holds st). Proof. apply set_ren_other. Qed.
Lemma set_ren_now i f st : now (set_ren i f st) = now st. Proof. unfold now. by rewrite set_ren_srv. Qed.

(** ** Relations between two versions of one hold *)

Definition exit_mono (o o' : option renewer) : Prop :=
  ∀ r, o = Some r → r_pc r = PExited → ∃ r', o' = Some r' ∧ r_pc r' = PExited.

(** the static part is kept, [h_unl] only goes up, the presence of a renewer is kept, a returned goroutine stays so *)
Definition hold_le (h h' : hold) : Prop :=
  static h' = static h ∧ (h_unl h = true → h_unl h' = true) ∧ (h_ren h = None ↔ h_ren h' = None) ∧
  exit_mono (h_ren h) (h_ren h').

(** ... and [h_unl] is unchanged: only the renewer moved *)
Definition hold_sim (h h' : hold) : Prop := hold_le h h' ∧ h_unl h' = h_unl h.

#[global] Instance hold_le_refl : Reflexive hold_le.
Proof. intros h. unfold hold_le, exit_mono. split_and!; eauto. Qed.
#[global] Instance hold_le_trans : Transitive hold_le.
Proof.
  intros a b c (A1 & A2 & A3 & A4) (B1 & B2 & B3 & B4). unfold hold_le. split_and!.
  - congruence.
  - auto.
  - tauto.
  - intros r Hr Hp. destruct (A4 r Hr Hp) as (r' & Hr' & Hp'). eauto.
Qed.
#[global] Instance hold_sim_refl : Reflexive hold_sim.
Proof. intros h. split; reflexivity. Qed.
#[global] Instance hold_sim_trans : Transitive hold_sim.
Proof. intros a b c [A1 A2] [B1 B2]. split; [by etrans|congruence]. Qed.

Lemma hold_sim_le h h' : hold_sim h h' → hold_le h h'.
Proof. by intros [? _]. Qed.

Lemma static_eq h h' : static h' = static h →
  h_name h' = h_name h ∧ h_key h' = h_key h ∧ h_T h' = h_T h ∧ h_locked h' = h_locked h.
Proof. unfold static. intros [= -> -> -> ->]. done. Qed.

(** a hold with its renewer replaced *)
Lemma hold_sim_set_ren h (f : renewer → renewer) :
  (∀ r, h_ren h = Some r → r_pc r = PExited → r_pc (f r) = PExited) →
  hold_sim h (h <| h_ren := f <$> h_ren h |>).
Proof.
  intros Hf. destruct h as [n k T l u [r|]]; cbn in *.
  - split; [|done]. unfold hold_le, exit_mono; cbn. split_and!; try done.
    intros r0 [= <-] Hp. eexists; split; [done|]. by apply Hf.
  - reflexivity.
Qed.

(** ** Frames *)

Definition nowait (st : cstate) : Prop := st_waiters (cs_srv st) = [].

(** [ren_frame adv J st st']: from [st] to [st'] only renewers of holds in [J] moved (the table keeps its length, every
    hold its static part and [h_unl]), the server moved in a way that keeps "nobody waits" and [timers_wf]
    ([adv = false]: at the same instant), events were appended to the trace and the process may have panicked in a
    renewer of [J]. Everything else is as it was. *)
Record ren_frame (adv : bool) (J : nat → Prop) (st st' : cstate) : Prop := RenFrame {
  rf_holds : Forall2 hold_sim (cs_holds st) (cs_holds st');
  rf_others : ∀ i, ¬ J i → cs_holds st' !! i = cs_holds st !! i;
  rf_map : cs_map st' = cs_map st;
  rf_closed : cs_closed st' = cs_closed st;
  rf_parked : cs_parked st' = cs_parked st;
  rf_ncomp : cs_ncomp st' = cs_ncomp st;
  rf_trace : cs_trace st `prefix_of` cs_trace st';
  rf_crash : ∀ c, cs_crashed st' = Some c → cs_crashed st = Some c ∨ ∃ j, J j ∧ (c = CrRenewFailed j ∨ c = CrSendClosed j);
  rf_waiters : nowait st → nowait st';
  rf_twf : nowait st → timers_wf (cs_srv st) → timers_wf (cs_srv st');
  rf_now : nowait st → if adv then now st ≤ now st' else now st' = now st
}.

Lemma ren_frame_refl adv J st : ren_frame adv J st st.
Proof. constructor; auto; try reflexivity. intros _. destruct adv; [lia|done]. Qed.

Lemma ren_frame_trans adv J st1 st2 st3 : ren_frame adv J st1 st2 → ren_frame adv J st2 st3 → ren_frame adv J st1 st3.
Proof.
  intros A B. constructor.
  - etrans; [apply A|apply B].
  - intros i Hi. rewrite (rf_others _ _ _ _ B), (rf_others _ _ _ _ A); done.
  - rewrite (rf_map _ _ _ _ B). apply A.
  - rewrite (rf_closed _ _ _ _ B). apply A.
  - rewrite (rf_parked _ _ _ _ B). apply A.
  - rewrite (rf_ncomp _ _ _ _ B). apply A.
  - etrans; [apply A|apply B].
  - intros c Hc. apply (rf_crash _ _ _ _ B) in Hc as [Hc|Hc]; [|by right]. by apply (rf_crash _ _ _ _ A) in Hc.
  - intros Hw. by apply B, A.
  - intros Hw Ht. apply B; [by apply A|by apply A].
  - intros Hw. pose proof (rf_now _ _ _ _ A Hw) as N1. pose proof (rf_now _ _ _ _ B (rf_waiters _ _ _ _ A Hw)) as N2.
    destruct adv; [lia|congruence].
Qed.

Lemma ren_frame_weaken adv adv' (J J' : nat → Prop) st st' :
  (adv = true → adv' = true) → (∀ i, J i → J' i) → ren_frame adv J st st' → ren_frame adv' J' st st'.
Proof.
  intros Ha HJ A. constructor; try apply A.
  - intros i Hi. apply A. auto.
  - intros c Hc. apply (rf_crash _ _ _ _ A) in Hc as [Hc|(j & Hj & Hc)]; [by left|right; eauto].
  - intros Hw. pose proof (rf_now _ _ _ _ A Hw) as N. destruct adv, adv'; try done; try lia.
Qed.

Lemma frame_lookup adv J st st' j h : ren_frame adv J st st' → cs_holds st !! j = Some h →
  ∃ h', cs_holds st' !! j = Some h' ∧ hold_sim h h'.
Proof. intros A. apply Forall2_lookup_l, A. Qed.
Lemma frame_lookup_rev adv J st st' j h' : ren_frame adv J st st' → cs_holds st' !! j = Some h' →
  ∃ h, cs_holds st !! j = Some h ∧ hold_sim h h'.
Proof. intros A. apply Forall2_lookup_r, A. Qed.
Lemma frame_length adv J st st' : ren_frame adv J st st' → length (cs_holds st') = length (cs_holds st).
Proof. intros A. symmetry. eapply Forall2_length, A. Qed.

(** the atoms *)
Lemma frame_emit adv J e st : ren_frame adv J st (emit e st).
Proof.
  constructor; cbn; auto; try reflexivity.
  - by apply prefix_app_r.
  - intros _. destruct adv; [reflexivity|done].
Qed.

Lemma frame_set_crashed adv (J : nat → Prop) c st :
  (∃ j, J j ∧ (c = CrRenewFailed j ∨ c = CrSendClosed j)) → ren_frame adv J st (st <| cs_crashed := Some c |>).
Proof.
  intros Hc. constructor; cbn; auto; try reflexivity.
  - intros c' [= <-]. by right.
  - intros _. destruct adv; [reflexivity|done].
Qed.

Lemma frame_do_crash adv (J : nat → Prop) c st :
  (∃ j, J j ∧ (c = CrRenewFailed j ∨ c = CrSendClosed j)) → ren_frame adv J st (do_crash c st).
Proof. intros Hc. unfold do_crash. eapply ren_frame_trans; [by apply frame_set_crashed|apply frame_emit]. Qed.

Lemma frame_set_srv (adv : bool) J s' st :
  (nowait st → st_waiters s' = [] ∧ (timers_wf (cs_srv st) → timers_wf s') ∧
               if adv then now st ≤ st_now s' else st_now s' = now st) →
  ren_frame adv J st (st <| cs_srv := s' |>).
Proof.
  intros H. constructor; cbn; auto; try reflexivity.
  - intros Hw. by apply H.
  - intros Hw. by apply H.
  - intros Hw. by apply H.
Qed.

Lemma ren_of_set_ren i f st j :
  ren_of (set_ren i f st) j = if decide (i = j) then f <$> ren_of st j else ren_of st j.
Proof.
  unfold ren_of. rewrite set_ren_holds. destruct (decide (i = j)); [|done].
  destruct (cs_holds st !! j) as [h|]; [|done]. cbn. done.
Qed.

Lemma frame_set_ren adv j f st :
  (∀ r, ren_of st j = Some r → r_pc r = PExited → r_pc (f r) = PExited) →
  ren_frame adv (eq j) st (set_ren j f st).
Proof.
  intros Hf. destruct (set_ren_other j f st) as (E1 & E2 & E3 & E4 & E5 & E6 & E7 & E8).
  constructor; try done.
  - unfold set_ren. destruct (cs_holds st !! j) as [h|] eqn:E; [|reflexivity]. cbn.
    rewrite <- (list_insert_id (cs_holds st) j h) at 1 by done.
    apply Forall2_insert; [reflexivity|]. apply hold_sim_set_ren.
    intros r Hr. apply Hf. unfold ren_of. by rewrite E.
  - intros i Hi. rewrite set_ren_holds. by destruct (decide (j = i)).
  - by rewrite E6.
  - intros c. rewrite E3. by left.
  - unfold nowait. by rewrite E1.
  - by rewrite E1.
  - unfold now. rewrite E1. intros _. destruct adv; [reflexivity|done].
Qed.

(** ** renewer.Stop(): only the renewer of hold j, the crash flag and the trace *)

Lemma stop_renewer_frame adv j st : ren_frame adv (eq j) st (stop_renewer j st).
Proof.
  unfold stop_renewer. destruct (ren_of st j) as [r|] eqn:Hr; [|apply ren_frame_refl].
  destruct (r_pc r) eqn:Hp.
  - apply frame_set_ren. done.
  - apply frame_set_ren. intros r' _ Hp'. exact Hp'.
  - apply frame_do_crash. eauto.
Qed.

Lemma stop_renewer_srv j st : cs_srv (stop_renewer j st) = cs_srv st.
Proof.
  unfold stop_renewer. repeat case_match; rewrite ?set_ren_srv; done.
Qed.

(** what Stop() does to the goroutine *)
Lemma stop_renewer_ren j st :
  ren_of (stop_renewer j st) j =
    match ren_of st j with
    | Some r => Some match r_pc r with
                     | PSleep _ => r <| r_pc := PExited |> <| r_stopreq := true |>
                     | PInRenew _ _ => r <| r_stopreq := true |>
                     | PExited => r
                     end
    | None => None
    end.
Proof.
  unfold stop_renewer. destruct (ren_of st j) as [r|] eqn:Hr; [|done].
  destruct (r_pc r) eqn:Hp; rewrite ?ren_of_set_ren, ?decide_True, ?Hr by done; try done.
Qed.

Lemma stop_renewer_crashed j st :
  cs_crashed (stop_renewer j st) =
    match ren_of st j with
    | Some r => match r_pc r with PExited => Some (CrSendClosed j) | _ => cs_crashed st end
    | None => cs_crashed st
    end.
Proof.
  unfold stop_renewer. destruct (ren_of st j) as [r|] eqn:Hr; [|done].
  destruct (r_pc r) eqn:Hp; rewrite ?set_ren_crashed; done.
Qed.

(** ** the Renew RPC: cs_srv (through [srv_event (ERenew ..)]), renewer j and the trace *)

Lemma ren_send_frame adv j st : ren_frame adv (eq j) st (ren_send j st).
Proof.
  unfold ren_send. destruct (cs_holds st !! j) as [h|] eqn:Hh; [|apply ren_frame_refl].
  destruct (h_ren h) as [r|] eqn:Hr; [|apply ren_frame_refl].
  destruct (r_pc r) as [|u [a|]|] eqn:Hp; try apply ren_frame_refl.
  assert (∀ (f : renewer → renewer) st0, cs_holds st0 = cs_holds st →
            ∀ r0, ren_of st0 j = Some r0 → r_pc r0 = PExited → r_pc (f r0) = PExited) as Hx.
  { intros f st0 E0 r0. unfold ren_of. rewrite E0, Hh. cbn. rewrite Hr. intros [= <-]. congruence. }
  destruct (cs_closed st).
  - eapply ren_frame_trans; [apply frame_set_ren, Hx; done|apply frame_emit].
  - destruct (srv_event _ _) as [srv' outs] eqn:Hs.
    destruct outs as [|[[locked key e| |]| | | | | |] rest]; try apply ren_frame_refl.
    apply (sf_renew srv_facts_hold) in Hs as (F1 & F2 & F3 & _).
    eapply ren_frame_trans; [|apply frame_emit].
    eapply ren_frame_trans; [|apply frame_set_ren, Hx; done].
    apply frame_set_srv. unfold nowait, now. rewrite F1, F2. intros Hw. split_and!; auto. by destruct adv.
Qed.

(** the server state after [ren_send]: unchanged, or one ERenew of the hold's (name, key, T) *)
Lemma ren_send_srv j st :
  cs_srv (ren_send j st) = cs_srv st ∨
  ∃ h r u, cs_holds st !! j = Some h ∧ h_ren h = Some r ∧ r_pc r = PInRenew u None ∧ cs_closed st = false ∧
    cs_srv (ren_send j st) = fst (srv_event (ERenew (h_name h) (h_key h) (h_T h)) (cs_srv st)).
Proof.
  unfold ren_send. destruct (cs_holds st !! j) as [h|] eqn:Hh; [|by left].
  destruct (h_ren h) as [r|] eqn:Hr; [|by left].
  destruct (r_pc r) as [|u [a|]|] eqn:Hp; try by left.
  destruct (cs_closed st) eqn:Hc.
  - left. cbn. apply set_ren_srv.
  - destruct (srv_event _ _) as [srv' outs] eqn:Hs.
    destruct outs as [|[[locked key e| |]| | | | | |] rest]; try by left.
    right. exists h, r, u. split_and!; try done. cbn. rewrite set_ren_srv, Hs. reflexivity.
Qed.

Lemma ren_send_crashed j st : cs_crashed (ren_send j st) = cs_crashed st.
Proof.
  unfold ren_send. repeat case_match; try done; cbn; by rewrite set_ren_crashed.
Qed.

(** the answer reaches the goroutine: renewer j, the crash flag and the trace *)
Lemma ren_recv_frame adv j st : ren_frame adv (eq j) st (ren_recv j st).
Proof.
  unfold ren_recv. destruct (cs_holds st !! j) as [h|] eqn:Hh; [|apply ren_frame_refl].
  destruct (h_ren h) as [r|] eqn:Hr; [|apply ren_frame_refl].
  destruct (r_pc r) as [|u [[|e]|]|] eqn:Hp; try apply ren_frame_refl.
  - apply frame_set_ren. intros r0. unfold ren_of. rewrite Hh. cbn. rewrite Hr. intros [= <-]. congruence.
  - apply frame_do_crash. eauto.
Qed.

Lemma ren_recv_srv j st : cs_srv (ren_recv j st) = cs_srv st.
Proof. unfold ren_recv. repeat case_match; rewrite ?set_ren_srv; done. Qed.

Lemma ren_recv_crashed j st c : cs_crashed st = None → cs_crashed (ren_recv j st) = Some c →
  c = CrRenewFailed j ∧ ∃ r u e, ren_of st j = Some r ∧ r_pc r = PInRenew u (Some (AErr e)).
Proof.
  intros Hn. unfold ren_recv, ren_of. destruct (cs_holds st !! j) as [h|] eqn:Hh; [|congruence].
  destruct (h_ren h) as [r|] eqn:Hr; [|congruence].
  destruct (r_pc r) as [|u [[|e]|]|] eqn:Hp; try congruence.
  - rewrite set_ren_crashed. congruence.
  - cbn. intros [= <-]. split; [done|]. rewrite Hr. eauto.
Qed.

(** the interposer *)
Lemma set_arm_frame adv j a st : ren_frame adv (eq j) st (set_arm j a st).
Proof. apply frame_set_ren. intros r _ Hp. exact Hp. Qed.
Lemma set_arm_srv j a st : cs_srv (set_arm j a st) = cs_srv st.
Proof. apply set_ren_srv. Qed.
Lemma set_arm_crashed j a st : cs_crashed (set_arm j a st) = cs_crashed st.
Proof. apply set_ren_crashed. Qed.

Lemma ren_send_on_frame adv j st : ren_frame adv (eq j) st (ren_send_on j st).
Proof.
  unfold ren_send_on. eapply ren_frame_trans; [apply ren_send_frame|].
  destruct (arm_of _ _) as [[]|]; try apply ren_recv_frame. apply set_arm_frame.
Qed.

Lemma ren_send_on_crashed j st c : cs_crashed st = None → cs_crashed (ren_send_on j st) = Some c → c = CrRenewFailed j.
Proof.
  unfold ren_send_on. intros Hn.
  destruct (arm_of _ _) as [[]|]; rewrite ?set_arm_crashed, ?ren_send_crashed; try (intros; congruence);
    intros H; apply ren_recv_crashed in H as [-> _]; try done; by rewrite ren_send_crashed.
Qed.

(** the timer fires; meant for a sleeping renewer (a returned goroutine would be revived otherwise) *)
Lemma ren_fire_frame adv j st : (∀ r, ren_of st j = Some r → r_pc r ≠ PExited) →
  ren_frame adv (eq j) st (ren_fire j st).
Proof.
  intros Hne. unfold ren_fire. eapply ren_frame_trans.
  { apply frame_set_ren. intros r Hr Hp. by apply Hne in Hr. }
  destruct (arm_of _ _) as [[]|]; try apply ren_send_on_frame; apply set_arm_frame.
Qed.

Lemma ren_fire_crashed j st c : cs_crashed st = None → cs_crashed (ren_fire j st) = Some c → c = CrRenewFailed j.
Proof.
  unfold ren_fire. intros Hn.
  assert (cs_crashed (set_ren j (λ r, r <| r_pc := PInRenew (now st) None |>) st) = None) as E.
  { by rewrite set_ren_crashed. }
  destruct (arm_of _ _) as [[]|]; rewrite ?set_arm_crashed, ?set_ren_crashed, ?Hn; try discriminate;
    by apply ren_send_on_crashed.
Qed.

Lemma do_step_frame adv j st : ren_frame adv (eq j) st (do_step j st).
Proof.
  unfold do_step. destruct (ren_of st j) as [r|]; [|apply ren_frame_refl].
  destruct (r_pc r) as [|u [a|]|]; try apply ren_frame_refl; [apply ren_recv_frame|apply ren_send_on_frame].
Qed.

Lemma do_step_crashed j st c : cs_crashed st = None → cs_crashed (do_step j st) = Some c → c = CrRenewFailed j.
Proof.
  unfold do_step. intros Hn. destruct (ren_of st j) as [r|]; [|congruence].
  destruct (r_pc r) as [|u [a|]|]; try congruence.
  - intros H. by apply ren_recv_crashed in H as [-> _].
  - by apply ren_send_on_crashed.
Qed.

(** ** next_fire *)

Lemma next_fire_from_some hs : ∀ j0 j u, next_fire_from j0 hs = Some (j, u) →
  (j0 ≤ j)%nat ∧ ∃ h r, hs !! (j - j0)%nat = Some h ∧ h_ren h = Some r ∧ r_pc r = PSleep u.
Proof.
  induction hs as [|h hs IH]; intros j0 j u; cbn [next_fire_from]; [done|].
  intros H.
  assert (next_fire_from (S j0) hs = Some (j, u) →
          (j0 ≤ j)%nat ∧ ∃ h0 r, (h :: hs) !! (j - j0)%nat = Some h0 ∧ h_ren h0 = Some r ∧ r_pc r = PSleep u) as Hrest.
  { intros H'. apply IH in H' as (Hle & h0 & r & Hl & Hr & Hp). split; [lia|]. exists h0, r.
    replace (j - j0)%nat with (S (j - S j0)) by lia. done. }
  destruct (h_ren h) as [r|] eqn:Hr; [|auto].
  destruct (r_pc r) as [v| |] eqn:Hp; auto.
  assert ((j0 ≤ j0)%nat ∧ ∃ h0 r0, (h :: hs) !! (j0 - j0)%nat = Some h0 ∧ h_ren h0 = Some r0 ∧ r_pc r0 = PSleep v) as Hme.
  { split; [lia|]. exists h, r. rewrite Nat.sub_diag. done. }
  destruct (next_fire_from (S j0) hs) as [[j' u']|] eqn:Hn.
  - destruct (u' <? v) eqn:Hlt; [auto|]. by injection H as <- <-.
  - by injection H as <- <-.
Qed.

Lemma next_fire_from_none hs : ∀ j0, next_fire_from j0 hs = None →
  ∀ i h r v, hs !! i = Some h → h_ren h = Some r → r_pc r = PSleep v → False.
Proof.
  induction hs as [|h1 hs IH]; intros j1; [done|]. cbn [next_fire_from].
  intros H i h r v Hi. destruct i as [|i]; cbn in Hi.
  - injection Hi as ->. intros Hr Hp. rewrite Hr, Hp in H.
    by destruct (next_fire_from (S j1) hs) as [[]|]; [destruct (_ <? _)|].
  - apply (IH (S j1)) with (i := i); [|done]. destruct (h_ren h1) as [r1|]; [|done].
    destruct (r_pc r1); try done. by destruct (next_fire_from (S j1) hs) as [[]|]; [destruct (_ <? _)|].
Qed.

Lemma next_fire_from_min hs : ∀ j0 j u, next_fire_from j0 hs = Some (j, u) →
  ∀ i h r v, hs !! i = Some h → h_ren h = Some r → r_pc r = PSleep v → u ≤ v.
Proof.
  induction hs as [|h0 hs IH]; intros j0 j u; cbn [next_fire_from]; [done|].
  intros H i h r v Hi Hr Hp.
  destruct i as [|i]; cbn in Hi.
  - injection Hi as ->. rewrite Hr, Hp in H.
    destruct (next_fire_from (S j0) hs) as [[j' u']|].
    + destruct (Z.ltb_spec u' v); injection H as <- <-; lia.
    + injection H as <- <-; lia.
  - specialize (IH (S j0)).
    destruct (h_ren h0) as [r0|]; [|by eapply IH].
    destruct (r_pc r0) as [v0| |]; try by eapply IH.
    destruct (next_fire_from (S j0) hs) as [[j' u']|] eqn:Hn.
    + pose proof (IH _ _ eq_refl _ _ _ _ Hi Hr Hp) as Hle.
      destruct (Z.ltb_spec u' v0); injection H as <- <-; lia.
    + exfalso. by eapply (next_fire_from_none _ _ Hn i).
Qed.

Lemma next_fire_some st j u : next_fire st = Some (j, u) →
  ∃ h r, cs_holds st !! j = Some h ∧ h_ren h = Some r ∧ r_pc r = PSleep u.
Proof.
  intros H. apply next_fire_from_some in H as (_ & h & r & H). rewrite Nat.sub_0_r in H. eauto.
Qed.
Lemma next_fire_min st j u i h r v : next_fire st = Some (j, u) → cs_holds st !! i = Some h → h_ren h = Some r →
  r_pc r = PSleep v → u ≤ v.
Proof. intros H. by apply (next_fire_from_min _ _ _ _ H). Qed.
Lemma next_fire_none st i h r v : next_fire st = None → cs_holds st !! i = Some h → h_ren h = Some r →
  r_pc r = PSleep v → False.
Proof. intros H. by apply (next_fire_from_none _ _ H). Qed.

(** ** Virtual time *)

(** [srv_advance_to] only changes cs_srv (one EAdvance) *)
Lemma srv_advance_to_frame J t st : ren_frame true J st (srv_advance_to t st).
Proof.
  unfold srv_advance_to. apply frame_set_srv. intros Hw.
  destruct (srv_event _ _) as [s' o] eqn:Hs.
  apply (sf_advance srv_facts_hold) in Hs as (F1 & F2 & F3 & _); [exact Hw|].
  cbn. split_and!; auto. unfold now. lia.
Qed.

Lemma srv_advance_to_facts t st : nowait st →
  let st' := srv_advance_to t st in
  now st' = Z.max t (now st) ∧
  (∀ n k tm, tmr (cs_srv st) n k = Some tm → Z.max t (now st) < tm_deadline tm → tmr (cs_srv st') n k = Some tm) ∧
  (∀ n k tm, timers_wf (cs_srv st) → tmr (cs_srv st) n k = Some tm → Z.max t (now st) < tm_deadline tm →
             hld (cs_srv st) n k → hld (cs_srv st') n k).
Proof.
  intros Hw. unfold srv_advance_to. cbn. unfold now at 1. cbn.
  destruct (srv_event _ _) as [s' o] eqn:Hs.
  apply (sf_advance srv_facts_hold) in Hs as (F1 & F2 & F3 & F4 & F5); [exact Hw|]. cbn.
  fold (now st) in *. split_and!.
  - lia.
  - intros n k tm H1 H2. apply F4; [done|lia].
  - intros n k tm H0 H1 H2 H3. apply (F5 n k tm); [done|done|lia|done].
Qed.

Lemma srv_advance_to_holds t st : cs_holds (srv_advance_to t st) = cs_holds st.
Proof. done. Qed.
Lemma srv_advance_to_crashed t st : cs_crashed (srv_advance_to t st) = cs_crashed st.
Proof. done. Qed.

Lemma adv_loop_frame fuel target : ∀ st, ren_frame true (λ _, True) st (adv_loop fuel target st).
Proof.
  induction fuel as [|fuel IH]; intros st; cbn [adv_loop]; destruct (cs_crashed st); try apply ren_frame_refl.
  destruct (next_fire st) as [[j u]|] eqn:Hn; [|apply srv_advance_to_frame].
  destruct (u <=? target); [|apply srv_advance_to_frame].
  eapply ren_frame_trans; [|apply IH]. eapply ren_frame_trans; [apply srv_advance_to_frame|].
  eapply ren_frame_weaken; [..|apply (ren_fire_frame true)]; [done|done|].
  intros r Hr. apply next_fire_some in Hn as (h & r' & Hh & Hr' & Hp).
  unfold ren_of in Hr. rewrite srv_advance_to_holds, Hh in Hr. cbn in Hr. congruence.
Qed.

Lemma adv_loop_dead fuel target st c : cs_crashed st = Some c → adv_loop fuel target st = st.
Proof. intros H. destruct fuel; cbn [adv_loop]; by rewrite H. Qed.

Lemma adv_loop_crashed fuel target : ∀ st c, cs_crashed st = None → cs_crashed (adv_loop fuel target st) = Some c →
  ∃ j, c = CrRenewFailed j.
Proof.
  induction fuel as [|fuel IH]; intros st c Hn; cbn [adv_loop]; rewrite Hn; [intros; congruence|].
  destruct (next_fire st) as [[j u]|] eqn:Hf; [|rewrite srv_advance_to_crashed; intros; congruence].
  destruct (u <=? target); [|rewrite srv_advance_to_crashed; intros; congruence].
  destruct (cs_crashed (ren_fire j (srv_advance_to (Z.max u (now st)) st))) as [c'|] eqn:Hc.
  - rewrite (adv_loop_dead _ _ _ _ Hc), Hc. intros [= <-]. apply ren_fire_crashed in Hc; eauto.
  - by apply IH.
Qed.

Lemma do_advance_frame dt st : ren_frame true (λ _, True) st (do_advance dt st).
Proof. apply adv_loop_frame. Qed.
Lemma do_advance_crashed dt st c : cs_crashed st = None → cs_crashed (do_advance dt st) = Some c → ∃ j, c = CrRenewFailed j.
Proof. apply adv_loop_crashed. Qed.

(** ** Close *)

Lemma stop_all_frame adv l : ∀ st, ren_frame adv (λ i, i ∈ l) st (stop_all l st).
Proof.
  induction l as [|i l IH]; intros st; cbn [stop_all]; [apply ren_frame_refl|].
  destruct (cs_crashed st); [apply ren_frame_refl|].
  eapply ren_frame_trans.
  - eapply ren_frame_weaken; [..|apply (stop_renewer_frame adv i)]; [done|]. intros ? <-. left.
  - eapply ren_frame_weaken; [..|apply IH]; [done|]. intros ? ?. by right.
Qed.

Lemma stop_all_srv l : ∀ st, cs_srv (stop_all l st) = cs_srv st.
Proof.
  induction l as [|i l IH]; intros st; cbn [stop_all]; [done|]. destruct (cs_crashed st); [done|].
  by rewrite IH, stop_renewer_srv.
Qed.

Lemma stop_all_dead l st c : cs_crashed st = Some c → stop_all l st = st.
Proof. intros H. destruct l; cbn [stop_all]; by rewrite ?H. Qed.

Lemma stop_all_crashed l : ∀ st c, cs_crashed st = None → cs_crashed (stop_all l st) = Some c →
  ∃ i, i ∈ l ∧ c = CrSendClosed i.
Proof.
  induction l as [|i l IH]; intros st c Hn; cbn [stop_all]; [congruence|]. rewrite Hn.
  destruct (cs_crashed (stop_renewer i st)) as [c'|] eqn:Hc.
  - rewrite (stop_all_dead _ _ _ Hc), Hc. intros [= <-]. rewrite stop_renewer_crashed in Hc.
    exists i. split; [left|]. repeat case_match; congruence.
  - intros H. apply IH in H as (i' & Hi & ->); [|done]. exists i'. split; [by right|done].
Qed.

Definition close_targets (st : cstate) : list nat := map snd (map_to_list (cs_map st)).

Lemma close_targets_elem st i : i ∈ close_targets st ↔ ∃ n, cs_map st !! n = Some i.
Proof.
  unfold close_targets. change (map snd ?l) with (snd <$> l). rewrite elem_of_list_fmap. split.
  - intros ([n i'] & -> & H). exists n. by apply elem_of_map_to_list.
  - intros (n & H). exists (n, i). split; [done|]. by apply elem_of_map_to_list.
Qed.

(** Close: Stop() on every renewMap entry (a frame), then the closed flag and the trace — unless a Stop() panicked *)
Lemma do_close_eq st :
  do_close st = let st1 := stop_all (close_targets st) st in
                match cs_crashed st1 with
                | Some _ => st1
                | None => emit (TCloseRet (now st1)) (st1 <| cs_closed := true |>)
                end.
Proof. reflexivity. Qed.

Lemma do_close_crashed st c : cs_crashed st = None → cs_crashed (do_close st) = Some c →
  ∃ n i, cs_map st !! n = Some i ∧ c = CrSendClosed i.
Proof.
  intros Hn. rewrite do_close_eq. cbn zeta.
  destruct (cs_crashed (stop_all _ _)) as [c'|] eqn:Hc.
  - rewrite Hc. intros [= <-]. apply stop_all_crashed in Hc as (i & Hi & ->); [|done].
    apply close_targets_elem in Hi as (n & Hi). eauto.
  - cbn. congruence.
Qed.

(** ** Probes: only cs_srv (a TryLock by xsid with key [xkey_of n], then possibly its Unlock), cs_ncomp, the trace *)

Lemma do_compete_spec name size st :
  ∃ s2 granted,
    do_compete name size st
      = emit (TCompete name granted (now st)) (st <| cs_srv := s2 |> <| cs_ncomp := S (cs_ncomp st) |>) ∧
    (nowait st →
       st_waiters s2 = [] ∧ st_now s2 = now st ∧ (timers_wf (cs_srv st) → timers_wf s2) ∧
       (∀ n k, k ≠ xkey_of (cs_ncomp st) → tmr s2 n k = tmr (cs_srv st) n k) ∧
       (∀ n k, k ≠ xkey_of (cs_ncomp st) → hld (cs_srv st) n k → hld s2 n k)).
Proof.
  unfold do_compete. destruct (srv_event _ _) as [s1 outs] eqn:H1.
  eexists _, _. split; [reflexivity|]. intros Hw.
  apply (sf_trylock srv_facts_hold) in H1 as (A1 & A2 & A3 & A4 & A5 & _).
  assert (∀ n k, k ≠ xkey_of (cs_ncomp st) → (n, k) ≠ (name, xkey_of (cs_ncomp st))) as Hne by congruence.
  match goal with |- context [if ?b then _ else _] => destruct b end.
  - destruct (srv_event (EUnlock _ _ _) s1) as [s2 o2] eqn:H2. cbn.
    apply (sf_unlock srv_facts_hold) in H2 as (B1 & B2 & B3 & B4 & B5); [unfold nowait in Hw; congruence|].
    split_and!.
    + done.
    + unfold now. congruence.
    + auto.
    + intros n k Hk. rewrite B4, A4; auto.
    + intros n k Hk Hh. apply B5, A5; auto.
  - unfold nowait in Hw. split_and!.
    + congruence.
    + done.
    + done.
    + intros n k Hk. apply A4; auto.
    + intros n k _. apply A5.
Qed.

Lemma do_probe_frame adv J st : ren_frame adv J st (do_probe st).
Proof. apply frame_emit. Qed.

(** ** Unlock, in its three phases *)

(** [unlock_stop] (maybeRemoveRenewer(NAME): LoadAndDelete + Stop), [unlock_rpc] (the Unlock RPC) and [mark_unl]
    (the ghost flag) are defined in Model/Client.v; [do_unlock] is their composition *)
Lemma do_unlock_eq cc j st :
  do_unlock cc j st =
    match cs_holds st !! j with
    | None => st
    | Some h =>
        if negb (h_locked h) then st else
        let st1 := unlock_stop cc (h_name h) st in
        match cs_crashed st1 with
        | Some _ => st1
        | None => let st3 := mark_unl j (unlock_rpc j h st1) in emit (TUnlockRet j (now st3)) st3
        end
    end.
Proof. reflexivity. Qed.

Lemma ren_frame_ext_l adv J st0 st st' :
  cs_srv st0 = cs_srv st → cs_map st0 = cs_map st → cs_holds st0 = cs_holds st → cs_crashed st0 = cs_crashed st →
  cs_closed st0 = cs_closed st → cs_parked st0 = cs_parked st → cs_ncomp st0 = cs_ncomp st → cs_trace st0 = cs_trace st →
  ren_frame adv J st st' → ren_frame adv J st0 st'.
Proof.
  destruct st0, st. cbn. intros -> -> -> -> -> -> -> ->. done.
Qed.

Lemma unlock_stop_map cc name st :
  cs_map (unlock_stop cc name st) = if cc_noauto cc then cs_map st else delete name (cs_map st).
Proof.
  unfold unlock_stop. destruct (cc_noauto cc); [done|]. destruct (cs_map st !! name) eqn:E.
  - by rewrite (rf_map _ _ _ _ (stop_renewer_frame false _ _)).
  - by rewrite delete_notin.
Qed.

(** apart from the deletion in renewMap, [unlock_stop] is a frame on the renewer filed under the name *)
Lemma unlock_stop_frame adv cc name st :
  ren_frame adv (λ i, cc_noauto cc = false ∧ cs_map st !! name = Some i)
    (st <| cs_map := cs_map (unlock_stop cc name st) |>) (unlock_stop cc name st).
Proof.
  rewrite unlock_stop_map. unfold unlock_stop. destruct (cc_noauto cc) eqn:Hna.
  { eapply ren_frame_ext_l; [..|apply ren_frame_refl]; done. }
  destruct (cs_map st !! name) as [i|] eqn:E.
  - eapply ren_frame_weaken; [..|apply stop_renewer_frame]; [done|]. by intros ? <-.
  - eapply ren_frame_ext_l; [..|apply ren_frame_refl]; try done. cbn. by rewrite delete_notin.
Qed.

Lemma unlock_stop_srv cc name st : cs_srv (unlock_stop cc name st) = cs_srv st.
Proof. unfold unlock_stop. repeat case_match; rewrite ?stop_renewer_srv; done. Qed.

Lemma unlock_stop_crashed cc name st c : cs_crashed st = None → cs_crashed (unlock_stop cc name st) = Some c →
  ∃ i r, cc_noauto cc = false ∧ cs_map st !! name = Some i ∧ c = CrSendClosed i ∧ ren_of st i = Some r ∧ r_pc r = PExited.
Proof.
  intros Hn. unfold unlock_stop. destruct (cc_noauto cc); [congruence|].
  destruct (cs_map st !! name) as [i|]; [|congruence]. rewrite stop_renewer_crashed.
  change (ren_of (st <| cs_map := delete name (cs_map st) |>) i) with (ren_of st i).
  change (cs_crashed (st <| cs_map := delete name (cs_map st) |>)) with (cs_crashed st).
  destruct (ren_of st i) as [r|] eqn:Hr; [|congruence]. destruct (r_pc r) eqn:Hp; try congruence.
  intros [= <-]. exists i, r. done.
Qed.

(** the Unlock RPC: cs_srv (one EUnlock of the hold's (name, key)) and the trace *)
Lemma unlock_rpc_spec j h st1 :
  ∃ s2, cs_srv (unlock_rpc j h st1) = s2 ∧ cs_holds (unlock_rpc j h st1) = cs_holds st1 ∧
    cs_map (unlock_rpc j h st1) = cs_map st1 ∧ cs_crashed (unlock_rpc j h st1) = cs_crashed st1 ∧
    cs_closed (unlock_rpc j h st1) = cs_closed st1 ∧ cs_parked (unlock_rpc j h st1) = cs_parked st1 ∧
    cs_ncomp (unlock_rpc j h st1) = cs_ncomp st1 ∧ cs_trace st1 `prefix_of` cs_trace (unlock_rpc j h st1) ∧
    (s2 = cs_srv st1 ∨ cs_closed st1 = false ∧ s2 = fst (srv_event (EUnlock (Some csid) (h_name h) (h_key h)) (cs_srv st1))) ∧
    (nowait st1 →
       st_now s2 = now st1 ∧ st_waiters s2 = [] ∧ (timers_wf (cs_srv st1) → timers_wf s2) ∧
       (∀ n k, (n, k) ≠ (h_name h, h_key h) → tmr s2 n k = tmr (cs_srv st1) n k) ∧
       (∀ n k, (n, k) ≠ (h_name h, h_key h) → hld (cs_srv st1) n k → hld s2 n k)).
Proof.
  unfold unlock_rpc. destruct (cs_closed st1) eqn:Hc.
  { eexists; split; [reflexivity|]. cbn. split_and!; try done; try (by apply prefix_app_r); try (by left). }
  destruct (srv_event _ _) as [srv' outs] eqn:Hs.
  assert (nowait st1 →
       st_now srv' = now st1 ∧ st_waiters srv' = [] ∧ (timers_wf (cs_srv st1) → timers_wf srv') ∧
       (∀ n k, (n, k) ≠ (h_name h, h_key h) → tmr srv' n k = tmr (cs_srv st1) n k) ∧
       (∀ n k, (n, k) ≠ (h_name h, h_key h) → hld (cs_srv st1) n k → hld srv' n k)) as Hf.
  { intros Hw. exact (sf_unlock srv_facts_hold _ _ _ _ _ _ Hs Hw). }
  exists srv'. destruct (last outs) as [[[| |]| | | | | |]|]; cbn; split_and!; try done; try (by right);
    by apply prefix_app_r.
Qed.

Lemma unlock_rpc_frame adv J j h st1 : ren_frame adv J st1 (unlock_rpc j h st1).
Proof.
  destruct (unlock_rpc_spec j h st1) as (s2 & E1 & E2 & E3 & E4 & E5 & E6 & E7 & E8 & _ & Hf).
  constructor; try done.
  - rewrite E2. reflexivity.
  - by rewrite E2.
  - intros c. rewrite E4. by left.
  - intros Hw. unfold nowait. rewrite E1. by apply Hf.
  - intros Hw. rewrite E1. by apply Hf.
  - intros Hw. destruct (Hf Hw) as (F & _). unfold now in *. rewrite E1, F. by destruct adv.
Qed.

Lemma mark_unl_holds j st i :
  cs_holds (mark_unl j st) !! i =
    if decide (j = i) then (λ h, h <| h_unl := true |>) <$> cs_holds st !! i else cs_holds st !! i.
Proof.
  unfold mark_unl. destruct (cs_holds st !! j) as [h|] eqn:E.
  - cbn. destruct (decide (j = i)) as [<-|Hne].
    + rewrite list_lookup_insert by (eapply lookup_lt_Some; eauto). by rewrite E.
    + by rewrite list_lookup_insert_ne.
  - destruct (decide (j = i)) as [<-|]; [by rewrite E|done].
Qed.

Lemma mark_unl_other j st :
  cs_srv (mark_unl j st) = cs_srv st ∧ cs_map (mark_unl j st) = cs_map st ∧ cs_crashed (mark_unl j st) = cs_crashed st ∧
  cs_closed (mark_unl j st) = cs_closed st ∧ cs_parked (mark_unl j st) = cs_parked st ∧
  cs_trace (mark_unl j st) = cs_trace st ∧ cs_ncomp (mark_unl j st) = cs_ncomp st.
Proof. unfold mark_unl. destruct (cs_holds st !! j); done. Qed.

Lemma mark_unl_le j st : Forall2 hold_le (cs_holds st) (cs_holds (mark_unl j st)).
Proof.
  unfold mark_unl. destruct (cs_holds st !! j) as [h|] eqn:E; [|reflexivity]. cbn.
  rewrite <- (list_insert_id (cs_holds st) j h) at 1 by done.
  apply Forall2_insert; [reflexivity|]. destruct h. unfold hold_le, exit_mono. cbn. split_and!; eauto.
Qed.

(** ** Unlock run in steps: [do_unlock_begin] = emit ; unlock_stop ; mark_unl, [do_unlock_send] = unlock_rpc,
       [do_unlock_end] = emit *)

Lemma do_unlock_begin_eq cc j st :
  do_unlock_begin cc j st =
    match cs_holds st !! j with
    | None => st
    | Some h =>
        if negb (h_locked h) then st else
        let st1 := unlock_stop cc (h_name h) (emit (TUnlockCall j (now st)) st) in
        match cs_crashed st1 with
        | Some _ => st1
        | None => mark_unl j st1
        end
    end.
Proof. reflexivity. Qed.

Lemma do_unlock_send_eq j st :
  do_unlock_send j st =
    match cs_holds st !! j with
    | None => st
    | Some h => if negb (h_locked h) then st else unlock_rpc j h st
    end.
Proof. reflexivity. Qed.

Lemma do_unlock_end_eq j st :
  do_unlock_end j st =
    match cs_holds st !! j with
    | None => st
    | Some h => if negb (h_locked h) then st else emit (TUnlockRet j (now st)) st
    end.
Proof. reflexivity. Qed.

(** on a hold that does not exist or was not granted the three steps do nothing (Lock.Unlock: ErrLockNotLocked) *)
Lemma do_unlock_begin_noop cc j st :
  (∀ h, cs_holds st !! j = Some h → h_locked h = false) → do_unlock_begin cc j st = st.
Proof.
  intros H. rewrite do_unlock_begin_eq. destruct (cs_holds st !! j) as [h|]; [|done]. by rewrite (H h eq_refl).
Qed.
Lemma do_unlock_send_noop j st :
  (∀ h, cs_holds st !! j = Some h → h_locked h = false) → do_unlock_send j st = st.
Proof.
  intros H. rewrite do_unlock_send_eq. destruct (cs_holds st !! j) as [h|]; [|done]. by rewrite (H h eq_refl).
Qed.
Lemma do_unlock_end_noop j st :
  (∀ h, cs_holds st !! j = Some h → h_locked h = false) → do_unlock_end j st = st.
Proof.
  intros H. rewrite do_unlock_end_eq. destruct (cs_holds st !! j) as [h|]; [|done]. by rewrite (H h eq_refl).
Qed.

(** on a granted hold *)
Lemma do_unlock_begin_locked cc j st h : cs_holds st !! j = Some h → h_locked h = true →
  do_unlock_begin cc j st =
    let st1 := unlock_stop cc (h_name h) (emit (TUnlockCall j (now st)) st) in
    match cs_crashed st1 with
    | Some _ => st1
    | None => mark_unl j st1
    end.
Proof. intros Hh Hl. rewrite do_unlock_begin_eq, Hh, Hl. reflexivity. Qed.
Lemma do_unlock_send_locked j st h : cs_holds st !! j = Some h → h_locked h = true →
  do_unlock_send j st = unlock_rpc j h st.
Proof. intros Hh Hl. rewrite do_unlock_send_eq, Hh, Hl. reflexivity. Qed.
Lemma do_unlock_end_locked j st h : cs_holds st !! j = Some h → h_locked h = true →
  do_unlock_end j st = emit (TUnlockRet j (now st)) st.
Proof. intros Hh Hl. rewrite do_unlock_end_eq, Hh, Hl. reflexivity. Qed.

(** *** do_unlock_begin *)

(** Stop() and the trace *)
Lemma stop_renewer_trace_eq j st :
  cs_trace (stop_renewer j st) =
    match ren_of st j with
    | Some r => match r_pc r with
                | PExited => cs_trace st ++ [TCrash (CrSendClosed j) (now st)]
                | _ => cs_trace st
                end
    | None => cs_trace st
    end.
Proof.
  unfold stop_renewer. destruct (ren_of st j) as [r|] eqn:Hr; [|done].
  destruct (r_pc r) eqn:Hp; rewrite ?set_ren_trace; done.
Qed.

(** maybeRemoveRenewer and the trace: nothing, or the panic of Stop() on a goroutine that has returned *)
Lemma unlock_stop_trace_cases cc name st :
  cs_trace (unlock_stop cc name st) = cs_trace st ∧ cs_crashed (unlock_stop cc name st) = cs_crashed st ∨
  ∃ i r, cc_noauto cc = false ∧ cs_map st !! name = Some i ∧ ren_of st i = Some r ∧ r_pc r = PExited ∧
         cs_crashed (unlock_stop cc name st) = Some (CrSendClosed i) ∧
         cs_trace (unlock_stop cc name st) = cs_trace st ++ [TCrash (CrSendClosed i) (now st)].
Proof.
  unfold unlock_stop. destruct (cc_noauto cc); [by left|].
  destruct (cs_map st !! name) as [i|]; [|by left].
  rewrite stop_renewer_trace_eq, stop_renewer_crashed.
  change (ren_of (st <| cs_map := delete name (cs_map st) |>) i) with (ren_of st i).
  destruct (ren_of st i) as [r|] eqn:Hr; [|by left].
  destruct (r_pc r) eqn:Hp; try (by left). right. exists i, r. done.
Qed.

(** the first two phases of [do_unlock_begin]: apart from the deletion in renewMap, a frame on the renewer filed under
    the name (the trace grows by the call event and possibly the panic) *)
Lemma unlock_begin_stop_frame adv cc name e st :
  ren_frame adv (λ i, cc_noauto cc = false ∧ cs_map st !! name = Some i)
    (st <| cs_map := cs_map (unlock_stop cc name st) |>) (unlock_stop cc name (emit e st)).
Proof.
  eapply ren_frame_trans; [apply (frame_emit adv _ e)|].
  eapply ren_frame_ext_l; [..|apply (unlock_stop_frame adv cc name (emit e st))]; try done.
  cbn. by rewrite !unlock_stop_map.
Qed.

(** [do_unlock_begin] as a whole: a frame on the stopped renewer (from the state with the renewMap entry of the hold's
    name deleted), then — unless Stop() panicked — the ghost flag of hold j *)
Lemma do_unlock_begin_frame adv cc j st :
  ∃ st1,
    ren_frame adv (λ i, cc_noauto cc = false ∧ ∃ h, cs_holds st !! j = Some h ∧ cs_map st !! h_name h = Some i)
      (st <| cs_map := cs_map (do_unlock_begin cc j st) |>) st1 ∧
    (do_unlock_begin cc j st = st1 ∨ cs_crashed st1 = None ∧ do_unlock_begin cc j st = mark_unl j st1).
Proof.
  rewrite do_unlock_begin_eq. destruct (cs_holds st !! j) as [h|] eqn:Hh.
  2: { exists st. split; [|by left]. eapply ren_frame_ext_l; [..|apply ren_frame_refl]; done. }
  destruct (h_locked h); cbn [negb]; cbv zeta.
  2: { exists st. split; [|by left]. eapply ren_frame_ext_l; [..|apply ren_frame_refl]; done. }
  set (st1 := unlock_stop cc (h_name h) (emit (TUnlockCall j (now st)) st)). exists st1. split.
  - assert (cs_map (match cs_crashed st1 with Some _ => st1 | None => mark_unl j st1 end)
            = cs_map (unlock_stop cc (h_name h) st)) as ->.
    { destruct (cs_crashed st1); [|rewrite (proj1 (proj2 (mark_unl_other j st1)))];
        unfold st1; by rewrite !unlock_stop_map. }
    eapply ren_frame_weaken; [..|apply unlock_begin_stop_frame]; [done|]. intros i [? ?]. eauto.
  - destruct (cs_crashed st1) eqn:Hc; [by left|by right].
Qed.

Lemma do_unlock_begin_srv cc j st : cs_srv (do_unlock_begin cc j st) = cs_srv st.
Proof.
  rewrite do_unlock_begin_eq. destruct (cs_holds st !! j) as [h|]; [|done]. destruct (h_locked h); [|done].
  cbn [negb]. cbv zeta. destruct (cs_crashed _); [|rewrite (proj1 (mark_unl_other _ _))]; by rewrite unlock_stop_srv.
Qed.

Lemma do_unlock_begin_now cc j st : now (do_unlock_begin cc j st) = now st.
Proof. unfold now. by rewrite do_unlock_begin_srv. Qed.

(** renewMap: the entry under the hold's name is deleted *)
Lemma do_unlock_begin_map cc j st :
  cs_map (do_unlock_begin cc j st) =
    match cs_holds st !! j with
    | Some h => if h_locked h && negb (cc_noauto cc) then delete (h_name h) (cs_map st) else cs_map st
    | None => cs_map st
    end.
Proof.
  rewrite do_unlock_begin_eq. destruct (cs_holds st !! j) as [h|]; [|done]. destruct (h_locked h); [|done].
  cbn [negb andb]. cbv zeta.
  destruct (cs_crashed _); [|rewrite (proj1 (proj2 (mark_unl_other _ _)))]; rewrite unlock_stop_map;
    by destruct (cc_noauto cc).
Qed.

(** what does not change at all; the trace only grows *)
Lemma do_unlock_begin_other cc j st :
  cs_srv (do_unlock_begin cc j st) = cs_srv st ∧ cs_closed (do_unlock_begin cc j st) = cs_closed st ∧
  cs_parked (do_unlock_begin cc j st) = cs_parked st ∧ cs_ncomp (do_unlock_begin cc j st) = cs_ncomp st ∧
  length (cs_holds (do_unlock_begin cc j st)) = length (cs_holds st) ∧
  cs_trace st `prefix_of` cs_trace (do_unlock_begin cc j st).
Proof.
  split; [apply do_unlock_begin_srv|].
  destruct (do_unlock_begin_frame false cc j st) as (st1 & F & [->|[_ ->]]).
  - split_and!; [apply (rf_closed _ _ _ _ F)|apply (rf_parked _ _ _ _ F)|apply (rf_ncomp _ _ _ _ F)|
                 apply (frame_length _ _ _ _ F)|apply (rf_trace _ _ _ _ F)].
  - destruct (mark_unl_other j st1) as (_ & _ & _ & -> & -> & -> & ->).
    rewrite <- (Forall2_length _ _ _ (mark_unl_le j st1)).
    split_and!; [apply (rf_closed _ _ _ _ F)|apply (rf_parked _ _ _ _ F)|apply (rf_ncomp _ _ _ _ F)|
                 apply (frame_length _ _ _ _ F)|apply (rf_trace _ _ _ _ F)].
Qed.

(** the holds that are neither hold j nor the one whose renewer is filed under its name are untouched *)
Lemma do_unlock_begin_holds_other cc j st i : i ≠ j →
  (∀ h, cc_noauto cc = false → cs_holds st !! j = Some h → cs_map st !! h_name h ≠ Some i) →
  cs_holds (do_unlock_begin cc j st) !! i = cs_holds st !! i.
Proof.
  intros Hne Hi. destruct (do_unlock_begin_frame false cc j st) as (st1 & F & [->|[_ ->]]).
  - rewrite (rf_others _ _ _ _ F); [done|]. intros (Hna & h & Hh & Hm). by apply (Hi h).
  - rewrite mark_unl_holds, decide_False by done.
    rewrite (rf_others _ _ _ _ F); [done|]. intros (Hna & h & Hh & Hm). by apply (Hi h).
Qed.

(** the trace: nothing (no such granted hold), the call event, or the call event and the panic of Stop() *)
Lemma do_unlock_begin_trace cc j st :
  do_unlock_begin cc j st = st ∨
  ∃ h, cs_holds st !! j = Some h ∧ h_locked h = true ∧
    (cs_crashed (do_unlock_begin cc j st) = cs_crashed st ∧
     cs_trace (do_unlock_begin cc j st) = cs_trace st ++ [TUnlockCall j (now st)] ∨
     ∃ i r, cc_noauto cc = false ∧ cs_map st !! h_name h = Some i ∧ ren_of st i = Some r ∧ r_pc r = PExited ∧
          cs_crashed (do_unlock_begin cc j st) = Some (CrSendClosed i) ∧
          cs_trace (do_unlock_begin cc j st) = cs_trace st ++ [TUnlockCall j (now st); TCrash (CrSendClosed i) (now st)]).
Proof.
  rewrite do_unlock_begin_eq. destruct (cs_holds st !! j) as [h|] eqn:Hh; [|by left].
  destruct (h_locked h) eqn:Hl; [|by left]. cbn [negb]. cbv zeta. right. exists h. split_and!; try done.
  set (st0 := emit (TUnlockCall j (now st)) st).
  destruct (unlock_stop_trace_cases cc (h_name h) st0) as [[T C]|(i & r & Hna & Hm & Hr & Hp & C & T)].
  - left. destruct (cs_crashed (unlock_stop cc (h_name h) st0)) eqn:Hc.
    + split; [rewrite Hc; exact C|exact T].
    + destruct (mark_unl_other j (unlock_stop cc (h_name h) st0)) as (_ & _ & -> & _ & _ & -> & _).
      split; [rewrite Hc; exact C|exact T].
  - right. exists i, r. rewrite C. split_and!; try done. rewrite T. cbn. by rewrite <- app_assoc.
Qed.

(** a panic in [do_unlock_begin]: Stop() on the renewer filed under the hold's name, whose goroutine has returned *)
Lemma do_unlock_begin_crashed cc j st c : cs_crashed st = None → cs_crashed (do_unlock_begin cc j st) = Some c →
  ∃ h i r, cs_holds st !! j = Some h ∧ cc_noauto cc = false ∧ cs_map st !! h_name h = Some i ∧ c = CrSendClosed i ∧
           ren_of st i = Some r ∧ r_pc r = PExited.
Proof.
  intros Hn. rewrite do_unlock_begin_eq. destruct (cs_holds st !! j) as [h|] eqn:Hh; [|congruence].
  destruct (h_locked h); [|cbn; congruence]. cbn [negb]. cbv zeta.
  destruct (cs_crashed (unlock_stop cc (h_name h) (emit (TUnlockCall j (now st)) st))) as [c'|] eqn:Hc.
  - rewrite Hc. intros [= <-]. apply unlock_stop_crashed in Hc as (i & r & H); [|done]. exists h, i, r. tauto.
  - destruct (mark_unl_other j (unlock_stop cc (h_name h) (emit (TUnlockCall j (now st)) st))) as (_ & _ & -> & _).
    congruence.
Qed.

Lemma do_unlock_begin_le cc j st : Forall2 hold_le (cs_holds st) (cs_holds (do_unlock_begin cc j st)).
Proof.
  destruct (do_unlock_begin_frame false cc j st) as (st1 & F & [->|[_ ->]]).
  - apply (Forall2_impl _ _ _ _ (rf_holds _ _ _ _ F)), hold_sim_le.
  - etrans; [|apply mark_unl_le]. apply (Forall2_impl _ _ _ _ (rf_holds _ _ _ _ F)), hold_sim_le.
Qed.

(** unless Stop() panicked the ghost flag of hold j is set when the call begins *)
Lemma do_unlock_begin_unl cc j st h : cs_holds st !! j = Some h → h_locked h = true →
  cs_crashed (do_unlock_begin cc j st) = None →
  ∃ h', cs_holds (do_unlock_begin cc j st) !! j = Some h' ∧ h_unl h' = true ∧ hold_le h h'.
Proof.
  intros Hh Hl Hc. pose proof (do_unlock_begin_le cc j st) as LE.
  destruct (Forall2_lookup_l _ _ _ _ _ LE Hh) as (h' & Hh' & L). exists h'. split_and!; try done.
  rewrite (do_unlock_begin_locked cc j st h Hh Hl) in Hc, Hh'. cbv zeta in Hc, Hh'.
  destruct (cs_crashed (unlock_stop _ _ _)) eqn:Hc1; [congruence|].
  rewrite mark_unl_holds, decide_True in Hh' by done.
  revert Hh'. destruct (cs_holds (unlock_stop _ _ _) !! j); [|done]. cbn. by intros [= <-].
Qed.

(** *** do_unlock_send: cs_srv (one EUnlock of the hold's (name, key)) and the trace *)

Lemma do_unlock_send_frame adv J j st : ren_frame adv J st (do_unlock_send j st).
Proof.
  rewrite do_unlock_send_eq. destruct (cs_holds st !! j) as [h|]; [|apply ren_frame_refl].
  destruct (h_locked h); cbn [negb]; [apply unlock_rpc_frame|apply ren_frame_refl].
Qed.

Lemma do_unlock_send_holds j st : cs_holds (do_unlock_send j st) = cs_holds st.
Proof.
  rewrite do_unlock_send_eq. destruct (cs_holds st !! j) as [h|]; [|done]. destruct (h_locked h); [|done]. cbn [negb].
  by destruct (unlock_rpc_spec j h st) as (s2 & _ & -> & _).
Qed.

Lemma do_unlock_send_crashed j st : cs_crashed (do_unlock_send j st) = cs_crashed st.
Proof.
  rewrite do_unlock_send_eq. destruct (cs_holds st !! j) as [h|]; [|done]. destruct (h_locked h); [|done]. cbn [negb].
  by destruct (unlock_rpc_spec j h st) as (s2 & _ & _ & _ & -> & _).
Qed.

Lemma do_unlock_send_map j st : cs_map (do_unlock_send j st) = cs_map st.
Proof. apply (rf_map _ _ _ _ (do_unlock_send_frame false (λ _, False) j st)). Qed.

(** the server state after [do_unlock_send]: unchanged, or one EUnlock of the hold's (name, key) *)
Lemma do_unlock_send_srv j st :
  cs_srv (do_unlock_send j st) = cs_srv st ∨
  ∃ h, cs_holds st !! j = Some h ∧ h_locked h = true ∧ cs_closed st = false ∧
    cs_srv (do_unlock_send j st) = fst (srv_event (EUnlock (Some csid) (h_name h) (h_key h)) (cs_srv st)).
Proof.
  rewrite do_unlock_send_eq. destruct (cs_holds st !! j) as [h|] eqn:Hh; [|by left].
  destruct (h_locked h) eqn:Hl; [|by left]. cbn [negb].
  destruct (unlock_rpc_spec j h st) as (s2 & -> & _ & _ & _ & _ & _ & _ & _ & [->|[Hc ->]] & _); [by left|right].
  exists h. done.
Qed.

Lemma do_unlock_send_le j st : Forall2 hold_le (cs_holds st) (cs_holds (do_unlock_send j st)).
Proof. rewrite do_unlock_send_holds. reflexivity. Qed.

(** *** do_unlock_end: only the trace *)

Lemma do_unlock_end_frame adv J j st : ren_frame adv J st (do_unlock_end j st).
Proof.
  rewrite do_unlock_end_eq. destruct (cs_holds st !! j) as [h|]; [|apply ren_frame_refl].
  destruct (h_locked h); cbn [negb]; [apply frame_emit|apply ren_frame_refl].
Qed.

Lemma do_unlock_end_other j st :
  cs_srv (do_unlock_end j st) = cs_srv st ∧ cs_map (do_unlock_end j st) = cs_map st ∧
  cs_holds (do_unlock_end j st) = cs_holds st ∧ cs_crashed (do_unlock_end j st) = cs_crashed st ∧
  cs_closed (do_unlock_end j st) = cs_closed st ∧ cs_parked (do_unlock_end j st) = cs_parked st ∧
  cs_ncomp (do_unlock_end j st) = cs_ncomp st.
Proof.
  rewrite do_unlock_end_eq. destruct (cs_holds st !! j) as [h|]; [|done]. by destruct (h_locked h).
Qed.

Lemma do_unlock_end_srv j st : cs_srv (do_unlock_end j st) = cs_srv st. Proof. apply do_unlock_end_other. Qed.
Lemma do_unlock_end_map j st : cs_map (do_unlock_end j st) = cs_map st. Proof. apply do_unlock_end_other. Qed.
Lemma do_unlock_end_holds j st : cs_holds (do_unlock_end j st) = cs_holds st. Proof. apply do_unlock_end_other. Qed.
Lemma do_unlock_end_crashed j st : cs_crashed (do_unlock_end j st) = cs_crashed st. Proof. apply do_unlock_end_other. Qed.

Lemma do_unlock_end_trace j st :
  cs_trace (do_unlock_end j st) =
    match cs_holds st !! j with
    | Some h => if h_locked h then cs_trace st ++ [TUnlockRet j (now st)] else cs_trace st
    | None => cs_trace st
    end.
Proof.
  rewrite do_unlock_end_eq. destruct (cs_holds st !! j) as [h|]; [|done]. by destruct (h_locked h).
Qed.

Lemma do_unlock_end_le j st : Forall2 hold_le (cs_holds st) (cs_holds (do_unlock_end j st)).
Proof. rewrite do_unlock_end_holds. reflexivity. Qed.

(** ** Lock / TryLock *)

(** the call was answered: trace, the new table entry, newRenewer + LoadOrStore *)
Definition acquire_answered (cc : ccfg) (k : rpckind) (j : nat) (name : str) (T : Z) (st : cstate)
    (srv' : sstate) (locked : bool) (key : str) (e : option err) : cstate :=
  let st1 := emit (TRpc k j name key T (now st) locked e) (st <| cs_srv := srv' |>) in
  if locked && negb (cc_noauto cc) && negb (T =? 0) then
    let r := Renewer (PSleep (now st + interval T * second)) None (now st) false in
    let st2 := st1 <| cs_holds := cs_holds st1 ++ [Hold name key T true false (Some r)] |> in
    match cs_map st !! name with
    | Some _ => do_crash (CrOutOfSync j) st2
    | None => st2 <| cs_map := <[name := j]> (cs_map st2) |>
    end
  else st1 <| cs_holds := cs_holds st1 ++ [Hold name key T locked false None] |>.

Lemma do_acquire_cases cc (b : bool) name T size st :
  let j := length (cs_holds st) in
  let k := if b then KLock else KTryLock in
  (cs_closed st = true ∧
   do_acquire cc b name T size st
     = emit (TRpcFail k j (now st)) (st <| cs_holds := cs_holds st ++ [Hold name [] T false false None] |>)) ∨
  (cs_closed st = false ∧ do_acquire cc b name T size st = emit (TParked j (now st)) (st <| cs_parked := true |>)) ∨
  (cs_closed st = false ∧ ∃ srv' locked key e rest,
     srv_event (acquire_event b j name T size) (cs_srv st) = (srv', OResp (RLock locked key e) :: rest) ∧
     do_acquire cc b name T size st = acquire_answered cc k j name T st srv' locked key e).
Proof.
  intros j k. unfold do_acquire. fold j. fold k. destruct (cs_closed st) eqn:Hc; [by left|right].
  destruct (srv_event _ _) as [srv' outs] eqn:Hs.
  destruct outs as [|[[locked key e| |]| | | | | |] rest]; try (by left).
  right. split; [done|]. exists srv', locked, key, e, rest. done.
Qed.

(** what the server did for an answered Lock / TryLock of hold j *)
Lemma acquire_event_facts b j name T size s s' locked key e rest :
  srv_event (acquire_event b j name T size) s = (s', OResp (RLock locked key e) :: rest) →
  st_now s' = st_now s ∧ st_waiters s' = st_waiters s ∧ (timers_wf s → timers_wf s') ∧
  (∀ n k, (n, k) ≠ (name, key_of j) → tmr s' n k = tmr s n k) ∧
  (∀ n k, hld s n k → hld s' n k) ∧
  (locked = true →
     key = key_of j ∧ hld s' name (key_of j) ∧
     ∀ t, optpos T = Some t → 0 < t → tmr s' name (key_of j) = Some (Timer (st_now s + t * second) name (key_of j) csid)).
Proof.
  destruct b; cbn [acquire_event]; intros H.
  - apply (sf_lock srv_facts_hold) in H. exact H.
  - apply (sf_trylock srv_facts_hold) in H as (H1 & H2 & H3 & H4 & H5 & H6). split_and!; auto.
    intros ->. apply (H6 _ _ _ eq_refl).
Qed.

(** the fields of the answered state *)
Lemma acquire_answered_fields cc k j name T st srv' locked key e :
  let st' := acquire_answered cc k j name T st srv' locked key e in
  let auto := locked && negb (cc_noauto cc) && negb (T =? 0) in
  ∃ hn, cs_holds st' = cs_holds st ++ [hn] ∧
    h_name hn = name ∧ h_key hn = key ∧ h_T hn = T ∧ h_locked hn = (locked || auto) ∧ h_unl hn = false ∧
    (h_ren hn ≠ None ↔ auto = true) ∧
    (auto = true → h_ren hn = Some (Renewer (PSleep (now st + interval T * second)) None (now st) false)) ∧
    cs_srv st' = srv' ∧ cs_closed st' = cs_closed st ∧ cs_parked st' = cs_parked st ∧ cs_ncomp st' = cs_ncomp st ∧
    (if auto then
       match cs_map st !! name with
       | Some _ => cs_map st' = cs_map st ∧ cs_crashed st' = Some (CrOutOfSync j)
       | None => cs_map st' = <[name := j]> (cs_map st) ∧ cs_crashed st' = cs_crashed st
       end
     else cs_map st' = cs_map st ∧ cs_crashed st' = cs_crashed st).
Proof.
  intros st' auto. unfold st', acquire_answered. fold auto. destruct auto eqn:Ha.
  - destruct (cs_map st !! name) eqn:Hm; cbn; eexists; (split; [reflexivity|]); cbn; split_and!; try done.
    all: by rewrite orb_true_r.
  - cbn. eexists; (split; [reflexivity|]); cbn; split_and!; try done. by rewrite orb_false_r.
Qed.

(** * The structural invariant [basic] *)

Lemma basic_srv cc st st' :
  cs_map st' = cs_map st → cs_holds st' = cs_holds st → st_waiters (cs_srv st') = [] → timers_wf (cs_srv st') →
  basic cc st → basic cc st'.
Proof. intros E2 E3 W T [B1 B2 B3 B4 B5 B6]. constructor; rewrite ?E2, ?E3; done. Qed.

Lemma basic_ext cc st st' :
  cs_srv st' = cs_srv st → cs_map st' = cs_map st → cs_holds st' = cs_holds st → basic cc st → basic cc st'.
Proof. intros E1 E2 E3 B. apply (basic_srv cc st); rewrite ?E1; try done; apply B. Qed.

Lemma basic_frame cc adv J st st' : ren_frame adv J st st' → basic cc st → basic cc st'.
Proof.
  intros F [B1 B2 B3 B4 B5 B6]. constructor.
  - by rewrite (rf_map _ _ _ _ F).
  - by apply (rf_waiters _ _ _ _ F).
  - by apply (rf_twf _ _ _ _ F).
  - intros j h' Hh' Hl. destruct (frame_lookup_rev _ _ _ _ _ _ F Hh') as (h & Hh & ((Hs & _) & _)).
    apply static_eq in Hs as (S1 & S2 & S3 & S4). rewrite S2. apply B4; [done|congruence].
  - intros j h' Hh' Hr. destruct (frame_lookup_rev _ _ _ _ _ _ F Hh') as (h & Hh & ((Hs & _ & Hn & _) & _)).
    apply static_eq in Hs as (S1 & S2 & S3 & S4). rewrite S3, S4. apply (B5 j h); [done|tauto].
  - intros name i. rewrite (rf_map _ _ _ _ F). intros Hm.
    destruct (B6 _ _ Hm) as (h & Hh & P1 & P2 & P3 & P4 & P5).
    destruct (frame_lookup _ _ _ _ _ _ F Hh) as (h' & Hh' & ((Hs & _ & Hn & _) & Hu)).
    apply static_eq in Hs as (S1 & S2 & S3 & S4). exists h'. split_and!; try congruence. tauto.
Qed.

Lemma basic_delete cc name st : basic cc st → basic cc (st <| cs_map := delete name (cs_map st) |>).
Proof.
  intros [B1 B2 B3 B4 B5 B6]. constructor; cbn; auto.
  - intros Hn. rewrite (B1 Hn). apply delete_empty.
  - intros n i [_ Hm]%lookup_delete_Some. auto.
Qed.

Lemma basic_unlock_stop cc name st : basic cc st →
  basic cc (unlock_stop cc name st) ∧ cs_map (unlock_stop cc name st) !! name = None.
Proof.
  intros B. split.
  - eapply basic_frame; [apply (unlock_stop_frame false)|]. rewrite unlock_stop_map.
    destruct (cc_noauto cc); [|by apply basic_delete]. eapply basic_ext; [..|exact B]; done.
  - rewrite unlock_stop_map. destruct (cc_noauto cc) eqn:Hn.
    + rewrite (b_noauto _ _ B Hn). apply lookup_empty.
    + apply lookup_delete.
Qed.

Lemma basic_mark_unl cc j st : basic cc st →
  (∀ h, cs_holds st !! j = Some h → cs_map st !! h_name h = None) → basic cc (mark_unl j st).
Proof.
  intros [B1 B2 B3 B4 B5 B6] Hj. destruct (mark_unl_other j st) as (E1 & E2 & _).
  constructor; rewrite ?E1, ?E2; try done.
  - intros i h'. rewrite mark_unl_holds. destruct (decide (j = i)) as [<-|]; [|apply B4].
    destruct (cs_holds st !! j) as [h|] eqn:E; [|done]. cbn. intros [= <-]. cbn. by apply B4.
  - intros i h'. rewrite mark_unl_holds. destruct (decide (j = i)) as [<-|]; [|apply (B5 i)].
    destruct (cs_holds st !! j) as [h|] eqn:E; [|done]. cbn. intros [= <-]. cbn. by apply (B5 j h).
  - intros name i Hm. destruct (B6 _ _ Hm) as (h & Hh & P1 & P2 & P3 & P4 & P5). exists h.
    split_and!; try done. rewrite mark_unl_holds. destruct (decide (j = i)) as [<-|]; [|done].
    exfalso. specialize (Hj _ Hh). congruence.
Qed.

(** a new entry at the end of the table, and possibly its renewMap entry *)
Lemma basic_push cc st st' hn :
  basic cc st → cs_holds st' = cs_holds st ++ [hn] →
  st_waiters (cs_srv st') = [] → timers_wf (cs_srv st') →
  (h_locked hn = true → h_key hn = key_of (length (cs_holds st))) →
  (h_ren hn ≠ None → h_locked hn = true ∧ h_T hn ≠ 0) →
  (cs_map st' = cs_map st ∨
   cc_noauto cc = false ∧ cs_map st' = <[h_name hn := length (cs_holds st)]> (cs_map st) ∧
   h_locked hn = true ∧ h_unl hn = false ∧ h_T hn ≠ 0 ∧ h_ren hn ≠ None) →
  basic cc st'.
Proof.
  intros [B1 B2 B3 B4 B5 B6] Eh W T K R M.
  assert (∀ j h, cs_holds st' !! j = Some h →
            cs_holds st !! j = Some h ∨ j = length (cs_holds st) ∧ h = hn) as Hlk.
  { intros j h. rewrite Eh. intros [?|[Hj Hl]]%lookup_app_Some; [by left|right].
    destruct (j - length (cs_holds st))%nat as [|n] eqn:En; [|done]. cbn in Hl. injection Hl as <-. split; [lia|done]. }
  assert (∀ i h, cs_holds st !! i = Some h → cs_holds st' !! i = Some h) as Hup.
  { intros i h Hh. rewrite Eh. by apply lookup_app_l_Some. }
  constructor; try done.
  - intros Hn. destruct M as [->|(Hn' & _)]; [auto|congruence].
  - intros j h Hh Hl. apply Hlk in Hh as [Hh|[-> ->]]; [by apply (B4 j)|auto].
  - intros j h Hh Hr. apply Hlk in Hh as [Hh|[-> ->]]; [by apply (B5 j)|auto].
  - intros name i Hm. destruct M as [E|(_ & E & P1 & P2 & P3 & P4)]; rewrite E in Hm.
    + destruct (B6 _ _ Hm) as (h & Hh & P). exists h. split; [auto|done].
    + apply lookup_insert_Some in Hm as [[<- <-]|[Hne Hm]].
      * exists hn. split_and!; try done. rewrite Eh. by apply list_lookup_middle.
      * destruct (B6 _ _ Hm) as (h & Hh & P). exists h. split; [auto|done].
Qed.

Lemma basic_do_unlock cc j st : basic cc st → basic cc (do_unlock cc j st).
Proof.
  intros B. rewrite do_unlock_eq. destruct (cs_holds st !! j) as [h|] eqn:Hh; [|done].
  destruct (h_locked h) eqn:Hl; [|done]. cbn [negb]. cbv zeta.
  destruct (basic_unlock_stop cc (h_name h) st B) as [B1 M1].
  pose proof (unlock_stop_frame false cc (h_name h) st) as F1.
  set (st1 := unlock_stop cc (h_name h) st) in *.
  destruct (cs_crashed st1); [done|].
  pose proof (unlock_rpc_frame false (λ _, False) j h st1) as F2.
  eapply basic_ext; [..|apply basic_mark_unl]; [done..| |].
  - eapply basic_frame; [exact F2|exact B1].
  - intros h2 Hh2. rewrite (rf_map _ _ _ _ F2).
    destruct (frame_lookup_rev _ _ _ _ _ _ F2 Hh2) as (h1 & Hh1 & ((S1 & _) & _)).
    destruct (frame_lookup_rev _ _ _ _ _ _ F1 Hh1) as (h0 & Hh0 & ((S0 & _) & _)).
    cbn in Hh0. rewrite Hh in Hh0. injection Hh0 as <-.
    apply static_eq in S1 as (-> & _). apply static_eq in S0 as (-> & _). exact M1.
Qed.

Lemma basic_emit cc e st : basic cc st → basic cc (emit e st).
Proof. intros B. eapply basic_ext; [..|exact B]; done. Qed.

Lemma basic_do_unlock_begin cc j st : basic cc st → basic cc (do_unlock_begin cc j st).
Proof.
  intros B. rewrite do_unlock_begin_eq. destruct (cs_holds st !! j) as [h|] eqn:Hh; [|done].
  destruct (h_locked h) eqn:Hl; [|done]. cbn [negb]. cbv zeta.
  pose proof (basic_emit cc (TUnlockCall j (now st)) st B) as B0.
  destruct (basic_unlock_stop cc (h_name h) _ B0) as [B1 M1].
  pose proof (unlock_stop_frame false cc (h_name h) (emit (TUnlockCall j (now st)) st)) as F1.
  set (st1 := unlock_stop cc (h_name h) (emit (TUnlockCall j (now st)) st)) in *.
  destruct (cs_crashed st1); [done|].
  apply basic_mark_unl; [done|].
  intros h1 Hh1. destruct (frame_lookup_rev _ _ _ _ _ _ F1 Hh1) as (h0 & Hh0 & ((S0 & _) & _)).
  change (cs_holds st !! j = Some h0) in Hh0. rewrite Hh in Hh0. injection Hh0 as <-.
  apply static_eq in S0 as (-> & _). exact M1.
Qed.

Lemma basic_do_unlock_send cc j st : basic cc st → basic cc (do_unlock_send j st).
Proof. apply (basic_frame cc false (λ _, False)), do_unlock_send_frame. Qed.

Lemma basic_do_unlock_end cc j st : basic cc st → basic cc (do_unlock_end j st).
Proof. apply (basic_frame cc false (λ _, False)), do_unlock_end_frame. Qed.

Lemma basic_do_acquire cc b name T size st : basic cc st → basic cc (do_acquire cc b name T size st).
Proof.
  intros B. destruct (do_acquire_cases cc b name T size st) as [[Hc ->]|[[Hc ->]|(Hc & srv' & locked & key & e & rest & Hs & ->)]].
  - eapply (basic_push cc st _ (Hold name [] T false false None)); cbn; try done; try apply B. by left.
  - eapply basic_ext; [..|exact B]; done.
  - apply acquire_event_facts in Hs as (F1 & F2 & F3 & _ & _ & F6).
    destruct (acquire_answered_fields cc (if b then KLock else KTryLock) (length (cs_holds st)) name T st srv' locked key e)
      as (hn & E1 & E2 & E3 & E4 & E5 & E6 & E7 & _ & E8 & _ & _ & _ & E9).
    cbv zeta in *. set (auto := locked && negb (cc_noauto cc) && negb (T =? 0)) in *.
    assert (auto = true → locked = true ∧ cc_noauto cc = false ∧ T ≠ 0) as Ha.
    { unfold auto. destruct locked, (cc_noauto cc); cbn; try done. destruct (Z.eqb_spec T 0); done. }
    assert (h_locked hn = locked) as El.
    { rewrite E5. destruct auto; [|by rewrite orb_false_r]. destruct Ha as (-> & _); done. }
    eapply (basic_push cc st _ hn); try done.
    + rewrite E8, F2. apply B.
    + rewrite E8. apply F3, B.
    + rewrite El, E3. intros Hl. by apply F6.
    + intros Hr%E7. apply Ha in Hr as (? & ? & ?). rewrite El, E4. done.
    + destruct auto eqn:Hauto; [|left; apply E9].
      destruct (cs_map st !! name); [left; apply E9|right].
      destruct (Ha eq_refl) as (? & ? & ?). rewrite E2, El, E4, E6. split_and!; try done; [apply E9|by apply E7].
Qed.

Lemma basic_do_close cc st : basic cc st → basic cc (do_close st).
Proof.
  intros B. rewrite do_close_eq. cbv zeta.
  pose proof (basic_frame cc _ _ _ _ (stop_all_frame false (close_targets st) st) B) as B1.
  destruct (cs_crashed _); [done|]. eapply basic_ext; [..|exact B1]; done.
Qed.

Lemma basic_do_compete cc name size st : basic cc st → basic cc (do_compete name size st).
Proof.
  intros B. destruct (do_compete_spec name size st) as (s2 & g & -> & H).
  destruct (H (b_waiters _ _ B)) as (H1 & _ & H3 & _). eapply basic_srv; [..|exact B]; try done.
  apply H3, B.
Qed.

Lemma basic_init cc : basic cc cinit.
Proof.
  destruct (sf_init srv_facts_hold) as (I1 & I2 & I3 & I4). constructor; cbn; try done.
Qed.

Lemma basic_step cc st it : basic cc st → basic cc (step cc st it).
Proof.
  intros B. unfold step. destruct (cs_crashed st); [done|].
  destruct (cs_parked st && is_main_call it); [done|].
  destruct it.
  - by apply basic_do_acquire.
  - by apply basic_do_acquire.
  - by apply basic_do_unlock.
  - by apply basic_do_unlock_begin.
  - by apply basic_do_unlock_send.
  - by apply basic_do_unlock_end.
  - by apply basic_do_close.
  - eapply basic_frame; [apply do_advance_frame|done].
  - eapply basic_frame; [apply (set_arm_frame false)|done].
  - eapply basic_frame; [apply (do_step_frame false)|done].
  - by apply basic_do_compete.
  - eapply basic_ext; [..|exact B]; done.
Qed.

Lemma basic_run_from cc sched : ∀ st, basic cc st → basic cc (run_from cc st sched).
Proof.
  induction sched as [|it rest IH]; intros st B; [done|]. unfold run_from; cbn [fold_left].
  apply IH. by apply basic_step.
Qed.

Theorem t_basic : T_basic.
Proof. intros cc sched. apply basic_run_from, basic_init. Qed.
Print Assumptions t_basic.

(** * What a step does to the table of holds *)

Lemma frame_holds_le adv J st st' : ren_frame adv J st st' → Forall2 hold_le (cs_holds st) (cs_holds st').
Proof. intros F. eapply Forall2_impl; [apply F|]. apply hold_sim_le. Qed.

Lemma do_unlock_le cc j st : Forall2 hold_le (cs_holds st) (cs_holds (do_unlock cc j st)).
Proof.
  rewrite do_unlock_eq. destruct (cs_holds st !! j) as [h|] eqn:Hh; [|reflexivity].
  destruct (h_locked h); [|reflexivity]. cbn [negb]. cbv zeta.
  pose proof (frame_holds_le _ _ _ _ (unlock_stop_frame false cc (h_name h) st)) as F1. cbn in F1.
  set (st1 := unlock_stop cc (h_name h) st) in *.
  destruct (cs_crashed st1); [done|].
  pose proof (frame_holds_le _ _ _ _ (unlock_rpc_frame false (λ _, False) j h st1)) as F2.
  change (cs_holds (emit ?e ?s)) with (cs_holds s).
  etrans; [exact F1|]. etrans; [exact F2|]. apply mark_unl_le.
Qed.

Lemma do_close_sim st : Forall2 hold_sim (cs_holds st) (cs_holds (do_close st)).
Proof.
  rewrite do_close_eq. cbv zeta. pose proof (rf_holds _ _ _ _ (stop_all_frame false (close_targets st) st)) as F.
  destruct (cs_crashed _); done.
Qed.

(** the table after one step: entry by entry [hold_le], or one new entry at the end (a Lock / TryLock that was
    answered, or failed on the closed connection) *)
Lemma step_holds_cases cc st it :
  Forall2 hold_le (cs_holds st) (cs_holds (step cc st it)) ∨
  ∃ hn, cs_holds (step cc st it) = cs_holds st ++ [hn] ∧
        ∃ name T size, (it = ILock name T size ∨ it = ITryLock name T size) ∧ h_name hn = name ∧ h_T hn = T ∧ h_unl hn = false.
Proof.
  assert (∀ b name T size,
    Forall2 hold_le (cs_holds st) (cs_holds (do_acquire cc b name T size st)) ∨
    ∃ hn, cs_holds (do_acquire cc b name T size st) = cs_holds st ++ [hn] ∧ h_name hn = name ∧ h_T hn = T ∧ h_unl hn = false) as Hacq.
  { intros b name T size.
    destruct (do_acquire_cases cc b name T size st) as [[Hc ->]|[[Hc ->]|(Hc & srv' & locked & key & e & rest & Hs & ->)]].
    - right. eexists. split; [reflexivity|done].
    - left. reflexivity.
    - right. destruct (acquire_answered_fields cc (if b then KLock else KTryLock) (length (cs_holds st)) name T st srv' locked key e)
        as (hn & E1 & E2 & E3 & E4 & E5 & E6 & _). exists hn. done. }
  unfold step. destruct (cs_crashed st); [left; reflexivity|].
  destruct (cs_parked st && is_main_call it); [left; reflexivity|].
  destruct it.
  - destruct (Hacq true name T size) as [?|(hn & ? & ?)]; [by left|right]. exists hn. split; [done|]. exists name, T, size. auto.
  - destruct (Hacq false name T size) as [?|(hn & ? & ?)]; [by left|right]. exists hn. split; [done|]. exists name, T, size. auto.
  - left. apply do_unlock_le.
  - left. apply do_unlock_begin_le.
  - left. apply do_unlock_send_le.
  - left. apply do_unlock_end_le.
  - left. eapply Forall2_impl; [apply do_close_sim|apply hold_sim_le].
  - left. eapply frame_holds_le, do_advance_frame.
  - left. eapply frame_holds_le, (set_arm_frame false).
  - left. eapply frame_holds_le, (do_step_frame false).
  - left. destruct (do_compete_spec name size st) as (s2 & g & -> & _). reflexivity.
  - left. reflexivity.
Qed.

Lemma step_hold_le cc st it j h : cs_holds st !! j = Some h →
  ∃ h', cs_holds (step cc st it) !! j = Some h' ∧ hold_le h h'.
Proof.
  intros Hh. destruct (step_holds_cases cc st it) as [F|(hn & -> & _)].
  - by apply (Forall2_lookup_l _ _ _ _ _ F).
  - exists h. split; [by apply lookup_app_l_Some|reflexivity].
Qed.

Lemma step_hold_mono cc st it j h : cs_holds st !! j = Some h →
  ∃ h', cs_holds (step cc st it) !! j = Some h' ∧ static h' = static h ∧ (h_unl h = true → h_unl h' = true) ∧
        (h_ren h = None ↔ h_ren h' = None).
Proof.
  intros Hh. destruct (step_hold_le cc st it j h Hh) as (h' & Hh' & S & U & N & _). eauto.
Qed.

Lemma run_hold_le cc sched : ∀ st j h, cs_holds st !! j = Some h →
  ∃ h', cs_holds (run_from cc st sched) !! j = Some h' ∧ hold_le h h'.
Proof.
  induction sched as [|it rest IH]; intros st j h Hh.
  - exists h. split; [done|reflexivity].
  - unfold run_from; cbn [fold_left]. destruct (step_hold_le cc st it j h Hh) as (h1 & Hh1 & L1).
    destruct (IH _ _ _ Hh1) as (h' & Hh' & L'). exists h'. split; [done|by etrans].
Qed.

Lemma run_hold_mono cc st sched j h : cs_holds st !! j = Some h →
  ∃ h', cs_holds (run_from cc st sched) !! j = Some h' ∧ static h' = static h ∧ (h_unl h = true → h_unl h' = true) ∧
        (h_ren h = None ↔ h_ren h' = None).
Proof.
  intros Hh. destruct (run_hold_le cc sched st j h Hh) as (h' & Hh' & S & U & N & _). eauto.
Qed.

(** a goroutine that has returned stays returned *)
Lemma step_exited cc st it j r : ren_of st j = Some r → r_pc r = PExited →
  ∃ r', ren_of (step cc st it) j = Some r' ∧ r_pc r' = PExited.
Proof.
  unfold ren_of. destruct (cs_holds st !! j) as [h|] eqn:Hh; [|done]. cbn. intros Hr Hp.
  destruct (step_hold_le cc st it j h Hh) as (h' & -> & _ & _ & _ & X). cbn. by apply (X r).
Qed.

Lemma run_exited cc sched st j r : ren_of st j = Some r → r_pc r = PExited →
  ∃ r', ren_of (run_from cc st sched) j = Some r' ∧ r_pc r' = PExited.
Proof.
  unfold ren_of. destruct (cs_holds st !! j) as [h|] eqn:Hh; [|done]. cbn. intros Hr Hp.
  destruct (run_hold_le cc sched st j h Hh) as (h' & -> & _ & _ & _ & X). cbn. by apply (X r).
Qed.

(** * The clock. Stated for states in which nobody waits on the server (true along every run: [basic]); the
    server facts about EUnlock / EAdvance are only available there. *)

Lemma step_now cc st it : nowait st →
  now st ≤ now (step cc st it) ∧ ((∀ dt, it ≠ IAdvance dt) → now (step cc st it) = now st).
Proof.
  intros Hw.
  assert (∀ b name T size, now (do_acquire cc b name T size st) = now st) as Hacq.
  { intros b name T size.
    destruct (do_acquire_cases cc b name T size st) as [[Hc ->]|[[Hc ->]|(Hc & srv' & locked & key & e & rest & Hs & ->)]];
      [done|done|].
    apply acquire_event_facts in Hs as (F1 & _).
    destruct (acquire_answered_fields cc (if b then KLock else KTryLock) (length (cs_holds st)) name T st srv' locked key e)
      as (hn & _ & _ & _ & _ & _ & _ & _ & _ & E8 & _). unfold now. cbv zeta in E8. by rewrite E8. }
  assert (∀ st', now st' = now st → now st ≤ now st' ∧ ((∀ dt, it ≠ IAdvance dt) → now st' = now st)) as Hsame.
  { intros st' ->. split; [lia|done]. }
  unfold step. destruct (cs_crashed st); [by apply Hsame|].
  destruct (cs_parked st && is_main_call it); [by apply Hsame|].
  destruct it.
  - apply Hsame, Hacq.
  - apply Hsame, Hacq.
  - apply Hsame. rewrite do_unlock_eq. destruct (cs_holds st !! j) as [h|]; [|done].
    destruct (h_locked h); [|done]. cbn [negb]. cbv zeta.
    assert (now (unlock_stop cc (h_name h) st) = now st) as E1 by (unfold now; by rewrite unlock_stop_srv).
    destruct (cs_crashed _); [done|].
    change (now (emit ?e ?s)) with (now s). unfold now at 1. destruct (mark_unl_other j (unlock_rpc j h (unlock_stop cc (h_name h) st))) as (-> & _).
    fold (now (unlock_rpc j h (unlock_stop cc (h_name h) st))).
    rewrite (rf_now _ _ _ _ (unlock_rpc_frame false (λ _, False) j h _)); [done|].
    unfold nowait. by rewrite unlock_stop_srv.
  - apply Hsame, do_unlock_begin_now.
  - apply Hsame. by apply (rf_now _ _ _ _ (do_unlock_send_frame false (λ _, False) j st)).
  - apply Hsame. by apply (rf_now _ _ _ _ (do_unlock_end_frame false (λ _, False) j st)).
  - apply Hsame. rewrite do_close_eq. cbv zeta.
    assert (now (stop_all (close_targets st) st) = now st) as E1 by (unfold now; by rewrite stop_all_srv).
    destruct (cs_crashed _); done.
  - split; [|intros H; by destruct (H dt)]. by apply (rf_now _ _ _ _ (do_advance_frame dt st)).
  - apply Hsame. by apply (rf_now _ _ _ _ (set_arm_frame false j (Some s) st)).
  - apply Hsame. by apply (rf_now _ _ _ _ (do_step_frame false j st)).
  - apply Hsame. destruct (do_compete_spec name size st) as (s2 & g & -> & H). by destruct (H Hw) as (_ & ? & _).
  - by apply Hsame.
Qed.

(** ([step_now_mono], [step_now_same]: as asked for, with the hypothesis [nowait st] added) *)
Lemma step_now_mono cc st it : nowait st → now st ≤ now (step cc st it).
Proof. intros Hw. by apply step_now. Qed.
Lemma step_now_same cc st it : nowait st → (∀ dt, it ≠ IAdvance dt) → now (step cc st it) = now st.
Proof. intros Hw. by apply step_now. Qed.

Lemma run_from_now_mono cc sched : ∀ st, basic cc st → now st ≤ now (run_from cc st sched).
Proof.
  induction sched as [|it rest IH]; intros st B; [reflexivity|]. unfold run_from; cbn [fold_left].
  etrans; [apply (step_now_mono cc st it), B|]. by apply IH, basic_step.
Qed.

(** * Panics *)

Lemma step_dead cc st it c : cs_crashed st = Some c → cs_crashed (step cc st it) = Some c.
Proof. intros H. by rewrite (step_crashed _ _ _ _ H). Qed.

Lemma do_unlock_crashed cc j st c : cs_crashed st = None → cs_crashed (do_unlock cc j st) = Some c →
  ∃ h i r, cs_holds st !! j = Some h ∧ cc_noauto cc = false ∧ cs_map st !! h_name h = Some i ∧ c = CrSendClosed i ∧
           ren_of st i = Some r ∧ r_pc r = PExited.
Proof.
  intros Hn. rewrite do_unlock_eq. destruct (cs_holds st !! j) as [h|] eqn:Hh; [|congruence].
  destruct (h_locked h); [|cbn; congruence]. cbn [negb]. cbv zeta.
  destruct (cs_crashed (unlock_stop cc (h_name h) st)) as [c'|] eqn:Hc.
  - rewrite Hc. intros [= <-]. apply unlock_stop_crashed in Hc as (i & r & H); [|done]. exists h, i, r. tauto.
  - change (cs_crashed (emit ?e ?s)) with (cs_crashed s).
    destruct (mark_unl_other j (unlock_rpc j h (unlock_stop cc (h_name h) st))) as (_ & _ & -> & _).
    destruct (unlock_rpc_spec j h (unlock_stop cc (h_name h) st)) as (s2 & _ & _ & _ & -> & _). congruence.
Qed.

Lemma do_acquire_crashed cc b name T size st c : cs_crashed st = None →
  cs_crashed (do_acquire cc b name T size st) = Some c →
  c = CrOutOfSync (length (cs_holds st)) ∧ cc_noauto cc = false ∧ T ≠ 0 ∧ cs_closed st = false ∧ ∃ i, cs_map st !! name = Some i.
Proof.
  intros Hn.
  destruct (do_acquire_cases cc b name T size st) as [[Hc ->]|[[Hc ->]|(Hc & srv' & locked & key & e & rest & Hs & ->)]];
    [cbn; congruence|cbn; congruence|].
  destruct (acquire_answered_fields cc (if b then KLock else KTryLock) (length (cs_holds st)) name T st srv' locked key e)
      as (hn & _ & _ & _ & _ & _ & _ & _ & _ & _ & _ & _ & _ & E9). cbv zeta in E9.
  destruct (locked && negb (cc_noauto cc) && negb (T =? 0)) eqn:Ha; [|destruct E9 as [_ ->]; congruence].
  destruct (cs_map st !! name) as [i|]; [|destruct E9 as [_ ->]; congruence].
  destruct E9 as [_ ->]. intros [= <-]. split; [done|].
  destruct locked, (cc_noauto cc); try done. destruct (Z.eqb_spec T 0); try done. eauto.
Qed.

(** which panic an item can cause *)
Lemma step_crash_kinds cc st it c : cs_crashed st = None → cs_crashed (step cc st it) = Some c →
  match it with
  | ILock _ _ _ | ITryLock _ _ _ => c = CrOutOfSync (length (cs_holds st))
  | IUnlock _ | IUnlockBegin _ | IClose => ∃ i, c = CrSendClosed i
  | IAdvance _ => ∃ i, c = CrRenewFailed i
  | IStep j => c = CrRenewFailed j
  | _ => False
  end.
Proof.
  intros Hn. unfold step. rewrite Hn. destruct (cs_parked st && is_main_call it); [intros; congruence|].
  destruct it.
  - intros H. by apply do_acquire_crashed in H as (-> & _).
  - intros H. by apply do_acquire_crashed in H as (-> & _).
  - intros H. apply do_unlock_crashed in H as (h & i & r & _ & _ & _ & -> & _); eauto.
  - intros H. apply do_unlock_begin_crashed in H as (h & i & r & _ & _ & _ & -> & _); eauto.
  - rewrite do_unlock_send_crashed. congruence.
  - rewrite do_unlock_end_crashed. congruence.
  - intros H. apply do_close_crashed in H as (n & i & _ & ->); eauto.
  - by apply do_advance_crashed.
  - rewrite set_arm_crashed. congruence.
  - by apply do_step_crashed.
  - destruct (do_compete_spec name size st) as (s2 & g & -> & _). cbn. congruence.
  - cbn. congruence.
Qed.

(** * No twins outside F-RENEWMAP *)

Lemma no_twin_le st st' : Forall2 hold_le (cs_holds st) (cs_holds st') → no_twin st → no_twin st'.
Proof.
  intros F N i i' h1' h2' Hne H1 H2 Hn Hl1 Hl2 Hu1 Hu2.
  destruct (Forall2_lookup_r _ _ _ _ _ F H1) as (h1 & G1 & (S1 & U1 & _)).
  destruct (Forall2_lookup_r _ _ _ _ _ F H2) as (h2 & G2 & (S2 & U2 & _)).
  apply static_eq in S1 as (A1 & A2 & A3 & A4). apply static_eq in S2 as (C1 & C2 & C3 & C4).
  rewrite A3, C3. apply (N i i' h1 h2); try congruence.
  - destruct (h_unl h1); [|done]. rewrite U1 in Hu1; done.
  - destruct (h_unl h2); [|done]. rewrite U2 in Hu2; done.
Qed.

Lemma twin_free name T hs i h : existsb (twin_of name T) hs = false → hs !! i = Some h →
  h_name h = name → h_locked h = true → h_unl h = false → T = 0 ∧ h_T h = 0.
Proof.
  intros He Hi Hn Hl Hu.
  assert (twin_of name T h = false) as Ht.
  { destruct (twin_of name T h) eqn:E; [|done]. rewrite <- He. symmetry. apply existsb_exists.
    exists h. split; [|done]. apply elem_of_list_In. by eapply elem_of_list_lookup_2. }
  unfold twin_of in Ht. rewrite Hl, Hu, bool_decide_eq_true_2 in Ht by done. cbn in Ht.
  destruct (Z.eqb_spec T 0), (Z.eqb_spec (h_T h) 0); done.
Qed.

(** the grant of hold j: no twin in the table means no new pair ... *)
Lemma acquire_no_twin cc b name T size st :
  no_twin st →
  (∀ hn, cs_holds (do_acquire cc b name T size st) !! length (cs_holds st) = Some hn → h_locked hn = true →
         existsb (twin_of name T) (cs_holds st) = false) →
  no_twin (do_acquire cc b name T size st).
Proof.
  intros N Hg.
  assert (∀ hn, cs_holds (do_acquire cc b name T size st) = cs_holds st ++ [hn] → h_name hn = name → h_T hn = T →
            no_twin (do_acquire cc b name T size st)) as Hpush.
  { intros hn Eh En ET.
    assert (∀ i h, i ≠ length (cs_holds st) → (cs_holds st ++ [hn]) !! i = Some h → cs_holds st !! i = Some h) as Hold.
    { intros i h Hi [?|[Hj Hl]]%lookup_app_Some; [done|].
      destruct (i - length (cs_holds st))%nat as [|n] eqn:E; [lia|done]. }
    assert (∀ i h, h_locked hn = true → cs_holds st !! i = Some h → h_name h = name → h_locked h = true →
              h_unl h = false → T = 0 ∧ h_T h = 0) as Hfree.
    { intros i h Hl. apply twin_free, (Hg hn); [|done]. rewrite Eh. by apply list_lookup_middle. }
    intros i i' h h' Hne. rewrite Eh. intros H1 H2 Hn Hl1 Hl2 Hu1 Hu2.
    destruct (decide (i = length (cs_holds st))) as [->|Hi], (decide (i' = length (cs_holds st))) as [->|Hi'].
    - done.
    - rewrite list_lookup_middle in H1 by done. injection H1 as <-. apply Hold in H2; [|done].
      rewrite ET. destruct (Hfree _ _ Hl1 H2) as [? ?]; try done. congruence.
    - rewrite list_lookup_middle in H2 by done. injection H2 as <-. apply Hold in H1; [|done].
      rewrite ET. destruct (Hfree _ _ Hl2 H1) as [? ?]; try done. congruence.
    - apply Hold in H1; [|done]. apply Hold in H2; [|done]. by apply (N i i' h h'). }
  destruct (do_acquire_cases cc b name T size st) as [[Hc E]|[[Hc E]|(Hc & srv' & locked & key & e & rest & Hs & E)]].
  - eapply Hpush; [rewrite E; reflexivity|done..].
  - rewrite E. exact N.
  - destruct (acquire_answered_fields cc (if b then KLock else KTryLock) (length (cs_holds st)) name T st srv' locked key e)
      as (hn & E1 & E2 & E3 & E4 & _).
    cbv zeta in *. rewrite <- E in *. by eapply Hpush.
Qed.

(** ... and no renewMap collision (by [b_map] the entry found would be a twin) *)
Lemma acquire_no_outofsync cc b name T size st :
  basic cc st →
  (∀ hn, cs_holds (do_acquire cc b name T size st) !! length (cs_holds st) = Some hn → h_locked hn = true →
         existsb (twin_of name T) (cs_holds st) = false) →
  cs_crashed st = None → cs_crashed (do_acquire cc b name T size st) = None.
Proof.
  intros B Hg Hn.
  destruct (cs_crashed (do_acquire cc b name T size st)) as [c|] eqn:Hx; [exfalso|done].
  pose proof Hx as Hx'. apply do_acquire_crashed in Hx' as (-> & Hna & HT & Hcl & i & Hm); [|done].
  destruct (do_acquire_cases cc b name T size st) as [[Hc E]|[[Hc E]|(Hc & srv' & locked & key & e & rest & Hs & E)]];
    [congruence|rewrite E in Hx; cbn in Hx; congruence|].
  destruct (acquire_answered_fields cc (if b then KLock else KTryLock) (length (cs_holds st)) name T st srv' locked key e)
      as (hn & E1 & E2 & E3 & E4 & E5 & E6 & E7 & _ & E8 & _ & _ & _ & E9).
  cbv zeta in *. rewrite <- E in *.
  destruct (locked && negb (cc_noauto cc) && negb (T =? 0)) eqn:Ha; [|destruct E9 as [_ E9]; congruence].
  destruct (b_map _ _ B _ _ Hm) as (h & Hh & P1 & P2 & P3 & P4 & _).
  assert (h_locked hn = true) as Hl by (rewrite E5; apply orb_true_r).
  assert ((cs_holds st ++ [hn]) !! length (cs_holds st) = Some hn) as Hlk by (by apply list_lookup_middle).
  rewrite <- E1 in Hlk. destruct (twin_free _ _ _ _ _ (Hg _ Hlk Hl) Hh P1 P2 P3) as [_ ?]. done.
Qed.

Lemma active_true st : cs_crashed st = None → cs_parked st = false → active st = true.
Proof. intros H1 H2. unfold active. rewrite H1, H2. by rewrite bool_decide_eq_false_2 by (intros H; by apply H). Qed.

(** the side condition of [acquire_no_twin] from the two predicates over the executed schedule *)
Lemma granted_no_twin cc st it (b : bool) name T size :
  it = (if b then ILock name T size else ITryLock name T size) →
  cc_noauto cc = false → cs_crashed st = None → (cs_parked st && is_main_call it) = false →
  misuse_at st it = false → renewmap_at cc st it = false →
  step cc st it = do_acquire cc b name T size st ∧
  ∀ hn, cs_holds (do_acquire cc b name T size st) !! length (cs_holds st) = Some hn → h_locked hn = true →
        existsb (twin_of name T) (cs_holds st) = false.
Proof.
  intros Hit Hna Hc Hp Hmis Hrm.
  assert (step cc st it = do_acquire cc b name T size st) as Es.
  { unfold step. rewrite Hc, Hp, Hit. by destruct b. }
  split; [done|]. intros hn Hh Hl.
  assert (is_main_call it = true) as Hmain by (rewrite Hit; by destruct b).
  rewrite Hmain, andb_true_r in Hp.
  assert (cs_closed st = false) as Hcl.
  { unfold misuse_at in Hmis. rewrite Hmain, andb_true_r in Hmis. by apply orb_false_elim in Hmis as [-> _]. }
  unfold renewmap_at in Hrm. rewrite (active_true _ Hc Hp), Hna, Hcl in Hrm. cbn [negb andb] in Hrm.
  assert (granted_by cc st it = true) as Hg. { unfold granted_by. by rewrite Es, Hh. }
  rewrite Hit in Hrm. rewrite Hit in Hg. destruct b; rewrite Hg in Hrm; exact Hrm.
Qed.

Lemma no_twin_step cc st it : cc_noauto cc = false → basic cc st → no_twin st →
  misuse_at st it = false → renewmap_at cc st it = false → no_twin (step cc st it).
Proof.
  intros Hna B N Hmis Hrm.
  destruct (cs_crashed st) as [c|] eqn:Hc; [by rewrite (step_crashed _ _ _ _ Hc)|].
  destruct (cs_parked st && is_main_call it) eqn:Hp; [unfold step; by rewrite Hc, Hp|].
  assert (∀ (b : bool) name T size, it = (if b then ILock name T size else ITryLock name T size) → no_twin (step cc st it)) as Hacq.
  { intros b name T size Hit. destruct (granted_no_twin cc st it b name T size Hit Hna Hc Hp Hmis Hrm) as [-> Hg].
    by apply acquire_no_twin. }
  destruct (step_holds_cases cc st it) as [F|(hn & _ & name & T & size & [->| ->] & _)].
  - by apply (no_twin_le st).
  - by apply (Hacq true name T size).
  - by apply (Hacq false name T size).
Qed.

Lemma no_outofsync_step cc st it j : cc_noauto cc = false → basic cc st →
  misuse_at st it = false → renewmap_at cc st it = false → cs_crashed st = None →
  cs_crashed (step cc st it) ≠ Some (CrOutOfSync j).
Proof.
  intros Hna B Hmis Hrm Hc Hx.
  pose proof (step_crash_kinds cc st it _ Hc Hx) as K.
  destruct (cs_parked st && is_main_call it) eqn:Hp.
  { unfold step in Hx. rewrite Hc, Hp in Hx. congruence. }
  assert (∀ (b : bool) name T size, it = (if b then ILock name T size else ITryLock name T size) → False) as Hacq.
  { intros b name T size Hit. destruct (granted_no_twin cc st it b name T size Hit Hna Hc Hp Hmis Hrm) as [E Hg].
    rewrite E in Hx. rewrite (acquire_no_outofsync cc b name T size st B Hg Hc) in Hx. done. }
  destruct it; cbn in K.
  - by apply (Hacq true name T size).
  - by apply (Hacq false name T size).
  - by destruct K as [? ?].
  - by destruct K as [? ?].
  - done.
  - done.
  - by destruct K as [? ?].
  - by destruct K as [? ?].
  - done.
  - done.
  - done.
  - done.
Qed.

Theorem t_no_twin : T_no_twin.
Proof.
  intros cc sched Hna Hwf Hex.
  set (bad := λ st it, misuse_at st it || renewmap_at cc st it).
  set (P := λ st, basic cc st ∧ no_twin st ∧ ∀ j, cs_crashed st ≠ Some (CrOutOfSync j)).
  assert (P (run cc sched)) as (_ & N & C); [|by split].
  apply (run_inv cc bad P).
  - intros st it (B & N & C) Hb. apply orb_false_elim in Hb as [H1 H2].
    split; [by apply basic_step|]. split; [by apply no_twin_step|].
    intros j. destruct (cs_crashed st) as [c|] eqn:Hc.
    + rewrite (step_crashed _ _ _ _ Hc), Hc. apply C.
    + by apply no_outofsync_step.
  - split; [apply basic_init|]. split; [|done]. intros i i' h h' _ H. change (cs_holds cinit) with (@nil hold) in H. by rewrite lookup_nil in H.
  - unfold bad. rewrite (any_pre_orb cc misuse_at (renewmap_at cc)).
    unfold wf_sched in Hwf. apply negb_true_iff in Hwf. unfold excluded_renewmap in Hex. by rewrite Hwf, Hex.
Qed.
Print Assumptions t_no_twin.

Lemma run_basic cc sched : basic cc (run cc sched).
Proof. apply t_basic. Qed.
Lemma run_nowait cc sched : nowait (run cc sched).
Proof. apply (b_waiters cc), t_basic. Qed.
