(** Extraction of Msv (Model/Sv.v) for the T2 sched-diff tie, layer 2 (ExtrOcamlBasic only; nat, N, Z, positive, byte
    stay the extracted inductive types). Run by ocaml/sv/build.sh in ocaml/sv/, not part of the main build.

    The helpers below only READ the model state:
      - views of the finite maps as lists (what the harness compares after every item),
      - [sv_forced]: the pure pc moves that the real goroutines perform by themselves, so that the schedule must contain
        the corresponding [VRun tid] right away (a Lock call parked in the semaphore is not parked at a yield point),
      - [sitem_okb]: the boolean version of Proofs/SvDefs.v's [sitem_ok] (which schedule items are meaningful); the
        schedule generator only emits items for which it answers true ([sitem_okb_sound] below),
      - [sv_zombies], [leak_sids]: the known-finding signatures F-OVER / F-LEAK on the model's own run (ghost facts printed
        next to every schedule; the oracles of lib/svtie.py do not use them). *)
From Coq Require Import String.
From Coq Require Extraction.
From Coq Require ExtrOcamlBasic.
From Ldlm Require Import Model.Base Model.Err Model.Sv Model.SvTrace Proofs.SvDefs.
Local Open Scope Z_scope.

Definition sv_threads (s : svstate) : list (nat * sthread) := map_to_list (v_thr s).
Definition sv_sessions (s : svstate) : list (str * list clock) := map_to_list (v_sess s).

(** timer map entries: (name, key, armed) through the timer heap *)
Definition sv_tmkeys (s : svstate) : list (str * str * bool) :=
  omap (λ '(_, id), match v_theap s !! id with
                    | Some tm => Some (tm_n tm, tm_k tm, match tm_st tm with TArmed _ => true | _ => false end)
                    | None => None end) (map_to_list (v_timers s)).
Definition sv_timer_nk (s : svstate) (id : nat) : option (str * str) :=
  match v_theap s !! id with Some tm => Some (tm_n tm, tm_k tm) | None => None end.

(** IRun tid changes the state *)
Definition sv_enabled (s : svstate) (tid : nat) : bool := negb (sv_blocked s tid).

(** forced moves.
    - VWoken: a release handed the unit to a parked Lock call; the real goroutine runs by itself up to its next yield
      point (VSessAdd), or gives the unit back and returns the error when its context has ended.
    - VWait with the context ended: the real goroutine leaves the semaphore's queue by itself and returns the error.
    (DestroySession returns without a further synchronised step once nothing is left to release: the model goes to VEnd
    directly ([ds_next]); under no_clear_on_disconnect the check-and-delete is the single step at VDsNoClear. No forced
    move is needed for either any more.) *)
Definition sv_forced (cfg : svcfg) (s : svstate) : list nat :=
  omap (λ '(tid, t),
          match st_pc t, st_op t with
          | VWoken, _ => Some tid
          | VWait, _ => match st_cancel t with Some _ => Some tid | None => None end
          | _, _ => None
          end) (sv_threads s).

(** ** [sitem_ok] as a boolean *)
Definition has_connect (sid : str) (s : svstate) : bool :=
  existsb (λ e, match e with SvConnect sid' => bool_decide (sid' = sid) | _ => false end) (v_trace s).
Definition has_connend (sid : str) (s : svstate) : bool :=
  existsb (λ e, match e with SvConnEnd sid' => bool_decide (sid' = sid) | _ => false end) (v_trace s).
Definition has_signal (s : svstate) : bool :=
  existsb (λ e, match e with SvSignal => true | _ => false end) (v_trace s).
Definition is_acq_of (k : str) (t : sthread) : bool := is_acq (st_op t) && bool_decide (op_key' (st_op t) = Some k).
Definition deliveredb (s : svstate) (k : str) : bool :=
  existsb (λ '(_, t), is_acq_of k t && bool_decide (st_pc t = VFin (SResp true None))
                      && negb (bool_decide (st_cancel t = Some ECtxCanceled))) (sv_threads s).
Definition presentableb (s : svstate) (k : str) : bool :=
  forallb (λ '(_, t), negb (is_acq_of k t)) (sv_threads s) || deliveredb s k.

(** the closer (if any) has not yet stopped the network *)
Definition net_openb (s : svstate) : bool :=
  forallb (λ '(_, t), match st_op t with
                      | SShutdown => bool_decide (st_pc t = VShFlag) || bool_decide (st_pc t = VShNet)
                      | _ => true end) (sv_threads s).

Definition sitem_okb (s : svstate) (it : sitem) : bool :=
  match it with
  | VCall tid op =>
      match op with
      | STry sid _ k z lt | SLock sid _ k z lt =>
          forallb (λ '(_, t), negb (bool_decide (op_key' (st_op t) = Some k))) (sv_threads s)
          && has_connect sid s && negb (has_connend sid s)
          && match lt with Some t => 0 <=? t | None => true end
          && net_openb s
      | SUnlock _ k => presentableb s k && net_openb s
      | SRenew _ k lt => presentableb s k && (0 <? lt) && net_openb s
      | _ => true
      end
  | VConnect sid => negb (has_connect sid s)
  | VConnEnd sid => has_connect sid s && negb (has_connend sid s)
  | VSignal => negb (has_signal s)
  | VCancel tid cause =>
      (* the wait timeout is consulted only inside lockMgr.Lock *)
      bool_decide (cause = ECtxCanceled) ||
      (bool_decide (cause = ESrvLockWaitTimeout) &&
       match v_thr s !! tid with
       | Some t => bool_decide (st_pc t = VMgrLock) || bool_decide (st_pc t = VWait) || bool_decide (st_pc t = VWoken)
       | None => false
       end)
  | VTick _ | VRun _ => true
  end.

(** ** known-finding signatures on the model's own run (ghost) *)
(** F-OVER: session entries that occupy no capacity (their release happened, their RemoveLock has not) *)
Definition sv_zombies (s : svstate) : list (str * clock) :=
  flat_map (λ '(sid, l), omap (λ c, match v_locks s !! cl_name c with
                                    | Some a => if bool_decide (cl_key c ∈ al_live a) then None else Some (sid, c)
                                    | None => Some (sid, c) end) l) (sv_sessions s).
(** F-LEAK: sessions for which an entry was written after their DestroySession deleted them *)
Definition trace_sids (tr : list sev) : list str :=
  omap (λ e, match e with SvConnect sid => Some sid | _ => None end) tr.
Definition leak_sids (s : svstate) : list str := filter (λ sid, add_after_destroy sid (v_trace s) = true) (trace_sids (v_trace s)).

Definition label_of (pc : spc) : nat := spc_label pc.
Definition byte_to_N := Byte.to_N.
Definition byte_of_N := Byte.of_N.
Definition err_name_b (e : err) : list byte := list_byte_of_string (err_go_name e).

(** [sv_trace_verdict] (Model/SvTrace.v): the trace predicates q_c05_unlock, q_c05_renew, q_c06_release (strict / outside F-LEAK),
    q_c09_image (live, ended, bound), q_c09_surplus_in_flight, the F-OVER shape, q_c11_keeps as "first offending transition"; proved
    [None] on every run of the model (Proofs/SvTraceP.v, svtrace_verdict_w; the strict C06 one outside [sig_fleak], the F-OVER shape
    is refutable); `svdriver trace` evaluates them on the REAL observations of harness/svsched. *)
Extraction "svmodel.ml" vstep sv_init label_of sv_threads sv_sessions sv_tmkeys sv_timer_nk sv_enabled sv_blocked sv_forced
  sitem_okb sv_listing sv_table sv_file sv_armed sv_zombies leak_sids byte_to_N byte_of_N err_name_b all_errs sys_base
  sv_trace_verdict sig_fleak sv_observe.

(** ** The generator's filter implies the proofs' side condition.
    These lemmas come AFTER the Extraction command on purpose: if Proofs/SvDefs.v's [sitem_ok] changes and they stop
    checking, svmodel.ml has been written all the same; ocaml/sv/build.sh records the fact in ocaml/sv/okb_sound.status
    (lib/svtie.py copies it into the evidence) instead of failing the build of the driver. *)
Lemma has_connect_sound sid s : has_connect sid s = true ↔ ev_in (SvConnect sid) s.
Proof.
  unfold has_connect, ev_in. rewrite existsb_exists. split.
  - intros (e & Hin & He). destruct e; try discriminate. apply bool_decide_eq_true in He. subst. by apply elem_of_list_In.
  - intros H. exists (SvConnect sid). split; [by apply elem_of_list_In|]. by apply bool_decide_eq_true.
Qed.
Lemma has_connend_sound sid s : has_connend sid s = true ↔ ev_in (SvConnEnd sid) s.
Proof.
  unfold has_connend, ev_in. rewrite existsb_exists. split.
  - intros (e & Hin & He). destruct e; try discriminate. apply bool_decide_eq_true in He. subst. by apply elem_of_list_In.
  - intros H. exists (SvConnEnd sid). split; [by apply elem_of_list_In|]. by apply bool_decide_eq_true.
Qed.
Lemma has_signal_sound s : has_signal s = true ↔ ev_in SvSignal s.
Proof.
  unfold has_signal, ev_in. rewrite existsb_exists. split.
  - intros (e & Hin & He). destruct e; try discriminate. by apply elem_of_list_In.
  - intros H. exists SvSignal. split; [by apply elem_of_list_In|done].
Qed.
Lemma neg_true_iff (b : bool) (P : Prop) : (b = true ↔ P) → negb b = true → ¬ P.
Proof. intros H Hn HP. apply H in HP. rewrite HP in Hn. discriminate. Qed.

Lemma is_acq_of_spec k t : is_acq_of k t = true ↔ is_acq (st_op t) = true ∧ op_key' (st_op t) = Some k.
Proof. unfold is_acq_of. rewrite andb_true_iff, bool_decide_eq_true. done. Qed.

Lemma deliveredb_sound s k : deliveredb s k = true → delivered s k.
Proof.
  unfold deliveredb, delivered. rewrite existsb_exists. intros ([tid t] & Hin & H).
  apply elem_of_list_In in Hin. unfold sv_threads in Hin. apply elem_of_map_to_list in Hin.
  rewrite !andb_true_iff, negb_true_iff in H. destruct H as [[Ha Hpc] Hc].
  apply is_acq_of_spec in Ha as [Ha Hk]. apply bool_decide_eq_true in Hpc. apply bool_decide_eq_false in Hc.
  destruct (st_op t) as [sid n k' z lt|sid n k' z lt| | | | |] eqn:Hop; try discriminate; simpl in Hk; inversion Hk; subst k'.
  - exists tid, t, sid, n, z. repeat split; try done. exists lt. by left.
  - exists tid, t, sid, n, z. repeat split; try done. exists lt. by right.
Qed.
Lemma presentableb_sound s k : presentableb s k = true →
  ∀ tid' t', v_thr s !! tid' = Some t' → is_acq (st_op t') = true → op_key' (st_op t') = Some k → delivered s k.
Proof.
  unfold presentableb. rewrite orb_true_iff. intros [H|H] tid' t' Ht Ha Hk; [|by apply deliveredb_sound].
  rewrite forallb_forall in H. specialize (H (tid', t')).
  assert (In (tid', t') (sv_threads s)) as Hin by (apply elem_of_list_In; unfold sv_threads; by apply elem_of_map_to_list).
  apply H in Hin. simpl in Hin. apply negb_true_iff in Hin.
  assert (is_acq_of k t' = true) as Hx by (by apply is_acq_of_spec). congruence.
Qed.

Lemma net_openb_sound s : net_openb s = true → net_open s.
Proof.
  unfold net_openb. rewrite forallb_forall. intros H tid t Ht Hop. specialize (H (tid, t)).
  assert (In (tid, t) (sv_threads s)) as Hin by (apply elem_of_list_In; unfold sv_threads; by apply elem_of_map_to_list).
  apply H in Hin. simpl in Hin. rewrite Hop in Hin. apply orb_true_iff in Hin as [Hin|Hin]; apply bool_decide_eq_true in Hin; auto.
Qed.

(** the generator's filter implies the proofs' side condition *)
Lemma sitem_okb_sound s it : sitem_okb s it = true → sitem_ok s it.
Proof.
  destruct it as [tid op|tid|tid cause|sid|sid|dt|]; simpl; try done.
  - destruct op as [sid n k z lt|sid n k z lt|n k|n k lt|id|sid|]; try done.
    + rewrite !andb_true_iff. intros [[[[Hf Hc] He] Hlt] Hnet]. split_and!.
      * intros tid' t' Ht. rewrite forallb_forall in Hf. specialize (Hf (tid', t')).
        assert (In (tid', t') (sv_threads s)) as Hin by (apply elem_of_list_In; unfold sv_threads; by apply elem_of_map_to_list).
        apply Hf in Hin. simpl in Hin. apply negb_true_iff, bool_decide_eq_false in Hin. done.
      * by apply has_connect_sound.
      * by apply (neg_true_iff _ _ (has_connend_sound sid s)).
      * intros t ->. by apply Z.leb_le.
      * by apply net_openb_sound.
    + rewrite !andb_true_iff. intros [[[[Hf Hc] He] Hlt] Hnet]. split_and!.
      * intros tid' t' Ht. rewrite forallb_forall in Hf. specialize (Hf (tid', t')).
        assert (In (tid', t') (sv_threads s)) as Hin by (apply elem_of_list_In; unfold sv_threads; by apply elem_of_map_to_list).
        apply Hf in Hin. simpl in Hin. apply negb_true_iff, bool_decide_eq_false in Hin. done.
      * by apply has_connect_sound.
      * by apply (neg_true_iff _ _ (has_connend_sound sid s)).
      * intros t ->. by apply Z.leb_le.
      * by apply net_openb_sound.
    + rewrite andb_true_iff. intros [Hp Hnet]. split; [by apply presentableb_sound|by apply net_openb_sound].
    + rewrite !andb_true_iff. intros [[Hp Hlt] Hnet]. split_and!; [by apply presentableb_sound|by apply Z.ltb_lt|by apply net_openb_sound].
  - rewrite orb_true_iff, andb_true_iff, !bool_decide_eq_true. intros [?|[-> H]]; [by left|right]. split; [done|].
    destruct (v_thr s !! tid) as [t|]; [|done]. exists t. split; [done|].
    rewrite !orb_true_iff, !bool_decide_eq_true in H. tauto.
  - by apply (neg_true_iff _ _ (has_connect_sound sid s)).
  - rewrite andb_true_iff. intros [Hc He]. split; [by apply has_connect_sound|by apply (neg_true_iff _ _ (has_connend_sound sid s))].
  - by apply (neg_true_iff _ _ (has_signal_sound s)).
Qed.
