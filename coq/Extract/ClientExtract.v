(** Extraction of Mclient (with Mseq under it) and of the predicates of C19 (ExtrOcamlBasic only; nat, N, Z,
    positive, byte stay the extracted inductive types). Run by ocaml/client/build.sh in ocaml/client/, not part of
    the main build. *)
From Coq Require Import String.
From Coq Require Extraction.
From Coq Require ExtrOcamlBasic.
From Ldlm Require Import Model.Base Model.Err Model.Seq Model.Client Gen.Consts.

Definition byte_to_N := Byte.to_N.
Definition byte_of_N := Byte.of_N.
Definition retry_z (n : Z) (outs : list (toutcome unit)) := rpc_with_retry n outs.
Definition min_renew := client_MinRenewSeconds.
Definition retry_delay := client_RetryDelaySeconds.

Extraction "clientmodel.ml" run cinit cs_trace cs_crashed cs_parked cs_holds excluded_stopdrop excluded_renewmap wf_sched timely keeps
  p_stop no_crash renews_ok lease_ok held retry_z interval slack min_renew retry_delay renew_formula_recognised
  byte_to_N byte_of_N CCfg.
