(** Extraction of Mlk (Model/Lk.v) for the T2 sched-diff tie (ExtrOcamlBasic only; nat, N, Z,
    positive, byte stay the extracted inductive types). Run by ocaml/lk/build.sh in ocaml/lk/,
    not part of the main build.

    The helper functions below only READ the model state (views of finite maps as lists, and the
    "forced" items: a goroutine blocked in Acquire's select is not parked at a yield point, so when
    its ready channel is closed / its context ends it runs by itself to the next yield point; the
    schedule must then contain the corresponding pure pc move right away). *)
From Coq Require Import String.
From Coq Require Extraction.
From Coq Require ExtrOcamlBasic.
From Ldlm Require Import Model.Base Model.Err Model.Lk Model.LkTrace.

Definition lk_threads (s : lstate) : list (nat * thread) := map_to_list (l_thr s).
Definition lk_objs (s : lstate) : list (nat * lobj) := map_to_list (l_heap s).
Definition lk_names (s : lstate) : list str := map fst (map_to_list (l_map s)).
Definition lk_table (s : lstate) : list (str * (Z * list str)) := l_table s.

(** pure pc moves that the real goroutines perform by themselves *)
Definition lk_forced (s : lstate) : list item :=
  flat_map (fun '(tid, t) =>
    match t_pc t with
    | PAcqWait oid =>
        match l_heap s !! oid with
        | Some o => if bool_decide (tid ∈ o_ready o) then [IRun tid]
                    else match t_cancel t with Some _ => [IRunCancel tid] | None => [] end
        | None => []
        end
    | _ => []
    end) (lk_threads s).

(** one whole lockGc pass over ONE shard while every request goroutine is parked *)
Definition lk_gcpass (s : lstate) : list item := map IGc (lk_names s).

(** IRun tid changes the state *)
Definition lk_enabled (s : lstate) (tid : nat) : bool := negb (blocked s tid).

Definition lk_finished (s : lstate) (tid : nat) : bool :=
  match l_thr s !! tid with Some t => match t_pc t with PFin _ => true | _ => false end | None => false end.

Definition lk_result (pc : lpc) : option lres := match pc with PFin r => Some r | _ => None end.

(** [lk_trace_verdict] (Model/LkTrace.v): the trace predicates p_fresh, p_wellformed, p_c01, p_c02_once,
    p_c02_fail_consumes_nothing, p_c03_giveup as "first offending prefix"; proved [None] on every model trace
    (Proofs/LkTraceP.v, mlk_trace_verdict); `lkdriver trace` evaluates it on the real call/return histories. *)
Definition byte_to_N := Byte.to_N.
Definition byte_of_N := Byte.of_N.
Definition err_name_b (e : err) : list byte := list_byte_of_string (err_go_name e).

Extraction "lkmodel.ml" lstep l_init pc_label lk_threads lk_objs lk_names lk_table lk_forced lk_gcpass lk_enabled
  lk_finished lk_result no_call_in_flight byte_to_N byte_of_N err_name_b all_errs
  lk_trace_verdict live_holds obsh.
