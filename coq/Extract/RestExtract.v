(** Extraction of Mrest (Model/Rest.v): the replay of observed REST histories, the replay of the gRPC side on
    Mseq, and the C20 trace oracle (ExtrOcamlBasic only; nat, N, Z, positive, byte stay the extracted inductive
    types). Run by ocaml/rest/build.sh in ocaml/rest/, not part of the main build. *)
From Coq Require Import String.
From Coq Require Extraction.
From Coq Require ExtrOcamlBasic.
From Ldlm Require Import Model.Base Model.Err Model.Seq Model.Track Model.Rest.

Definition tags_bytes (l : list (nat * string)) : list (nat * list byte) :=
  map (fun '(i, t) => (i, list_byte_of_string t)) l.
Definition c20_failures_b tmo h := tags_bytes (c20_failures tmo h).
Definition c20_inert_failures_b h := tags_bytes (c20_inert_failures 0 h).
Definition rhas_tie_b cfg tmo h := rhas_tie cfg tmo (rinit cfg) h.
Definition byte_to_N := Byte.to_N.
Definition byte_of_N := Byte.of_N.
Definition err_name_b (e : err) : list byte := list_byte_of_string (err_go_name e).

(** the fine-grained layer, for the model-chosen schedules of the T2 tie *)
Definition pool_get (st : fstate) (t : thr) : option (positive * pc) := f_pool st !! t.
Definition mk_finit (l : list (thr * (positive * pc))) : fstate := finit (list_to_map l).

Extraction "restmodel.ml" fstep mk_finit pool_get sess final_pc mreplay_history rreplay_history replay_history c20_failures_b c20_inert_failures_b rhas_tie_b
  byte_to_N byte_of_N err_name_b all_errs proj_all Proj Config.
