(** Extraction of the sequential model, the replay and the trace oracle (ExtrOcamlBasic only;
    nat, N, Z, positive, byte stay the extracted inductive types). Run by ocaml/seq/build.sh in
    ocaml/seq/, not part of the main build. *)
From Coq Require Import String.
From Coq Require Extraction.
From Coq Require ExtrOcamlBasic.
From Ldlm Require Import Model.Base Model.Err Model.Seq Model.Track Model.SeqFile.
From Ldlm Require Import Gen.ErrTables.

Definition tags_bytes (l : list (nat * string)) : list (nat * list byte) :=
  map (fun '(i, t) => (i, list_byte_of_string t)) l.
Definition track_failures_b cfg h := tags_bytes (track_failures cfg h).
Definition inert_failures_b h := tags_bytes (inert_failures 0 h).
Definition byte_to_N := Byte.to_N.
Definition byte_of_N := Byte.of_N.
Definition err_name_b (e : err) : list byte := list_byte_of_string (err_go_name e).

(** ** T1 "via service" (history line [V service])

    The history was executed through the real [grpc.Service] (net/grpc/grpc.go): what comes back for Lock / TryLock /
    Unlock / Renew and for a parked Lock call that completes is a protobuf response whose error is an [Error{Code,
    Message}], not a Go error value. The harness writes the CODE name where the direct mode writes the name of the Go
    error variable. Both sides are therefore compared modulo [srv_code] — the server-side switch REGENERATED from the
    tree under test (Gen/ErrTables.v) on every run:

    - the driver turns an observed code [c] into [code_repr c], the first error value of [all_errs] that the switch maps
      to [c] (its class representative);
    - [replay_svc] is [Track.replay] with every error in a response / completion the MODEL produces replaced by the
      representative of its class ([canon_out]). So an observed response is accepted iff its bit, key, ... agree under
      the projection and its code is [srv_code] of the model's error value.
    - errors of the admin socket ([OIpcUnlock]) do not pass through the service: they stay Go error values.

    The trace oracle ([Track.track_step]) has clauses that read the identity of an error value (C12:wrong-refusal,
    C14:wrong-unlock-error, C14:wrong-renew-error, C03:wrong-giveup-cause, C03:wait-timeout-not-at-deadline,
    C13:valid-request-failed, C04:renew-of-unleased-hold, and mem_step's InvalidLockKey). Through the service the
    identity is not observable, only the class. [concretise] picks, output by output, the error value OF THE OBSERVED
    CLASS under which the fewest checks of this event fail (first such value in the order of [all_errs]); [track_svc]
    feeds the concretised outputs to the unchanged [track_step]. A clause that expects a particular error value is thus
    satisfied iff the observed code is the code of that value ("the expected error is among the values with that code"),
    and fails — with the same tag — iff no value of the class satisfies it. Within one event each such clause reads ONE
    output (the first response, or one completion), so choosing output by output loses nothing. The tracker's state after
    the event does not depend on the choice except through [mem_step]'s test for [ELockInvalidLockKey]; with the table
    of the unchanged tree that value is alone in its class.

    What this mode cannot see: error values with the same code are indistinguishable. With the unchanged tree these are
    all the values mapped to Unknown (EmptyName, SessionDoesNotExist, InvalidLockTimeout, InvalidWaitTimeout,
    ManagerShutdown, context.Canceled, context.DeadlineExceeded, any other value), and the pair
    server.ErrLockDoesNotExistOrInvalidKey / timermap.ErrTimerDoesNotExist. The direct mode (error identity) keeps
    covering those. When the translator did not recognise the switch or the enum, [srv_code] is the degenerate constant
    table: every error value is in one class and the comparison is on the PRESENCE of an error only. *)

Definition svc_tables_ok : bool := (enum_recognised && srv_table_recognised)%bool.

Definition code_class (c : code) : list err := List.filter (fun e => bool_decide (srv_code e = c)) all_errs.
Definition code_repr (c : code) : option err := head (code_class c).
Definition canon_err (e : err) : err := default e (code_repr (srv_code e)).

Definition map_resp_err (f : err -> err) (r : resp) : resp :=
  match r with
  | RLock l k e => RLock l k (f <$> e)
  | RUnlock u e => RUnlock u (f <$> e)
  | RBlocked => RBlocked
  end.
(** only what came through the service: responses and completions of parked calls *)
Definition map_out_err (f : err -> err) (o : out) : out :=
  match o with
  | OResp r => OResp (map_resp_err f r)
  | OWaiter w a r => OWaiter w a (map_resp_err f r)
  | _ => o
  end.
Definition canon_out : out -> out := map_out_err canon_err.

Fixpoint replay_svc (p : proj) (cfg : config) (cands : list sstate) (h : list (event * list out)) (i : nat)
  : option (nat * list (list out)) :=
  match h with
  | [] => None
  | (ev, obs) :: h' =>
      let nexts := flat_map (fun s => sstep cfg s ev) cands in
      match List.filter (fun '(_, o) => outs_eqb p (map canon_out o) obs) nexts with
      | [] => Some (i, map (fun x => map canon_out (snd x)) nexts)
      | ok => replay_svc p cfg (map fst ok) h' (S i)
      end
  end.
Definition replay_history_svc (p : proj) (cfg : config) (h : list (event * list out)) :=
  replay_svc p cfg [init_state cfg] h 0.

Definition out_err (o : out) : option err :=
  match o with OResp r | OWaiter _ _ r => err_of r | _ => None end.

Definition nfail (cfg : config) (i : nat) (ev : event) (outs : list out) (t : tstate) : nat :=
  length (t_fail (track_step cfg i ev outs t)).

(** the first candidate with the fewest failed checks ([cur] scores [curs]) *)
Fixpoint best_err (score : err -> nat) (cands : list err) (cur : err) (curs : nat) : err :=
  match cands with
  | [] => cur
  | e :: r => let s := score e in if Nat.ltb s curs then best_err score r e s else best_err score r cur curs
  end.

Fixpoint concretise (cfg : config) (i : nat) (ev : event) (t : tstate) (done todo : list out) : list out :=
  match todo with
  | [] => done
  | o :: rest =>
      match out_err o with
      | None => concretise cfg i ev t (done ++ [o]) rest
      | Some e =>
          let score := fun e' => nfail cfg i ev (done ++ map_out_err (fun _ => e') o :: rest) t in
          let b := best_err score (code_class (srv_code e)) e (score e) in
          concretise cfg i ev t (done ++ [map_out_err (fun _ => b) o]) rest
      end
  end.

Fixpoint track_svc (cfg : config) (i : nat) (h : list (event * list out)) (t : tstate) : tstate :=
  match h with
  | [] => t
  | (ev, outs) :: h' => track_svc cfg (S i) h' (track_step cfg i ev (concretise cfg i ev t [] outs) t)
  end.
Definition track_failures_svc (cfg : config) (h : list (event * list out)) : list (nat * string) :=
  rev (t_fail (track_svc cfg 0 h t_init)).
Definition track_failures_svc_b cfg h := tags_bytes (track_failures_svc cfg h).

Definition code_name_b (c : code) : list byte := list_byte_of_string (code_name c).
(** the code an observed name stands for; with unrecognised tables every name is the one degenerate class *)
Definition code_of_name_b (n : list byte) : option code :=
  if svc_tables_ok then head (List.filter (fun c => bool_decide (code_name_b c = n)) all_codes) else Some srv_default.

(** ** T1 "boot on a given state file" (history line [F ...]; Model/SeqFile.v)

    The harness wrote the file with the real store before the first boot; the history's first event is that boot
    ([ERestart] from [file_state]). [server.New] ranges over a Go map: the sessions of the file are restored in an
    unspecified order, and when a conflict (more entries of a lock than its size, different sizes) is spread over several
    sessions the outcome depends on it. The trace does not show the order, so [replay_history_from_any] accepts the
    observed history iff it is a run of Mseq for SOME order of the file's sessions at that first boot (every permutation,
    for files of at most 4 sessions; the model's own order otherwise). When no order fits, the mismatch reported is the
    one of the model's own order. Later restarts read files the server wrote itself (no conflicts left): their order is
    the model's own, as in every other T1 history. *)
Definition set_boot_order (order : list str) (h : list (event * list out)) : list (event * list out) :=
  match h with
  | (ERestart _, o) :: h' => (ERestart order, o) :: h'
  | _ => h
  end.
Definition replay_history_from_any (p : proj) (cfg : config) (f : list (str * list clock)) (h : list (event * list out))
  : option (nat * list (list out)) :=
  match replay_history_from p cfg f h with
  | None => None
  | Some r =>
      if (Nat.leb (length f) 4
          && existsb (fun o => match replay_history_from p cfg f (set_boot_order o h) with None => true | Some _ => false end)
                     (permutations (map fst f)))%bool
      then None else Some r
  end.

Extraction "seqmodel.ml" replay_history track_failures_b inert_failures_b byte_to_N byte_of_N err_name_b all_errs
  proj_all Proj Config
  replay_history_svc track_failures_svc_b srv_code code_name_b code_of_name_b code_repr code_class all_codes svc_tables_ok
  replay_history_from replay_history_from_any views_failures.

(** Sanity of the class representatives, for whatever table was generated: the representative of an error's class has
    the error's code (so [canon_out] never changes a code), and it is idempotent. *)
Lemma canon_err_code e : srv_code (canon_err e) = srv_code e.
Proof.
  unfold canon_err, code_repr, code_class.
  assert (Hin : In e all_errs) by (destruct e; cbn; tauto).
  induction all_errs as [|x l IH]; [destruct Hin|].
  cbn [List.filter]. destruct (bool_decide (srv_code x = srv_code e)) eqn:Hx.
  - cbn. now apply bool_decide_eq_true in Hx.
  - destruct Hin as [->|Hin]; [|now apply IH].
    apply bool_decide_eq_false in Hx. now destruct Hx.
Qed.
