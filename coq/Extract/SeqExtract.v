(** Extraction of the sequential model, the replay and the trace oracle (ExtrOcamlBasic only;
    nat, N, Z, positive, byte stay the extracted inductive types). Run by ocaml/seq/build.sh in
    ocaml/seq/, not part of the main build. *)
From Coq Require Import String.
From Coq Require Extraction.
From Coq Require ExtrOcamlBasic.
From Ldlm Require Import Model.Base Model.Err Model.Seq Model.Track.

Definition tags_bytes (l : list (nat * string)) : list (nat * list byte) :=
  map (fun '(i, t) => (i, list_byte_of_string t)) l.
Definition track_failures_b cfg h := tags_bytes (track_failures cfg h).
Definition inert_failures_b h := tags_bytes (inert_failures 0 h).
Definition byte_to_N := Byte.to_N.
Definition byte_of_N := Byte.of_N.
Definition err_name_b (e : err) : list byte := list_byte_of_string (err_go_name e).

Extraction "seqmodel.ml" replay_history track_failures_b inert_failures_b byte_to_N byte_of_N err_name_b all_errs
  proj_all Proj Config.
