"""C10 — see DESIGN.md section 5 "C10". Theorems: coq/Properties/C10.v (over Mseq); tie: T1 seq-diff (checks/seqcommon.py)."""
from checks import seqcommon


def run(ctx):
    seqcommon.run_seq_only(ctx, "C10")
