"""C20 — REST session lifetime: a REST session stays valid as long as consecutive requests are less than the session
timeout apart and becomes invalid promptly after a full timeout of idleness or a DELETE; requests carrying a missing,
unknown or expired cookie are refused (401 for lock, unlock and renew) and have no effect. Expiry, deletion and
in-flight requests racing each other end the session exactly once, release its holds once, and never deadlock or
crash the gateway.

Stages (DESIGN.md 5 "C20", 3.5, 4.1):
  Coq  ctx.coq_stage(): Model/Rest.v, Proofs/RestSeq1.v, RestSeq3.v, RestFine.v, Properties/C20.v
       (C20_valid, C20_gap_rule, C20_gap_accept, C20_expire, C20_delete, C20_clock; for every schedule of the
       fine-grained model: C20_once, C20_no_nil, C20_no_deadlock, C20_serve_before_end, C20_mutex).
  T1   harness/restdiff (mode c20): the REAL rest.NewRestServer(...).Handler in a synctest bubble (virtual time, exact):
       1-3 sessions, idle gaps of timeout-1ns / timeout / timeout+1ns / 2*timeout measured from a session's last accepted
       request, cookies missing / unknown / empty / mangled / expired / deleted, a probe (listing, state file, lock table,
       session table) after every event, HandleConn(ConnEnd) deliveries observed through a wrapping grpcLockServer.
  oracle on the REAL traces (extracted from Coq: Model/Rest.v c20_step, c20_inert_failures — the property text only, no
       table model): acceptance exactly per the gap rule; refusals are 401 and change nothing probed; ConnEnd exactly
       once, within the DELETE / within the advance that completes a full timeout; never otherwise; the session table
       holds exactly the live sessions.
  T2   races on the real handler (harness/restdiff/race.go): request / DELETE / idle callback on one session, requests
       on two sessions; exact ties in a bubble, and on the wall clock with a 40 ms timeout where time must pass while a
       goroutine waits for a mutex; a request can be held inside the server call. Oracle (this file, schedule independent):
       every handler returns (wall-clock watchdog), nothing panics, statuses are legal, ConnEnd at most once per session at
       any time and exactly once after settling, no lock is left held, the ended sessions' cookies are refused.
  T2w  window runs (harness/restdiff/window_on_test.go, lib/restsess.py window_stage): yield points before EVERY mutex acquisition and
       timer-manager call found by text in net/rest/rest.go (transparent in the model-chosen schedules) park; the harness explores the
       interleavings of request / DELETE / idle-expiry threads itself (preemption bound 2, fresh handler per execution, lock aware);
       oracle on the real observations incl. C20_serve_before_end as an executable check (no server call after the session's ConnEnd).
  model: the real REST traces are replayed on the extracted Mrest under projection C20.

    bin/check C20 [--replay replays/C20/<file>.json]"""
import copy
import json
import os
import shutil
import sys
from pathlib import Path

if __name__ == "__main__":
    sys.path.insert(0, str(Path(__file__).resolve().parent.parent))

from checks import c15 as lib
from lib import vcheck
from lib.vcheck import VERIF, REPO, sh

S = 1_000_000_000

PROFILE_C20 = {
    "mode": "c20",
    "weights": {"create": 6, "delete": 8, "try": 25, "unl": 12, "ren": 10, "noop": 6, "adv": 33},
    "max_len": 26, "min_len": 8, "sessions": 3,
    "names": ["61", "62", "6162", "", "c3a9"],
    "sizes": [None, None, None, 1, 2, 3, 0, -1],
    "lts": [None, None, 0, 1, 2, 3, 5, -1],
    "renew_lts": [0, 1, 2, 3, -1],
    "tmos": [1500000000, 2000000007, 5 * S, 600 * S],
    "noclear": [False, False, True], "file": [False, True],
    "gc": [[1800 * S, 300 * S], [2 * S, 1 * S]],
    "dlt": [600 * S], "shards": [16, 1],
    "bad_key_pct": 20, "bad_ck_pct": 22,
    # POST /session carrying a cookie (another live session's, an ended one's, garbage, the slot's own): a fresh session must come back
    "create_ck_pct": 30,
}


TAG_TEXT = {
    "C20:valid-session-refused": "a request whose session was created, not deleted, and never idle for a full timeout was answered 401",
    "C20:invalid-cookie-accepted": "a request with a missing / unknown / expired / deleted cookie was not answered 401",
    "C20:refused-request-answered": "a request that had to be refused reached the lock server (a response body of a lock route was produced)",
    "C20:refused-request-changed-state": "the probes before and after a request answered 401 differ",
    "C20:expiry-not-prompt": "the advance completed a full timeout of idleness of a session but its ConnEnd was not delivered within that advance",
    "C20:connend-unexpected": "HandleConn(ConnEnd) was delivered where no session ends (not a DELETE of a live session, not an advance completing its timeout)",
    "C20:connend-twice": "HandleConn(ConnEnd) was delivered a second time for the same session",
    "C20:delete-of-valid-session-refused": "DELETE /session of a live session was not answered 200",
    "C20:delete-without-connend": "DELETE /session of a live session did not deliver exactly its ConnEnd",
    "C20:delete-of-invalid-session-accepted": "DELETE /session with a missing / unknown / ended cookie was answered 200",
    "C20:create-failed": "POST /session was not answered 201",
    "C20:table-vs-live-sessions": "the gateway's session table differs from the set of sessions that are live by the gap rule",
    "C20:holds-survive-session-end": "every session has ended but the lock server still lists holds",
    "C20:gateway-crash": "a handler panicked or never returned",
    "C20:create-reused-session": "POST /session was answered 201 without creating a session (it handed back an existing cookie / made no new server session)",
}


def c20_fails(batch):
    """{hid: [(idx, tag, text)]} from the extracted oracle's T / I lines and from panics."""
    out = {}
    for hid, r in batch["results"].items():
        f = [(i, t, TAG_TEXT.get(t, "")) for i, t in r["T"] + r["I"] if t.startswith("C20:")]
        case = batch["cases"].get(hid)
        if case is not None and case.get("panic"):
            try:
                ptxt = bytes.fromhex(case["panic"]).decode("utf-8", "replace")
            except ValueError:
                ptxt = str(case["panic"])
            f.append((max(0, len(case["blocks"]) - 1), "C20:gateway-crash", TAG_TEXT["C20:gateway-crash"] + ": " + ptxt))
        if case is not None:
            f += holds_released(case)
            for bi, blk in enumerate(case["blocks"]):
                if blk["e"][0] == "create":
                    f += [(i, "C20:create-reused-session", t) for i, _, t in lib.create_not_fresh(case, bi)]
        if f:
            out[hid] = sorted(f)
    return out


def holds_released(case):
    """"release its holds once", on the real trace: once every session that was created has received its ConnEnd, the lock
    server lists no hold (REST sessions are the only clients of these runs; not under no-clear-on-disconnect)."""
    if not case.get("cfg") or case["cfg"][0] != "0":
        return []
    created, ended, out = set(), set(), []
    for bi, blk in enumerate(case["blocks"]):
        e = blk["e"]
        if e[0] == "create" and len(e) >= 3:
            created.add(e[2])
        for o in blk["o"]:
            if o and o[0] == "end":
                ended.add(o[1])
        if e[0] == "probe" and created and created <= ended:
            for o in blk["o"]:
                if o and o[0] == "listing" and o[1] != "0":
                    out.append((bi, "C20:holds-survive-session-end", "every session has ended but %s lock(s) are still held" % o[1]))
    return out[:3]


def run_c20_batch(ctx, b, histories=None, profile=None, n=0, seed=0, tag="gen"):
    if histories is not None:
        rr = lib.run_replay(ctx, b, histories, name=tag)
    else:
        rr = lib.run_generated(ctx, b, profile, n, seed, tag=tag)
    results, hist, cases = lib.judge(ctx, b, rr["dirs"], ["all", "C20"])
    bb = dict(results=results, hist=hist, cases=cases, crashes=rr["crashes"], stats=rr.get("stats", {}))
    bb["oracle"] = c20_fails(bb)
    return bb


# --------------------------------------------------------------------------------------------------------------- races

def race_oracle(r):
    """The schedule-independent part of C20 on one executed race. -> list of (rule, text)"""
    bad = []
    if r.get("skipped"):
        return bad
    if r.get("setup_fail"):
        bad.append(("setup", "the scenario could not be set up: %s" % r["setup_fail"]))
        return bad
    if r.get("panic"):
        bad.append(("crash", "a handler panicked: %s" % r["panic"]))
    if r.get("deadlock"):
        bad.append(("deadlock", "handlers did not return within 10 s of wall clock: %s" % {k: v for k, v in r.get("statuses", {}).items() if v == 0}))
        return bad
    for k, a in (r.get("acts") or {}).items():
        st = (r.get("statuses") or {}).get(k)
        if a.startswith("req") and st not in (200, 401):
            bad.append(("status", "request goroutine %s (%s) ended with status %s" % (k, a, st)))
        if a.startswith("del") and st not in (200, 409):
            bad.append(("status", "DELETE goroutine %s (%s) ended with status %s" % (k, a, st)))
    created = r.get("created") or []
    for sid, n in (r.get("ends_early") or {}).items():
        if n > 1:
            bad.append(("connend-twice", "ConnEnd delivered %d times for session %s" % (n, sid)))
        if sid not in created:
            bad.append(("connend-unknown", "ConnEnd for a session that was never created: %s" % sid))
    for sid in created:
        n = (r.get("ends") or {}).get(sid, 0)
        if n != 1:
            bad.append(("connend-count", "after every session was deleted or idle for 3 timeouts, ConnEnd was delivered %d times for session %s (must be exactly once)" % (n, sid)))
    dels200 = {}
    for k, a in (r.get("acts") or {}).items():
        if a.startswith("del") and (r.get("statuses") or {}).get(k) == 200:
            dels200[a] = dels200.get(a, 0) + 1
    for a, n in dels200.items():
        if n > 1:
            bad.append(("delete-twice", "%d DELETEs of the same session answered 200" % n))
    bad += race_gap_rule(r)
    if any(p != 401 for p in r.get("post") or []):
        bad.append(("ended-cookie-accepted", "a request with an ended session's cookie was answered %s" % r.get("post")))
    if r.get("locks_left"):
        bad.append(("holds-not-released", "%d lock(s) still held after every session ended" % r["locks_left"]))
    return bad


def race_gap_rule(r):
    """The gap rule on an executed race, from the instants the harness recorded (start = the request is sent, fin = its handler
    returned; the request's validation happens in between). Sound for every schedule:
      A  a request sent more than a timeout after EVERY earlier activity of its session had finished must be refused;
      B  after an accepted request X, a request that is completely handled before (X sent + timeout) must be accepted
         (accepted requests re-arm the idle timer), unless the session was DELETEd."""
    bad = []
    tmo = r.get("tmo") or 0
    starts, fins, acts, sts = r.get("starts") or {}, r.get("fins") or {}, r.get("acts") or {}, r.get("statuses") or {}
    if not tmo or not starts:
        return bad
    slack = 0 if r.get("clock") == "virtual" else tmo // 5
    created = r.get("created_at") or []
    by_s = {}
    for k, a in acts.items():
        kind, s = a.split()
        by_s.setdefault(int(s), []).append((k, kind))
    for s, ks in by_s.items():
        if any(kind == "del" and sts.get(k) == 200 for k, kind in ks):
            continue
        reqs = [k for k, kind in ks if kind == "req" and k in starts and k in fins]
        c_at = created[s] if s < len(created) else 0
        for y in reqs:
            touches = [c_at] + [fins[x] for x in reqs if x != y and sts.get(x) == 200 and starts[x] <= starts[y]]
            if sts.get(y) == 200 and starts[y] > max(touches) + tmo + slack:
                bad.append(("request-accepted-after-full-timeout", "request goroutine %s on session %d was sent at %d ns, more than the timeout (%d ns) after the session's last activity ended (%d ns), and was answered 200"
                            % (y, s, starts[y], tmo, max(touches))))
            for x in reqs:
                if x != y and sts.get(x) == 200 and sts.get(y) == 401 and fins[x] <= starts[y] and fins[y] < starts[x] + tmo - slack:
                    bad.append(("accepted-request-did-not-keep-session-valid", "request %s on session %d was answered 200 (sent at %d ns) but request %s, completely handled by %d ns — less than the timeout (%d ns) later — was answered 401 without a DELETE"
                                % (x, s, starts[x], y, fins[y], tmo)))
    return bad


def run_races(ctx, b, n_virtual, n_real, seed, scenarios=None, tag="races", timeout=240):
    """-> dict(results=[RaceResult], scenarios={id: scenario}, crash=None|record)"""
    outdir = ctx.work / tag
    shutil.rmtree(outdir, ignore_errors=True)
    outdir.mkdir(parents=True)
    env = dict(os.environ)
    env.update({"RD_OUT": str(outdir), "RD_SEED": str(seed), "RD_RACE_VIRTUAL": str(n_virtual), "RD_RACE_REAL": str(n_real)})
    if scenarios is not None:
        f = outdir / "in.jsonl"
        f.write_text("\n".join(json.dumps(s) for s in scenarios) + "\n")
        env["RD_RACE_FILE"] = str(f)
    rc, out = sh([str(b["test_bin"]), "-test.run", "TestRace$", "-test.timeout", "%ds" % timeout], cwd=outdir, env=env, timeout=timeout + 30)
    results, scs = [], {}
    for name, sink in (("races.jsonl", results), ("scenarios.jsonl", None)):
        p = outdir / name
        if p.exists():
            for line in p.read_text().splitlines():
                try:
                    o = json.loads(line)
                except ValueError:
                    continue
                if sink is None:
                    scs[o.get("id")] = o
                else:
                    sink.append(o)
    crash = None
    if rc != 0:
        started, done, hang = lib._progress(outdir)
        done_ids = {r["id"] for r in results}
        stuck = hang[0] if hang else next((s for s in started if s not in done_ids), None)
        if stuck is None:
            stuck = next((i for i in scs if i not in done_ids), "?")
        crash = dict(id=stuck, kind="hang" if (hang or rc in (3, 124)) else "crash", output=out[-3000:], scenario=scs.get(stuck))
    return dict(results=results, scenarios=scs, crash=crash)


# ------------------------------------------------------------------------------------ T2: model-chosen schedules

ANCHORS = VERIF / "harness" / "restdiff" / "anchors.json"


def build_sched(ctx):
    """Instrumented build: one yield point per program point of the fine-grained model, plus the INNER yield points (before every
    mutex acquisition and timer-manager call found by text in net/rest/rest.go, notes after every release).
    -> dict(ok, why, test_bin, placed, missing, acq_sites, ok_window, accessor)
       ok        the model-chosen schedules can run (every anchor of the model was placed and the copy builds)
       ok_window the window runs can run (the copy builds and inner yield points were found) - they do not need the model's anchors"""
    try:
        from lib import instrument, seqtie
        work = ctx.work / "sched"
        shutil.rmtree(work, ignore_errors=True)
        work.mkdir(parents=True)
        ins = instrument.instrument(ANCHORS, work, REPO)
    except Exception as ex:  # noqa
        return dict(ok=False, ok_window=False, why="instrumenter failed: %r" % (ex,), placed=[], missing=[], acq_sites=[])
    acc = work / "rest_verif.go"
    shutil.copy(VERIF / "harness" / "restdiff" / "rest_verif.go.in", acc)
    base = {str(REPO / k): str(VERIF / "harness" / "overlay" / v) for k, v in seqtie.OVERLAYS.items()}
    base.update(ins["overlay"])
    hdir = ctx.work / "harness"
    if not hdir.exists():
        hdir = vcheck.harness_dir(ctx)
    test_bin = work / "sched.test"
    out, built, accessor = "", False, False
    for use_sess in (True, False):
        rep = dict(base)
        if use_sess:
            rep[str(REPO / "net" / "rest" / "verif_hooks.go")] = str(acc)
        ov = work / "overlay.json"
        ov.write_text(json.dumps({"Replace": rep}))
        rc, out = sh([vcheck.GO, "test", "-c", "-vet=off", "-tags", "verif restsched" + (" restsess" if use_sess else ""), "-overlay", str(ov), "-o", str(test_bin), "./restdiff"],
                     cwd=hdir, env=vcheck.go_env(), timeout=900)
        if rc == 0 and test_bin.exists():
            built, accessor = True, use_sess
            break
    res = dict(placed=ins["placed"], missing=ins["missing"], acq_sites=ins.get("acq_sites", []), work=work, accessor=accessor)
    if not built:
        res.update(ok=False, ok_window=False, why="the instrumented copy does not build", log=out[-3000:])
        return res
    res.update(test_bin=test_bin, ok_window=bool(res["acq_sites"]))
    if ins["missing"]:
        res.update(ok=False, why="yield points could not be placed (the code's shape is not the one the anchors describe)")
    else:
        res.update(ok=True)
    return res


def parse_sched_file(path):
    """{id: text of the schedule}"""
    out, cur, buf = {}, None, []
    try:
        for line in Path(path).read_text().splitlines():
            if line.startswith("S "):
                cur, buf = line.split()[1], []
            if cur is not None:
                buf.append(line)
            if line.strip() == "Z" and cur is not None:
                out[cur] = "\n".join(buf)
                cur = None
    except OSError:
        pass
    return out


def sched_oracle(trace_text):
    """schedule-independent C20 facts on the final observations of one executed schedule"""
    bad = []
    for line in trace_text.splitlines():
        f = line.split()
        if f and f[0] == "E" and len(f) >= 4:
            if int(f[2]) > 1:
                bad.append(("connend-twice", "ConnEnd delivered %s times for session %s" % (f[2], f[1])))
            if f[3] == "1" and int(f[2]) > 0:
                bad.append(("connend-for-live-session", "session %s is still in the table but its ConnEnd was delivered" % f[1]))
        if f and f[0] == "F" and len(f) >= 3 and f[2] not in ("200", "201", "401", "409"):
            bad.append(("status", "handler goroutine %s ended with status %s" % (f[1], f[2])))
        if f and f[0] == "A" and len(f) >= 4 and f[3] == "panicked":
            bad.append(("crash", "thread %s panicked" % f[2]))
    return bad


def run_sched(ctx, sb, n, seed, schedules_text=None, tag="sched-gen", timeout=240):
    """-> dict(k={id: verdict tokens}, scheds={id: text}, traces={id: text}, crash=None|dict)"""
    driver = lib.OCAML / "restdriver"
    outdir = ctx.work / tag
    shutil.rmtree(outdir, ignore_errors=True)
    outdir.mkdir(parents=True)
    sf = outdir / "schedules.txt"
    if schedules_text is not None:
        sf.write_text(schedules_text)
    else:
        rc, out = sh([str(driver), "gen", str(seed), str(n)], cwd=outdir, timeout=300)
        sf.write_text(out)
    env = dict(os.environ)
    env.update({"RD_OUT": str(outdir), "RD_SCHED": str(sf)})
    rc, out = sh([str(sb["test_bin"]), "-test.run", "TestSched$", "-test.timeout", "%ds" % timeout], cwd=outdir, env=env, timeout=timeout + 30)
    scheds = parse_sched_file(sf)
    traces = parse_sched_file(outdir / "trace-sched.txt")
    crash = None
    if rc != 0:
        started, done, hang = lib._progress(outdir)
        stuck = hang[0] if hang else next((s for s in started if s not in done), "?")
        crash = dict(id=stuck, kind="hang" if (hang or rc in (3, 124)) else "crash", at=(hang[1] if hang and len(hang) > 1 else None), output=out[-3000:], schedule=scheds.get(stuck))
    k = {}
    rc2, out2 = sh([str(driver), "check", str(sf), str(outdir / "trace-sched.txt")], cwd=outdir, timeout=600)
    for line in out2.splitlines():
        f = line.split()
        if len(f) >= 3 and f[0] == "K":
            k[f[1]] = f[2:]
    return dict(k=k, scheds=scheds, traces=traces, crash=crash)


def load_kind_corpus(kind):
    out = []
    d = VERIF / "corpus" / "rest"
    if d.exists():
        for f in sorted(d.glob("*.json")):
            try:
                c = json.loads(f.read_text())
            except Exception:  # noqa
                continue
            if c.get("kind") == kind:
                out.append(c)
    return out


def load_race_corpus():
    out = []
    d = VERIF / "corpus" / "rest"
    if d.exists():
        for f in sorted(d.glob("*.json")):
            try:
                c = json.loads(f.read_text())
            except Exception:  # noqa
                continue
            if c.get("kind") == "race" and c.get("scenario"):
                s = c["scenario"]
                s["id"] = ("v-" if s.get("clock") == "virtual" else "r-") + "corpus-" + f.stem
                out.append(s)
    return out


# ----------------------------------------------------------------------------------------------------------------- run

def run(ctx):
    cov = ctx.coverage
    ctx.assumptions += lib.ASSUMPTIONS_COMMON + [
        "the fine-grained model abstracts time: an armed idle timer may fire at any moment (a superset of every timeout value); timermap.Reset (Stop + re-arm under the timer map's mutex) and "
        "timermap.Remove are atomic steps, as the timer map's own mutex makes them; time.Timer.Stop reports false exactly when the timer's function has been started",
        "sync.Mutex / sync.RWMutex.Lock are modelled as blocking steps with an owner; fairness is not assumed (no-deadlock is about enabledness, not about every thread eventually running)",
        "ConnEnd is LockServer.DestroySession of the session (grpc.go HandleConn), Mseq's EDisconnect; that it releases exactly the session's holds is C06, not re-proved here. "
        "The harness checks on the real server that no lock is left once every session has ended",
        "the race stage (T2-races) is driven without yield points inside rest.go: goroutines are released at chosen virtual instants (exact ties) or wall-clock instants, and a request can be held inside "
        "the server call; the schedules actually taken are the Go scheduler's choice among those, so the race stage samples schedules — the all-schedules claim is the Coq theorem's",
        "POST /session draws a fresh cookie (pool_ok: at most one creator per cookie); a duplicate uuid would overwrite a live session's entry",
        "the c20 oracle and Mrest's create have no request cookie (POST /session always makes a fresh session): a create that carries a cookie is judged and replayed as a plain create; that it "
        "returned a cookie no earlier create returned and made a new server session is checked on the real trace (C20:create-reused-session)",
        "window runs: the harness preempts a handler goroutine only at the inner yield points (before every mutex acquisition and timer-manager call found by text in net/rest/rest.go, inside the "
        "server call, at the entry of HandleConn(ConnEnd)) - between two synchronisation operations a data-race-free handler cannot be observed by another goroutine; at most 2 preemptions per execution, "
        "at most 3 handler threads + idle expiry per scenario; the search is exhaustive within that bound where the evidence says so, a capped sample otherwise; which goroutine owns which mutex is read "
        "off acquisition / release notes that carry the mutex object's address (a lost note can only make the harness release a goroutine into a blocked mutex: a hang verdict, never a silent pass)",
    ]
    coq_ok = ctx.coq_stage()
    b = lib.build(ctx)
    tie = cov["ties"].setdefault("T1-restdiff-c20", {})
    tie2 = cov["ties"].setdefault("T2-races", {})
    if not b["ok"]:
        ctx.note("build failed (%s)" % b["why"])
        ctx.violation({"broken": "build", "stage": b["why"], "log": b["log"]},
                      "the tree under test (or the harness against it) does not build: nothing is shown to hold", name="build_failure.json", no_failing_input=True)
        tie["build"] = "failed: " + b["why"]
        cov["evaluations"] = 0
        cov["distinct_nontrivial"] = 0
        cov["rule"] = "nothing could be executed"
        return
    tie["session_table_accessor"] = b["cookies_visible"]
    if not b["cookies_visible"]:
        ctx.note("the session-table accessor does not compile against this tree; probes carry no cookie list")

    def runner(hs):
        bb = run_c20_batch(ctx, b, histories=hs, tag="one")
        return dict(fails=bb["oracle"], crashes=bb["crashes"], batch=bb)

    if ctx.replay:
        return do_replay(ctx, b, runner)

    quick = ctx.tier == "quick"
    n = 600 if quick else 8000
    prof = dict(PROFILE_C20)
    if not quick:
        prof["max_len"] = 60
    corpus = lib.load_corpus("c20")
    batches = []
    if corpus:
        batches.append(run_c20_batch(ctx, b, histories=corpus, tag="corpus"))
    batches.append(run_c20_batch(ctx, b, profile=prof, n=n, seed=ctx.seed, tag="gen"))

    n_cases = n_fail = n_mis = n_tie = n_events = n_req = 0
    kinds = set()
    first_mis = None
    crashes = []
    for bb in batches:
        crashes += bb["crashes"]
        n_fail += len(bb["oracle"])
        lib.report_failures(ctx, b, bb, bb["oracle"], runner, "a real run violates the session-lifetime rule", reported_limit=max(0, 3 - len(ctx.violations)))
        for hid, case in bb["cases"].items():
            n_cases += 1
            n_events += len(case["blocks"])
            n_req += sum(1 for blk in case["blocks"] if blk["e"][0] in ("req", "delete", "adv"))
            ks = lib.case_kinds(case)
            if len(set(ks)) >= 3:
                kinds.add(ks)
            r = bb["results"].get(hid)
            if r is None:
                continue
            if r.get("Y"):
                n_tie += 1
            mm = lib.model_mismatch(r, "C20")
            if mm and hid not in bb["oracle"]:
                n_mis += 1
                if first_mis is None:
                    first_mis = (hid, mm, r, bb)
    lib.report_crashes(ctx, crashes, "the gateway crashed or hung")

    # ---- races
    race_corpus = load_race_corpus()
    nv, nr = (80, 80) if quick else (1500, 800)
    rr = run_races(ctx, b, nv, nr, ctx.seed)
    rruns = [rr]
    if race_corpus:
        rruns.append(run_races(ctx, b, 0, 0, ctx.seed, scenarios=race_corpus, tag="races-corpus"))
    n_races = n_race_fail = 0
    race_rules = {}
    race_kinds = set()
    for run_ in rruns:
        for r in run_["results"]:
            if r.get("skipped"):
                race_rules["skipped"] = race_rules.get("skipped", 0) + 1
                continue
            n_races += 1
            sc = run_["scenarios"].get(r.get("id")) or {}
            race_kinds.add(json.dumps([[s.get("op"), s.get("act"), s.get("s"), s.get("gate"), s.get("pm"), s.get("ns")] for s in sc.get("steps", [])]) + r.get("clock", ""))
            bad = race_oracle(r)
            if bad:
                n_race_fail += 1
                for rule, _ in bad:
                    race_rules[rule] = race_rules.get(rule, 0) + 1
                if len(ctx.violations) < 5:
                    ctx.violation({"kind": "race", "property": "C20", "failed_checks": ["%s: %s" % x for x in bad], "scenario": sc, "result": r, "seed": ctx.seed,
                                   "replay_cmd": "bin/check C20 --replay <this file>   (re-runs the scenario 10 times; the schedule is the Go scheduler's)"},
                                  "a race on the real handler violates C20: %s (scenario %s)" % ("; ".join("%s" % x[0] for x in bad[:3]), r.get("id")),
                                  name="race_%s.json" % r.get("id"))
        if run_["crash"]:
            c = run_["crash"]
            n_race_fail += 1
            ctx.violation({"kind": "race", "property": "C20", "failed_checks": [c["kind"]], "scenario": c.get("scenario"), "scenario_id": c["id"], "output": c["output"], "seed": ctx.seed,
                           "replay_cmd": "bin/check C20 --replay <this file>"},
                          "the gateway %s during race scenario %s" % ("deadlocked (no progress on the wall clock)" if c["kind"] == "hang" else "crashed (panic outside a handler goroutine)", c["id"]),
                          name="race_%s_%s.json" % (c["kind"], str(c["id"]).replace("?", "x")))

    # ---- T2: model-chosen schedules on the instrumented handler, step by step against the fine-grained model
    tie3 = cov["ties"].setdefault("T2-sched", {})
    sb = build_sched(ctx)
    n_sched = n_sched_ok = n_sched_mis = n_sched_fail = n_items = n_drift = 0
    first_sched_mis = drift_example = None
    if not sb["ok"]:
        ctx.note("T2-sched unavailable on this tree: %s%s" % (sb["why"], (" " + json.dumps(sb["missing"][:3])) if sb.get("missing") else ""))
        tie3.update({"status": "unavailable: " + sb["why"], "yield_points_placed": len(sb.get("placed", [])), "yield_points_missing": sb.get("missing", [])[:10]})
    else:
        sched_corpus = "\n".join(c["schedule"] for c in load_kind_corpus("sched") if c.get("schedule"))
        sruns = []
        if sched_corpus:
            sruns.append(run_sched(ctx, sb, 0, ctx.seed, schedules_text=sched_corpus + "\n", tag="sched-corpus"))
        sruns.append(run_sched(ctx, sb, 300 if quick else 6000, ctx.seed))
        shapes = set()
        for sr in sruns:
            for sid_, text in sr["scheds"].items():
                n_sched += 1
                n_items += sum(1 for l in text.splitlines() if l.startswith("I "))
                shapes.add("\n".join(l for l in text.splitlines() if not l.startswith("S ")))
                v = sr["k"].get(sid_) or ["not-judged"]
                bad = sched_oracle(sr["traces"].get(sid_, ""))
                if bad:
                    n_sched_fail += 1
                    if len(ctx.violations) < 6:
                        ctx.violation({"kind": "sched", "property": "C20", "failed_checks": ["%s: %s" % x for x in bad], "schedule": text, "trace": sr["traces"].get(sid_),
                                       "model_verdict": " ".join(v), "replay_cmd": "bin/check C20 --replay <this file>"},
                                      "a model-chosen schedule on the real (instrumented) handler violates C20: %s (schedule %s)" % ("; ".join(x[0] for x in bad[:3]), sid_),
                                      name="sched_%s.json" % sid_)
                elif v[0] == "ok":
                    n_sched_ok += 1
                elif v[0] == "drift":
                    n_drift += 1
                    drift_example = drift_example or (sid_, " ".join(v))
                else:
                    n_sched_mis += 1
                    if first_sched_mis is None:
                        first_sched_mis = (sid_, v, text, sr["traces"].get(sid_))
            if sr["crash"]:
                c = sr["crash"]
                n_sched_mis += 1
                if first_sched_mis is None:
                    first_sched_mis = (c["id"], [c["kind"], "at-item", str(c.get("at"))], c.get("schedule"), c["output"])
        tie3.update({"status": "ran", "yield_points_placed": len(sb["placed"]), "schedules_executed_on_instrumented_handler": n_sched, "items": n_items,
                     "schedules_agreeing_step_by_step_and_in_the_final_state": n_sched_ok, "schedules_disagreeing": n_sched_mis,
                     "schedules_abandoned_because_a_thread_passed_a_program_point_without_yielding": n_drift,
                     "schedules_failing_the_oracle": n_sched_fail, "distinct_schedules": len(shapes), "corpus": len(load_kind_corpus("sched")),
                     "compared": "after every item: the stepped thread's yield point vs the model's pc; at the end: HTTP statuses, ConnEnd count and table entry per cookie"})
        cov["distinct_sched"] = len(shapes)
        if n_drift:
            ctx.note("T2-sched: in %d schedules a real thread passed a model program point without yielding (e.g. %s %s): the code's shape differs from the anchors; those schedules are not compared further"
                     % (n_drift, drift_example[0], drift_example[1][:120]))

    # ---- window runs: every inner yield point parks, the harness explores the interleavings, a model-independent oracle judges
    from lib import restsess
    wres = restsess.window_stage(ctx, sb=sb, limit=max(1, 4 - len(ctx.violations)))
    n_window = wres["executed"]

    any_real_failure = bool(n_fail or crashes or n_race_fail or n_sched_fail or wres["failing"])
    if first_sched_mis and not any_real_failure:
        sid_, v, text, tr = first_sched_mis
        ctx.violation({"broken": "correspondence T2 (fine-grained model vs instrumented handler)", "kind": "sched", "schedule_id": sid_, "first_difference": " ".join(v), "schedule": text,
                       "trace_or_output": tr, "disagreeing_schedules": n_sched_mis, "replay_cmd": "bin/check C20 --replay <this file>"},
                      "the fine-grained model and the instrumented handler disagree on %d model-chosen schedule(s) (first: %s %s); no real run violating the property was found"
                      % (n_sched_mis, sid_, " ".join(v)[:200]), name="correspondence_sched_%s.json" % sid_, no_failing_input=True)
    if n_mis and not any_real_failure:
        hid, mm, r, bb = first_mis
        case = bb["cases"].get(hid)
        ctx.violation({"broken": "correspondence T1 (projection C20)", "history_id": hid, "first_difference": mm, "history": bb["hist"].get(hid),
                       "trace": case["lines"] if case else None, "model_says": r["M"][:20], "mismatching_histories": n_mis},
                      "model and implementation disagree on %d histories in the observations C20 reads; no real run violating the property was found" % n_mis,
                      name="correspondence_%s.json" % hid, no_failing_input=True)
    if not coq_ok and not any_real_failure:
        ctx.coq_broken_violation()

    stats = batches[-1]["stats"]
    tie.update({"histories_executed_on_real_handler": n_cases, "corpus": len(corpus), "generated": n, "events": n_events,
                "requests_deletes_advances_judged_by_the_gap_rule_oracle": n_req, "histories_failing_the_oracle": n_fail,
                "model_mismatches_in_projection": n_mis, "histories_with_timer_tie": n_tie,
                "model_mismatches_ignored_because_of_a_timer_tie": sum(1 for bb in batches for r in bb["results"].values() if r.get("tie_ignored")),
                "crashes_or_hangs": len(crashes), "session_creates_carrying_a_cookie": lib.create_classes(batches),
                "projection": "C20 (statuses, ConnEnd, session table; of the lock server: flags, listing, file, lock table)",
                "oracle": "extracted from Coq: c20_step (gap rule, 401, ConnEnd once and prompt, table = live sessions), c20_inert_failures", "generator_distribution": stats})
    tie2.update({"scenarios_executed_on_real_handler": n_races, "fixed": len([1 for r in rr["results"] if "rand" not in r.get("id", "")]),
                 "random_virtual_clock": nv, "random_wall_clock": nr, "corpus": len(race_corpus), "failing": n_race_fail, "failing_rules": race_rules,
                 "oracle": "handlers return, no panic, legal statuses, ConnEnd <= 1 at any time and == 1 after settling, no lock left, ended cookies refused"})
    cov["traces_validated_against_impl"] = n_cases
    cov["evaluations"] = n_req + n_races + n_items + n_window
    cov["distinct_nontrivial"] = len(kinds) + len(race_kinds) + cov.pop("distinct_sched", 0)
    cov["exhaustive"] = False
    cov["rule"] = ("T1: histories generated online from one PCG stream per (seed, index), executed event by event on the real REST handler in a synctest bubble, a probe after "
                   "every event; evaluations count the requests, DELETEs and advances on which the extracted gap-rule oracle was evaluated, plus the executed race scenarios; "
                   "non-trivial = at least 3 different event kinds; distinct = different event-kind sequences (T1) / different step lists (T2 races) / different "
                   "(thread table, item list) pairs (T2-sched: schedules drawn by the extracted model among its enabled items, every item compared)")
    for bb in batches[::-1]:
        for hid in sorted(bb["cases"])[:1]:
            if len(cov["samples"]) < 2:
                cov["samples"].append({"history_id": hid, "trace_head": bb["cases"][hid]["lines"][:24]})
    for r in rr["results"][:60]:
        if r.get("id") in ("v-inflight-vs-callback", "r-queued-request-then-expiry-0") and len(cov["samples"]) < 4:
            cov["samples"].append({"race": rr["scenarios"].get(r["id"]), "result": r})


def do_replay(ctx, b, runner):
    try:
        r = json.loads(Path(ctx.replay).read_text())
    except Exception as ex:  # noqa
        print("cannot read replay file: %r" % (ex,))
        ctx.violation({"broken": "replay", "file": str(ctx.replay)}, "replay file unreadable", name="replay_unreadable.json", no_failing_input=True)
        return
    if r.get("kind") == "window":
        from lib import restsess
        restsess.replay_window(ctx, r)
        return
    if r.get("kind") == "sched":
        text = r.get("schedule")
        if not text:
            print("the replay file carries no schedule")
            return
        sb = build_sched(ctx)
        if not sb["ok"]:
            print("the instrumented handler cannot be built on this tree: %s %s" % (sb["why"], sb.get("missing")))
            ctx.violation({"broken": "replay", "why": sb["why"]}, "replay could not run: " + sb["why"], name="replay_failed.json", no_failing_input=True)
            return
        sr = run_sched(ctx, sb, 0, ctx.seed, schedules_text=text + "\n", tag="sched-replay")
        for sid_, t in sr["scheds"].items():
            print(t)
            print(sr["traces"].get(sid_, "(no trace)"))
            v = sr["k"].get(sid_) or ["not-judged"]
            bad = sched_oracle(sr["traces"].get(sid_, ""))
            print("model: " + " ".join(v))
            print("oracle: " + ("; ".join("%s: %s" % x for x in bad) if bad else "passes"))
            if bad or v[0] != "ok" or sr["crash"]:
                ctx.violation({"kind": "sched", "schedule": text, "model_verdict": " ".join(v), "failed_checks": ["%s: %s" % x for x in bad], "crash": sr["crash"]},
                              "the replayed schedule still fails: %s %s" % (" ".join(v)[:200], "; ".join(x[0] for x in bad)), name="replayed_sched.json", no_failing_input=not bad)
        if sr["crash"]:
            print("CRASH/HANG: %s" % sr["crash"]["output"][-1500:])
        ctx.coverage["samples"] = [{"replayed_schedule": list(sr["scheds"])[:1]}]
        ctx.coverage["evaluations"] = sum(1 for l in text.splitlines() if l.startswith("I "))
        ctx.coverage["distinct_nontrivial"] = 1
        ctx.coverage["rule"] = "replay of one recorded schedule"
        return
    if r.get("kind") == "race":
        sc = r.get("scenario")
        if not sc:
            print("the replay file names scenario %r but carries no step list" % r.get("scenario_id"))
            return
        scs = []
        for i in range(10):
            s = copy.deepcopy(sc)
            s["id"] = "%s-replay%d" % (sc.get("id", "race"), i)
            scs.append(s)
        print("replaying race scenario %s 10 times on %s\n%s" % (sc.get("id"), REPO, json.dumps(sc)))
        rr = run_races(ctx, b, 0, 0, ctx.seed, scenarios=scs, tag="races-replay")
        nbad = 0
        for res in rr["results"]:
            bad = race_oracle(res)
            print(json.dumps(res))
            print("  -> " + ("; ".join("%s: %s" % x for x in bad) if bad else "passes"))
            nbad += 1 if bad else 0
        if rr["crash"]:
            print("CRASH/HANG in %s: %s\n%s" % (rr["crash"]["id"], rr["crash"]["kind"], rr["crash"]["output"][-1500:]))
        if nbad or rr["crash"]:
            ctx.violation({"kind": "race", "property": "C20", "scenario": sc, "failing_runs": nbad, "crash": rr["crash"]},
                          "the replayed race still fails (%d of %d runs%s)" % (nbad, len(rr["results"]), ", and the process hung or crashed" if rr["crash"] else ""), name="replayed_race.json")
        else:
            print("verdict: all %d runs pass on this tree" % len(rr["results"]))
        ctx.coverage["samples"] = [{"replayed_race": sc.get("id")}]
        ctx.coverage["evaluations"] = len(rr["results"])
        ctx.coverage["distinct_nontrivial"] = 1
        ctx.coverage["rule"] = "replay of one recorded race scenario, 10 runs"
        return
    return lib.do_replay(ctx, b, runner)


if __name__ == "__main__":
    print(__doc__)


def run(ctx, _inner=run):     # + T5-race (lib/racetie.py): data-race freedom, the assumption under every interleaving model; also re-runs its replay files
    from lib import racetie
    return racetie.stage(ctx, _inner, ["net/rest", "net/grpc", "net"])
