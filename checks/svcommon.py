"""Shared body of C05, C06, C09 (and the closer part of C11): theorems over Msv (all interleavings of the server's request,
expiry, session-end and shutdown steps) and Mseq; ties: T2 layer 2 (lib/svtie.py: model-chosen schedules executed on the real
LockServer stack, one step at a time, state-file bytes captured after every item, the property's own oracle on the real
traces) and T1 seq-diff (checks/seqcommon.py). DESIGN.md sections 5 and 11."""
import json
import subprocess
import sys
from pathlib import Path

from checks import seqcommon
from lib import svtie

V = Path(__file__).resolve().parent.parent


def replay(ctx, prop):
    try:
        obj = json.loads(Path(ctx.replay).read_text())
    except Exception as ex:  # noqa
        print("cannot read replay file: %s" % ex)
        return
    if isinstance(obj, dict) and ("history" in obj or "shrunk" in obj or "events" in obj):
        return seqcommon.replay(ctx, prop)
    p = subprocess.run([sys.executable, "-m", "lib.svtie", "--prop", prop, "--replay", ctx.replay, "--show"], cwd=str(V),
                       stdout=subprocess.PIPE, stderr=subprocess.STDOUT, text=True, timeout=1200)
    print(p.stdout[-6000:])
    if p.returncode != 0 or "VIOLATION" in p.stdout:
        ctx.violation(obj, "replayed schedule still violates %s" % prop, name="replayed.json")


def run(ctx, prop, seq=True):
    if ctx.replay:
        return replay(ctx, prop)
    ok = ctx.coq_stage()
    svtie.run_property(ctx, prop)
    if seq:
        seqcommon.seq_stage(ctx, prop)
    ctx.assumptions += [
        "granularity: every lock-manager call is one atomic step of Msv (justified by Mlk's refinement theorem C02: linearisable object = atomic specification for its clients' safety properties; an argument, not a mechanised composition); every other synchronised operation of server.go / timermap.go / session.go is one step",
        "the state file is replaced by temp file + atomic rename: a kill leaves the image of some reachable model state (rename atomicity of the file system is assumed)",
        "T2 layer 2 is differential testing under a cooperative scheduler: agreement on the schedules run, not for all schedules; the theorems cover all schedules",
    ]
    if not ok and not ctx.violations:
        ctx.coq_broken_violation()
