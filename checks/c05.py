"""C05 — see DESIGN.md sections 5 "C05" and 11, and checks/svcommon.py."""
from checks import svcommon


def run(ctx):
    svcommon.run(ctx, "C05")
