"""C05 — see DESIGN.md sections 5 "C05" and 11, and checks/svcommon.py."""
from checks import svcommon


def run(ctx):
    svcommon.run(ctx, "C05")


def run(ctx, _inner=run):     # + T5-race (lib/racetie.py): data-race freedom, the assumption under every interleaving model; also re-runs its replay files
    from lib import racetie
    return racetie.stage(ctx, _inner, ["timermap", "server"])
