"""C06 — see DESIGN.md sections 5 "C06" and 11, and checks/svcommon.py; the REST session-end stage is lib/restsess.py."""
from checks import svcommon
from lib import restsess


def run(ctx):
    if ctx.replay and restsess.replay(ctx, ctx.replay):
        return
    svcommon.run(ctx, "C06")
    if not ctx.replay:
        restsess.run_property(ctx)


def run(ctx, _inner=run):     # + T5-race (lib/racetie.py): data-race freedom, the assumption under every interleaving model; also re-runs its replay files
    from lib import racetie
    return racetie.stage(ctx, _inner, ["server", "server/session", "server/session/store"])
