"""C04 — see DESIGN.md section 5 "C04". Theorems: coq/Properties/C04.v (over Mseq); tie: T1 seq-diff (checks/seqcommon.py)."""
from checks import seqcommon


def run(ctx):
    seqcommon.run_seq_only(ctx, "C04")
