"""C04 — see DESIGN.md section 5 "C04". Theorems: coq/Properties/C04.v (over Mseq); ties: T1 seq-diff (checks/seqcommon.py) and, for
the lease under races (an expiry racing an Unlock, a Renew or a session end must still end the hold), T2 layer 2 with the C05 scenario
family and the model-independent oracle svtie.oracle_C04 on the real observations."""
from checks import seqcommon, svcommon
from lib import svtie


def run(ctx):
    if ctx.replay:
        return svcommon.replay(ctx, "C04")
    ok = ctx.coq_stage()
    seqcommon.seq_stage(ctx, "C04")
    svtie.run_property(ctx, "C04", scenarios=svtie.load_scenarios("C05"), corpus_props=["C04", "C05"])
    ctx.assumptions += ["T2 layer 2 for C04: the scenarios of C05 (Unlock / Renew / expiry / session end racing on one hold), judged by 'a lease that fired ends its hold' on the real observations"]
    if not ok and not ctx.violations:
        ctx.coq_broken_violation()


def run(ctx, _inner=run):     # + T5-race (lib/racetie.py): data-race freedom, the assumption under every interleaving model; also re-runs its replay files
    from lib import racetie
    return racetie.stage(ctx, _inner, ["timermap", "server"])
