"""C18 — see DESIGN.md section 5 "C18". Theorems: coq/Properties/C18.v (over Mseq); ties: T1 seq-diff through the real ipc receiver
(checks/seqcommon.py) and T4-cli (lib/clitie.py: the real ldlm-server and ldlm-lock binaries, list / unlock by key / by name)."""
from checks import seqcommon
from lib import clitie


def run(ctx):
    seqcommon.run_seq_only(ctx, "C18")
    clitie.run_property(ctx)


def run(ctx, _inner=run):     # + T5-race (lib/racetie.py): data-race freedom, the assumption under every interleaving model; also re-runs its replay files
    from lib import racetie
    return racetie.stage(ctx, _inner, ["server/ipc", "cmd/lock"])
