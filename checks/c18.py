"""C18 — see DESIGN.md section 5 "C18". Theorems: coq/Properties/C18.v (over Mseq); tie: T1 seq-diff (checks/seqcommon.py)."""
from checks import seqcommon


def run(ctx):
    seqcommon.run_seq_only(ctx, "C18")
