"""C18 — see DESIGN.md section 5 "C18". Theorems: coq/Properties/C18.v (over Mseq); ties: T1 seq-diff through the real ipc receiver
(checks/seqcommon.py) and T4-cli (lib/clitie.py: the real ldlm-server and ldlm-lock binaries, list / unlock by key / by name)."""
from checks import seqcommon
from lib import clitie


def run(ctx):
    seqcommon.run_seq_only(ctx, "C18")
    clitie.run_property(ctx)
