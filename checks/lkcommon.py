"""Shared body of C01, C02, C03, C13: theorems over Mlk (all interleavings of the lock package's critical sections) and Mseq;
ties: T2 sched-diff (lib/schedtie.py: model-chosen schedules executed on the real lock.Manager, one critical section at a
time, with the property's own oracle on the real traces) and T1 seq-diff (checks/seqcommon.py). DESIGN.md section 5."""
from checks import seqcommon
from lib import schedtie


def run(ctx, prop):
    if ctx.replay:
        import json
        from pathlib import Path
        try:
            obj = json.loads(Path(ctx.replay).read_text())
        except Exception as ex:  # noqa
            print("cannot read replay file: %s" % ex)
            return
        if isinstance(obj, dict) and ("history" in obj or "shrunk" in obj or "events" in obj):
            return seqcommon.replay(ctx, prop)
        try:
            return schedtie.replay(ctx, prop, ctx.replay)
        except AttributeError:
            import subprocess, sys
            subprocess.run([sys.executable, "-m", "lib.schedtie", "--prop", prop, "--replay", ctx.replay], cwd=str(Path(__file__).resolve().parent.parent))
            return
    ok = ctx.coq_stage()
    schedtie.run_property(ctx, prop)
    seqcommon.seq_stage(ctx, prop)
    ctx.assumptions += [
        "granularity: every real execution is an interleaving of the critical sections listed in Model/Lk.v (data-race freedom outside the two word-sized racy reads; Go memory model); T2 validates the steps and their order on the schedules run",
        "T2 is differential testing under a cooperative scheduler inside testing/synctest: agreement on the schedules run (counts in coverage.ties), not for all schedules; the theorems are what covers all schedules",
    ]
    if not ok and not ctx.violations:
        ctx.coq_broken_violation()
