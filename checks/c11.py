"""C11 — graceful shutdown on SIGINT/SIGTERM.

Stages (DESIGN.md 5 "C11", 4.4):
  Coq  ctx.coq_stage(): Properties/C11.v (Mseq's EShutdown lemma C11_shutdown; the interleaving model Msv's closer
       thread, T_C11_* of Proofs/SvDefs.v proved in Proofs/SvFile.v).
  T1   seqcommon.seq_stage(ctx, "C11"): generated histories with EShutdown / ERestart events on the real LockServer in
       virtual time against Mseq.
  T4   the process level, which no model covers: the REAL binaries, built here from the tree under test
       (go build ./cmd/server ./cmd/lock), are run as child processes by harness/e2e/c11 through a matrix
           signal {SIGINT, SIGTERM} x state file {on, off} x REST {on, off} x no_clear_on_disconnect {off, on}
           x client situation {none, idle, holds, blocked, blocked_wt, rest_hold, mixed, inflight,
                               rest_stalled_body, rest_stalled_headers, rest_idle_keepalive (REST cells), grpc_stalled}
       (stalled = a raw TCP connection that is open at the signal with a request the server cannot finish serving: headers +
       part of the body, part of the headers, an idle keep-alive connection, an unfinished HTTP/2 handshake)
       (+ "inflight" on a server that restored a large state file). Observed per scenario: exit status, time from signal to
       exit, stdout/stderr, the outcome of every call blocked or in flight at the signal, the state file after exit
       decoded with the tree's own store, the next start on the same file and ports (admin listing through the IPC
       socket and through ldlm-lock, TryLock refused, Unlock with the original key), the second shutdown.

The oracle below is the property itself, evaluated on what the real process did:
  exit0                exit status 0 (not killed by a signal, not hung, no crash report)
  prompt               signal -> exit in less than 5 s
  nopanic              no "panic" / "fatal error" / goroutine dump on stdout/stderr
  socket_gone          the IPC socket file is gone after the exit (the next start refuses to run while it is there)
                       - all of these also when a second and third signal (the same again, the other one, SIGQUIT) arrive
                       0 / 200 us / 2 ms / 20 ms after the first, while the shutdown is in progress: they must be absorbed
  blocked_error        a Lock blocked on a hold that is never released comes back with an error (or a transport error),
                       never locked=true
  no_hang              every call blocked / in flight at the signal returns within the bound; every stalled connection is
                       closed within it; a stalled request is never answered with a hold (blocked_error)
  file_keeps           every hold acknowledged and live at the signal (no Unlock sent) is in the state file after exit,
                       under either disconnect policy
  file_drops_unlocked  no hold whose Unlock was acknowledged is in it
  restart_up / restart_lists / restart_refuses / restart_unlock
                       the next start comes up on the same ports, lists those holds, refuses a TryLock on them, and
                       Unlock with the original key succeeds

    bin/check C11 [--tier quick|thorough] [--replay replays/C11/<file>.json]
    python3 checks/c11.py --t4-only [thorough]             T4 stage alone (no Coq, no T1, no evidence file), verbose
"""
import json
import os
import random
import shutil
import signal
import subprocess
import sys
import time
from pathlib import Path

if __name__ == "__main__":
    sys.path.insert(0, str(Path(__file__).resolve().parent.parent))

from lib import vcheck

LIMIT_MS = 5000
CLAUSES = ["exit0", "prompt", "nopanic", "socket_gone", "blocked_error", "no_hang", "file_keeps", "file_drops_unlocked",
           "restart_up", "restart_lists", "restart_refuses", "restart_unlock"]
# further signals while the shutdown is in progress: offsets after the first signal, and what is sent
EXTRA_OFFSETS_US = [0, 200, 700, 2000, 20000]
EXTRA_KINDS = ["same", "other", "QUIT", "same+other", "other+QUIT"]
EXTRA_SITUATIONS = ["none", "idle", "blocked", "mixed", "inflight", "many_idle", "holds"]
SITUATIONS = ["none", "idle", "holds", "blocked", "blocked_wt", "rest_hold", "mixed", "inflight",
              "rest_stalled_body", "rest_stalled_headers", "rest_idle_keepalive", "grpc_stalled"]
REST_ONLY = ("rest_hold", "rest_stalled_body", "rest_stalled_headers", "rest_idle_keepalive")
STALLED = ("rest_stalled_body", "rest_stalled_headers", "rest_idle_keepalive", "grpc_stalled")
GRPC_VARIANTS = ["nothing", "preface", "half-preface"]
F_HANDSHAKE = "F-GRPC-HANDSHAKE"
DELAYS = [0, 200, 1000, 5000, 20000, 50000]
PRELOAD_KEY = "00000000-0000-4000-8000-"


# ------------------------------------------------------------------------------------------------------------ scenarios

def make_scenario(rng, sid, sig, sf, rest, noclear, sit, delay, preload=0):
    n_live = rng.randint(1, 3)
    unlock_before = rng.choice([0, 1, 1]) if sit in ("holds", "rest_hold", "mixed") else 0
    sc = {
        "id": sid, "signal": sig, "state_file": sf, "rest": rest, "no_clear": noclear,
        "ipc": rng.random() < 0.8, "client": sit,
        "nlocks": (min(n_live, 2) if sit in STALLED else n_live + unlock_before) if sit not in ("none", "idle", "inflight") else 0,
        "lock_timeouts": [rng.choice([0, 0, 30, 60, 120]) for _ in range(n_live + unlock_before)],
        "unlock_before": unlock_before,
        "waiters": rng.randint(1, 2) if sit in ("blocked", "blocked_wt", "mixed") else 0,
        "wait_timeout": rng.choice([20, 30, 60]) if sit == "blocked_wt" else (rng.choice([0, 0, 30]) if sit == "mixed" else 0),
        "workers": rng.choice([8, 16, 32]) if sit == "inflight" else 0,
        "preload": preload, "delay_us": delay, "limit_ms": LIMIT_MS,
    }
    if sit == "grpc_stalled":
        sc["variant"] = rng.choice(GRPC_VARIANTS)
    if sit in ("blocked", "blocked_wt", "mixed") and rng.random() < 0.5:
        sc["lock_timeouts"][0] = rng.choice([30, 60])  # the hold the waiters queue on has a lease
    return sc


def matrix(seed, tier):
    """The scenario list of a run: every cell of the matrix once (quick) or three times with different timing offsets
    (thorough); all parameters from one PRNG seeded with ctx.seed."""
    rng = random.Random(int(seed) * 1000003 + 11)
    reps = 1 if tier == "quick" else 3
    rot = rng.randrange(len(DELAYS))
    scs, k = [], 0
    for rep in range(reps):
        for sig in ("INT", "TERM"):
            for sf in (True, False):
                for rest in (True, False):
                    for noclear in (False, True):
                        for sit in SITUATIONS:
                            if sit in REST_ONLY and not rest:
                                continue
                            if sit == "grpc_stalled" and (noclear or (tier == "quick" and not sf)):
                                continue    # the disconnect policy has no part in it; quick: the cells with a state file
                            delay = DELAYS[(rot + k + 2 * rep) % len(DELAYS)]
                            if sit == "inflight":
                                delay = rng.choice([0, 3000, 20000, 40000])
                            sid = "m%03d-%s-%s%s%s-%s" % (k, sig, "F" if sf else "f", "R" if rest else "r", "N" if noclear else "n", sit)
                            scs.append(make_scenario(rng, sid, sig, sf, rest, noclear, sit, delay))
                            k += 1
    # requests in flight on a server that carries the holds of an earlier run (large lock table, large state file):
    # the closer's last steps take long enough for a request to run into them
    n_pre = 3 if tier == "quick" else 10
    for i in range(n_pre):
        sig = ("INT", "TERM")[i % 2]
        sc = make_scenario(rng, "p%02d-%s-preload-inflight" % (i, sig), sig, True, i % 3 == 2, i % 4 == 3, "inflight",
                           rng.choice([0, 20000]), preload=20000)
        sc["workers"], sc["ipc"] = 32, True
        scs.append(sc)
    if tier != "quick":
        for i in range(60):
            sig = ("INT", "TERM")[i % 2]
            sc = make_scenario(rng, "x%02d-%s-inflight" % (i, sig), sig, i % 5 != 4, i % 3 == 0, i % 4 == 1, "inflight",
                               rng.choice([0, 1000, 3000, 10000, 30000]))
            scs.append(sc)
    return scs + double_signal_block(seed, tier)


def extra_signals(first, kind, off, rng):
    """The further signals of one scenario: `kind` names what is sent, `off` when the first of them is (us after the first
    signal); a third one follows 150-3000 us later."""
    other = "TERM" if first == "INT" else "INT"
    names = {"same": [first], "other": [other], "QUIT": ["QUIT"], "same+other": [first, other], "other+QUIT": [other, "QUIT"]}[kind]
    out, t = [], off
    for n in names:
        out.append({"signal": n, "after_us": t})
        t += rng.choice([150, 700, 3000])
    return out


def double_signal_block(seed, tier):
    """Scenarios in which a second (and third) signal arrives while the shutdown started by the first is in progress: the
    same signal again, the other one, SIGQUIT; 0 / 200 us / 2 ms / 20 ms after the first; in situations whose shutdown takes
    measurable time (blocked waiters, many connections, request loops, 20000 restored holds) and idle ones. Its own PRNG
    stream, so that the cells of the matrix stay what they are. quick: every (kind, offset) pair once, situations and
    configurations rotating; thorough: every pair in every situation, both signals."""
    rng = random.Random(int(seed) * 1000003 + 23)
    scs, k = [], 0
    rot = rng.randrange(len(EXTRA_SITUATIONS))
    sits = EXTRA_SITUATIONS if tier != "quick" else [None]
    for sit0 in sits:
        for sig in (("INT", "TERM") if tier != "quick" else (None,)):
            for kind in EXTRA_KINDS:
                for off in EXTRA_OFFSETS_US:
                    sit = sit0 or EXTRA_SITUATIONS[(rot + k) % len(EXTRA_SITUATIONS)]
                    first = sig or ("INT", "TERM")[k % 2]
                    rest = k % 3 == 0
                    sc = make_scenario(rng, "d%03d-%s-%s-%s@%d" % (k, first, sit, kind.replace("+", "_"), off), first, k % 5 != 4, rest, k % 4 == 1,
                                       sit, rng.choice([0, 200, 1000]))
                    sc["ipc"] = True
                    sc["extra_signals"] = extra_signals(first, kind, off, rng)
                    if sit == "many_idle":
                        sc["conns"], sc["nlocks"] = rng.choice([60, 120]), 2
                    scs.append(sc)
                    k += 1
    # the slowest shutdown there is: 20000 restored holds, 32 request loops
    for i in range(2 if tier == "quick" else 8):
        first = ("TERM", "INT")[i % 2]
        sc = make_scenario(rng, "dp%02d-%s-preload-inflight" % (i, first), first, True, i % 3 == 1, False, "inflight", rng.choice([0, 20000]), preload=20000)
        sc["workers"], sc["ipc"] = 32, True
        sc["extra_signals"] = extra_signals(first, EXTRA_KINDS[i % len(EXTRA_KINDS)], [2000, 20000, 200, 5000][i % 4], rng)
        scs.append(sc)
    return scs


def corpus_scenarios():
    out = []
    for f in sorted((vcheck.VERIF / "corpus" / "e2e").glob("c11_*.json")):
        try:
            c = json.loads(f.read_text())
        except Exception:  # noqa
            continue
        for i, sc in enumerate(c.get("scenarios") or []):
            sc = dict(sc)
            sc["id"] = "c-%s-%d" % (f.stem[4:], i)
            sc.setdefault("limit_ms", LIMIT_MS)
            out.append(sc)
    return out


# --------------------------------------------------------------------------------------------------------------- builds

def build_binaries(ctx):
    """The real binaries from the tree's CURRENT sources. -> (server, lockbin or None, log)"""
    bind = ctx.work / "bin"
    bind.mkdir(parents=True, exist_ok=True)
    env = vcheck.go_env({"GOFLAGS": "-mod=readonly"})   # never writes go.mod / go.sum of the tree
    srv, lockbin = bind / "ldlm-server", bind / "ldlm-lock"
    rc, out = vcheck.sh([vcheck.GO, "build", "-buildvcs=false", "-o", str(srv), "./cmd/server"], cwd=vcheck.REPO, env=env, timeout=600)
    if rc != 0 or not srv.exists():
        return None, None, "go build ./cmd/server (rc %s):\n%s" % (rc, out[-4000:])
    rc2, out2 = vcheck.sh([vcheck.GO, "build", "-buildvcs=false", "-o", str(lockbin), "./cmd/lock"], cwd=vcheck.REPO, env=env, timeout=600)
    if rc2 != 0 or not lockbin.exists():
        return srv, None, "go build ./cmd/lock (rc %s):\n%s" % (rc2, out2[-2000:])
    return srv, lockbin, ""


def build_driver(ctx):
    hdir = vcheck.harness_dir(ctx, name="harness-c11")
    exe = ctx.work / "c11-e2e"
    rc, out = vcheck.go_build(ctx, hdir, "./e2e/c11", exe, tags="verif", timeout=900)
    if rc == 0 and exe.exists():
        return exe, ""
    return None, "go build ./e2e/c11 (rc %s):\n%s" % (rc, out[-4000:])


def run_driver(ctx, exe, srv, lockbin, scs, name, jobs=6):
    """Runs the driver in its own process group, which is killed as a whole afterwards. -> (results, log)"""
    work = ctx.work / "t4" / name
    shutil.rmtree(work, ignore_errors=True)
    work.mkdir(parents=True, exist_ok=True)
    (work / "scenarios.json").write_text(json.dumps(scs))
    cmd = [str(exe), "-server", str(srv), "-work", str(work), "-scenarios", str(work / "scenarios.json"), "-jobs", str(jobs)]
    if lockbin:
        cmd += ["-lockbin", str(lockbin)]
    # a hung scenario costs limit + 3 s + restart; the budget allows every one of them to hang once
    budget = 120 + len(scs) * 14.0 / jobs
    log = ""
    outp, errp = work / "out.jsonl", work / "driver.err"
    p = None
    try:
        with open(outp, "w") as fo, open(errp, "w") as fe:
            p = subprocess.Popen(cmd, cwd=str(work), stdout=fo, stderr=fe, stdin=subprocess.DEVNULL, start_new_session=True,
                                 env=dict(os.environ, TMPDIR=str(work)))
            try:
                p.wait(timeout=budget)
            except subprocess.TimeoutExpired:
                log += "[driver exceeded %.0fs; killed]\n" % budget
    except Exception as ex:  # noqa
        log += "failed to run the driver: %r\n" % (ex,)
    finally:
        if p is not None:
            try:
                os.killpg(p.pid, signal.SIGKILL)     # the driver and every server it started
            except (ProcessLookupError, PermissionError):
                pass
            try:
                p.wait(timeout=10)
            except Exception:  # noqa
                pass
    results, done = [], False
    try:
        for line in outp.read_text(errors="replace").splitlines():
            line = line.strip()
            if not line.startswith("{"):
                continue
            try:
                o = json.loads(line)
            except ValueError:
                continue
            if o.get("meta"):
                done = bool(o.get("done"))
            elif "scenario" in o:
                results.append(o)
    except OSError:
        pass
    try:
        log += errp.read_text(errors="replace")[-2000:]
    except OSError:
        pass
    if not done:
        log += "\n[driver did not finish: %d of %d scenarios reported; rc %s]" % (len(results), len(scs), getattr(p, "returncode", None))
    # files of the scenarios: state files, sockets (kept only where something failed; see judge callers)
    return results, log, work


# --------------------------------------------------------------------------------------------------------------- oracle

def judge(o):
    """The property's clauses on one scenario's observations. -> (status, {clause: 'pass'|'n/a'|'fail: ...'})
    status: judged | unjudged:<why>"""
    sc = o["scenario"]
    limit = sc.get("limit_ms") or LIMIT_MS
    r1 = o.get("run1") or {}
    if o.get("harness_err"):
        return "unjudged:driver: " + o["harness_err"][:300], {}
    rp0 = (o.get("restart") or {}).get("proc") or {}
    if r1.get("bind_failure") or rp0.get("bind_failure"):
        # other checks start servers on this machine at the same time and find their ports the same way; a start that
        # lost its port to another process (after the driver's retries on fresh ports) says nothing about the server
        return "unjudged:a port was taken by another process (%s start, %d attempts): address already in use" % (
            "first" if r1.get("bind_failure") else "second", (r1 if r1.get("bind_failure") else rp0).get("attempts", 0)), {}
    if not r1.get("started"):
        return "unjudged:the server did not start: " + (r1.get("start_err") or "")[-400:], {}
    if o.get("setup_err"):
        return "unjudged:situation not reached: " + o["setup_err"][:300], {}
    if r1.get("died_early"):
        return "unjudged:the server was already dead when the signal was sent (exit %s %s): %s" % (
            r1.get("exit_code"), r1.get("killed_by", ""), (r1.get("output_tail") or "")[:300]), {}
    v = {}

    def fail(k, text):
        v[k] = (v[k] + "; " + text) if v.get(k, "").startswith("fail") else "fail: " + text

    def proc(tag, p):
        if p.get("hung"):
            fail("exit0", "%s: still running %.0f ms after SIG%s (aborted by the driver)" % (tag, p.get("exit_ms", 0), sc["signal"]))
            fail("prompt", "%s: no exit within %.0f ms of the signal" % (tag, p.get("exit_ms", 0)))
        else:
            if not p.get("exited") or p.get("exit_code") != 0 or p.get("killed_by"):
                fail("exit0", "%s: exit status %s %s after SIG%s" % (tag, p.get("exit_code"), p.get("killed_by", ""), sc["signal"]))
            if p.get("exit_ms", 0) >= limit:
                fail("prompt", "%s: %.0f ms from SIG%s to exit (limit %d ms)" % (tag, p["exit_ms"], sc["signal"], limit))
        if p.get("bad_output"):
            fail("nopanic", "%s: output has %r" % (tag, p["bad_output"][0][:200]))
        if sc.get("ipc") and not p.get("hung"):       # a hung process is killed by the driver: the file is then the driver's doing
            if p.get("ipc_socket_left"):
                fail("socket_gone", "%s: the IPC socket file is still there after the exit (status %s %s)" % (tag, p.get("exit_code"), p.get("killed_by", "")))
            else:
                v.setdefault("socket_gone", "pass")

    proc("first run", r1)
    for b in o.get("blocked") or []:
        if not b.get("returned"):
            fail("blocked_error", "Lock(%r) blocked at the signal never returned" % b["name"])
            fail("no_hang", "Lock(%r) still pending long after the signal" % b["name"])
            continue
        if b.get("locked"):
            fail("blocked_error", "Lock(%r) blocked at the signal came back locked=true (key %s) although the lock was never released" % (b["name"], b.get("key")))
        elif not b.get("transport_err") and not b.get("err_code"):
            fail("blocked_error", "Lock(%r) blocked at the signal came back locked=false without an error" % b["name"])
        if b.get("returned_ms_after_signal", 0) >= limit:
            fail("no_hang", "Lock(%r) returned only %.0f ms after the signal" % (b["name"], b["returned_ms_after_signal"]))
    inf = o.get("inflight")
    if inf:
        if not inf.get("loops_returned"):
            fail("no_hang", "requests in flight at the signal were still pending long after it")
        elif inf.get("last_return_ms_after_signal", 0) >= limit:
            fail("no_hang", "a request in flight at the signal returned only %.0f ms later" % inf["last_return_ms_after_signal"])
    for st in o.get("stalled") or []:
        if st.get("answered_with_hold"):
            fail("blocked_error", "the stalled %s request was answered with a hold: %s" % (st["kind"], (st.get("received_after_stall") or "")[:200]))
        if not st.get("closed_by_server"):
            fail("no_hang", "the stalled %s connection was still open long after the signal" % st["kind"])
        elif st.get("closed_ms_after_signal", 0) >= limit:
            fail("no_hang", "the stalled %s connection was closed only %.0f ms after the signal" % (st["kind"], st["closed_ms_after_signal"]))
    if o.get("blocked") or o.get("stalled"):
        v.setdefault("blocked_error", "pass")
    if o.get("blocked") or inf or o.get("stalled"):
        v.setdefault("no_hang", "pass")

    # the bulk of an earlier run's holds (scenario.preload) is summarised by the driver's counts, not listed
    must = [k for k in (o.get("must_keys") or []) if ("/" + PRELOAD_KEY) not in k]
    must_not = o.get("must_not_keys") or []
    n_pre = o.get("preloaded") or 0
    rs = o.get("restart") or {}
    rp = rs.get("proc") or {}
    if sc["state_file"]:
        f = o.get("file") or {}
        have = set(e["name"] + "/" + e["key"] for e in f.get("entries") or [])
        if not f.get("decoded"):
            if must or n_pre or f.get("bytes") or not f.get("exists"):
                fail("file_keeps", "state file after exit does not decode: %s" % f.get("err"))
        else:
            miss = [k for k in must if k not in have]
            if miss:
                fail("file_keeps", "hold %s is not in the state file after exit (%d entries)" % (miss[0], f.get("entries_total", len(have))))
            if o.get("preloaded_missing_in_file"):
                fail("file_keeps", "%d holds of the earlier run are not in the state file after exit" % o["preloaded_missing_in_file"])
        v.setdefault("file_keeps", "pass")
        bad = [k for k in must_not if k in have]
        if bad:
            fail("file_drops_unlocked", "hold %s was unlocked before the signal but is in the state file" % bad[0])
        v.setdefault("file_drops_unlocked", "pass")
    if rs.get("attempted"):
        if rs.get("socket_blocked"):
            fail("restart_up", "the next start refuses to run because the first run left its IPC socket file behind: %s" % rs["socket_blocked"][-300:])
        if not rp.get("started"):
            fail("restart_up", "the next start on the same state file and ports failed: %s" % (rp.get("start_err") or "")[-400:])
        else:
            v.setdefault("restart_up", "pass")   # ports_changed is recorded only: another process may have taken them
            proc("second run", rp)
            if sc["state_file"] and (must or n_pre):
                if sc.get("ipc"):
                    for src, lst, err in (("ipc", rs.get("ipc_listing"), rs.get("ipc_err")), ("ldlm-lock", rs.get("lockbin_listing"), rs.get("lockbin_err"))):
                        if src == "ldlm-lock" and lst is None and not err:
                            continue
                        if err:
                            fail("restart_lists", "%s listing failed: %s" % (src, err[:200]))
                            continue
                        lines = set(lst or [])
                        hs = {h["name"] + "/" + h["key"]: h for h in o.get("holds") or []}
                        for k in must:
                            h = hs.get(k)
                            if h and "{Name: %s, Key: %s, Size: %d}" % (h["name"], h["key"], h["size"]) not in lines:
                                fail("restart_lists", "%s listing of the restarted server lacks %s" % (src, k))
                                break
                    if o.get("preloaded_missing_in_listing"):
                        fail("restart_lists", "%d holds of the earlier run are not listed after the restart" % o["preloaded_missing_in_listing"])
                    v.setdefault("restart_lists", "pass")
                probes = rs.get("probes") or []
                asked = 0
                for pr in probes:
                    if pr.get("trylock_locked") is not None or pr.get("trylock_err"):
                        asked += 1
                        if pr.get("trylock_locked") is None:
                            fail("restart_refuses", "TryLock(%r) on the restarted server: %s" % (pr["name"], pr.get("trylock_err")))
                        elif pr["trylock_locked"]:
                            fail("restart_refuses", "TryLock(%r) on the restarted server was GRANTED although the hold with key %s was live at the shutdown" % (pr["name"], pr["key"]))
                    if not pr.get("unlocked"):
                        fail("restart_unlock", "Unlock(%r, original key %s) on the restarted server failed: %s" % (pr["name"], pr["key"], pr.get("unlock_err") or "unlocked=false"))
                if not probes:
                    fail("restart_unlock", "the restored holds could not be probed")
                if asked:
                    v.setdefault("restart_refuses", "pass")
                v.setdefault("restart_unlock", "pass")
    for k in ("exit0", "prompt", "nopanic"):
        v.setdefault(k, "pass")
    for k in CLAUSES:
        v.setdefault(k, "n/a")
    # the driver evaluates the same clauses while it still has everything at hand; a failure seen by either side counts
    for k, t in (o.get("verdicts") or {}).items():
        if t.startswith("fail") and not v.get(k, "").startswith("fail"):
            v[k] = t + "   [reported by the driver only]"
    return "judged", v


def short(o, v=None):
    """A scenario's record without its bulk."""
    r1 = o.get("run1") or {}
    rs = o.get("restart") or {}
    rp = rs.get("proc") or {}
    s = {
        "scenario": o["scenario"],
        "first_run": {k: r1.get(k) for k in ("signal_sent", "extra_signals_sent", "exit_code", "killed_by", "exit_ms", "hung", "bad_output", "ipc_socket_left") if r1.get(k) not in (None, "", [])},
        "blocked_calls": o.get("blocked"), "stalled_connections": o.get("stalled"), "inflight": o.get("inflight"),
        "holds_live_at_signal": (o.get("must_keys") or [])[:6], "n_live": len(o.get("must_keys") or []) + (o.get("preloaded") or 0),
        "unlocked_before_signal": (o.get("must_not_keys") or [])[:4],
        "state_file_after_exit": {"decoded": (o.get("file") or {}).get("decoded"), "entries_total": (o.get("file") or {}).get("entries_total"),
                                  "entries": [(e["name"], e["key"]) for e in ((o.get("file") or {}).get("entries") or [])[:6]]},
        "second_run": {"started": rp.get("started"), "socket_blocked": rs.get("socket_blocked"), "exit_code": rp.get("exit_code"), "killed_by": rp.get("killed_by"),
                       "extra_signals_sent": rp.get("extra_signals_sent"), "exit_ms": rp.get("exit_ms"),
                       "ipc_listing": (rs.get("ipc_listing") or [])[:4], "ipc_listing_total": rs.get("ipc_listing_total"),
                       "probes": (rs.get("probes") or [])[:4]},
    }
    if v is not None:
        s["verdicts"] = v
    return s


def replay_obj(o, v, fails):
    r1 = o.get("run1") or {}
    return {
        "property": "C11", "kind": "t4-scenario", "scenario": o["scenario"],
        "failed_clauses": {k: v[k] for k in fails},
        "observed": short(o, v),
        "server_args": r1.get("args"), "output_excerpt": r1.get("output_tail"), "hang_dump": r1.get("hang_dump"),
        "second_run_output_excerpt": ((o.get("restart") or {}).get("proc") or {}).get("output_tail") if any(k.startswith("restart") for k in fails) or "second run" in " ".join(v[k] for k in fails) else None,
        "expected": "exit status 0 in under %d ms, no panic; blocked Lock calls fail; holds live at the signal are in the state file and restored by the next start" % LIMIT_MS,
        "tree": str(vcheck.REPO),
        "replay": "bin/check C11 --replay <this file>   (re-runs the scenario on the current tree, several times: timing varies)",
    }


def handshake_signature(o, fails):
    """excluded_C11_F-GRPC-HANDSHAKE: the only thing wrong is that the process outlived the signal (hung or late) while a
    TCP connection to the gRPC port had not finished its HTTP/2 handshake, and - where the driver obtained a goroutine
    dump - main() sits in grpc.(*Server).stop. (grpc-go's Stop() waits for handleRawConn, which reads the client preface
    under the 120 s connection timeout.) Decidable on the scenario's record."""
    sc, r1 = o["scenario"], o.get("run1") or {}
    if sc.get("client") != "grpc_stalled" or not fails or not set(fails) <= {"exit0", "prompt", "no_hang"}:
        return False
    if not any((st.get("kind") or "").startswith("grpc_") and st.get("open_at_signal") for st in o.get("stalled") or []):
        return False
    if not (r1.get("hung") or r1.get("exit_ms", 0) >= (sc.get("limit_ms") or LIMIT_MS)):
        return False          # it is the FIRST run that must be the late one
    rp = (o.get("restart") or {}).get("proc") or {}
    if rp.get("hung") or rp.get("bad_output") or (rp.get("started") and (rp.get("exit_code") != 0 or rp.get("killed_by"))):
        return False
    dump = r1.get("hang_dump") or ""
    return (not dump) or "grpc.(*Server).stop" in dump


def pct(xs, q):
    if not xs:
        return None
    xs = sorted(xs)
    return round(xs[min(len(xs) - 1, int(q * len(xs)))], 3)


def dist(xs):
    return {"n": len(xs), "min": pct(xs, 0), "p50": pct(xs, 0.5), "p90": pct(xs, 0.9), "p99": pct(xs, 0.99),
            "max": round(max(xs), 3) if xs else None}


# ---------------------------------------------------------------------------------------------------------------- stage

def t4_stage(ctx, only=None, repeat=1, verbose=False, situations=None, clauses=None):
    """Builds the binaries and the driver, runs corpus + matrix (or `only`), judges, records violations and coverage."""
    cov = ctx.coverage
    tie = cov["ties"].setdefault("T4-binary", {})
    t0 = time.time()
    srv, lockbin, blog = build_binaries(ctx)
    if srv is None:
        ctx.note("T4: the server binary does not build")
        ctx.violation({"broken": "build", "what": "go build ./cmd/server fails on the tree under test", "tree": str(vcheck.REPO), "compiler_output": blog},
                      "the tree under test does not build its server binary: nothing is shown to hold", name="build_failed.json", no_failing_input=True)
        tie["build"] = "failed: cmd/server"
        return dict(ok_build=False)
    if lockbin is None:
        ctx.note("T4: ldlm-lock does not build; the admin listing is taken through the IPC socket only: " + blog[-300:])
    exe, dlog = build_driver(ctx)
    if exe is None:
        ctx.note("T4: the driver does not build against this tree")
        ctx.violation({"broken": "build", "what": "harness/e2e/c11 does not compile against the tree under test (protos / store / ipc packages)", "tree": str(vcheck.REPO), "compiler_output": dlog},
                      "the end-to-end driver does not build against the tree: nothing is shown to hold", name="driver_build_failed.json", no_failing_input=True)
        tie["build"] = "failed: harness/e2e/c11"
        return dict(ok_build=False)
    tie["build"] = "ok (%.1fs): cmd/server, %sharness/e2e/c11 with go1.26.8 from %s" % (time.time() - t0, "cmd/lock, " if lockbin else "", vcheck.REPO)

    if only is not None:
        scs, corpus_n = [], 0
        for i in range(repeat):
            sc = dict(only)
            sc["id"] = "replay%02d" % i
            scs.append(sc)
    else:
        corpus = corpus_scenarios()
        corpus_n = len(corpus)
        scs = corpus + matrix(ctx.seed, ctx.tier)
        if situations is not None:
            # another property's check (C03: blocked calls at shutdown) runs the part of the matrix that concerns it
            scs = [sc for sc in scs if sc.get("client") in situations]
            corpus_n = sum(1 for sc in scs if str(sc.get("id", "")).startswith("c-"))
    t1 = time.time()
    results, dlog, work = run_driver(ctx, exe, srv, lockbin, scs, "run")
    by_id = {o["scenario"]["id"]: o for o in results}
    # a server that died of the very signal it was sent, without logging its shutdown, may have been hit before main()
    # had installed its handler (the listeners are announced first): those scenarios are run once more with a long pause
    # after start-up, and judged on that run
    suspects = [o["scenario"] for o in results if (o.get("run1") or {}).get("handler_race_suspect")
                or ((o.get("restart") or {}).get("proc") or {}).get("handler_race_suspect")]
    rerun = 0
    if suspects and only is None:
        again = [dict(sc, settle_ms=600) for sc in suspects[:24]]
        r2, dlog2, _ = run_driver(ctx, exe, srv, lockbin, again, "rerun")
        for o in r2:
            by_id[o["scenario"]["id"]] = o
            rerun += 1
        dlog += dlog2
        ctx.note("T4: %d scenario(s) repeated with a 600 ms pause after start-up (signal may have preceded the handler)" % rerun)
    wall = time.time() - t1

    judged, unjudged, failing, known = [], [], [], []
    counts = {k: {"pass": 0, "fail": 0, "n/a": 0} for k in CLAUSES}
    for sc in scs:
        o = by_id.get(sc["id"])
        if o is None:
            unjudged.append((sc, "no result from the driver"))
            continue
        st, v = judge(o)
        if st != "judged":
            unjudged.append((sc, st[9:]))
            continue
        judged.append((o, v))
        for k in CLAUSES:
            counts[k]["fail" if v[k].startswith("fail") else v[k]] += 1
        fails = [k for k in CLAUSES if v[k].startswith("fail") and (clauses is None or k in clauses)]
        if fails and handshake_signature(o, fails) and ctx.finding_by_id(F_HANDSHAKE):
            known.append((o, v, fails))
            fails = []
        if fails:
            failing.append((o, v, fails))
        if verbose:
            print("%-44s %s" % (sc["id"], "ok" if not fails else "FAIL " + "; ".join("%s: %s" % (k, v[k][6:160]) for k in fails)))
    if verbose:
        for sc, why in unjudged:
            print("%-44s unjudged: %s" % (sc["id"], why[:200]))

    if known:
        o, v, fails = known[0]
        r1 = o["run1"]
        ctx.known_finding(F_HANDSHAKE, "SIG%s with a TCP connection to the gRPC port that has not finished its HTTP/2 handshake (%s): the server %s (grpc Stop() waits for the handshake's 120 s timeout); %d scenario(s), e.g. %s" % (
            o["scenario"]["signal"], (o.get("stalled") or [{}])[0].get("kind"),
            "was still running %.0f ms after the signal" % r1.get("exit_ms", 0) if r1.get("hung") else "exited only after %.0f ms" % r1.get("exit_ms", 0),
            len(known), o["scenario"]["id"]))
    # ---- verdict: one violation per distinct set of failed clauses x client situation (first = corpus / smallest)
    groups = {}
    for o, v, fails in failing:
        groups.setdefault((tuple(fails), o["scenario"]["client"]), []).append((o, v, fails))
    order = sorted(groups, key=lambda g: (len(groups[g][0][0]["scenario"].get("lock_timeouts") or []) + (groups[g][0][0]["scenario"].get("preload") or 0), g))
    for g in order[:6]:
        o, v, fails = groups[g][0]
        text = "real binary, scenario %s (SIG%s, state file %s, REST %s, no_clear %s, client %s): %s" % (
            o["scenario"]["id"], o["scenario"]["signal"], "on" if o["scenario"]["state_file"] else "off", "on" if o["scenario"]["rest"] else "off",
            "on" if o["scenario"]["no_clear"] else "off", o["scenario"]["client"], "; ".join("%s — %s" % (k, v[k][6:300]) for k in fails[:3]))
        obj = replay_obj(o, v, fails)
        obj["other_scenarios_failing_the_same_way"] = [x[0]["scenario"]["id"] for x in groups[g][1:12]]
        ctx.violation(obj, text, name="t4_%s_%s.json" % (o["scenario"]["id"], "+".join(fails)[:60]))
    if len(order) > 6:
        ctx.note("T4: %d more groups of failing scenarios not written out" % (len(order) - 6))
    planned = len(scs)
    if not failing and (not results or len(judged) < 0.8 * planned):
        ctx.violation({"broken": "correspondence T4", "planned": planned, "judged": len(judged),
                       "unjudged": [{"scenario": sc, "why": why} for sc, why in unjudged[:8]], "driver_log": dlog[-3000:]},
                      "only %d of %d scenarios could be run to a verdict on this tree (first: %s): nothing is shown to hold" % (
                          len(judged), planned, (unjudged[0][1][:200] if unjudged else dlog[-200:])),
                      name="t4_not_run.json", no_failing_input=True)

    # ---- clean up: only the directories of failing / unjudged scenarios are kept
    keep = set(o["scenario"]["id"] for o, _, _ in failing) | set(sc["id"] for sc, _ in unjudged)
    for d in work.iterdir():
        if d.is_dir() and d.name not in keep:
            shutil.rmtree(d, ignore_errors=True)

    # ---- coverage
    plain = [o["run1"]["exit_ms"] for o, _ in judged if not o["run1"].get("hung") and not o["scenario"].get("preload")]
    pre = [o["run1"]["exit_ms"] for o, _ in judged if not o["run1"].get("hung") and o["scenario"].get("preload")]
    second = [o["restart"]["proc"]["exit_ms"] for o, _ in judged if (o.get("restart") or {}).get("proc", {}).get("exited")]
    cells = {}
    for o, _ in judged:
        s = o["scenario"]
        cells.setdefault(s["client"], 0)
        cells[s["client"]] += 1
    by_sig = {}
    for o, _ in judged:
        by_sig.setdefault("SIG" + o["scenario"]["signal"], []).append(o["run1"]["exit_ms"])
    tie.update({
        "scenarios_planned": planned, "corpus": corpus_n, "scenarios_judged": len(judged), "scenarios_failing": len(failing),
        "scenarios_failing_as_known_finding": {F_HANDSHAKE: [x[0]["scenario"]["id"] for x in known]} if known else {},
        "stalled_connections": {k: dist([st["closed_ms_after_signal"] for o, _ in judged for st in (o.get("stalled") or []) if st["kind"] == k and st.get("closed_by_server")])
                                for k in sorted(set(st["kind"] for o, _ in judged for st in (o.get("stalled") or [])))},
        "unjudged": [{"id": sc["id"], "why": why[:200]} for sc, why in unjudged[:20]], "n_unjudged": len(unjudged),
        "clauses": counts,
        "per_client_situation": cells,
        "further_signals_during_shutdown": {
            "scenarios": sum(1 for o, _ in judged if o["scenario"].get("extra_signals")),
            "signals_planned": sum(len(o["scenario"].get("extra_signals") or []) * 2 for o, _ in judged),
            "delivered_while_the_process_was_still_running": sum(1 for o, _ in judged for pr in (o.get("run1") or {}, (o.get("restart") or {}).get("proc") or {})
                                                                 for e in (pr.get("extra_signals_sent") or []) if e.get("while_live")),
            "per_signal": {k: sum(1 for o, _ in judged for pr in (o.get("run1") or {}, (o.get("restart") or {}).get("proc") or {})
                                  for e in (pr.get("extra_signals_sent") or []) if e.get("while_live") and e["signal"] == k) for k in ("INT", "TERM", "QUIT")},
            "offsets_us": EXTRA_OFFSETS_US, "kinds": EXTRA_KINDS, "situations": EXTRA_SITUATIONS,
        },
        "matrix": "signal{INT,TERM} x state_file{on,off} x rest{on,off} x no_clear{off,on} x client%s, %s; + inflight on a server restored from a 20000-hold state file%s" % (
            SITUATIONS, "each cell once" if ctx.tier == "quick" else "each cell 3 times with different timing offsets", "" if ctx.tier == "quick" else "; + 60 more inflight runs"),
        "signal_to_exit_ms": {"first_run": dist(plain), "first_run_with_20000_restored_holds": dist(pre), "second_run": dist(second),
                              "per_signal": {k: dist(x) for k, x in by_sig.items()}, "limit_ms": LIMIT_MS},
        "blocked_calls_observed": sum(len(o.get("blocked") or []) for o, _ in judged),
        "blocked_calls_parked_before_signal": sum(1 for o, _ in judged for b in (o.get("blocked") or []) if b.get("parked_seen")),
        "requests_in_flight_loops": {"requests": sum((o.get("inflight") or {}).get("requests", 0) for o, _ in judged),
                                     "unanswered_at_exit": sum((o.get("inflight") or {}).get("transport_errors", 0) for o, _ in judged),
                                     "in_flight_at_signal": sum((o.get("inflight") or {}).get("in_flight_at_signal", 0) for o, _ in judged)},
        "holds_checked_in_state_file": sum(len(o.get("must_keys") or []) + (o.get("preloaded") or 0) - min(2, o.get("preloaded") or 0) for o, _ in judged if o["scenario"]["state_file"]),
        "restarts": sum(1 for o, _ in judged if (o.get("restart") or {}).get("proc", {}).get("started")),
        "restarts_on_the_first_runs_ports": sum(1 for o, _ in judged if (o.get("restart") or {}).get("proc", {}).get("started")
                                                and not (o.get("restart") or {}).get("proc", {}).get("ports_changed")),
        "starts_repeated_on_fresh_ports": sum(max(0, (o.get("run1") or {}).get("attempts", 1) - 1) + max(0, ((o.get("restart") or {}).get("proc") or {}).get("attempts", 1) - 1)
                                              for o in by_id.values()),
        "restored_holds_probed": sum(len((o.get("restart") or {}).get("probes") or []) for o, _ in judged),
        "repeated_because_signal_may_have_preceded_the_handler": rerun,
        "scenario_ids": [sc["id"] for sc in scs],
        "wall_s": round(wall, 1),
    })
    evals = sum(c["pass"] + c["fail"] for c in counts.values())
    cov["evaluations"] = cov.get("evaluations", 0) + evals
    distinct = set((s["signal"], s["state_file"], s["rest"], s["no_clear"], s["client"], bool(s.get("preload")))
                   for s in (o["scenario"] for o, _ in judged) if s["client"] != "none")
    cov["distinct_nontrivial"] = cov.get("distinct_nontrivial", 0) + len(distinct)
    cov["traces_validated_against_impl"] = cov.get("traces_validated_against_impl", 0) + len(judged)
    cov["t4_clause_evaluations"] = evals
    cov["t4_distinct_nontrivial_cells"] = len(distinct)
    for want in ("mixed", "blocked", "inflight"):
        for o, v in judged:
            if o["scenario"]["client"] == want and o["scenario"]["state_file"] and not o["scenario"].get("preload"):
                cov["samples"].append(short(o, {k: t for k, t in v.items() if t != "n/a"}))
                break
    ctx.note("T4: %d scenarios (%d corpus) in %.1fs: %d judged, %d failing, %d unjudged; signal->exit ms %s" % (
        planned, corpus_n, wall, len(judged), len(failing), len(unjudged), dist(plain)))
    return dict(ok_build=True, judged=len(judged), failing=len(failing), unjudged=len(unjudged), results=results, judged_list=judged)


T4_RULE = ("T4: the real server binary built from the tree, one child process per scenario; the scenario list is the full matrix "
           "signal x state file x REST x no_clear x client situation incl. stalled raw connections (quick: each cell once; thorough: three times with different "
           "signal offsets) plus requests-in-flight runs on a server restored from a 20000-hold state file, plus a block of scenarios with a second and third signal during the shutdown (kind x offset; thorough: x situation x first signal); hold counts, leases, "
           "waiters, wait timeouts, worker counts and offsets are drawn from one PRNG seeded with VERIF_SEED; evaluations = clause "
           "evaluations (pass or fail, not n/a) over all judged scenarios; distinct_nontrivial = distinct matrix cells with at "
           "least one client that were run to a verdict")

ASSUMPTIONS = [
    "process-level facts are exercised, not modelled: delivery of SIGINT/SIGTERM to the Go runtime, os.Exit status, teardown of the TCP listeners and of the IPC socket, grpc-go's Stop() (closes transports, cancels in-flight contexts, does not wait for handlers), net/http's Close()",
    "T4 shows the clauses on the scenarios run (counts in coverage.ties['T4-binary']), on this machine's scheduler and file system; the windows between the closer's steps are hit by timing (offsets from the seed, repeated runs), not enumerated — enumeration of the interleavings is the job of the Msv theorems and the T2 tie",
    "'promptly' is judged as signal -> exit < 5000 ms; the measured distribution is in coverage",
    "durability against power loss (fsync ordering, directory sync) is out of scope: the state file is read back from the page cache after a normal exit",
    "ports are found by listen-and-close; a start (first or second, gRPC or REST port) that meets 'address already in use' is repeated on fresh ports up to 5 times and, failing that, the scenario is not judged — so the release of the listening ports by the exiting process is observed only when the restart could reuse them (coverage: restarts_on_the_first_runs_ports)",
    "leases in T4 are 30 s or longer so that no hold expires during a scenario; lease expiry racing the shutdown is covered in virtual time by T1",
    "a hold counts as live at the signal when its grant was acknowledged to the driver and the driver sent no Unlock for it; holds whose Unlock was in flight at the signal may or may not be in the file (both are accepted)",
]


def run(ctx):
    if ctx.replay:
        return do_replay(ctx)
    ctx.assumptions += ASSUMPTIONS
    ok = ctx.coq_stage()
    from checks import seqcommon
    try:
        seqcommon.seq_stage(ctx, "C11")
    except Exception as ex:  # noqa  (the shared stage is somebody else's; its failure must end in a verdict, not a traceback)
        ctx.note("T1 stage crashed: %r" % (ex,))
        ctx.violation({"broken": "machinery", "stage": "T1 seq_stage", "error": repr(ex)}, "the T1 stage crashed; nothing is shown to hold",
                      name="t1_crash.json", no_failing_input=True)
    seq_rule = ctx.coverage.get("rule", "")
    # T2 layer 2: the closer (flag; network stop; timers; manager) as a thread against in-flight requests, on the real stack
    try:
        from lib import svtie
        svtie.run_property(ctx, "C11")
    except Exception as ex:  # noqa
        ctx.note("T2-svsched stage crashed: %r" % (ex,))
        ctx.violation({"broken": "machinery", "stage": "T2 svsched", "error": repr(ex)}, "the T2 layer-2 stage crashed; nothing is shown to hold",
                      name="t2sv_crash.json", no_failing_input=True)
    t4_stage(ctx)
    ctx.coverage["rule"] = (("T1: " + seq_rule + ". ") if seq_rule else "") + T4_RULE
    if not ok and not ctx.violations:
        ctx.coq_broken_violation()


def do_replay(ctx):
    try:
        r = json.loads(Path(ctx.replay).read_text())
    except Exception as ex:  # noqa
        print("cannot read replay file: %r" % (ex,))
        ctx.violation({"broken": "replay", "file": str(ctx.replay)}, "replay file unreadable", name="replay_unreadable.json", no_failing_input=True)
        return
    sc = r.get("scenario") if isinstance(r, dict) else None
    if isinstance(r, dict) and r.get("scenarios"):
        sc = r["scenarios"][0]
    if not isinstance(sc, dict) or "client" not in sc:
        if isinstance(r, dict) and (r.get("history") or r.get("shrunk") or "events" in r):
            from checks import seqcommon
            return seqcommon.replay(ctx, "C11")
        print("the replay file holds no scenario (it names a build failure / a theorem / a correspondence):\n%s" % json.dumps(r, indent=1)[:3000])
        return
    print("replaying scenario on %s (5 runs; timing varies between runs):\n%s" % (vcheck.REPO, json.dumps(sc)))
    if r.get("failed_clauses"):
        print("recorded failure: " + json.dumps(r["failed_clauses"]))
    res = t4_stage(ctx, only=sc, repeat=5)
    for o, v in res.get("judged_list") or []:
        print("--- run %s" % o["scenario"]["id"])
        print("observed: " + json.dumps(short(o)))
        print("verdicts: " + json.dumps({k: t for k, t in v.items() if t != "n/a"}))
        if any(t.startswith("fail") for t in v.values()):
            print("server output: " + (o["run1"].get("output_tail") or "")[-1500:])
    ctx.coverage["rule"] = T4_RULE
    ctx.assumptions += ASSUMPTIONS


if __name__ == "__main__":
    if "--t4-only" in sys.argv:
        tier = "thorough" if "thorough" in sys.argv else "quick"
        # its own work directory: this entry point may run next to `bin/check C11` (which wipes .work/C11 when it starts)
        c = vcheck.Ctx("C11T4ONLY", tier, int(os.environ.get("VERIF_SEED", "1")))
        c.known_findings = [f for f in vcheck.load_known_findings() if f.get("property") == "C11"]
        t4_stage(c, verbose=True)
        print(json.dumps({k: v for k, v in c.coverage["ties"]["T4-binary"].items() if k not in ("scenario_ids",)}, indent=1))
        for path, text, nfi in c.violations:      # no evidence file is written by this entry point
            print("VIOLATION property=C11 replay=%s%s\n  %s" % (path, " no-failing-input-found" if nfi else "", text))
        print("C11 (T4 stage alone): %s" % ("FAIL" if c.violations else "ok"))
        sys.exit(1 if c.violations else 0)
    print(__doc__)


def run(ctx, _inner=run):     # + T5-race (lib/racetie.py): data-race freedom, the assumption under every interleaving model; also re-runs its replay files
    from lib import racetie
    return racetie.stage(ctx, _inner, ["server", "server/session", "server/session/store"])
