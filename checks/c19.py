"""C19 — Go client: auto-renew keeps holds alive, stops at Unlock, handles many holds; retry rule.

Stages (DESIGN.md 5 "C19"):
  T3   lib.gen.regenerate: Gen/Consts.v (MinRenewSeconds, RetryDelaySeconds, the renew-interval formula of renewer.Start)
       from the CURRENT tree; the interval theorem (Proofs/ClientP.v interval_bounds) is re-proved against them.
  Coq  ctx.coq_stage(): Model/Client.v (Mclient over Mseq), Proofs/Client*.v, Properties/C19.v.
  tie  harness/clientdiff: the REAL client.Client (client.NewVerifClient, build overlay) over an in-process interposer that
       forwards to the REAL gRPC Service on a REAL LockServer in a testing/synctest bubble; the interposer records every
       RPC with its virtual instant, keeps Renew RPCs in flight on request, injects transport errors. Cases (corpus first,
       then one PRNG stream from VERIF_SEED) run in child processes (a renewer panic kills the process).
       The extracted model (ocaml/client) runs the same cases; the traces are compared line by line.
  oracle on every REAL trace: the hold does not expire while the client is alive and has not unlocked it (lease continuity
       from the recorded server-side instants, listings, competing TryLocks), no Renew after Unlock/Close returned, no panic,
       holds independent of each other, retry only after Unavailable and at most MaxRetries times, RetryDelaySeconds apart.
  net  the password dimension (model-independent; Mclient has no notion of credentials): a subset of the cases (the whole
       corpus, the first cases of every generated family, a family that cancels the client's context) is run twice more on
       the REAL client.New over a real *grpc.ClientConn (in-memory listener) served by the REAL net/grpc.Run — once without a
       password (mode net), once with security.SecurityConfig.Password on the server and client.Config.Password in the client
       (mode netpw). The interposer (here the connection's unary client interceptor; in direct mode the pb.LDLMClient) checks on
       EVERY RPC the client sends that its context is derived from the context the client was created with and, with a
       password, that the outgoing metadata carries it. Oracle: the property oracle on both traces; no RPC refused
       Unauthenticated; and the metamorphic clause: both runs give the same model-visible observations.
  verdict: a failing real run that matches the signature of a `known` entry of known_findings.json -> KNOWN-FINDING;
       any other failing real run -> VIOLATION with the (shrunk) case as replay; a model/implementation difference or a
       broken theorem without a failing real run -> VIOLATION ... no-failing-input-found.

    bin/check C19 [--tier quick|thorough] [--replay replays/C19/<file>.json]
"""
import json
import os
import random
import re
import shutil
import subprocess
import sys
import time
from pathlib import Path

if __name__ == "__main__":
    sys.path.insert(0, str(Path(__file__).resolve().parent.parent))

from lib import gen, vcheck
from lib.vcheck import VERIF, REPO, sh

SEC = 1000000000
MS = 1000000
TIMEOUTS = [5, 10, 11, 29, 30, 31, 45, 90]
REF = {"min_renew": 10, "retry_delay": 3, "thr": 30, "sub": 30}   # documented behaviour, used when the source is not recognised
ALL_CODES = list(range(0, 17))   # google.golang.org/grpc/codes: OK .. Unauthenticated
SMALL_LAG = 500 * MS             # latency the generator puts on Renew RPCs in "alive" cases (below every slack of the T set)


# ------------------------------------------------------------------------------------------------- constants

def read_consts():
    """MinRenewSeconds, RetryDelaySeconds and the interval formula as regenerated into Gen/Consts.v."""
    c = dict(REF)
    c["recognised"] = False
    try:
        txt = (vcheck.COQ / "Gen" / "Consts.v").read_text()
        g = lambda n: int(re.search(r"Definition %s : Z := \(?(-?\d+)\)?\." % n, txt).group(1))  # noqa
        c.update(min_renew=g("client_MinRenewSeconds"), retry_delay=g("client_RetryDelaySeconds"), thr=g("renew_threshold"), sub=g("renew_subtract"))
        c["recognised"] = bool(re.search(r"Definition renew_formula_recognised : bool := true\.", txt))
    except Exception:  # noqa
        pass
    return c


def interval(c, T):
    return c["min_renew"] if T <= c["thr"] else max(T - c["sub"], c["min_renew"])


# ----------------------------------------------------------------------------------------------------- cases

def case_lines(c):
    if c.get("kind") == "retry":
        return ["R %s %d %s %s" % (c["id"], c["maxretries"], c["rpc"], " ".join(str(x) for x in c["codes"]))]
    out = ["C %s %d %d%s" % (c["id"], 1 if c.get("noauto") else 0, c.get("maxretries", 0), (" " + c["mode"]) if c.get("mode") else "")]
    for it in c["items"]:
        out.append("I " + " ".join(str(x) for x in it))
    out.append("X")
    return out


def write_cases(path, cases):
    Path(path).write_text("\n".join(l for c in cases for l in case_lines(c)) + "\n")


class Gen:
    """All generated cases come from ONE random.Random(seed) stream, in a fixed order."""

    def __init__(self, seed, consts):
        self.r = random.Random(seed)
        self.k = consts
        self.n = 0
        self.dist = {}

    def _id(self, fam):
        self.n += 1
        self.dist[fam] = self.dist.get(fam, 0) + 1
        return "g%d-%s" % (self.n, fam)

    def I(self, T):
        # at least 1 s: the generator advances its clock by this amount in loops; constants that were not recognised are
        # regenerated as 0 (Gen/Consts.v), which must end in a verdict, not in a generator that never terminates
        return max(1, interval(self.k, T))

    def goodT(self):
        return self.r.choice([t for t in TIMEOUTS if t > self.k["min_renew"]] or [45])

    # -- families
    def alive(self):
        """1-3 holds on different names, idle for several lease lengths; some Renews are kept in flight (before / after the
        server / both) for a few hundred ms, well inside every slack; probes and competing TryLocks; some unlocks while asleep."""
        r = self.r
        nh = r.choice([1, 1, 2, 2, 3])
        names = r.sample(["a", "b", "c", "d"], nh)
        items, Ts, nf = [], [], []
        st = {"t": 0}

        def advance_to(target, skip=None):
            if target > st["t"]:
                items.append(["adv", target - st["t"]])
            for k in range(len(nf)):
                if k != skip and nf[k] is not None:
                    while nf[k] <= target:
                        nf[k] += self.I(Ts[k]) * SEC
            st["t"] = max(st["t"], target)

        for i in range(nh):
            T = self.goodT()
            items.append([r.choice(["lock", "try"]), names[i], T, 1])
            Ts.append(T)
            nf.append(st["t"] + self.I(T) * SEC)
            if r.random() < 0.4:
                advance_to(st["t"] + r.choice([1, 3, 7, 12]) * SEC)
        lag = r.random() < 0.6
        total = st["t"] + r.choice([2, 3, 4, 5]) * max(Ts) * SEC
        live = list(range(nh))
        while st["t"] < total:
            cand = [k for k in live if nf[k] is not None]
            if lag and cand and r.random() < 0.6:
                i = min(cand, key=lambda k: nf[k])
                stage = r.choice(["pre", "post", "both"])
                d1 = r.choice([0, 100, 200, 300]) * MS
                items.append(["hold", i, stage])
                advance_to(nf[i] + d1, skip=i)
                if stage == "both":
                    items.append(["step", i])
                    advance_to(st["t"] + r.choice([100, 200]) * MS, skip=i)
                items.append(["step", i])
                nf[i] = st["t"] + self.I(Ts[i]) * SEC
            else:
                advance_to(st["t"] + r.choice([1, 7, 13, 29, 45, 90]) * SEC + r.choice([0, 0, 1, 500]) * MS)
            if r.random() < 0.5:
                items.append(["probe"])
            if r.random() < 0.4:
                items.append(["compete", r.choice(names), 1])
            if live and r.random() < 0.08:
                i = r.choice(live)
                live.remove(i)
                items.append(["unlock", i])
                nf[i] = None
                advance_to(st["t"] + 2 * max(Ts) * SEC)
                items.append(["probe"])
                items.append(["compete", names[i], 1])
        items.append(["probe"])
        for nm in names:
            items.append(["compete", nm, 1])
        return {"id": self._id("alive"), "noauto": False, "maxretries": 0, "items": items}

    def stop(self):
        """Unlock / Close at every position of the renewer: sleeping, about to send (pre), inside Renew (post), both."""
        r = self.r
        T = self.goodT()
        Iv = self.I(T)
        pos = r.choice(["sleep", "sleep", "pre", "post", "both"])
        how = r.choice(["unlock", "unlock", "unlock", "close"])
        items = [[r.choice(["lock", "try"]), "a", T, 1]]
        other = r.random() < 0.5
        if other:
            items.append(["lock", "b", self.goodT(), 1])
        ticks = r.choice([0, 1, 2])
        if ticks:
            items.append(["adv", ticks * Iv * SEC])
        if pos == "sleep":
            items.append(["adv", r.choice([0, 1, max(1, Iv // 2) * 1000, Iv * 1000 - 1]) * MS])
        else:
            items.append(["hold", 0, pos])
            items.append(["adv", Iv * SEC + r.choice([0, 100]) * MS])
            if pos == "both" and r.random() < 0.5:
                items.append(["step", 0])     # now inside Renew, after the server
        items.append([how, 0] if how == "unlock" else ["close"])
        items.append(["probe"])
        items += [["step", 0], ["step", 0]]
        items.append(["adv", (2 * Iv + 1) * SEC])
        items.append(["probe"])
        items.append(["compete", "a", 1])
        if other and how == "unlock":
            items.append(["adv", 2 * 90 * SEC])
            items.append(["probe"])
        return {"id": self._id("stop-%s-%s" % (how, pos)), "noauto": False, "maxretries": 0, "items": items}

    def multi(self):
        """2-3 holds, same and different names; interleaved unlocks while everybody sleeps; the others must go on."""
        r = self.r
        nh = r.choice([2, 3])
        same = r.random() < 0.45
        noauto = same and r.random() < 0.35
        items, names, Ts = [], [], []
        for i in range(nh):
            nm = "a" if (same and i < 2) else ["a", "b", "c"][i]
            T = r.choice([0, 0, self.goodT()]) if (same and i < 2 and r.random() < 0.4) else self.goodT()
            names.append(nm)
            Ts.append(T)
            items.append([r.choice(["lock", "try"]), nm, T, 2 if same else 1])
            if r.random() < 0.5:
                items.append(["adv", r.choice([1, 2, 5]) * SEC])
        mx = max(Ts + [11])
        items.append(["adv", r.choice([1, 2]) * mx * SEC + 1 * MS])
        items.append(["probe"])
        order = list(range(nh))
        r.shuffle(order)
        for i in order[:r.randint(1, nh)]:
            items.append(["unlock", i])
            items.append(["adv", 2 * mx * SEC + 1 * MS])
            items.append(["probe"])
            items.append(["compete", names[i], 2 if same else 1])
        return {"id": self._id("multi-%s%s" % ("same" if same else "diff", "-noauto" if noauto else "")), "noauto": noauto, "maxretries": 0, "items": items}

    def ustep(self):
        """Unlock with its request / its reply in flight (or asleep in rpcWithRetry after an Unavailable first attempt) while
        virtual time passes renew ticks: the renewer must already be stopped when the call begins."""
        r = self.r
        T = self.goodT()
        Iv = self.I(T)
        var = r.choice(["pre", "post", "post", "both", "retry", "retry"])
        items = [[r.choice(["lock", "try"]), "a", T, 1]]
        other = r.random() < 0.4
        if other:
            items.append(["lock", "b", self.goodT(), 1])
        ticks = r.choice([0, 1, 2])
        if ticks:
            items.append(["adv", ticks * Iv * SEC])
        d = self.k["retry_delay"]
        if var == "retry":
            # the next tick falls inside the sleep between the two attempts
            items.append(["adv", max(0, Iv * 1000 - r.choice([500, 1000, max(1, d * 1000 - 1)])) * MS])
            items += [["ufault", 0], ["ubegin", 0], ["adv", d * SEC + r.choice([0, 0, 200]) * MS], ["usend", 0]]
            if r.random() < 0.5:
                items.append(["adv", r.choice([1, Iv]) * SEC])
            items.append(["uend", 0])
        else:
            if r.random() < 0.15:
                items += [["hold", 0, r.choice(["pre", "post"])], ["adv", Iv * SEC]]     # F-STOPDROP through a stepped Unlock
            else:
                items.append(["adv", r.choice([0, 1, max(1, Iv // 2) * 1000, Iv * 1000 - 1]) * MS])
            fly = lambda: ["adv", r.choice([1, 2, 3]) * Iv * SEC + r.choice([0, 1, 700]) * MS]  # noqa
            items.append(["ubegin", 0])
            if var in ("pre", "both"):
                items.append(fly())
            items.append(["usend", 0])
            if var in ("post", "both"):
                items.append(fly())
            items.append(["uend", 0])
        items += [["step", 0], ["step", 0], ["probe"], ["adv", (2 * Iv + 1) * SEC], ["probe"], ["compete", "a", 1]]
        if other:
            items += [["adv", 2 * 90 * SEC], ["probe"]]
        return {"id": self._id("ustep-" + var), "noauto": False, "maxretries": 1 if var == "retry" else 0, "items": items}

    def edge(self):
        """Short timeouts (at most MinRenewSeconds: excluded by the property), no auto-renew, refused TryLocks, no timeout."""
        r = self.r
        which = r.choice(["short-auto", "short-noauto", "refused", "zero", "noauto-long"])
        if which == "short-auto":
            # not T = interval(T): lease expiry and renew tick at one instant is a race inside the server (Reset of a fired timer)
            T = r.choice([t for t in TIMEOUTS if t <= self.k["min_renew"] and self.I(t) != t] or [5])
            items = [["lock", "a", T, 1], ["adv", r.choice([1, 3]) * SEC], ["probe"], ["unlock", 0], ["adv", 30 * SEC], ["probe"]] if r.random() < 0.5 else \
                    [["lock", "a", T, 1], ["adv", (self.k["min_renew"] + 2) * SEC], ["probe"]]
            return {"id": self._id("short-auto"), "noauto": False, "maxretries": 0, "items": items}
        if which == "short-noauto":
            T = r.choice(TIMEOUTS)
            items = [["lock", "a", T, 1], ["adv", (T - 1) * SEC], ["probe"], ["compete", "a", 1], ["adv", 2 * SEC], ["probe"], ["compete", "a", 1], ["unlock", 0], ["adv", 100 * SEC]]
            return {"id": self._id("noauto"), "noauto": True, "maxretries": 0, "items": items}
        if which == "refused":
            T, T2 = self.goodT(), self.goodT()
            nm2 = r.choice(["a", "a", "b"])
            items = [["lock", "a", T, 1], ["try", nm2, T2, 1], ["adv", 2 * max(T, T2) * SEC], ["probe"], ["try", "a", T2, 1], ["adv", 100 * SEC], ["probe"],
                     ["unlock", 1], ["unlock", 0], ["adv", 100 * SEC], ["probe"], ["compete", "a", 1]]
            return {"id": self._id("refused"), "noauto": False, "maxretries": 0, "items": items}
        if which == "zero":
            items = [["lock", "a", 0, 1], ["adv", 700 * SEC], ["probe"], ["compete", "a", 1], ["unlock", 0], ["compete", "a", 1]]
            return {"id": self._id("zero"), "noauto": r.random() < 0.5, "maxretries": 0, "items": items}
        T = self.goodT()
        items = [["lock", "a", T, 1], ["lock", "b", 0, 1], ["adv", 3 * T * SEC], ["probe"], ["compete", "a", 1], ["compete", "b", 1]]
        return {"id": self._id("noauto-long"), "noauto": True, "maxretries": 0, "items": items}

    def retry(self, rpc, n, k, code):
        codes = [14] * k + [code]
        if code == 14:
            codes.append(0)      # whatever is called after the script goes through to the server
        return {"id": self._id("retry-" + rpc), "kind": "retry", "maxretries": n, "rpc": rpc, "codes": codes}


def generate(ctx, consts):
    g = Gen(ctx.seed, consts)
    quick = ctx.tier == "quick"
    cases = []
    n_alive, n_stop, n_multi, n_edge = (60, 120, 60, 30) if quick else (1200, 2400, 1200, 400)
    n_ustep = 60 if quick else 1200
    for _ in range(n_alive):
        cases.append(g.alive())
    for _ in range(n_stop):
        cases.append(g.stop())
    for _ in range(n_multi):
        cases.append(g.multi())
    for _ in range(n_edge):
        cases.append(g.edge())
    for _ in range(n_ustep):
        cases.append(g.ustep())
    # retry rule: budgets 0-3 x every status code x 0..budget+1 leading Unavailable; the rpc kind rotates (quick) / all kinds (thorough)
    kinds = ["lock", "try", "unlock", "renew"]
    i = 0
    for n in range(0, 4):
        for k in range(0, n + 2):
            for code in ALL_CODES + [-1]:
                for rpc in ([kinds[i % 4]] if quick else kinds):
                    cases.append(g.retry(rpc, n, k, code))
                i += 1
    for n in range(0, 4):
        for k in range(0, n + 1):
            cases.append(g.retry("autorenew", n, k, 0))
    return cases, g.dist


NET_QUOTA = {"quick": {"alive": 8, "stop": 10, "multi": 6, "short": 2, "noauto": 2, "refused": 2, "zero": 1, "ustep": 6, "cancel": 6},
             "thorough": {"alive": 80, "stop": 100, "multi": 60, "short": 10, "noauto": 10, "refused": 10, "zero": 5, "ustep": 60, "cancel": 60}}


def family(cid):
    m = re.match(r"[gn]\d+-([a-z]+)", cid)
    return m.group(1) if m else "corpus"


def cancel_cases(seed, consts, n):
    """The context the client was created with is cancelled while every renewer sleeps: no Renew may be sent afterwards.
    (Unlock / Close after the cancellation are not issued: outside the property.) Own PRNG stream derived from the seed, so
    that the stream of the families compared with the model stays what it was."""
    r = random.Random(int(seed) * 7919 + 1919)
    ts = [t for t in TIMEOUTS if t > consts["min_renew"]] or [45]
    out = []
    for k in range(n):
        nh = r.choice([1, 1, 2])
        items, Ts = [], []
        for i in range(nh):
            T = r.choice(ts)
            Ts.append(T)
            items.append([r.choice(["lock", "try"]), "ab"[i], T, 1])
        # an instant that is no renew tick of any hold: whole seconds + 500 ms
        items.append(["adv", r.choice([0, 1, 2, 3]) * max(1, interval(consts, max(Ts))) * SEC + r.choice([1, 4, 9]) * SEC + 500 * MS])
        items.append(["probe"])
        items.append(["cancel"])
        items.append(["adv", 3 * max(Ts) * SEC])
        items.append(["probe"])
        items.append(["compete", "a", 1])
        out.append({"id": "n%d-cancel" % (k + 1), "noauto": False, "maxretries": 0, "items": items})
    return out


def net_bases(ctx, corpus, generated, consts):
    """The cases of the password dimension: the corpus, the first cases of every generated family, the cancel family."""
    quota = dict(NET_QUOTA["quick" if ctx.tier == "quick" else "thorough"])
    out = [c for c in corpus if c.get("kind") != "retry"]
    for c in generated:
        if c.get("kind") == "retry":
            continue
        f = family(c["id"])
        if quota.get(f, 0) > 0:
            quota[f] -= 1
            out.append(c)
    return out + cancel_cases(ctx.seed, consts, quota.get("cancel", 0))


def net_variants(bases):
    out = []
    for b in bases:
        for mode, suf in (("net", "~net"), ("netpw", "~pw")):
            c = {k: v for k, v in b.items() if k not in ("corpus_file",)}
            c.update(id=b["id"] + suf, mode=mode, base=b["id"])
            out.append(c)
    return out


def load_corpus():
    out = []
    d = VERIF / "corpus" / "client"
    if d.exists():
        for f in sorted(d.glob("*.json")):
            try:
                c = json.loads(f.read_text())
                c["id"] = "corpus-" + f.stem
                c["corpus_file"] = f.name
                out.append(c)
            except Exception:  # noqa
                pass
    return out


# ------------------------------------------------------------------------------------------- building things

def build_driver(ctx):
    d = VERIF / "ocaml" / "client"
    drv = d / "clientdriver"
    with vcheck.Lock("ocaml-client"):
        srcs = [vcheck.COQ / "Model" / f for f in ("Client.vo", "Seq.vo", "Base.vo", "Err.vo")] + [vcheck.COQ / "Gen" / "Consts.vo", d / "driver.ml", vcheck.COQ / "Extract" / "ClientExtract.v"]
        missing = [str(s) for s in srcs if not s.exists()]
        if missing:
            return None, "missing (Coq model not built?): " + ", ".join(missing)
        if drv.exists() and all(drv.stat().st_mtime >= s.stat().st_mtime for s in srcs):
            return drv, "up to date"
        with vcheck.Lock("coq"):
            rc, out = sh(["./build.sh"], cwd=d, timeout=600)
        return (drv if rc == 0 and drv.exists() else None), out[-2000:]


def build_harness(ctx):
    """-> (test binary | None, log). ctx.coverage['ties']['clientdiff_build'] says which gRPC front the net modes got."""
    hdir = vcheck.harness_dir(ctx)
    ov = ctx.work / "overlay.json"
    conn_hook = ctx.work / "client_conn_verif.go"
    shutil.copy(VERIF / "harness" / "clientdiff" / "client_conn_verif.go.in", conn_hook)
    base = {str(REPO / "client" / "verif_client_hooks.go"): str(VERIF / "harness" / "overlay" / "client_verif.go"),
            str(REPO / "client" / "verif_client_conn.go"): str(conn_hook)}
    # net modes: the server side is the REAL net/grpc.Run; its listener is made injectable in a copy (one substitution)
    grpc_ov, why = {}, None
    try:
        from lib import instrument
        ins = instrument.instrument(VERIF / "harness" / "clientdiff" / "grpc_anchors.json", ctx.work / "grpcinstr", REPO)
        if ins["missing"]:
            why = "net/grpc.Run has no `lis, err := net.Listen(\"tcp\", conf.ListenAddress)` to make injectable: %s" % json.dumps(ins["missing"])[:300]
        else:
            grpc_ov = ins["overlay"]
    except Exception as ex:  # noqa
        why = "instrumenter failed: %r" % (ex,)
    exe = ctx.work / "clientdiff.test"
    logs = []
    for use_grpc in (True, False):
        if use_grpc and not grpc_ov:
            continue
        rep = dict(base)
        if use_grpc:
            rep.update(grpc_ov)
        ov.write_text(json.dumps({"Replace": rep}))
        rc, out = vcheck.go_test_build(ctx, hdir, "./clientdiff", exe, tags="verif clientgrpc" if use_grpc else "verif", overlay=ov, timeout=900)
        logs.append(out[-3000:])
        if rc == 0 and exe.exists():
            if not use_grpc and why is None:
                why = "the harness does not build against the real grpc.Run of this tree: " + logs[0][-800:]
            ctx.coverage.setdefault("ties", {})["clientdiff_build"] = {
                "net_modes_server_side": "the real net/grpc.Run over an in-memory listener (interceptor chain, stats handler)" if use_grpc else
                                         "DEGRADED: a grpc.Server built by the harness with an equivalent password interceptor (%s)" % why}
            if not use_grpc:
                ctx.note("net modes: the real net/grpc.Run could not be used (%s); the harness's own grpc.Server stands in" % (why or "")[:300])
            return exe, out[-500:]
    return None, "\n---- next attempt:\n".join(logs)


# ---------------------------------------------------------------------------------------------- running

PANIC_CLASSES = [("client out of sync", "outofsync"), ("error renewing lock", "renewfailed"), ("send on closed channel", "sendclosed"),
                 ("close of closed channel", "closeclosed"), ("deadlock", "deadlock")]


def classify_panic(text):
    m = re.search(r"^(panic: .*|fatal error: .*)$", text or "", re.M)
    line = m.group(1) if m else ""
    for pat, cls in PANIC_CLASSES:
        if pat in line:
            return cls, line
    return ("other" if line else "died"), (line or (text or "")[-300:].strip())


def parse_out(path):
    """-> {id: [lines]}, set of finished ids, order of started ids"""
    traces, done, order = {}, set(), []
    cur = None
    try:
        for line in Path(path).read_text(errors="replace").splitlines():
            if line.startswith("S "):
                cur = line[2:].strip()
                traces[cur] = []
                order.append(cur)
            elif line.startswith("D "):
                done.add(line[2:].strip())
                cur = None
            elif cur is not None:
                traces[cur].append(line)
    except OSError:
        pass
    return traces, done, order


def run_real(ctx, exe, cases, tag, per_batch_timeout=120):
    """Runs the cases on the real client in child processes. -> {id: dict(lines, crash=(cls, text)|None, hang=bool)}"""
    res = {}
    if not cases:
        return res
    d = ctx.work / ("real-" + tag)
    d.mkdir(parents=True, exist_ok=True)
    cf = d / "cases.txt"
    write_cases(cf, cases)
    ids = [c["id"] for c in cases]
    pos = 0
    rounds = 0
    hangs = 0
    while pos < len(ids) and rounds < len(ids) + 5:
        rounds += 1
        if hangs >= 3:
            break            # the tree hangs on case after case: the rest is reported as not run
        if hangs:
            per_batch_timeout = min(per_batch_timeout, 30)
        of = d / ("out-%d.txt" % rounds)
        if of.exists():
            of.unlink()
        env = dict(os.environ)
        env.update({"CD_CASES": str(cf), "CD_OUT": str(of), "CD_SKIP_TO": ids[pos]})
        rc, out = sh([str(exe), "-test.run", "TestClientDiff", "-test.timeout", "%ds" % per_batch_timeout], cwd=d, env=env, timeout=per_batch_timeout + 30)
        traces, done, order = parse_out(of)
        for i in order:
            if i in done:
                res[i] = dict(lines=traces[i], crash=None, hang=False)
        unfinished = [i for i in order if i not in done]
        if unfinished:
            i = unfinished[-1]
            cls, text = classify_panic(out)
            hang = rc == 124 or "test timed out" in out
            hangs += 1 if hang else 0
            res[i] = dict(lines=traces.get(i, []), crash=None if hang else (cls, text), hang=hang, output=out[-1500:])
            pos = ids.index(i) + 1
        elif rc != 0 and not order:
            # the binary does not even start the next case
            res[ids[pos]] = dict(lines=[], crash=("died", out[-400:]), hang=False, output=out[-1500:])
            pos += 1
        else:
            last = order[-1] if order else None
            pos = (ids.index(last) + 1) if last in ids else len(ids)
            if rc != 0 and pos < len(ids):
                continue
            if rc == 0:
                break
    return res


def run_model(ctx, drv, cases, tag):
    """-> {id: dict(lines, P=dict)}, consts line"""
    d = ctx.work / ("model-" + tag)
    d.mkdir(parents=True, exist_ok=True)
    cf = d / "cases.txt"
    write_cases(cf, cases)
    rc, out = sh([str(drv), str(cf)], cwd=d, timeout=600)
    (d / "out.txt").write_text(out)
    res, K = {}, {}
    cur = None
    for line in out.splitlines():
        if line.startswith("K "):
            K = line
        elif line.startswith("S "):
            cur = line[2:].strip()
            res[cur] = dict(lines=[], P={})
        elif line.startswith("D "):
            cur = None
        elif line.startswith("P "):
            f = line.split()
            r = res.setdefault(f[1], dict(lines=[], P={}))
            glob, holds, h = {}, [], None
            for tok in f[2:]:
                if tok == "hold":
                    h = {}
                    holds.append(h)
                elif "=" in tok:
                    a, b = tok.split("=", 1)
                    (h if h is not None else glob)[a] = b
                elif h is not None and "j" not in h:
                    h["j"] = tok
            glob["holds"] = holds
            r["P"] = glob
        elif line.startswith("ret "):
            f = line.split()
            res[f[1]] = dict(lines=[line], P={})
        elif line.startswith("B "):
            f = line.split()
            res[f[1]] = dict(lines=[line], P={}, bad=True)
        elif cur is not None:
            res[cur]["lines"].append(line)
    return res, K, (rc, out[-600:])


# ---------------------------------------------------------------------------------------------- comparing

def project(lines):
    """What both sides produce: everything but '#' lines; same-instant renews in a canonical order."""
    out = [l for l in lines if l and not l.startswith("#")]
    i = 0
    while i < len(out):
        j = i
        while j < len(out) and out[j].startswith("rpc renew ") and out[i].startswith("rpc renew ") and out[j].split()[6] == out[i].split()[6]:
            j += 1
        if j - i > 1:
            out[i:j] = sorted(out[i:j], key=lambda l: int(l.split()[2]))
        i = max(j, i + 1)
    return out


def real_projection(r):
    """Real trace with the crash of the child process turned into the model's crash line."""
    lines = project(r["lines"])
    if r.get("hang"):
        lines.append("hang")
    elif r.get("crash"):
        cls = r["crash"][0]
        j, at = "?", "?"
        raw = r["lines"]
        if cls == "renewfailed":
            for l in reversed(raw):
                f = l.split()
                if (f[:2] == ["rpc", "renew"] and f[7] == "0") or f[:2] == ["fail", "renew"]:
                    j, at = f[2], (f[6] if f[0] == "rpc" else f[3])
                    break
        elif cls == "outofsync":
            for l in reversed(raw):
                f = l.split()
                if f[0] == "#call" and f[1] in ("lock", "try"):
                    j, at = f[2], f[3]
                    break
        lines.append("crash %s %s %s" % (cls, j, at))
    return lines


def same_line(a, b):
    fa, fb = a.split(), b.split()
    if fa[:1] == ["crash"] and fb[:1] == ["crash"] and len(fa) == len(fb) == 4:
        return fa[1] == fb[1] and all(x == y or "?" in (x, y) for x, y in zip(fa[2:], fb[2:]))
    return fa == fb


def drop_tie_at_crash(lines):
    """Several renewers due at the instant of a renewer's panic: which of the others still got its Renew through is a tie
    the Go runtime decides; both traces are compared without those."""
    if len(lines) >= 2 and lines[-1].startswith("crash renewfailed "):
        f = lines[-1].split()
        t = f[3]
        k = len(lines) - 2
        keep_tail = []
        while k >= 0 and lines[k].startswith("rpc renew ") and lines[k].split()[6] == t:
            if lines[k].split()[7] == "0":
                keep_tail.insert(0, lines[k])
            k -= 1
        return lines[:k + 1] + keep_tail[-1:] + [lines[-1]]
    return lines


def first_diff(real, model):
    real, model = drop_tie_at_crash(real), drop_tie_at_crash(model)
    n = max(len(real), len(model))
    for i in range(n):
        a = real[i] if i < len(real) else "<end of real trace>"
        b = model[i] if i < len(model) else "<end of model trace>"
        if not same_line(a, b):
            return i, a, b
    return None


# ------------------------------------------------------------------------------------------------- oracle

class Hold:
    def __init__(self, j, op, name, T, size):
        self.j, self.op, self.name, self.T, self.size = j, op, name, T, size
        self.locked = False
        self.key = None
        self.grant_at = None
        self.call_idx = None
        self.unl_call = None     # (event index, time) of '#call unlock j'
        self.uret = None
        self.effects = []        # (event idx, time, ok) of rpc renew
        self.sent = []           # (event idx, time)
        self.ans = []            # (event idx, time)
        self.failed = []         # fail renew


def analyse(case, r, consts):
    """Evaluates the property on one REAL schedule trace. -> (failures, info)
    failure = dict(kind, j, text, at_idx). info has the hold table for signature matching."""
    lines = list(r["lines"])
    auto = not case.get("noauto")
    holds = {}
    lockitems = [it for it in case["items"] if it[0] in ("lock", "try")]
    for j, it in enumerate(lockitems):
        holds[j] = Hold(j, it[0], it[1], int(it[2]), int(it[3]))
    close_call = close_ret = None
    cancel_call = None
    probes, competes = [], []
    notes = {}               # ("ctx"|"auth"|"refused") -> first (idx, rpc kind, j, at, detail)
    end_t = 0
    for idx, l in enumerate(lines):
        f = l.split()
        if not f:
            continue
        try:
            if f[0] in ("#ctx", "#auth", "#refused"):
                notes.setdefault(f[0][1:], (idx, f[1], int(f[2]), int(f[3]), f[4] if len(f) > 4 else ""))
            elif f[0] == "#call" and f[1] == "cancel":
                cancel_call = (idx, int(f[2]))
                end_t = max(end_t, int(f[2]))
            elif f[0] == "rpc" and f[1] in ("lock", "try"):
                h = holds.get(int(f[2]))
                if h:
                    h.locked = f[7] == "1"
                    h.key = f[4]
                    h.grant_at = int(f[6])
                    h.call_idx = idx
                end_t = max(end_t, int(f[6]))
            elif f[0] == "rpc" and f[1] == "renew":
                h = holds.get(int(f[2]))
                if h:
                    h.effects.append((idx, int(f[6]), f[7] == "1"))
                end_t = max(end_t, int(f[6]))
            elif f[0] == "fail" and f[1] == "renew":
                h = holds.get(int(f[2]))
                if h:
                    h.failed.append((idx, int(f[3])))
            elif f[0] == "#sent":
                h = holds.get(int(f[2]))
                if h:
                    h.sent.append((idx, int(f[6])))
                end_t = max(end_t, int(f[6]))
            elif f[0] == "#ans":
                h = holds.get(int(f[2]))
                if h:
                    h.ans.append((idx, int(f[3])))
                end_t = max(end_t, int(f[3]))
            elif f[0] == "#call" and f[1] == "unlock":
                h = holds.get(int(f[2]))
                if h and h.unl_call is None:
                    h.unl_call = (idx, int(f[3]))
            elif f[0] == "ucall":          # Unlock run in steps: the call has begun
                h = holds.get(int(f[1]))
                if h and h.unl_call is None:
                    h.unl_call = (idx, int(f[2]))
                end_t = max(end_t, int(f[2]))
            elif f[0] == "uret":
                h = holds.get(int(f[1]))
                if h and h.uret is None:
                    h.uret = (idx, int(f[2]))
                end_t = max(end_t, int(f[2]))
            elif f[0] == "#call" and f[1] == "close":
                close_call = (idx, int(f[2]))
            elif f[0] == "cret":
                close_ret = (idx, int(f[1]))
            elif f[0] == "probe":
                n = int(f[1])
                pairs = [(f[2 + 2 * i], f[3 + 2 * i]) for i in range(n)]
                probes.append((idx, int(f[-1]), pairs))
                end_t = max(end_t, int(f[-1]))
            elif f[0] == "compete":
                competes.append((idx, int(f[3]), f[1], f[2] == "1"))
                end_t = max(end_t, int(f[3]))
        except (ValueError, IndexError):
            continue
    crash = r.get("crash")
    crash_idx = len(lines) if crash else None
    fails = []
    minr = consts["min_renew"]

    def window_end(h):
        c = [x for x in (h.unl_call, close_call, cancel_call) if x is not None]
        return min(c) if c else None

    # ---- every RPC on the client's context, with the configured credentials, none refused for lack of them
    RPCN = {"lock": "Lock", "try": "TryLock", "unlock": "Unlock", "renew": "Renew"}
    pw = case.get("mode") == "netpw"
    if "auth" in notes:
        i, k, j, t, d = notes["auth"]
        fails.append(dict(kind="auth", j=j, at_idx=i, text="the %s RPC for hold %d at %d ns does not carry the password of client.Config in its outgoing metadata (authorization: %s)" % (RPCN.get(k, k), j, t, d)))
    if "refused" in notes and pw:
        i, k, j, t, d = notes["refused"]
        fails.append(dict(kind="auth", j=j, at_idx=i, text="the %s RPC for hold %d at %d ns was refused Unauthenticated by the server although server and client are configured with the same password" % (RPCN.get(k, k), j, t)))
    if "ctx" in notes:
        i, k, j, t, d = notes["ctx"]
        fails.append(dict(kind="ctx", j=j, at_idx=i, text="the %s RPC for hold %d at %d ns was sent on a context that is not derived from the context the client was created with: metadata attached to that context (the password) is lost and cancelling it does not reach the RPC" % (RPCN.get(k, k), j, t)))

    for h in holds.values():
        in_scope = h.locked and auto and h.T > minr
        # ---- alive
        if in_scope:
            we = window_end(h)
            end_idx = we[0] if we else len(lines)
            wend_t = we[1] if we else end_t
            eff = [(i, t) for (i, t, ok) in h.effects if ok and i < end_idx]
            bad = [(i, t) for (i, t, ok) in h.effects if not ok and i < end_idx] + [(i, t) for (i, t) in h.failed if i < end_idx]
            # the latency hypothesis, measured: answer latency of the previous Renew + request latency of this one, below the
            # smallest slack the documented formula leaves (1 s); cases keep Renews at most SMALL_LAG in flight
            sent = [(i, t) for (i, t) in h.sent if i < end_idx]
            lag_ok = True
            allr = [(i, t) for (i, t, ok) in h.effects if i < end_idx]
            for n, (si, stime) in enumerate(sent):
                e = next((t for (i, t) in allr if i > si), None)
                a = next((t for (i, t) in h.ans if i > si), None)
                lag = ((e if e is not None else wend_t) - stime) + (((a if a is not None else wend_t) - e) if e is not None else 0)
                if lag >= SEC:
                    lag_ok = False
            times = [h.grant_at] + [t for (_, t) in eff]
            gap = None
            for a, b in zip(times, times[1:] + [wend_t]):
                if b - a >= h.T * SEC:
                    gap = (a, b)
                    break
            if lag_ok:
                if bad:
                    fails.append(dict(kind="alive", j=h.j, at_idx=bad[0][0], text="a Renew of hold %d (%s, T=%d) failed at %d ns although the client is alive and has not unlocked it: the hold had expired" % (h.j, h.name, h.T, bad[0][1])))
                elif gap:
                    fails.append(dict(kind="alive", j=h.j, at_idx=end_idx, text="hold %d (%s, T=%d): no successful Renew between %d and %d ns (>= T) while the client is alive and has not unlocked it: the lease ran out" % (h.j, h.name, h.T, gap[0], gap[1])))
                for (pi, pt, pairs) in probes:
                    if h.call_idx is not None and h.call_idx < pi < end_idx and (h.name, h.key) not in pairs and not (crash and pi >= crash_idx):
                        fails.append(dict(kind="alive", j=h.j, at_idx=pi, text="hold %d (%s) is missing from the server's listing at %d ns while the client is alive and has not unlocked it" % (h.j, h.name, pt)))
                        break
            if crash and crash[0] == "renewfailed" and (we is None):
                last = next((f for f in reversed(bad)), None)
                if last and not any(x["kind"] == "alive" and x["j"] == h.j for x in fails) and lag_ok:
                    fails.append(dict(kind="alive", j=h.j, at_idx=last[0], text="the renewer of hold %d panicked: its Renew failed while the hold was not unlocked" % h.j))
        # ---- stop: nothing of this hold's renewer after Unlock / Close has returned
        rets = [x for x in (h.uret, close_ret, cancel_call) if x is not None]
        if rets and auto:
            ri, rt = min(rets)
            late = [(i, t) for (i, t) in h.sent if i > ri]
            if late:
                fails.append(dict(kind="stop", j=h.j, at_idx=late[0][0], text="a Renew for hold %d (%s) was sent at %d ns, after %s at %d ns" % (
                    h.j, h.name, late[0][1], "Unlock had returned" if h.uret and (ri, rt) == h.uret else ("the client's context was cancelled" if (ri, rt) == cancel_call else "Close had returned"), rt)))
            else:
                lateeff = [(i, t) for (i, t, ok) in h.effects if i > ri]
                if lateeff:
                    fails.append(dict(kind="stop", j=h.j, at_idx=lateeff[0][0], text="a Renew for hold %d (%s) reached the server at %d ns, after Unlock/Close had returned at %d ns" % (h.j, h.name, lateeff[0][1], rt)))
    # ---- competing TryLocks: refused while the lock is full of holds that must be alive
    for (ci, ct, name, granted) in competes:
        live = [h for h in holds.values() if h.name == name and h.locked and h.call_idx is not None and h.call_idx < ci and
                (window_end(h) is None or window_end(h)[0] > ci) and ((auto and h.T > minr) or h.T == 0)]
        size = max([h.size for h in holds.values() if h.name == name] + [1])
        if granted and len(live) >= size and not any(x["kind"] == "alive" and x["j"] in [h.j for h in live] for x in fails):
            fails.append(dict(kind="alive", j=live[0].j, at_idx=ci, text="a competing TryLock on %s was granted at %d ns although %d hold(s) of this client must still be alive" % (name, ct, len(live))))
    # ---- no panic
    if crash:
        cls, text = crash
        culprit = None
        if cls == "renewfailed":
            # the renewer whose latest Renew came back with an error (the panic text names its lock)
            pname = None
            mm = re.search(r"error renewing lock (\S+)", text or "")
            if mm:
                pname = mm.group(1)
            best = -1
            for h in holds.values():
                evs = [(i, ok) for (i, t, ok) in h.effects] + [(i, False) for (i, t) in h.failed]
                if not evs:
                    continue
                li, lok = max(evs)
                if not lok and li > best and (pname is None or h.name == pname):
                    best, culprit = li, h
        out_of_scope = culprit is not None and auto and 0 < culprit.T <= minr and culprit.unl_call is None and close_call is None and cancel_call is None
        if out_of_scope:
            pass   # lock timeout <= MinRenewSeconds with auto-renew: excluded by the property's text
        else:
            fails.append(dict(kind="panic", j=(culprit.j if culprit else None), cls=cls, at_idx=len(lines), text="the client process panicked: " + text))
    if r.get("hang"):
        fails.append(dict(kind="hang", j=None, at_idx=len(lines), text="the run did not finish (watchdog)"))
    info = dict(holds=holds, close_call=close_call, close_ret=close_ret, auto=auto, lines=lines, crash=crash)
    return fails, info


def in_flight(h, idx):
    """A Renew of hold h has been sent before event idx and its answer has not reached the renewer."""
    s = [i for (i, _) in h.sent if i < idx]
    if not s:
        return False
    last = s[-1]
    return not any(last < i < idx for (i, _) in h.ans)


def match_known(fail, info):
    """-> finding id or None: does this failing REAL run carry exactly the signature of a recorded finding?"""
    holds, auto = info["holds"], info["auto"]
    if not auto:
        return None
    lines = info["lines"]

    def twins(h):
        out = []
        for o in holds.values():
            if o.j == h.j or o.name != h.name or not o.locked or not h.locked or o.call_idx is None or h.call_idx is None:
                continue
            first, second = (o, h) if o.call_idx < h.call_idx else (h, o)
            unl = first.unl_call
            if (unl is None or unl[0] > second.call_idx) and (first.T != 0 or second.T != 0) and (info["close_call"] is None or info["close_call"][0] > second.call_idx):
                out.append(o)
        return out

    j = fail.get("j")
    h = holds.get(j) if j is not None else None
    # F-STOPDROP stop_while_renewer_in_rpc: the Unlock (of a hold of that name) / the Close that should have stopped this hold's
    # renewer was called while a Renew of the hold was in flight
    if fail["kind"] in ("stop", "panic") and h is not None and (fail["kind"] == "stop" or fail.get("cls") == "renewfailed"):
        calls = []
        for o in holds.values():
            if o.name == h.name and o.unl_call is not None:
                calls.append(o.unl_call[0])
        if info["close_call"] is not None:
            calls.append(info["close_call"][0])
        if calls and any(in_flight(h, c) for c in calls):
            return "F-STOPDROP"
    # F-RENEWMAP second_hold_same_name_autorenew
    if fail["kind"] == "panic" and fail.get("cls") == "outofsync":
        # the call in progress was granted and has a twin
        cur = None
        for l in reversed(lines):
            f = l.split()
            if f[:1] == ["#call"] and f[1] in ("lock", "try"):
                cur = holds.get(int(f[2]))
                break
        if cur is not None and cur.locked and twins(cur):
            return "F-RENEWMAP"
    if fail["kind"] == "alive" and h is not None:
        tw = [o for o in twins(h) if o.unl_call is not None and o.unl_call[0] < fail["at_idx"] + 1]
        if tw:
            return "F-RENEWMAP"
    return None


def analyse_retry(case, r, consts):
    """The retry rule on one REAL retry case. -> failures"""
    n = case["maxretries"]
    script = case["codes"]
    auto = case["rpc"] == "autorenew"
    atts, ret = [], None
    for l in r["lines"]:
        f = l.split()
        if f[:1] == ["#att"] and len(f) == 5:
            atts.append((int(f[3]), int(f[4])))
        elif f[:1] == ["ret"]:
            ret = f
    fails = []
    if r.get("crash") or r.get("hang"):
        fails.append(dict(kind="retry", text="the client died / hung during the call: %s" % (r.get("crash") or "hang",)))
        return fails
    if auto:
        # attempts of the first tick: up to the first attempt that is not Unavailable
        first = []
        for a in atts:
            first.append(a)
            if a[1] != 14:
                break
        atts = first
    if not atts:
        return []        # the call was never made (e.g. the renewer did not tick in the observed window): nothing to judge
    for i, (t, c) in enumerate(atts[:-1]):
        if c != 14:
            fails.append(dict(kind="retry", text="call %d was answered with status code %d (not Unavailable) and the client called again" % (i + 1, c)))
    if len(atts) > n + 1:
        fails.append(dict(kind="retry", text="%d calls with MaxRetries = %d (at most %d allowed)" % (len(atts), n, n + 1)))
    lastc = atts[-1][1]
    if lastc == 14 and len(atts) < n + 1:
        fails.append(dict(kind="retry", text="gave up after %d calls on Unavailable with MaxRetries = %d" % (len(atts), n)))
    for (t0, _), (t1, _) in zip(atts, atts[1:]):
        if t1 - t0 != consts["retry_delay"] * SEC:
            fails.append(dict(kind="retry", text="%d ns between two attempts instead of RetryDelaySeconds = %d s" % (t1 - t0, consts["retry_delay"])))
            break
    if not auto and ret is not None:
        final = int(ret[2])
        want = lastc if lastc != 0 else 0
        if final != want:
            fails.append(dict(kind="retry", text="the call returned status %d, the last attempt was answered with %d" % (final, want)))
    return fails


# ---------------------------------------------------------------------------------------------- shrinking

def shrink(ctx, exe, case, still_fails, budget=25):
    items = list(case["items"])
    tries = 0
    changed = True
    while changed and tries < budget:
        changed = False
        k = len(items) - 1
        while k >= 0 and tries < budget:
            if items[k][0] not in ("lock", "try"):
                cand = dict(case, items=items[:k] + items[k + 1:], id="shrink")
                tries += 1
                if still_fails(cand):
                    items = cand["items"]
                    changed = True
            k -= 1
    return dict(case, items=items, id=case["id"] + "-shrunk")


# --------------------------------------------------------------------------------------------------- run

TRANSPORT = {"direct": "client.NewVerifClient over the interposer as pb.LDLMClient, Service methods called in process",
             "net": "the real client.New over a real grpc connection (in-memory listener) to the real net/grpc.Run, no password",
             "netpw": "the real client.New over a real grpc connection (in-memory listener) to the real net/grpc.Run, password set in security.SecurityConfig and client.Config"}


def describe(case):
    if case.get("kind") == "retry":
        return "retry %s MaxRetries=%d outcomes=%s" % (case["rpc"], case["maxretries"], case["codes"])
    mode = {"net": "real connection, no password; ", "netpw": "real connection, password configured on server and client; "}.get(case.get("mode"), "")
    return "%s%s; %s" % (mode, "auto-renew" if not case.get("noauto") else "no auto-renew", " ".join("(" + " ".join(str(x) for x in it) + ")" for it in case["items"]))


def evaluate(ctx, cases, real, model, consts):
    """-> list of per-case verdict dicts"""
    out = []
    for c in cases:
        i = c["id"]
        r = real.get(i)
        m = model.get(i)
        v = dict(case=c, id=i, fails=[], known=[], mismatch=None, ran=r is not None)
        if r is None:
            out.append(v)
            continue
        if c.get("kind") == "retry":
            v["fails"] = analyse_retry(c, r, consts)
            mret = next((l for l in (m or {}).get("lines", []) if l.startswith("ret ")), None)
            rret = next((l for l in r["lines"] if l.startswith("ret ")), None)
            if c["rpc"] != "autorenew" and mret and rret:
                fm, fr = mret.split(), rret.split()
                gaps_r = [int(x) for x in fr[4:]]
                gaps_m = [int(x) * SEC for x in fm[4:]]
                if fm[2] != fr[2] or fm[3] != fr[3] or gaps_m != gaps_r:
                    v["mismatch"] = (0, rret, mret)
            elif c["rpc"] != "autorenew" and not rret and not v["fails"]:
                v["mismatch"] = (0, "<no ret line>", mret or "<none>")
        else:
            fails, info = analyse(c, r, consts)
            for f in fails:
                k = match_known(f, info)
                if k:
                    v["known"].append((k, f))
                else:
                    v["fails"].append(f)
            if m is not None:
                v["mismatch"] = first_diff(real_projection(r), project(m["lines"]))
                v["model_P"] = m.get("P")
            else:
                v["mismatch"] = (0, "<real trace>", "<no model trace>")
        out.append(v)
    return out


def evaluate_net(bases, real_n, model, consts):
    """The password dimension. -> (verdicts of the net / netpw runs, stats)"""
    out = []
    st = dict(pairs=0, pairs_equal=0, agree_with_model=0, differ_from_model=[], compared_with_model=0, rpcs_checked=0, rpcs_with_password=0)
    for b in bases:
        pair = {}
        for mode, suf in (("net", "~net"), ("netpw", "~pw")):
            c = dict({k: v for k, v in b.items() if k != "corpus_file"}, id=b["id"] + suf, mode=mode, base=b["id"])
            r = real_n.get(c["id"])
            v = dict(case=c, id=c["id"], fails=[], known=[], mismatch=None, ran=r is not None, net=mode)
            if r is not None:
                fails, info = analyse(c, r, consts)
                for f in fails:
                    k = match_known(f, info)
                    if k:
                        v["known"].append((k, f))
                    else:
                        v["fails"].append(f)
                n = sum(1 for l in r["lines"] if l.startswith(("rpc ", "fail ")))
                st["rpcs_checked"] += n
                if mode == "netpw":
                    st["rpcs_with_password"] += n
            # what the run did wrong first, what the check noticed about its RPCs after
            v["fails"].sort(key=lambda f: (0 if "refused Unauthenticated" in f["text"] else {"alive": 1, "panic": 2, "stop": 2, "hang": 2, "auth": 3, "ctx": 4}.get(f["kind"], 5)))
            pair[mode] = (v, r)
            out.append(v)
        (vn, rn), (vp, rp) = pair["net"], pair["netpw"]
        if rn is None or rp is None:
            continue
        st["pairs"] += 1
        d = first_diff(real_projection(rp), real_projection(rn))
        if d is None:
            st["pairs_equal"] += 1
        else:
            k, a, bb = d
            vp["fails"].append(dict(kind="metamorphic", j=None, at_idx=k, text="the same scenario with a password configured (server and client.Config) and without one gives different observations, first at line %d: with password '%s' / without '%s'" % (k, a, bb)))
            vp["twin_trace"] = rn["lines"]
        # the transport must not matter either: the run over the real connection against the model (as far as the model goes)
        m = model.get(b["id"])
        if m is not None and not any(it[0] in ("close", "cancel") for it in b["items"]):
            st["compared_with_model"] += 1
            if first_diff(real_projection(rn), project(m["lines"])) is None:
                st["agree_with_model"] += 1
            else:
                st["differ_from_model"].append(b["id"])
    return out, st


def run(ctx):
    cov = ctx.coverage
    ctx.assumptions += [
        "RPC latency is a hypothesis of C19_alive: virtual time is not advanced beyond the slack T - interval(T) while a Renew of the hold is in flight (lag = answer latency of the previous Renew + request latency of this one). The generated cases keep Renews at most 500 ms in flight where the hold must stay alive; the oracle evaluates the alive clause only on runs whose measured lag is below 1 s (the smallest slack of the timeout set under the documented formula).",
        "grpc-go (connection, transport, keepalive, the real status errors of a broken connection) is not modelled. In the cases compared with the model the client talks to the real gRPC Service methods through an in-process pb.LDLMClient; transport errors are injected status errors; after Close the adapter answers like a closed ClientConn (codes.Canceled). In the password dimension (coverage.ties.clientdiff_net) the real client.New talks over a real *grpc.ClientConn on an in-memory listener (bufconn) to the real net/grpc.Run inside the same bubble; there Close ends the connection, and with it the session and its holds (observations after Close are compared between the two runs of the pair, not with the model).",
        "the password dimension is model-independent (Mclient has no notion of credentials): with a password configured on server and client no RPC may be refused Unauthenticated, every RPC must carry it, and the run must give the same model-visible observations as the run of the same scenario without a password. It is run on a subset (the corpus, the first cases of every family, quota in coverage.ties.clientdiff_net.rule). The password is printable ASCII (gRPC metadata cannot carry anything else: a Config.Password with other characters makes every RPC fail on the client side with an Internal error, which is outside C19).",
        "'the RPC context is derived from the client's context' is checked by a marker value in the context the client is created with: every RPC's context must show it. A client that rebuilt an equivalent context from context.Background() (copying metadata, wiring cancellation by hand) would be reported although it behaves the same.",
        "client.Lock calls that have to wait are outside Mclient (the model marks the run 'parked'); the generator only issues Lock where capacity is free. Cancellation of the client's context is exercised only while every renewer sleeps, and without Unlock / Close afterwards (family cancel, password dimension only, judged by the oracle alone: no Renew after the cancellation); a cancellation that meets a Renew in flight, and Unlock / Close after a cancellation (renewer.Stop on a renewer that has already ended), are outside the property's text and not run.",
        "the interposer keeps a Renew 'in flight' before or after the server; the instant between the timer firing and the goroutine entering the RPC is not separately schedulable under testing/synctest and is identified with 'before the server' (in both the goroutine has left the select, which is what Stop()'s non-blocking send depends on).",
        "Mclient runs over Mseq (validated separately by the seq-diff tie); same-instant Renews of different holds are compared up to order.",
        "holds with 0 < T <= MinRenewSeconds and auto-renew are excluded by the property's text (the client panics at the first tick by construction: interval_small); such cases are run for the model/implementation comparison only.",
    ]
    quick = ctx.tier == "quick"

    # ---- T3 + Coq
    ok_gen, gen_msg = gen.regenerate(ctx)
    ctx.note("T3 regenerate: %s; %s" % ("ok" if ok_gen else "FAILED", gen_msg.replace("\n", " | ")[:300]))
    consts = read_consts()
    coq_ok = ctx.coq_stage()
    deps = ["Gen/Consts.v", "Model/Client.v", "Proofs/ClientSrv.v", "Proofs/ClientP.v", "Proofs/ClientBasic.v", "Proofs/ClientStop.v",
            "Proofs/ClientAlive.v", "Proofs/ClientMulti.v", "Properties/C19.v"]
    fresh = all(vcheck.coq_vo_ok(x) for x in deps)
    if fresh:
        mt = lambda x: (vcheck.COQ / x).with_suffix(".vo").stat().st_mtime  # noqa
        fresh = all(mt(x) >= mt("Gen/Consts.v") for x in deps[1:])
    if coq_ok and (not fresh or not ok_gen):
        coq_ok = False
        ctx.note("coq: Properties/C19.vo is not a re-check against the regenerated constants of this tree")
    if not coq_ok:
        cov["discharged"] = 0
    cov["ties"]["T3_consts"] = {"regenerated": ok_gen, "MinRenewSeconds": consts["min_renew"], "RetryDelaySeconds": consts["retry_delay"],
                                "renew_threshold": consts["thr"], "renew_subtract": consts["sub"], "formula_recognised": consts["recognised"],
                                "differs_from_documented": {k: consts[k] for k in REF if consts[k] != REF[k]}}

    # ---- builds
    drv, dlog = build_driver(ctx)
    if drv is None:
        ctx.note("model driver: not built: " + dlog[-300:])
    exe, blog = build_harness(ctx)
    if exe is None:
        ctx.note("harness: does not build against this tree")

    # ---- replay mode
    if ctx.replay:
        return do_replay(ctx, exe, drv, consts, blog)

    # ---- cases
    corpus = load_corpus()
    gen_consts = consts if consts["recognised"] else dict(REF, recognised=False)
    generated, dist = generate(ctx, gen_consts)
    verdicts = []
    t_real = time.time()
    real_c = real_g = {}
    model_c = model_g = {}
    if exe is not None:
        real_c = run_real(ctx, exe, corpus, "corpus")
        real_g = run_real(ctx, exe, generated, "gen", per_batch_timeout=240 if quick else 900)
    if drv is not None:
        model_c, K, ml = run_model(ctx, drv, corpus, "corpus")
        model_g, K, ml = run_model(ctx, drv, generated, "gen")
    verdicts = evaluate(ctx, corpus, real_c, model_c, consts) + evaluate(ctx, generated, real_g, model_g, consts)
    ctx.note("ran %d corpus + %d generated cases on the real client in %.1fs" % (len(corpus), len(generated), time.time() - t_real))

    # ---- the password dimension (real client.New, real connection, real net/grpc.Run; with and without a password)
    t_net = time.time()
    nbases = net_bases(ctx, corpus, generated, gen_consts)
    ncases = net_variants(nbases)
    real_n = run_real(ctx, exe, ncases, "net", per_batch_timeout=240 if quick else 900) if exe is not None else {}
    model_b = dict(model_c)
    model_b.update(model_g)
    net_verdicts, nst = evaluate_net(nbases, real_n, model_b, consts)
    verdicts_direct = verdicts
    verdicts = verdicts + net_verdicts
    real_c = dict(real_c)
    real_c.update(real_n)           # the lookups below find every real trace by its id
    ctx.note("password dimension: %d scenarios x {no password, password} on the real client.New over net/grpc in %.1fs: %d pairs, %d with equal observations" % (
        len(nbases), time.time() - t_net, nst["pairs"], nst["pairs_equal"]))

    # ---- known findings / violations
    known_first = {}
    known_counts = {}
    for v in verdicts:
        for (fid, f) in v["known"]:
            known_counts[fid] = known_counts.get(fid, 0) + 1
            if fid not in known_first or (v["id"].startswith("corpus-") and not known_first[fid][0]["id"].startswith("corpus-")):
                if fid not in known_first or not known_first[fid][0]["id"].startswith("corpus-"):
                    known_first[fid] = (v, f)
    quiet = [v for v in verdicts for (fid, f) in v["known"] if fid == "F-RENEWMAP" and f["kind"] == "alive"]
    for fid, (v, f) in sorted(known_first.items()):
        entry = ctx.finding_by_id(fid)
        if entry is None:
            # not (or no longer) recorded as known: it is a violation like any other
            v["fails"].append(f)
            continue
        text = "%s [signature %s; reproduced on the real client by %d case(s) of this run, e.g. %s: %s -> %s]" % (
            entry.get("what", ""), entry.get("signature", ""), known_counts[fid], v["id"], describe(v["case"])[:260], f["text"][:200])
        if fid == "F-RENEWMAP" and quiet:
            q = quiet[0]
            text += " [same signature, quiet form, %d case(s), e.g. %s: unlocking one of two holds of a name stops the renewer filed under that name, the other hold then expires]" % (len(quiet), q["id"])
        ctx.known_finding(fid, text)

    failing = [v for v in verdicts if v["fails"]]
    failing.sort(key=lambda v: 0 if v.get("net") == "netpw" else 1)      # stable: the runs with a password first
    reported = 0

    def refails(kind):
        def f(cand):
            rr = run_real(ctx, exe, [cand], "shrink", per_batch_timeout=60)
            r = rr.get(cand["id"])
            if r is None:
                return False
            fs, info = analyse(cand, r, consts)
            return any(x["kind"] == kind and not match_known(x, info) for x in fs)
        return f

    seen_kinds = set()
    for v in failing:
        f = v["fails"][0]
        key = (f["kind"], v["case"].get("kind") == "retry", v.get("net"))
        if key in seen_kinds and reported >= 2:
            continue
        if reported >= 5:
            break
        seen_kinds.add(key)
        reported += 1
        case = v["case"]
        shr = None
        if exe is not None and case.get("kind") != "retry" and f["kind"] != "metamorphic":
            try:
                shr = shrink(ctx, exe, case, refails(f["kind"]))
            except Exception:  # noqa
                shr = None
        r = (real_c.get(v["id"]) or real_g.get(v["id"]) or {})
        m = (model_c.get(v["id"]) or model_g.get(v["id"]) or {})
        if v.get("net"):
            m = {}
        ctx.violation({"property": "C19", "kind": "failing-real-run", "clause": f["kind"], "what": f["text"], "all_failures": [x["text"] for x in v["fails"]][:6],
                       "case": {k: case[k] for k in case if k not in ("corpus_file",)}, "shrunk_case": shr, "seed": ctx.seed,
                       "transport": TRANSPORT.get(case.get("mode") or "direct"),
                       "real_trace": r.get("lines", [])[:400], "real_crash": r.get("crash"), "model_trace": m.get("lines", [])[:400],
                       "same_scenario_without_password_trace": (v.get("twin_trace") or (real_c.get(case.get("base", "") + "~net") or {}).get("lines") or [])[:400] if case.get("mode") == "netpw" else None,
                       "replay_cmd": "bin/check C19 --replay <this file>"},
                      "real client run violates C19 (%s): %s   [case %s: %s]" % (f["kind"], f["text"], v["id"], describe(shr or case)[:300]),
                      name="failing_%s.json" % re.sub(r"[^A-Za-z0-9_.-]", "_", v["id"]))

    mism = [v for v in verdicts if v["ran"] and v["mismatch"] is not None]
    not_run = [v for v in verdicts if not v["ran"]]
    if not failing:
        if exe is None:
            ctx.violation({"broken": "build", "what": "the tree under test does not compile against the harness (client.NewVerifClient overlay, net/grpc Service, server.New)",
                           "compiler_output": blog, "coq_ok": coq_ok},
                          "the tree does not compile against the client harness: no schedule could be run, nothing is shown to hold", name="build_failed.json", no_failing_input=True)
        elif drv is None:
            ctx.violation({"broken": "model-driver", "log": dlog}, "the extracted model could not be built: the correspondence was not checked", name="driver_failed.json", no_failing_input=True)
        elif mism:
            v = mism[0]
            k, a, b = v["mismatch"]
            ctx.violation({"broken": "correspondence (RPC sequence with virtual instants, panics, listings: all of it is what C19 reads)", "case": v["case"],
                           "first_difference": {"index": k, "real": a, "model": b}, "mismatching_cases": len(mism), "ids": [x["id"] for x in mism[:20]],
                           "real_trace": (real_c.get(v["id"]) or real_g.get(v["id"]) or {}).get("lines", [])[:300],
                           "model_trace": (model_c.get(v["id"]) or model_g.get(v["id"]) or {}).get("lines", [])[:300],
                           "replay_cmd": "bin/check C19 --replay <this file>"},
                          "model and real client disagree on %d case(s) (first: %s, line %d: real '%s' / model '%s'); no real run violating the property was found" % (len(mism), v["id"], k, a, b),
                          name="correspondence_%s.json" % re.sub(r"[^A-Za-z0-9_.-]", "_", v["id"]), no_failing_input=True)
        elif len(not_run) > len(verdicts) // 2:
            ctx.violation({"broken": "harness", "not_run": len(not_run), "of": len(verdicts)}, "most cases did not run on the real client", name="harness_failed.json", no_failing_input=True)
        elif not coq_ok:
            ctx.violation({"broken": "theorem", "property": "C19", "regenerated_constants": cov["ties"]["T3_consts"], "regenerate": gen_msg[-1200:],
                           "coq_failed_files": cov.get("coq_failed_files"), "lint": cov.get("lint_findings"), "log_excerpt": getattr(ctx, "coq_log", "")[-3000:],
                           "searched": "%d real runs, none violates the property" % sum(1 for v in verdicts if v["ran"])},
                          "theorems of C19 no longer check against the constants regenerated from this tree and no real run violating the property was found",
                          name="broken_theorem.json", no_failing_input=True)

    # ---- coverage
    sched = [v for v in verdicts_direct if v["case"].get("kind") != "retry"]
    retr = [v for v in verdicts_direct if v["case"].get("kind") == "retry"]
    fams = {}
    for b in nbases:
        fams[family(b["id"])] = fams.get(family(b["id"]), 0) + 1
    ncr = {}
    for v in net_verdicts:
        r = real_n.get(v["id"]) or {}
        if r.get("crash"):
            ncr[r["crash"][0]] = ncr.get(r["crash"][0], 0) + 1
    cov["ties"]["clientdiff_net"] = {
        "scenarios": len(nbases), "by_family": fams, "runs_on_real_client": sum(1 for v in net_verdicts if v["ran"]), "not_run": sum(1 for v in net_verdicts if not v["ran"]),
        "pairs_with_and_without_password": nst["pairs"], "pairs_with_equal_observations": nst["pairs_equal"],
        "rpcs_whose_context_and_metadata_were_checked": nst["rpcs_checked"], "of_which_with_a_password_configured": nst["rpcs_with_password"],
        "runs_without_password_compared_with_model": nst["compared_with_model"], "agreeing_with_model": nst["agree_with_model"], "differing_from_model": nst["differ_from_model"][:10],
        "runs_failing_property_oracle": sum(1 for v in net_verdicts if v["fails"]), "runs_matching_known_signature": sum(1 for v in net_verdicts if v["known"]),
        "child_process_crashes_by_panic": ncr,
        "rule": "corpus/client/*.json + the first cases of every generated family (quota %s) + a family that cancels the client's context while the renewers sleep; each scenario twice: no password / password on server and in client.Config" % json.dumps(NET_QUOTA["quick" if quick else "thorough"]),
    }
    def shape(c):
        return (bool(c.get("noauto")), tuple((it[0],) + tuple(it[1:]) if it[0] in ("lock", "try", "hold") else (it[0],) for it in c["items"]))
    nontrivial = set()
    for v in sched:
        c = v["case"]
        kinds = set(it[0] for it in c["items"])
        if v["ran"] and len(kinds) >= 3 and any(it[0] == "adv" and it[1] >= 10 * SEC for it in c["items"]):
            nontrivial.add(shape(c))
    rnon = set((v["case"]["rpc"], v["case"]["maxretries"], tuple(v["case"]["codes"])) for v in retr if v["ran"] and len(v["case"]["codes"]) >= 2)
    positions = {}
    for v in sched:
        m = re.match(r"g\d+-stop-(\w+)-(\w+)", v["id"])
        if m and v["ran"]:
            positions[m.group(1) + "@" + m.group(2)] = positions.get(m.group(1) + "@" + m.group(2), 0) + 1
    nren = sum(1 for v in sched for l in (real_g.get(v["id"]) or real_c.get(v["id"]) or {}).get("lines", []) if l.startswith("rpc renew"))
    crashes = {}
    for v in sched:
        r = real_g.get(v["id"]) or real_c.get(v["id"]) or {}
        if r.get("crash"):
            crashes[r["crash"][0]] = crashes.get(r["crash"][0], 0) + 1
    agree_excl = sum(1 for v in sched if v.get("model_P") and ((v["model_P"].get("stopdrop") == "1" or v["model_P"].get("renewmap") == "1") == bool(v["known"] or v["fails"])))
    cov["ties"]["clientdiff"] = {
        "schedule_cases_run_on_real_client": sum(1 for v in sched if v["ran"]), "retry_cases_run_on_real_client": sum(1 for v in retr if v["ran"]),
        "corpus": len(corpus), "generated": len(generated), "compared_with_model": sum(1 for v in verdicts if v["ran"] and (model_g.get(v["id"]) or model_c.get(v["id"]))),
        "mismatches": len(mism), "mismatch_ids": [v["id"] for v in mism[:10]], "cases_failing_property_oracle": len(failing),
        "cases_matching_known_signature": {k: n for k, n in known_counts.items()}, "renew_rpcs_observed": nren,
        "child_process_crashes_by_panic": crashes, "unlock_close_positions": positions,
        "cases_where_model_exclusion_predicate_agrees_with_real_failure": agree_excl,
        "generator_distribution": dist, "not_run": len(not_run),
    }
    cov["evaluations"] = sum(1 for v in verdicts if v["ran"])
    cov["distinct_nontrivial"] = len(nontrivial) + len(rnon)
    cov["traces_validated_against_impl"] = cov["ties"]["clientdiff"]["compared_with_model"]
    cov["exhaustive"] = False
    cov["rule"] = ("corpus/client/*.json first, then cases from one random.Random(VERIF_SEED) stream: families alive (1-3 holds, idle for several lease lengths, Renews kept in flight "
                   "for up to 500 ms, probes and competing TryLocks), stop (Unlock/Close with the renewer sleeping / about to send / inside Renew), ustep (Unlock run in steps: request kept before the server, reply kept after it, or first attempt Unavailable, while up to three renew ticks pass), multi (2-3 holds on the same and on "
                   "different names, unlocked one by one), edge (T <= MinRenewSeconds, no auto-renew, refused TryLocks, no timeout), timeouts from {5,10,11,29,30,31,45,90}; retry: "
                   "budgets 0-3 x 0..budget+1 leading Unavailable x every status code 0-16 and a non-status error, rpc kind rotating (quick) or all four (thorough), plus the renewer's own Renew. "
                   "Every case is executed on the REAL client in a synctest bubble and on the extracted model; the property oracle is evaluated on the real trace. "
                   "evaluations = cases executed on the real client; non-trivial schedule = at least 3 kinds of items and an idle period of >= 10 s, distinct = different item sequences "
                   "(with names, timeouts, stages); non-trivial retry case = at least 2 scripted outcomes, distinct = different (rpc, budget, outcomes)")
    samples = []
    for want in ("stop-unlock-sleep", "stop-unlock-pre", "ustep-post", "ustep-retry", "alive", "multi-diff", "retry-"):
        for v in verdicts:
            if want in v["id"] and v["ran"]:
                r = real_g.get(v["id"]) or real_c.get(v["id"]) or {}
                samples.append({"case": v["id"], "input": describe(v["case"])[:400], "real_trace_head": [l for l in r.get("lines", [])][:12],
                                "crash": r.get("crash"), "oracle_failures": [f["text"] for f in v["fails"]][:2], "known": [k for k, _ in v["known"]][:2],
                                "agrees_with_model": v["mismatch"] is None})
                break
    cov["samples"] = samples or [{"note": "no case ran", "log": (blog or "")[-500:]}]
    return None


def do_replay(ctx, exe, drv, consts, blog):
    try:
        r = json.loads(Path(ctx.replay).read_text())
    except Exception as ex:  # noqa
        print("cannot read replay file: %r" % (ex,))
        ctx.violation({"broken": "replay", "file": str(ctx.replay)}, "replay file unreadable", name="replay_unreadable.json", no_failing_input=True)
        return
    case = r.get("shrunk_case") or r.get("case") or r
    if "items" not in case and case.get("kind") != "retry":
        print("the replay file records no case (it names a broken theorem / build / correspondence): %s" % (r.get("broken") or list(r)[:5]))
        ctx.coverage["samples"] = [{"replayed": str(ctx.replay)}]
        ctx.coverage["evaluations"] = 0
        ctx.coverage["distinct_nontrivial"] = 0
        return
    case = dict(case, id="replay")
    print("replaying on %s: %s" % (REPO, describe(case)))
    if exe is None:
        print("the harness does not build against this tree:\n" + (blog or "")[-1500:])
        ctx.violation({"broken": "build", "compiler_output": blog}, "replay could not run: the tree does not compile against the harness", name="replay_build_failed.json", no_failing_input=True)
        return
    if case.get("mode") in ("net", "netpw"):
        # a scenario of the password dimension: both runs of the pair, the property oracle on each, the metamorphic clause
        base = {k: v for k, v in case.items() if k not in ("mode", "base")}
        real = run_real(ctx, exe, net_variants([base]), "replay", per_batch_timeout=120)
        vs, nst = evaluate_net([base], real, {}, consts)
        for v in vs:
            r = real.get(v["id"]) or {"lines": []}
            print("---- real client trace, %s" % TRANSPORT[v["net"]])
            for l in r["lines"]:
                print("  " + l)
            if r.get("crash"):
                print("  ** process died: %s" % (r["crash"],))
        v = next(x for x in vs if x["net"] == case["mode"])
        rr = real.get(v["id"]) or {"lines": []}
        if case["mode"] == "net":
            other = next(x for x in vs if x["net"] == "netpw")
            v["fails"] += [f for f in other["fails"] if f["kind"] == "metamorphic"]
    else:
        real = run_real(ctx, exe, [case], "replay", per_batch_timeout=120)
        model = {}
        if drv is not None:
            model, _, _ = run_model(ctx, drv, [case], "replay")
        rr = real.get("replay") or {"lines": []}
        print("---- real client trace")
        for l in rr["lines"]:
            print("  " + l)
        if rr.get("crash"):
            print("  ** process died: %s" % (rr["crash"],))
        print("---- model trace")
        for l in (model.get("replay") or {}).get("lines", []):
            print("  " + l)
        v = evaluate(ctx, [case], real, model, consts)[0]
    for k, f in v["known"]:
        print("known finding %s: %s" % (k, f["text"]))
        ent = ctx.finding_by_id(k)
        if ent:
            ctx.known_finding(k, "%s [replayed: %s]" % (ent.get("what", ""), f["text"][:200]))
        else:
            v["fails"].append(f)
    for f in v["fails"]:
        print("VIOLATES C19 (%s): %s" % (f["kind"], f["text"]))
    if v["mismatch"] is not None:
        print("model and implementation differ at line %d: real '%s' / model '%s'" % v["mismatch"])
    if v["fails"]:
        ctx.violation({"property": "C19", "kind": "failing-real-run", "what": v["fails"][0]["text"], "case": case, "real_trace": rr["lines"][:400], "real_crash": rr.get("crash")},
                      "replayed case violates C19: " + v["fails"][0]["text"], name="replayed.json")
    elif not v["known"] and v["mismatch"] is None:
        print("the replayed scenario satisfies C19 on this tree with and without a password, with equal observations" if case.get("mode") in ("net", "netpw")
              else "the replayed case satisfies C19 on this tree and agrees with the model")
    ctx.coverage["samples"] = [{"replayed": describe(case)[:400], "real_trace_head": rr["lines"][:12]}]
    ctx.coverage["evaluations"] = 1
    ctx.coverage["distinct_nontrivial"] = 1
    ctx.coverage["rule"] = "replay of one recorded case on the real client and on the model"


if __name__ == "__main__":
    print(__doc__)


def run(ctx, _inner=run):     # + T5-race (lib/racetie.py): data-race freedom, the assumption under every interleaving model; also re-runs its replay files
    from lib import racetie
    return racetie.stage(ctx, _inner, ["client"])
