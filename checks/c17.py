"""C17 — the state file codec: write/read round trip, rewrites, damaged input.

Stages (DESIGN.md 5 "C17"):
  Coq   ctx.coq_stage(): Model/Codec.v (store.go as it is now: validator + benc v1.1.8 + Write through <path>.tmp and rename)
        and Properties/C17.v (round trip in every entry order, rewrite sequences, crash images, decode of ANY bytes is a value
        or an error with allocation <= len/6 elements) are re-checked; Print Assumptions of every theorem is recorded.
  model the extracted model (ocaml/codec: extract.v + driver.ml) is rebuilt from the compiled development.
  tie   harness/codecdiff is built against the CURRENT working tree of lib.vcheck.REPO and runs, corpus first and then cases from
        one PRNG stream seeded by VERIF_SEED, the REAL store (store.New / Write / Read on real files, in child processes with an
        address-space limit and a deadline) and the model on the same inputs.

Verdict. The property's own oracle is evaluated on what the REAL code did (harness/codecdiff/eval.go propWrite / propRead):
  Write then Read gives the map written (same store and a newly opened one); after every write of a sequence the state file has
  exactly the length of the map's encoding (no stale tail, nothing missing) whatever was on disk before; reading arbitrary or damaged
  bytes ends in a value or an error — not a panic, not the death of the process, not silence, not more than 64*len + 64 KiB allocated.
A real input on which it fails -> VIOLATION with that input (shrunk) as replay. If only model and code disagree (outcome class, decoded
map, file length), or the theorems / the machinery are broken, and no real input fails -> VIOLATION ... no-failing-input-found.
Differences outside the projection (WHICH benc error is returned; benc's decoder run alone on unvalidated bytes) are recorded only.

    bin/check C17 [--tier quick|thorough] [--replay replays/C17/<file>.json | corpus/codec/<file>.json]
"""
import json
import re
import shutil
from pathlib import Path

from lib import vcheck

MODEL_SRC = vcheck.VERIF / "ocaml" / "codec"
CORPUS = vcheck.VERIF / "corpus" / "codec"

RULE_TEXT = {
    "roundtrip": "Write then Read does not give back the map that was written",
    "stale-bytes": "a rewrite leaves stale bytes in the state file",
    "short-file": "after Write the state file is shorter than the encoding of the map",
    "write-failed": "store.Write of a valid map failed",
    "open-failed": "store.New failed on an existing path",
    "panic": "reading bytes panics",
    "died": "the process died while the store handled the input (fatal error / out of memory)",
    "hang": "the store did not answer within the deadline",
    "allocation": "reading allocates out of proportion to the file",
}

ASSUMPTIONS = [
    "Model/Codec.v is a hand-written Gallina rendering of server/session/store/store.go (marshalLocks, unmarshalLocks, checkEncoding, checkCount, checkString, checkTerminator, Write, Read) and of the functions of github.com/deneonet/benc v1.1.8 it calls (std/bstd.go Marshal/Unmarshal/Size of Uint, String, Int32, Slice, Map; benc.VerifyMarshal); it is tied to the code only by the differential runs counted under coverage.ties (agreement on the cases run)",
    "a Go []byte is a list of bytes, an int/uint is 64 bits (linux/amd64), runtime.maxAlloc = 2^48, unsafe.Sizeof(cl.Lock) = 40: these constants only matter for benc's decoder on inputs the validator rejects and for the side condition go_bytes",
    "go_bytes: the safety theorems (C17_safe, C17_read_safe, C17_validated, C17_alloc) are for files of at most 6*(2^48/40) bytes (about 42 TB); above that a hold count the validator accepts can exceed what make([]cl.Lock, n) accepts and the faithful model panics there as the code would. The validator itself (C17_validator_safe) and the round-trip / rewrite / crash-image theorems have no size condition",
    "wf (hypothesis of the round-trip theorems): session ids are distinct (they are the keys of a Go map), string lengths < 2^63, sizes are int32 values, a session has at most 2^48/40 holds - true of every value of type map[string][]cl.Lock",
    "the file system is modelled as two byte strings (state file, <path>.tmp); open with O_TRUNC empties, write replaces, rename installs the temporary file's content in one step and removes it. POSIX rename atomicity and fsync durability are assumed, not modelled; os errors (disk full, permissions) make the real Write panic and are outside the model",
    "allocation: the theorem bounds the number of slice elements and map entries make() is asked for (<= len/6); the harness measures bytes (runtime.MemStats.TotalAlloc around the call) against 64*len + 64 KiB and runs the child under RLIMIT_DATA = 1 GiB / RLIMIT_AS = 4 GiB, so an unbacked request shows as a measured excess or as the death of the child",
    "Go's map iteration order is unspecified: the round-trip theorem is for every permutation of the entries; the harness compares maps, not bytes, and checks the length of the real file, the model's reading of the real file, and the real store's reading of the model's file (for small maps in every entry order)",
    "extraction (ExtrOcamlBasic only) and the hand-written OCaml driver / Go harness are trusted; the harness's own third encoder (gen.go goEncode/encodedLen) is used to build damaged inputs and to know the length a state file must have",
]


def build_model(ctx):
    """Extract Model/Codec.v from the compiled development and build the driver. -> (exe or None, log)"""
    d = ctx.work / "model"
    d.mkdir(parents=True, exist_ok=True)
    log = ""
    try:
        for f in ("extract.v", "driver.ml"):
            shutil.copy(MODEL_SRC / f, d / f)
    except OSError as ex:
        return None, "cannot copy ocaml/codec: %s" % ex
    if vcheck.coq_vo_ok("Model/Codec.v"):
        with vcheck.Lock("coq"):
            rc, out = vcheck.sh(["coqc", "-Q", str(vcheck.COQ), "Ldlm", "-w", "-notation-overridden,-extraction-opaque-accessed,-extraction-reserved-identifier", "extract.v"],
                                cwd=d, timeout=300)
        log += out[-1500:]
        if rc == 0 and (d / "codec_model.ml").exists():
            rc, out = vcheck.sh("ocamlfind ocamlopt -O2 -w -a codec_model.mli codec_model.ml driver.ml -o codecdriver 2>/dev/null || "
                                "ocamlfind ocamlopt -w -a codec_model.mli codec_model.ml driver.ml -o codecdriver", cwd=d, timeout=300)
            log += out[-1500:]
            if rc == 0 and (d / "codecdriver").exists():
                return d / "codecdriver", log
    else:
        log += "Model/Codec.vo is missing or older than its source\n"
    return None, log


def build_harness(ctx):
    """-> (exe or None, log)"""
    hdir = vcheck.harness_dir(ctx)
    exe = ctx.work / "codecdiff"
    rc, out = vcheck.go_build(ctx, hdir, "./codecdiff", exe, timeout=900)
    if rc == 0 and exe.exists():
        return exe, out
    return None, out


def run_harness(ctx, exe, driver, replay=None):
    """-> (report dict or None, log)"""
    rep = ctx.work / "report.json"
    wd = ctx.work / "run"
    shutil.rmtree(wd, ignore_errors=True)
    wd.mkdir(parents=True, exist_ok=True)
    deadline = 150 if ctx.tier == "quick" else 1500
    cmd = [str(exe), "-model", str(driver), "-work", str(wd), "-report", str(rep), "-tier", ctx.tier, "-seed", str(int(ctx.seed) & (2 ** 63 - 1)),
           "-corpus", str(CORPUS), "-deadline", str(deadline)]
    if replay:
        cmd += ["-replay", str(replay)]
    rc, out = vcheck.sh(cmd, cwd=ctx.work, timeout=deadline + 240)
    shutil.rmtree(wd, ignore_errors=True)
    try:
        return json.loads(rep.read_text()), "rc=%s\n%s" % (rc, out[-6000:])
    except Exception as ex:  # noqa
        return None, "rc=%s (no readable report: %s)\n%s" % (rc, ex, out[-6000:])


def coq_eval_tie(ctx, driver):
    """Evaluates file_read / benc_decode of the corpus byte strings INSIDE Coq (vm_compute) and compares the outcome classes with
    what the extracted driver answers: ties extraction + the hand-written driver to the definitions the theorems are about.
    -> dict(compared, disagreements=[...], skipped=reason or None)"""
    out = {"compared": 0, "disagreements": [], "skipped": None}
    inputs = []
    for f in sorted(CORPUS.glob("*.json")):
        try:
            c = json.loads(f.read_text())
            if c.get("kind") == "bytes" and len(c.get("hex", "")) <= 200:
                inputs.append((f.name, bytes.fromhex(c["hex"])))
        except Exception:  # noqa
            continue
    inputs += [("example:one-hold", bytes.fromhex("01027331010161016b050000000101010101010101")), ("example:hint-2^20+1", bytes.fromhex("818040")),
               ("example:11-byte-varint", bytes.fromhex("8080808080808080808001")), ("example:wrong-terminator", bytes.fromhex("0001010102"))]
    if driver is None or not inputs or not vcheck.coq_vo_ok("Model/Codec.v"):
        out["skipped"] = "no driver / no compiled model"
        return out
    lst = "; ".join("[" + "; ".join("x%02x" % b for b in bs) + "]" for _, bs in inputs)
    v = ctx.work / "EvalTie.v"
    v.write_text(
        "From Ldlm Require Import Model.Base Model.Codec.\n"
        "Definition cls (r : dec_result) : nat := match r with DecOk _ => 0 | DecErr EBufTooSmall => 1 | DecErr EOverflow => 2\n"
        "  | DecErr EVerifyMarshal => 3 | DecPanic WhySliceBounds => 4 | DecPanic WhyMakeSliceLen => 5 | DecPanic WhyFuel => 6 | DecAlloc _ => 7 end.\n"
        "Eval vm_compute in (map (fun b : list byte => (cls (file_read (Fs b None)), cls (benc_decode b))) [%s]).\n" % lst)
    with vcheck.Lock("coq"):
        rc, txt = vcheck.sh(["coqc", "-Q", str(vcheck.COQ), "Ldlm", "-w", "-notation-overridden", "-o", str(ctx.work / "EvalTie.vo"), str(v)], cwd=ctx.work, timeout=300)
    pairs = re.findall(r"\(\s*(\d+)\s*,\s*(\d+)\s*\)", txt)
    if rc != 0 or len(pairs) != len(inputs):
        out["skipped"] = "coqc on the evaluation file failed: " + txt[-300:]
        return out
    names = {0: "ok", 1: "err buftoosmall", 2: "err overflow", 3: "err verifymarshal", 4: "panic slicebounds", 5: "panic makeslicelen", 6: "panic fuel", 7: "alloc"}
    rc, ans = vcheck.sh([str(driver)], cwd=ctx.work, timeout=120, stdin="".join("D %s\n" % (bs.hex() or "-") for _, bs in inputs))
    lines = [l for l in ans.splitlines() if " | " in l]
    if rc != 0 or len(lines) != len(inputs):
        out["skipped"] = "the driver did not answer: " + ans[-300:]
        return out
    short = lambda t: " ".join(t.split()[:2]) if t.split()[0] in ("err", "panic") else t.split()[0]  # noqa
    for (name, bs), (a, b), line in zip(inputs, pairs, lines):
        cols = line.split(" | ")
        got = (short(cols[2]), short(cols[1]))
        want = (names[int(a)], names[int(b)])
        out["compared"] += 1
        if got != want:
            out["disagreements"].append({"input": name, "hex": bs.hex(), "coq_vm_compute (file_read, benc_decode)": want, "extracted_driver": got})
    return out


def clip(s, n=300):
    s = str(s)
    return s if len(s) <= n else s[:n] + "..."


def replay_of(f, n_same, coq_ok):
    """The replay file of one finding: the (shrunk) case in the format codecdiff -replay reads, plus what was seen."""
    case = dict(f.get("shrunk") or f["case"])
    obj = {"property": "C17"}
    obj.update(case)
    obj.update({
        "level": f["level"], "rule": f["rule"], "what": f["what"],
        "expected": {
            "property": "value or error for any bytes; Write then Read = the map written; after a rewrite the file is exactly the new encoding",
            "violated_rule": RULE_TEXT.get(f["rule"], f["rule"]),
        },
        ("observed_real_on_the_case_before_shrinking" if f.get("shrunk") else "observed_real"): f.get("real"), "observed_model": f.get("model"),
        "generator": f.get("origin"), "generated_case_id": f.get("case_id"), "failing_write_of_sequence": f.get("step") or None,
        "other_cases_failing_the_same_rule": n_same,
        "theorems_checked": coq_ok,
        "replay": "bin/check C17 --replay <this file>   (re-runs exactly this input on the current tree and on the model, prints both)",
    })
    if f.get("shrunk"):
        oc = f["case"]
        size = len(oc.get("hex") or "") // 2 if oc.get("kind") == "bytes" else len(json.dumps(oc))
        obj["shrunk_from"] = {"kind": oc.get("kind"), "note": oc.get("note"), "size": size} if size > 4000 else oc
    return obj


def fill_coverage(ctx, rep, model_note):
    cov = ctx.coverage
    if not rep:
        return
    d = rep.get("distribution") or {}
    ties = rep.get("ties") or {}
    cov["ties"]["codecdiff"] = {
        "cases": rep.get("cases"), "cases_run": rep.get("cases_run"), "cases_not_run_deadline": rep.get("cases_not_run_deadline"),
        "corpus_files": rep.get("corpus_files"), "corpus_unreadable": rep.get("corpus_unreadable"),
        "comparisons": ties,
        "real_calls": rep.get("real_calls"), "model_calls": rep.get("model_calls"), "model_evaluations_skipped": rep.get("model_evaluations_skipped"), "model_skip_reasons": rep.get("model_skip_reasons"),
        "real_child_deaths_or_timeouts": rep.get("real_child_deaths_or_timeouts"),
        "real_outcome_classes": rep.get("real_outcome_classes"), "model_outcome_classes": rep.get("model_outcome_classes"),
        "error_kinds": rep.get("error_kinds"),
        "allocation_bound": rep.get("allocation_bound"),
        "findings_by_level_and_rule": rep.get("findings_by_level_and_rule"),
        "harness_wall_s": round(rep.get("wall_s") or 0, 2), "workers": rep.get("workers"),
        "model_driver": model_note,
    }
    cov["generator_distribution"] = d
    cov["evaluations"] = int(rep.get("evaluations") or 0)
    cov["distinct_nontrivial"] = int(rep.get("distinct_nontrivial_inputs") or 0)
    cov["distinct_inputs"] = int(rep.get("distinct_inputs") or 0)
    cov["traces_validated_against_impl"] = int(ties.get("decode_class", 0) + ties.get("write_then_read_real", 0) + ties.get("real_reads_model_bytes_in_every_order", 0))
    cov["exhaustive"] = False
    cov["mismatches"] = [{"rule": f["rule"], "what": clip(f["what"]), "origin": f.get("origin")} for f in (rep.get("mismatches") or [])[:10]]
    cov["outside_projection"] = [{"rule": f["rule"], "what": clip(f["what"]), "origin": f.get("origin")} for f in (rep.get("outside_projection") or [])[:10]]
    cov["rule"] = (
        "Coq: the theorems of Properties/C17.v are unbounded (every map in every entry order, every sequence of writes from every initial file, "
        "every crash point, every byte string up to 42 TB). Correspondence: corpus/codec/*.json first, then cases drawn from ONE PCG stream seeded by "
        "VERIF_SEED in a fixed order (harness/codecdiff/gen.go): all maps of <= 2 sessions over 3 ids x 7 hold lists; random maps (shapes and string / "
        "size kinds under generator_distribution; strings up to 64 KiB in quick, 256 KiB in thorough); sequences of 1-6 writes of growing / shrinking / "
        "zigzag length on one store, on a fresh path or over a longer valid / damaged state file and a left-over .tmp; model encodings of small maps in "
        "every entry order; random bytes; encodings with hostile counts / lengths / varints / terminators; every truncation and single-byte corruptions "
        "(all 255 values for 2 short encodings, 6-7 values per position otherwise) of valid encodings. evaluations = store.Read / store.Write calls on the "
        "real store judged by the property's oracle. distinct_nontrivial = distinct inputs that are a map / sequence with at least one session, or a "
        "byte string whose leading count is a well-formed varint >= 1 that the rest of the file could hold (at least one session id is examined); counted by the harness")
    cov["samples"] = list(rep.get("samples") or [])[:14]


def run(ctx):
    cov = ctx.coverage
    ctx.assumptions += ASSUMPTIONS
    coq_ok = ctx.coq_stage()
    printed = cov.get("assumptions_printed") or {}
    open_thms = sorted(k for k, v in printed.items() if not v.startswith("Closed under the global context"))
    missing = sorted(set(cov.get("theorems") or []) - set(printed)) if coq_ok else []
    if coq_ok and (open_thms or missing):
        coq_ok = False
        cov["discharged"] = 0
        ctx.note("coq: theorems not closed under the global context: %s; without Print Assumptions: %s" % (open_thms, missing))

    driver, mlog = build_model(ctx)
    model_note = "extracted from the compiled development in this run"
    if driver is None:
        prebuilt = MODEL_SRC / "codecdriver"
        if prebuilt.exists():
            driver, model_note = prebuilt, "extraction failed in this run; the driver built by bin/setup is used"
        else:
            model_note = "no model driver could be built"
        ctx.note("model: " + model_note + ": " + clip(mlog.replace("\n", " | "), 400))
    exe, blog = build_harness(ctx)
    if exe is None:
        ctx.note("tie: harness/codecdiff does not build against %s" % vcheck.REPO)
    ext = coq_eval_tie(ctx, driver) if not ctx.replay else {"compared": 0, "disagreements": [], "skipped": "replay"}
    cov["ties"]["coq_vm_compute_vs_extracted_driver"] = ext
    if ext["disagreements"]:
        ctx.violation({"broken": "extraction", "disagreements": ext["disagreements"]},
                      "the extracted model driver and Coq's own evaluation of Model/Codec.v disagree on %d input(s)" % len(ext["disagreements"]),
                      name="extraction.json", no_failing_input=True)
    elif ext["skipped"]:
        ctx.note("coq/driver tie skipped: " + clip(ext["skipped"], 200))

    if ctx.replay:
        return do_replay(ctx, exe, driver, blog, coq_ok)

    rep, rlog = (None, "")
    if exe is not None:
        rep, rlog = run_harness(ctx, exe, driver or Path("/nonexistent/codecdriver"))
        if rep:
            ctx.note("tie: %s cases run (%s not run: deadline or early stop), %s evaluations on the real store, findings %s, %.1fs" % (
                rep.get("cases_run"), rep.get("cases_not_run_deadline"), rep.get("evaluations"), rep.get("findings_by_level_and_rule") or "none", rep.get("wall_s") or 0))
    fill_coverage(ctx, rep, model_note)
    if not cov.get("samples"):
        cov["samples"] = [{"note": "no case was run", "log": clip(blog if exe is None else rlog, 600)}]

    # ---- verdict
    counts = (rep or {}).get("findings_by_level_and_rule") or {}
    props = (rep or {}).get("property_failures") or []
    mism = (rep or {}).get("mismatches") or []
    seen = set()
    for f in props:
        if f["rule"] in seen:
            continue
        seen.add(f["rule"])
        n_same = counts.get("property:" + f["rule"], 1) - 1
        text = "%s: %s" % (RULE_TEXT.get(f["rule"], f["rule"]), clip(f["what"], 400))
        if n_same:
            text += "   [%d more case(s) fail the same rule]" % n_same
        if not coq_ok:
            text += "   [the Coq stage is broken as well]"
        ctx.violation(replay_of(f, n_same, coq_ok), text, name="violation_%s_case%s.json" % (f["rule"], f.get("case_id")))
    if props:
        return

    # no real input fails the property's predicate
    if exe is None:
        ctx.violation({"broken": "build", "what": "the tree under test does not compile against harness/codecdiff (package server/session/store, server/clientlock)",
                       "compiler_output": blog[-4000:], "coq_ok": coq_ok},
                      "the tree does not compile against the harness: the store could not be run, nothing is shown to hold", name="build_failed.json", no_failing_input=True)
        return
    if rep is None or not rep.get("cases_run"):
        ctx.violation({"broken": "harness", "what": "codecdiff produced no report or ran no case", "log": rlog[-4000:]},
                      "the correspondence run did not complete", name="harness_failed.json", no_failing_input=True)
        return
    if mism:
        f = mism[0]
        n_same = counts.get("mismatch:" + f["rule"], 1) - 1
        obj = replay_of(f, n_same, coq_ok)
        obj["broken"] = "correspondence"
        obj["all_mismatch_rules"] = {k: v for k, v in counts.items() if k.startswith("mismatch:")}
        ctx.violation(obj, "model and real store differ in C17's projection (%s): %s; no real input violating the property itself was found in %s evaluations" % (
            f["rule"], clip(f["what"], 300), rep.get("evaluations")), name="mismatch_%s_case%s.json" % (f["rule"], f.get("case_id")), no_failing_input=True)
    harness_bad = rep.get("harness_problems") or []
    skipped = int(rep.get("model_evaluations_skipped") or 0)
    compared = sum(int(v) for k, v in (rep.get("ties") or {}).items() if k != "benc_class")
    if harness_bad or driver is None or skipped > max(3, compared // 100):
        ctx.violation({"broken": "machinery", "harness_problems": harness_bad, "model_evaluations_skipped": skipped, "comparisons_made": compared,
                       "model_driver": model_note, "model_build_log": mlog[-2000:], "log": rlog[-2000:]},
                      "the correspondence is not established: %s" % ("; ".join(harness_bad[:2]) or "%d model evaluations failed or timed out (%s)" % (skipped, model_note)),
                      name="machinery.json", no_failing_input=True)
    if rep.get("corpus_unreadable"):
        ctx.violation({"broken": "corpus", "files": rep["corpus_unreadable"]}, "corpus files could not be read: %s" % rep["corpus_unreadable"],
                      name="corpus.json", no_failing_input=True)
    if not coq_ok and not ctx.violations:
        ctx.coq_broken_violation()
    elif not coq_ok:
        ctx.note("the Coq stage is broken as well (see coverage)")


def do_replay(ctx, exe, driver, blog, coq_ok):
    cov = ctx.coverage
    p = Path(ctx.replay).resolve()
    try:
        r = json.loads(p.read_text())
    except Exception as ex:  # noqa
        print("cannot read replay file %s: %r" % (p, ex))
        ctx.violation({"broken": "replay", "file": str(p)}, "replay file unreadable", name="replay_unreadable.json", no_failing_input=True)
        return
    if "kind" not in r:
        print("%s records no input (%s): %s" % (p, r.get("broken", "?"), clip(r.get("what") or r.get("log_excerpt") or "", 600)))
        print("re-running the whole check instead is the replay of such a file: bin/check C17")
        cov["samples"] = [{"replay": str(p), "kind": "no input recorded"}]
        cov["evaluations"], cov["distinct_nontrivial"] = 0, 0
        if exe is None:
            print("the tree still does not compile against the harness:\n" + blog[-1500:])
            ctx.violation({"broken": "build", "compiler_output": blog[-4000:]}, "the tree does not compile against the harness", name="build_failed.json", no_failing_input=True)
        return
    print("replaying %s (%s%s) on %s" % (p, r.get("kind"), ", rule %s" % r["rule"] if r.get("rule") else "", vcheck.REPO))
    if r.get("what"):
        print("recorded: " + clip(r["what"], 500))
    if exe is None:
        print("the tree does not compile against the harness:\n" + blog[-2000:])
        ctx.violation({"broken": "build", "compiler_output": blog[-4000:]}, "the tree does not compile against the harness: the replay could not run",
                      name="build_failed.json", no_failing_input=True)
        return
    rep, log = run_harness(ctx, exe, driver or Path("/nonexistent/codecdriver"), replay=p)
    print(log.split("\n", 1)[1] if "\n" in log else log)
    if rep is None:
        ctx.violation({"broken": "harness", "log": log[-3000:]}, "the replay did not complete", name="replay_failed.json", no_failing_input=True)
        return
    fill_coverage(ctx, rep, "")
    cov["samples"] = [{"replayed": str(p), "kind": r.get("kind"), "note": r.get("note")}]
    counts = rep.get("findings_by_level_and_rule") or {}
    for f in (rep.get("property_failures") or [])[:3]:
        print("PROPERTY FAILS [%s] %s" % (f["rule"], clip(f["what"], 500)))
        ctx.violation(replay_of(f, counts.get("property:" + f["rule"], 1) - 1, coq_ok), "%s: %s" % (RULE_TEXT.get(f["rule"], f["rule"]), clip(f["what"], 400)),
                      name="replayed_%s.json" % f["rule"])
    if not rep.get("property_failures"):
        for f in (rep.get("mismatches") or [])[:2]:
            print("MODEL/CODE MISMATCH [%s] %s" % (f["rule"], clip(f["what"], 500)))
            ctx.violation(replay_of(f, 0, coq_ok), "model and real store differ (%s): %s" % (f["rule"], clip(f["what"], 300)), name="replayed_mismatch_%s.json" % f["rule"],
                          no_failing_input=True)
    for f in (rep.get("outside_projection") or [])[:3]:
        print("outside C17's projection [%s] %s" % (f["rule"], clip(f["what"], 300)))
    if rep.get("harness_problems"):
        print("harness problems: %s" % rep["harness_problems"])
    if not ctx.violations:
        print("the property holds on this input; model and real store agree")
