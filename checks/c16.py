"""C16 — password and TLS settings are enforced on every entry point, or start-up fails.

Stages (DESIGN.md 5 "C16"):
  Coq   ctx.coq_stage(): Model/Auth.v, Proofs/AuthP.v, Properties/C16.v; every theorem must print
        "Closed under the global context" and the theorems named in REQUIRED must be there.
  model ocaml/auth/build.sh -> authdriver (extraction of Model/Auth.v): rest_password_ok, rest_carries, grpc_gate,
        b64decode, go_split, tls_decision, startup, tls_enforced.
  real  harness/authdiff built against the CURRENT tree (vcheck.REPO):
          funcs   encoding/base64 + strings.Split of the toolchain     vs. the Gallina decoder / splitter
          rest    the real rest.NewRestServer(...).Handler on a real LockServer, generated credential shapes on every
                  route and method (POST/DELETE /session included)
          grpc    the real grpc.Run with its interceptor, raw client, generated metadata shapes on every unary method
          tlsone  one security configuration per child process through the real net.Run, probed over the wire
The oracle below is the property itself, evaluated on what the IMPLEMENTATION did (not on the model):
  accepted  => the request carried exactly the configured password
  rejected  => 401 / Unauthenticated, empty body, no cookie, LockServer.Locks() and the REST session table unchanged,
               the session created before the request still works
  the right password in the standard form => accepted
  TLS / client verification configured => start-up failed, or BOTH listeners refuse plaintext / certificate-less clients
A failing real input is a VIOLATION with a replay; a model/implementation difference without one is reported with
no-failing-input-found.

    bin/check C16 [--tier quick|thorough] [--replay replays/C16/<file>.json]
"""
import base64
import binascii
import concurrent.futures
import json
import random
import re
import sys
import time
from pathlib import Path

if __name__ == "__main__":
    sys.path.insert(0, str(Path(__file__).resolve().parent.parent))

from lib import vcheck

REQUIRED = ["C16_rest_sound", "C16_rest_complete", "C16_rest_carries_spec", "C16_rest_gate", "C16_grpc", "C16_grpc_gate",
            "C16_tls", "C16_tls_bool", "C16_tls_decision", "C16_b64_roundtrip"]
CORPUS = vcheck.VERIF / "corpus" / "auth"
B64ALPHA = b"ABCDEFGHIJKLMNOPQRSTUVWXYZabcdefghijklmnopqrstuvwxyz0123456789+/"
TRANSPORT_FAIL = ("Unavailable", "DeadlineExceeded", "Canceled")


# ------------------------------------------------------------------------------------------------ small helpers

def tok(b):
    return "x" + bytes(b).hex()


def show(b, n=120):
    """bytes -> printable text for messages"""
    s = bytes(b)[:n].decode("latin-1")
    s = "".join(c if 32 <= ord(c) < 127 else "\\x%02x" % ord(c) for c in s)
    return s + ("...(%d bytes)" % len(b) if len(b) > n else "")


def canon(name):
    """http.CanonicalHeaderKey for the names the generator uses"""
    return "-".join(p[:1].upper() + p[1:].lower() for p in name.split("-"))


# ------------------------------------------------------------------------------- the property's notion of "carries"
# Independent of the Coq model (the model's rest_carries is compared with it on every case).

def go_b64decode(s):
    """encoding/base64 StdEncoding.DecodeString (padded, not strict, CR/LF ignored) -> bytes or None."""
    out = bytearray()
    q = []
    i, n = 0, len(s)

    def skipnl(j):
        while j < n and s[j] in (10, 13):
            j += 1
        return j
    while i < n:
        c = s[i]
        i += 1
        k = B64ALPHA.find(bytes([c]))
        if k >= 0:
            q.append(k)
            if len(q) == 4:
                v = (q[0] << 18) | (q[1] << 12) | (q[2] << 6) | q[3]
                out += bytes([(v >> 16) & 255, (v >> 8) & 255, v & 255])
                q = []
            continue
        if c in (10, 13):
            continue
        if c != 61:
            return None
        if len(q) < 2:
            return None
        if len(q) == 2:
            i = skipnl(i)
            if i >= n or s[i] != 61:
                return None
            i += 1
            i = skipnl(i)
            if i < n:
                return None
            v = (q[0] << 18) | (q[1] << 12)
            out += bytes([(v >> 16) & 255])
            return bytes(out)
        i = skipnl(i)
        if i < n:
            return None
        v = (q[0] << 18) | (q[1] << 12) | (q[2] << 6)
        out += bytes([(v >> 16) & 255, (v >> 8) & 255])
        return bytes(out)
    if q:
        return None
    return bytes(out)


def py_carries(pw, hdr):
    """Some occurrence of "Basic " in hdr is followed, up to the end, by the base64 of user ":" pw (user colon-free)."""
    i = hdr.find(b"Basic ")
    while i >= 0:
        d = go_b64decode(hdr[i + 6:])
        if d is not None and b":" in d and d.split(b":", 1)[1] == pw:
            return True
        i = hdr.find(b"Basic ", i + 1)
    return False


def is_canonical_basic(pw, hdr):
    """hdr is exactly what an RFC 7617 client sends for this password: "Basic " + canonical base64(user ":" pw)."""
    if not hdr.startswith(b"Basic "):
        return False
    b = hdr[6:]
    try:
        d = base64.b64decode(b, validate=True)
    except (binascii.Error, ValueError):
        return False
    if base64.b64encode(d) != b or b":" not in d:
        return False
    return d.split(b":", 1)[1] == pw


def py_split_basic(s):
    return s.split(b"Basic ")


# --------------------------------------------------------------------------------------------------------- generator
# Everything random comes from ONE random.Random(ctx.seed), consumed in a fixed order before anything is run.

ALNUM = "ABCDEFGHIJKLMNOPQRSTUVWXYZabcdefghijklmnopqrstuvwxyz0123456789"


def rword(rng, lo, hi, alphabet=ALNUM):
    return "".join(rng.choice(alphabet) for _ in range(rng.randint(lo, hi))).encode()


def rpassword(rng):
    """printable ASCII, both letter cases present (so that case-insensitive comparison is visible)"""
    body = rword(rng, 4, 14, ALNUM + "-_.!~*+/=")
    return b"q" + body + b"Z"


def other_than(rng, pw):
    while True:
        w = rword(rng, max(1, len(pw)), max(1, len(pw)))
        if w != pw:
            return w


def b64(b):
    return base64.b64encode(b)


def basic(user, pw):
    return b"Basic " + b64(user + b":" + pw)


def rest_shapes(rng, pw, long_n):
    """-> list of (shape, [(header name, value bytes)], heavy) for a configured password pw (may be empty)."""
    user = rword(rng, 1, 8)
    wrong = other_than(rng, pw)
    right = basic(user, pw)
    rb = right[6:]
    S = []

    def A(name, *vals, heavy=False):
        S.append((name, [("Authorization", v) for v in vals], heavy))

    def H(name, hdrs, heavy=False):
        S.append((name, hdrs, heavy))
    A("missing")
    A("empty", b"")
    A("scheme-only", b"Basic ")
    A("scheme-no-space", b"Basic")
    A("right", right)
    A("right-empty-user", basic(b"", pw))
    A("right-nonascii-user", basic("üser✓".encode(), pw))
    A("right-user-with-space-and-basic", basic(b"Basic x", pw))
    A("wrong", basic(user, wrong))
    A("wrong-empty-password", basic(user, b""))
    ks = sorted(set(k for k in (1, len(pw) - 1, rng.randint(0, max(0, len(pw) - 1))) if 0 <= k < len(pw)))
    for k in ks:
        A("prefix-of-right-%d" % k, basic(user, pw[:k]))
    A("right-plus-suffix", basic(user, pw + b"x"))
    A("right-plus-random-suffix", basic(user, pw + rword(rng, 1, 6)))
    A("suffix-of-right", basic(user, pw[1:]))
    A("prefix-plus-right", basic(user, b"x" + pw))
    A("right-twice", basic(user, pw + pw))
    for nm, v in (("upper", pw.upper()), ("lower", pw.lower()), ("swapcase", pw.swapcase())):
        if v != pw:
            A("case-" + nm, basic(user, v))
    A("right-trailing-space", basic(user, pw + b" "))
    A("right-leading-space", basic(user, b" " + pw))
    A("right-trailing-newline", basic(user, pw + b"\n"))
    A("right-trailing-nul", basic(user, pw + b"\x00"))
    A("bearer-b64", b"Bearer " + rb)
    A("bearer-raw", b"Bearer " + pw)
    A("raw-password", pw)
    A("basic-raw-password", b"Basic " + pw)
    A("basic-raw-user-colon-password", b"Basic " + user + b":" + pw)
    A("xbasic", b"XBasic " + rb)
    A("bearer-then-basic", b"Bearer Basic " + rb)
    A("doubled-basic", b"Basic Basic " + rb)
    A("basic-at-end-too", right + b" Basic ")
    A("scheme-lower", b"basic " + rb)
    A("scheme-upper", b"BASIC " + rb)
    A("scheme-two-spaces", b"Basic  " + rb)
    A("scheme-tab", b"Basic\t" + rb)
    A("scheme-glued", b"Basic" + rb)
    A("leading-space", b" " + right)
    # base64 damage
    pos = rng.randint(0, len(rb) - 1)
    A("b64-illegal-char", b"Basic " + rb[:pos] + b"!" + rb[pos:])
    for k in (1, 2, 3):
        A("b64-truncated-%d" % k, b"Basic " + rb[:-k])
    A("b64-no-padding", b"Basic " + rb.rstrip(b"="))
    A("b64-extra-padding-1", b"Basic " + rb + b"=")
    A("b64-extra-padding-2", b"Basic " + rb + b"==")
    A("b64-padding-inside", b"Basic " + rb[:4] + b"=" + rb[4:])
    A("b64-urlsafe", b"Basic " + base64.urlsafe_b64encode(b"\xfb\xff" + b":" + pw))
    A("b64-std-of-same", basic(b"\xfb\xff", pw))
    A("b64-newline-inside", b"Basic " + rb[:4] + b"\n" + rb[4:])
    A("b64-crlf-at-end", b"Basic " + rb + b"\r\n")
    A("b64-trailing-space", b"Basic " + rb + b" ")
    if rb.endswith(b"="):
        core = rb.rstrip(b"=")
        k = B64ALPHA.find(core[-1:])
        A("b64-nonzero-trailing-bits", b"Basic " + core[:-1] + B64ALPHA[k | 1:(k | 1) + 1] + rb[len(core):])
    A("b64-of-b64", b"Basic " + b64(rb))
    A("hex-instead-of-b64", b"Basic " + (user + b":" + pw).hex().encode())
    # colons
    A("no-colon", b"Basic " + b64(pw))
    A("colon-after-password", b"Basic " + b64(pw + b":"))
    A("password-colon-user", b"Basic " + b64(pw + b":" + user))
    A("extra-colon-field", b"Basic " + b64(user + b":x:" + pw))
    A("double-colon", b"Basic " + b64(user + b"::" + pw))
    A("only-colon", b"Basic " + b64(b":"))
    # non-ASCII / binary
    A("nonascii-wrong-password", basic(user, "pässwörd".encode()))
    A("binary-header", b"Basic \xff\xfe\x00\x01")
    A("nul-in-header", b"Basic " + rb[:3] + b"\x00" + rb[3:])
    # very long
    A("long-wrong-password", basic(user, rword(rng, long_n, long_n)), heavy=True)
    A("long-right-user", basic(rword(rng, long_n, long_n), pw), heavy=True)
    A("long-garbage", b"A" * long_n, heavy=True)
    A("long-prefix-then-basic", b"X" * long_n + right, heavy=True)
    # several Authorization lines, other header names
    A("two-lines-wrong-right", basic(user, wrong), right)
    A("two-lines-right-wrong", right, basic(user, wrong))
    A("two-lines-right-right", right, right)
    H("name-lowercase", [("authorization", right)])
    H("name-uppercase", [("AUTHORIZATION", right)])
    for nm in ("X-Authorization", "Proxy-Authorization", "Authorisation", "Authorization-X", "Www-Authenticate", "Authentication"):
        H("wrong-name-" + nm, [(nm, right)])
    H("password-in-cookie", [("Cookie", b"password=" + b64(pw)), ("X-Password", pw)])
    return S


CORE_SHAPES = ("missing", "wrong", "right", "prefix-of-right-1", "right-plus-suffix", "case-swapcase", "case-lower", "bearer-b64",
               "scheme-lower", "b64-truncated-1", "no-colon", "wrong-name-X-Authorization")
MAIN_ROUTES = [("POST", "/session"), ("DELETE", "/session"), ("POST", "/v1/lock"), ("POST", "/v1/unlock"), ("POST", "/v1/renew")]
EXTRA_METHODS = ["GET", "PUT", "PATCH", "HEAD", "OPTIONS", "DELETE"]
EXTRA_PATHS = ["/", "/v1", "/v1/locks", "/session/", "/SESSION", "//session", "/v1/lock?name=verif-held", "/session?x=1", "/metrics"]


def discover_routes():
    """(method, path) pairs the gateway registers in the tree under test, from protos/*.pb.gw.go (best effort)."""
    found = []
    try:
        for f in sorted((vcheck.REPO / "protos").glob("*.pb.gw.go")):
            t = f.read_text(errors="replace")
            pats = {}
            for m in re.finditer(r"(pattern_\w+)\s*=\s*runtime\.MustPattern\(runtime\.NewPattern\(\d+,\s*\[\]int\{[^}]*\},\s*\[\]string\{([^}]*)\}", t):
                parts = re.findall(r'"([^"]*)"', m.group(2))
                pats[m.group(1)] = "/" + "/".join(parts)
            for m in re.finditer(r"mux\.Handle\(http\.Method(\w+),\s*(pattern_\w+)", t):
                if m.group(2) in pats:
                    r = (m.group(1).upper(), pats[m.group(2)])
                    if r not in found:
                        found.append(r)
    except Exception:  # noqa
        pass
    return found


def gen_rest(rng, tier, routes):
    """-> groups: [{password: bytes, cases: [{id, method, path, headers, shape}]}]"""
    pws = [b"Secret1", rpassword(rng), rpassword(rng), b"p:W Basic q", "Pä✓wörd".encode(), b""]
    if tier == "thorough":
        pws += [b"Z", rword(rng, 300, 300) + b"aB"] + [rpassword(rng) for _ in range(12)]
    long_n = 6000 if tier == "quick" else 40000
    others = [(m, p) for p in ["/session", "/v1/lock", "/v1/unlock", "/v1/renew"] for m in EXTRA_METHODS if (m, p) not in routes] + \
        [(m, p) for p in EXTRA_PATHS for m in ("GET", "POST", "DELETE")]
    groups = []
    nid = [0]

    def case(method, path, hdrs, shape):
        nid[0] += 1
        return {"id": nid[0], "method": method, "path": path, "headers": hdrs, "shape": shape}
    for pw in pws:
        shapes = rest_shapes(rng, pw if pw else b"unused", long_n)
        cases = []
        for (name, hdrs, heavy) in shapes:
            if pw == b"" and name not in CORE_SHAPES:
                continue
            rs = [rng.choice(routes)] if heavy else routes
            for (m, p) in rs:
                cases.append(case(m, p, hdrs, name))
            if name in CORE_SHAPES:
                pick = others if tier == "thorough" else rng.sample(others, min(len(others), 6))
                for (m, p) in pick:
                    cases.append(case(m, p, hdrs, name))
        groups.append({"password": pw, "cases": cases})
    return groups


def grpc_shapes(rng, pw):
    """-> list of (shape, [(metadata key, value bytes)])"""
    wrong = other_than(rng, pw)
    S = []

    def A(name, *vals):
        S.append((name, [("authorization", v) for v in vals]))
    A("missing")
    A("empty", b"")
    A("right", pw)
    A("wrong", wrong)
    ks = sorted(set(k for k in (1, len(pw) - 1, rng.randint(0, max(0, len(pw) - 1))) if 0 < k < len(pw)))
    for k in ks:
        A("prefix-of-right-%d" % k, pw[:k])
    A("right-plus-suffix", pw + b"x")
    A("right-plus-random-suffix", pw + rword(rng, 1, 6))
    A("suffix-of-right", pw[1:])
    A("prefix-plus-right", b"x" + pw)
    A("right-twice", pw + pw)
    for nm, v in (("upper", pw.upper()), ("lower", pw.lower()), ("swapcase", pw.swapcase())):
        if v != pw:
            A("case-" + nm, v)
    A("right-inner-space", pw[:1] + b" " + pw[1:])
    A("bearer", b"Bearer " + pw)
    A("basic-b64", basic(b"u", pw))
    A("basic-raw", b"Basic " + pw)
    A("b64-of-right", b64(pw))
    A("user-colon-right", b"u:" + pw)
    A("nonascii", "päss".encode())
    A("control-char", pw + b"\x01")
    A("long-wrong", rword(rng, 6000, 6000))
    A("long-right-prefix", pw + rword(rng, 6000, 6000))
    A("two-values-right-wrong", pw, wrong)
    A("two-values-wrong-right", wrong, pw)
    A("two-values-right-right", pw, pw)
    S.append(("key-capitalised", [("Authorization", pw)]))
    for k in ("x-authorization", "authorization-x", "authorisation", "auth", "password", "authorization-bin", "proxy-authorization"):
        S.append(("wrong-key-" + k, [(k, pw)]))
    S.append(("wrong-key-then-wrong-value", [("password", pw), ("authorization", wrong)]))
    return S


def gen_grpc(rng, tier, methods):
    pws = [b"Secret1", rpassword(rng), rpassword(rng), b"p:W Basic q", b""]
    if tier == "thorough":
        pws += [b"Z", rword(rng, 300, 300) + b"aB"] + [rpassword(rng) for _ in range(12)]
    groups = []
    nid = 0
    for pw in pws:
        cases = []
        for (name, md) in grpc_shapes(rng, pw if pw else b"unused"):
            if pw == b"" and name not in ("missing", "wrong", "right", "empty"):
                continue
            for m in methods:
                nid += 1
                cases.append({"id": nid, "method": m, "md": md, "shape": name})
        groups.append({"password": pw, "cases": cases})
    return groups


def gen_funcs(rng, tier, rest_groups):
    """Strings for the direct differential of base64 decoding and strings.Split(s, "Basic ")."""
    out, seen = [], set()

    def add(b):
        if b not in seen and len(b) <= 9000:
            seen.add(b)
            out.append(b)
    for g in rest_groups:
        for c in g["cases"]:
            for (_, v) in c["headers"]:
                add(v)
                i = v.find(b"Basic ")
                if i >= 0:
                    add(v[i + 6:])
    n = 400 if tier == "quick" else 6000
    alph = [bytes([c]) for c in b"AQab09+/=="] + [b"=", b"\n", b"\r", b" ", b"-", b"_", b"Basic ", b"Basic", b"\xff"]
    for _ in range(n):
        k = rng.randint(0, 14)
        add(b"".join(rng.choice(alph) for _ in range(k)))
    for _ in range(n // 2):   # valid encodings with one edit
        raw = bytes(rng.randrange(256) for _ in range(rng.randint(0, 9)))
        e = bytearray(b64(raw))
        r = rng.random()
        if e and r < 0.3:
            e[rng.randrange(len(e))] = rng.choice(b"=\n!A/ ")
        elif e and r < 0.5:
            del e[rng.randrange(len(e))]
        elif r < 0.7:
            e.insert(rng.randint(0, len(e)), rng.choice(b"=\n\rB"))
        add(bytes(e))
    return out


# "bundle": ONE PEM file holding the server certificate AND its private key (built in the work directory from testcerts/):
# the file content class that matters when a tree starts to look for the key in the certificate file
CERT_KINDS = ["", "good", "missing", "garbage", "mismatch", "bundle"]
KEY_KINDS = ["", "good", "missing", "garbage", "bundle"]
CA_KINDS = ["", "good", "missing", "garbage", "other"]


def gen_tls(rng, tier):
    """-> list of {cert, key, verify, ca (kinds), password (bytes), rest (bool)}; simplest first."""
    def cfg(c, k, v, a, pw, rest):
        return {"cert": c, "key": k, "verify": v, "ca": a, "password": pw, "rest": rest}
    flags = [(c, k, v, a) for c in ("", "good") for k in ("", "good") for v in (False, True) for a in ("", "good")]
    full = [(c, k, v, a) for c in CERT_KINDS for k in KEY_KINDS for v in (False, True) for a in CA_KINDS]
    out = []
    if tier == "quick":
        out += [cfg(c, k, v, a, b"", False) for (c, k, v, a) in flags]
        out += [cfg(c, k, v, a, pw, True) for (c, k, v, a) in flags for pw in (b"", b"Secret1")]
        # a certificate file that also contains the key, with and without a key option, with client verification
        out += [cfg("bundle", "", v, a, b"", True) for v in (False, True) for a in ("", "good")]
        out += [cfg("bundle", "", False, "", b"Secret1", True), cfg("bundle", "", False, "", b"", False), cfg("bundle", "", True, "good", b"", False),
                cfg("bundle", "bundle", False, "", b"", True), cfg("bundle", "bundle", True, "good", b"Secret1", True),
                cfg("good", "bundle", False, "", b"", True), cfg("bundle", "good", False, "good", b"", True)]
        bad = [x for x in full if x not in flags]
        for (c, k, v, a) in rng.sample(bad, 24):
            out.append(cfg(c, k, v, a, rng.choice([b"", b"Secret1"]), rng.random() < 0.75))
    else:
        out += [cfg(c, k, v, a, pw, rest) for rest in (False, True) for pw in (b"", b"Secret1") for (c, k, v, a) in full]
    return out


# ---------------------------------------------------------------------------------------------- building and running

def build_model(ctx):
    """-> (path of authdriver or None, log)"""
    out = ctx.work / "ocaml"
    with vcheck.Lock("coq"):
        rc, log = vcheck.sh([str(vcheck.VERIF / "ocaml" / "auth" / "build.sh"), str(out)], timeout=700)
    exe = out / "authdriver"
    if rc == 0 and exe.exists():
        return exe, log
    return None, "rc=%s\n%s" % (rc, log[-3000:])


class Model:
    def __init__(self, exe):
        self.exe = exe
        self.calls = 0

    def ask(self, lines, timeout=600):
        """-> list of answers (same length) or None"""
        if not lines:
            return []
        if self.exe is None:
            return None
        rc, out = vcheck.sh([str(self.exe)], stdin="\n".join(lines) + "\n", timeout=timeout)
        ans = out.splitlines()
        if rc != 0 or len(ans) < len(lines):
            return None
        self.calls += len(lines)
        return ans[:len(lines)]


OVERLAY_SRC = '''//go:build verif

package rest

import "net/http"

// VerifSessionCount exposes the size of the REST session table to /verif's harness (build overlay; nothing is
// written to the tree). -1: the handler is not a *restHandler.
func VerifSessionCount(h http.Handler) int {
	rh, ok := h.(*restHandler)
	if !ok {
		return -1
	}
	rh.sessionsMtx.RLock()
	defer rh.sessionsMtx.RUnlock()
	return len(rh.sessions)
}
'''


def build_harness(ctx):
    """-> (exe or None, log, session table reachable: bool)"""
    hdir = vcheck.harness_dir(ctx)
    exe = ctx.work / "authdiff"
    ovd = ctx.work / "overlay"
    ovd.mkdir(exist_ok=True)
    (ovd / "verif_sessions.go").write_text(OVERLAY_SRC)
    (ovd / "overlay.json").write_text(json.dumps({"Replace": {str(vcheck.REPO / "net" / "rest" / "verif_sessions.go"): str(ovd / "verif_sessions.go")}}))
    rc, out = vcheck.go_build(ctx, hdir, "./authdiff", exe, tags="verif restsess", overlay=ovd / "overlay.json", timeout=900)
    if rc == 0 and exe.exists():
        return exe, out, True
    log1 = out
    rc, out = vcheck.go_build(ctx, hdir, "./authdiff", exe, tags="verif", timeout=900)
    if rc == 0 and exe.exists():
        return exe, "built without the session-table overlay (it does not compile against this tree):\n" + log1[-1200:], False
    return None, out, False


def run_harness(ctx, exe, mode, obj, name, timeout=300):
    """-> (list of JSON objects printed, rc, tail of the non-JSON output)"""
    f = ctx.work / name
    f.write_text(json.dumps(obj))
    rc, out = vcheck.sh([str(exe), mode, str(f)], cwd=ctx.work, timeout=timeout)
    objs, junk = [], []
    for line in out.splitlines():
        t = line.strip()
        if t.startswith("{"):
            try:
                objs.append(json.loads(t))
                continue
            except ValueError:
                pass
        if t:
            junk.append(t)
    return objs, rc, "\n".join(junk[-25:])


def enc_rest_groups(groups):
    return {"groups": [{"password": g["password"].hex(),
                        "cases": [{"id": c["id"], "method": c["method"], "path": c["path"],
                                   "headers": [[n, v.hex()] for (n, v) in c["headers"]]} for c in g["cases"]]} for g in groups]}


def enc_grpc_groups(groups):
    return {"groups": [{"password": g["password"].hex(),
                        "cases": [{"id": c["id"], "method": c["method"], "md": [[k, v.hex()] for (k, v) in c["md"]]} for c in g["cases"]]}
                       for g in groups]}


def run_groups(ctx, exe, mode, groups, enc, tag):
    """Runs the groups; when the harness process dies in the middle, the case it died on is recorded and the rest is run
    again without it (at most 3 times). -> (obs by id, group messages, crashes [(case id, log)], log)"""
    obs, msgs, crashes, logs = {}, [], [], []
    todo = groups
    for attempt in range(4):
        if not any(g["cases"] for g in todo):
            break
        objs, rc, junk = run_harness(ctx, exe, mode, enc(todo), "%s_cases_%d.json" % (tag, attempt), timeout=600)
        stopped = set()
        for o in objs:
            if "group" in o:
                o = dict(o)
                gi = o.get("group", -1)
                o["password"] = show(todo[gi]["password"]) if 0 <= gi < len(todo) else "?"
                msgs.append(o)
                if o.get("fatal") and 0 <= gi < len(todo):
                    stopped.add(gi)
            elif "id" in o:
                obs[o["id"]] = o
        logs.append("rc=%s %s" % (rc, junk[-1500:]))
        if rc == 0:
            break
        # died: the first case without an observation in a group that was not abandoned is where it happened
        nxt, culprit = [], None
        for gi, g in enumerate(todo):
            rest = [c for c in g["cases"] if c["id"] not in obs]
            if gi in stopped:
                continue
            if rest and culprit is None:
                culprit = rest[0]
                crashes.append((culprit["id"], "rc=%s\n%s" % (rc, junk[-1500:])))
                rest = rest[1:]
            nxt.append({"password": g["password"], "cases": rest})
        todo = nxt
    return obs, msgs, crashes, "\n".join(logs)


# ------------------------------------------------------------------------------------------------------------ oracle
# verdicts: pass | violation | mismatch (model and implementation differ, property's predicate not false) | skipped

def rest_facts(pw, c):
    vals = [v for (n, v) in c["headers"] if canon(n) == "Authorization"]
    return {"auth_values": vals, "first": vals[0] if vals else b"",
            "carries_any": any(py_carries(pw, v) for v in vals),
            "canonical": len(vals) == 1 and is_canonical_basic(pw, vals[0])}


def judge_rest(pw, c, o, m_ok, m_carries):
    """-> list of (verdict, rule, text). m_ok / m_carries: the model's rest_password_ok / rest_carries on the first
    Authorization value (None when the model is unavailable)."""
    F = rest_facts(pw, c)
    where = "%s %s [%s]" % (c["method"], c["path"], c["shape"])
    res = []
    if o is None:
        return [("skipped", "no-observation", "")]
    if o.get("error") and "unusable request target" in o["error"]:
        return [("skipped", "unusable-target", o["error"])]
    status = o.get("status", 0)
    body = bytes.fromhex(o.get("body") or "")
    gate_rejected = status == 401 and body == b""
    hang = bool(o.get("error")) and status == 0
    accepted = not gate_rejected and not hang and status != -1
    sess_known = o.get("sessions_before", -2) >= 0 and o.get("sessions_after", -2) >= 0
    effects = []
    if o.get("locks_before") != o.get("locks_after"):
        effects.append("LockServer.Locks() changed from %s to %s" % (o.get("locks_before"), o.get("locks_after")))
    if sess_known and o["sessions_before"] != o["sessions_after"]:
        effects.append("the REST session table went from %d to %d entries" % (o["sessions_before"], o["sessions_after"]))
    if o.get("set_cookie"):
        effects.append("a Set-Cookie header was sent")
    if not o.get("degraded") and not hang and not (o.get("post_renew_status") == 200 and o.get("post_renew_locked")):
        effects.append("the session/hold that existed before the request no longer works (renew with the right password afterwards: %s %s)" % (
            o.get("post_renew_status"), (o.get("post_renew_body") or "")[:120]))
    if m_carries is not None and m_carries != py_carries(pw, F["first"]):
        res.append(("mismatch", "oracle-implementations-differ", "Model rest_carries = %s but the check's own reading = %s on %s" % (
            m_carries, py_carries(pw, F["first"]), show(F["first"]))))
    if pw == b"":
        if not accepted:
            res.append(("mismatch", "no-password-configured", "%s: no password is configured, the model lets every request through, the handler answered %s" % (where, status)))
        return res or [("pass", "no-password", "")]
    if hang:
        res.append(("violation", "no-answer", "%s: the handler did not answer (%s)" % (where, o.get("error"))))
        return res
    if not F["carries_any"]:
        if accepted and status in (401, 403):
            res.append(("violation", "reject-is-401-empty",
                        "%s lacks the password and was answered HTTP %s with body %s instead of 401 with an empty body (not the gate's rejection: the request got further, or the answer says more than 'unauthorized')" % (
                            where, status, show(body, 80) or "(empty)")))
        elif accepted:
            res.append(("violation", "accepted-without-password",
                        "%s was let through the password gate (HTTP %s, body %s) although no Authorization value carries the configured password %s; Authorization = %s" % (
                            where, status, show(body, 80), show(pw, 40), [show(v, 80) for v in F["auth_values"]] or "absent")))
        elif status == -1:
            res.append(("violation", "reject-is-401-empty", "%s: the handler panicked on a request without the password: %s" % (where, show(body, 200))))
        if effects:
            res.append(("violation", "rejected-request-has-effect", "%s lacks the password, yet: %s" % (where, "; ".join(effects))))
    else:
        if F["canonical"] and not accepted:
            res.append(("violation", "right-password-rejected",
                        "%s carried the configured password in the standard form (%s) and was answered %s" % (where, show(F["first"], 80), status)))
        if gate_rejected and effects:
            res.append(("violation", "rejected-request-has-effect", "%s was answered 401 by the gate, yet: %s" % (where, "; ".join(effects))))
    if m_ok is not None and m_ok != accepted and status != -1:
        v = "mismatch"
        res.append((v, "model-vs-handler", "%s: Model rest_password_ok(%s, %s) = %s, the handler %s (HTTP %s)" % (
            where, show(pw, 40), show(F["first"], 100), m_ok, "let it through" if accepted else "rejected it", status)))
    return res or [("pass", "gate", "")]


def grpc_facts(pw, c):
    vals = [v for (k, v) in c["md"] if k.lower() == "authorization"]
    return {"auth_values": vals, "carries_any": pw in vals, "canonical": vals == [pw]}


def judge_grpc(pw, c, o, m_out):
    """m_out: accept | missing | invalid | panic | None"""
    F = grpc_facts(pw, c)
    where = "%s [%s]" % (c["method"], c["shape"])
    if o is None:
        return [("skipped", "no-observation", "")]
    if o.get("unsendable"):
        return [("skipped", "unsendable", "grpc-go's client refuses to send this metadata")]
    code = o.get("code")
    if code in TRANSPORT_FAIL:
        return [("skipped", "no-answer", "%s: %s %s" % (where, code, (o.get("message") or "")[:160]))]
    accepted = code == "OK"
    rejected = code == "Unauthenticated"
    res = []
    changed = o.get("locks_before") != o.get("locks_after")
    if pw == b"":
        if not accepted:
            res.append(("mismatch", "no-password-configured", "%s: no password configured, answered %s" % (where, code)))
        return res or [("pass", "no-password", "")]
    if not F["carries_any"]:
        if accepted:
            res.append(("violation", "accepted-without-password",
                        "%s ran its handler (status OK%s) although the call's authorization metadata %s does not contain the configured password %s" % (
                            where, ", locked/unlocked = true" if o.get("resp_locked") else "", [show(v, 60) for v in F["auth_values"]] or "is absent and", show(pw, 40))))
        elif not rejected:
            res.append(("violation", "reject-is-unauthenticated", "%s without the password was answered %s (%s), not Unauthenticated" % (where, code, (o.get("message") or "")[:120])))
        if changed:
            res.append(("violation", "rejected-request-has-effect", "%s lacks the password, yet LockServer.Locks() changed from %s to %s" % (where, o.get("locks_before"), o.get("locks_after"))))
        if rejected and ("verif-held" in (o.get("message") or "") or o.get("resp_err")):
            res.append(("violation", "reject-reveals-data", "%s: the rejection carries lock data: %s %s" % (where, o.get("message"), o.get("resp_err"))))
    else:
        if F["canonical"] and not accepted:
            res.append(("violation", "right-password-rejected", "%s with authorization = the configured password was answered %s (%s)" % (where, code, (o.get("message") or "")[:120])))
        if rejected and changed:
            res.append(("violation", "rejected-request-has-effect", "%s was rejected, yet LockServer.Locks() changed" % where))
    if m_out is not None and (m_out == "accept") != accepted and (accepted or rejected):
        res.append(("mismatch", "model-vs-interceptor", "%s: Model grpc_gate(%s, %s) = %s, the server answered %s" % (
            where, show(pw, 40), [show(v, 60) for v in F["auth_values"]], m_out, code)))
    return res or [("pass", "gate", "")]


# --------------------------------------------------------------------------------------------------------------- TLS

def tls_paths(ctx):
    """kind -> path for each of the three configured files, plus the client-side material."""
    T = vcheck.REPO / "testcerts"
    d = ctx.work / "tlsfiles"
    d.mkdir(exist_ok=True)
    (d / "garbage.pem").write_text("-----BEGIN NOTHING-----\nthis is not PEM material\n")
    missing = str(d / "does-not-exist.pem")
    try:
        (d / "bundle.pem").write_bytes((T / "server_cert.pem").read_bytes().rstrip(b"\n") + b"\n" + (T / "server_key.pem").read_bytes())
    except OSError:
        (d / "bundle.pem").write_text("")
    bundle = str(d / "bundle.pem")
    return {
        "cert": {"": "", "good": str(T / "server_cert.pem"), "missing": missing, "garbage": str(d / "garbage.pem"), "mismatch": str(T / "client_cert.pem"), "bundle": bundle},
        "key": {"": "", "good": str(T / "server_key.pem"), "missing": missing, "garbage": str(d / "garbage.pem"), "bundle": bundle},
        "ca": {"": "", "good": str(T / "client_ca_cert.pem"), "missing": missing, "garbage": str(d / "garbage.pem"), "other": str(T / "ca_cert.pem")},
        "client": {"server_ca": str(T / "ca_cert.pem"), "client_cert": str(T / "client_cert.pem"), "client_key": str(T / "client_key.pem")},
        "testcerts_present": all((T / f).exists() for f in ("server_cert.pem", "server_key.pem", "client_ca_cert.pem", "ca_cert.pem", "client_cert.pem", "client_key.pem")),
    }


def tls_input(P, cfg):
    o = {"cert": P["cert"][cfg["cert"]], "key": P["key"][cfg["key"]], "verify": bool(cfg["verify"]), "ca": P["ca"][cfg["ca"]],
         "password": cfg["password"].hex(), "rest": bool(cfg["rest"])}
    o.update(P["client"])
    return o


def cfg_name(cfg):
    return "cert=%s key=%s verify=%s ca=%s password=%s rest=%s" % (cfg["cert"] or "-", cfg["key"] or "-", "on" if cfg["verify"] else "off",
                                                                  cfg["ca"] or "-", "on" if cfg["password"] else "off", "on" if cfg["rest"] else "off")


def run_tls_one(ctx, exe, P, cfg, idx):
    """-> observation dict: {'outcome': 'refused'|'died'|'running'|'harness-error', ...}"""
    for _ in range(4):   # the two ports are picked by bind-and-release: another child may take one in between
        o = _run_tls_once(ctx, exe, P, cfg, idx)
        if "address already in use" not in ((o.get("error") or "") + (o.get("panic") or "")):
            break
    return o


def _run_tls_once(ctx, exe, P, cfg, idx):
    f = ctx.work / "tls" / ("cfg_%d.json" % idx)
    f.parent.mkdir(exist_ok=True)
    f.write_text(json.dumps(tls_input(P, cfg)))
    rc, out = vcheck.sh([str(exe), "tlsone", str(f)], cwd=ctx.work, timeout=90)
    o = None
    for line in out.splitlines():
        t = line.strip()
        if t.startswith("{") and '"facts"' in t:
            try:
                o = json.loads(t)
            except ValueError:
                pass
    if o is not None and rc == 0:
        o["outcome"] = "running" if o.get("started") else "refused"
        return o
    if rc == 2 and "panic" in out:
        m = re.search(r"panic: (.*)", out)
        return {"outcome": "died", "panic": (m.group(1) if m else "")[:300], "facts": (o or {}).get("facts")}
    return {"outcome": "harness-error", "rc": rc, "log": out[-800:]}


def tls_model_lines(P, cfg, o):
    """command lines for the model: the decision function and the start-up, under the file oracle the run observed"""
    I = tls_input(P, cfg)
    facts = (o or {}).get("facts") or {}
    c, k, a = tok(I["cert"].encode()), tok(I["key"].encode()), tok(I["ca"].encode())
    fs = []
    if I["cert"]:
        fs.append("R:%s:%d" % (c, 1 if facts.get("read_cert") else 0))
    if I["key"] and I["key"] != I["cert"]:
        fs.append("R:%s:%d" % (k, 1 if facts.get("read_key") else 0))
    if I["ca"] and I["ca"] not in (I["cert"], I["key"]):
        fs.append("R:%s:%d" % (a, 1 if facts.get("read_ca") else 0))
    if I["cert"] and I["key"]:
        fs.append("P:%s:%s:%d" % (c, k, 1 if facts.get("pair") else 0))
    if I["ca"]:
        fs.append("A:%s:%d" % (a, 1 if facts.get("append_ca") else 0))
    v = "1" if cfg["verify"] else "0"
    return ["tlsdec %s %s %s %s %s" % (c, k, v, a, " ".join(fs)),
            "startup %s %s %s %s %s 1 %d 1 %s" % (c, k, v, a, tok(cfg["password"]), 1 if cfg["rest"] else 0, " ".join(fs))]


def observed_listener(o, side, cfg):
    pr = (o.get("probes") or {})
    plain = (pr.get(side + "_plain") or {}).get("reached")
    nocert = (pr.get(side + "_tls_nocert") or {}).get("reached")
    if plain:
        return "plain"
    if nocert:
        return "tls,1,0,NoClientCert"
    return "tls,1,%d,RequireAndVerifyClientCert" % (1 if cfg["ca"] else 0)


def judge_tls(cfg, o, m_dec, m_start, model):
    """-> list of (verdict, rule, text)"""
    name = cfg_name(cfg)
    res = []
    if o["outcome"] == "harness-error":
        return [("skipped", "harness-error", o.get("log", "")[-300:])]
    tls_conf = bool(cfg["cert"]) or cfg["verify"] or bool(cfg["ca"])
    ver_conf = cfg["verify"] or bool(cfg["ca"])
    pw = cfg["password"]
    sides = ["grpc"] + (["rest"] if cfg["rest"] else [])
    pr = o.get("probes") or {}
    # ---- the property on what the implementation did
    if o["outcome"] == "running":
        for side in sides:
            plain = pr.get(side + "_plain") or {}
            nocert = pr.get(side + "_tls_nocert") or {}
            if tls_conf and plain.get("reached"):
                res.append(("violation", "plaintext-served-although-tls-configured",
                            "[%s] the server started and its %s listener answers a PLAINTEXT client (%s)" % (name, side.upper() if side == "rest" else "gRPC", plain.get("detail"))))
            elif ver_conf and nocert.get("reached"):
                res.append(("violation", "client-certificate-not-required",
                            "[%s] the server started and its %s listener answers a TLS client that presents NO certificate (%s)" % (name, side.upper() if side == "rest" else "gRPC", nocert.get("detail"))))
        if pw:
            for p in o.get("password_probes") or []:
                # the gate's own rejection; a 401 WITH a body comes from behind the gate (session cookie handling)
                rej = p["outcome"] == "Unauthenticated" or (p["outcome"] == "401" and p.get("body_empty"))
                if p["outcome"].startswith("error"):
                    res.append(("violation", "no-answer", "[%s] %s %s over %s with %s password was not answered: %s" % (name, p["proto"], p["route"], p["mode"], p["cred"], p["outcome"][:160])))
                elif p["cred"] in ("none", "wrong"):
                    if not rej:
                        res.append(("violation", "accepted-without-password", "[%s] %s %s over %s with %s password got past the password check (answered %s)" % (
                            name, p["proto"], p["route"], p["mode"], "no" if p["cred"] == "none" else "a wrong", p["outcome"])))
                    elif not p.get("locks_same"):
                        res.append(("violation", "rejected-request-has-effect", "[%s] %s %s with %s password was rejected but LockServer.Locks() changed" % (name, p["proto"], p["route"], p["cred"])))
                elif rej:
                    res.append(("violation", "right-password-rejected", "[%s] %s %s over %s with the configured password was answered %s" % (name, p["proto"], p["route"], p["mode"], p["outcome"])))
    # ---- the decision function on its own against Model tls_decision
    d = o.get("direct") or {}
    if m_dec is not None and o["outcome"] != "died" and d:
        got = "err" if "err" in d else ("notls" if d.get("nil") else "tls:%d:%d:%s" % (1 if d.get("certs") else 0, 1 if d.get("client_cas") else 0, d.get("client_auth")))
        exp = "err" if m_dec.startswith("err:") else m_dec
        if got != exp:
            v = "mismatch"
            # a TLS configuration that does not require client certificates although verification is configured, or
            # no TLS at all although something is configured, is the property's own predicate on the function's result
            if got != "err" and ((tls_conf and got == "notls") or (ver_conf and not got.endswith("RequireAndVerifyClientCert"))):
                v = "violation"
            res.append((v, "GetTLSConfig-vs-model", "[%s] GetTLSConfig returned %s, Model tls_decision says %s" % (name, d.get("err") or got, m_dec)))
    # ---- start-up against Model startup, and Model tls_enforced on the OBSERVED outcome
    if m_start is not None:
        exp = m_start.split(" ")[0]
        if o["outcome"] == "refused":
            obs_tok = None
            if not exp.startswith("err:"):
                res.append(("mismatch", "startup-vs-model", "[%s] start-up was refused (%s), Model startup = %s" % (name, (o.get("error") or "")[:160], exp)))
        elif o["outcome"] == "died":
            obs_tok = None
            if exp != "panic":
                res.append(("mismatch", "startup-vs-model", "[%s] the process died after start-up (%s), Model startup = %s" % (name, o.get("panic"), exp)))
        else:
            g = observed_listener(o, "grpc", cfg)
            r = observed_listener(o, "rest", cfg) if cfg["rest"] and o.get("rest_listening") else "none"
            pwp = o.get("password_probes") or []
            gp = all(p["outcome"] == "Unauthenticated" for p in pwp if p["proto"] == "grpc" and p["cred"] != "right")
            rp = all(p["outcome"] == "401" and p.get("body_empty") for p in pwp if p["proto"] == "rest" and p["cred"] != "right")
            obs_tok = "run:%s:%s:%d:%d" % (g, r, 1 if gp else 0, 1 if rp else 0)
            if not exp.startswith("run:"):
                res.append(("mismatch", "startup-vs-model", "[%s] the server started (%s), Model startup = %s" % (name, obs_tok, exp)))
            else:
                e = exp.split(":")
                proj = lambda l: "plain" if l == "plain" else ("none" if l == "none" else ("tls+clientcert" if l.endswith("RequireAndVerifyClientCert") else "tls"))  # noqa
                if (proj(e[1]), proj(e[2])) != (proj(g), proj(r)):
                    res.append(("mismatch", "startup-vs-model", "[%s] listeners observed gRPC=%s REST=%s, Model startup says gRPC=%s REST=%s" % (name, proj(g), proj(r), proj(e[1]), proj(e[2]))))
            I = [tok(b"c" if cfg["cert"] else b""), tok(b"k" if cfg["key"] else b""), "1" if cfg["verify"] else "0", tok(b"a" if cfg["ca"] else b""), tok(pw), "1" if cfg["rest"] else "0"]
            a = model.ask(["enforced %s %s" % (" ".join(I), obs_tok)])
            mine = not any(v == "violation" and rule in ("plaintext-served-although-tls-configured", "client-certificate-not-required", "accepted-without-password") for (v, rule, _) in res)
            if a is not None and a[0] in ("0", "1") and (a[0] == "1") != mine and not (cfg["rest"] and not o.get("rest_listening")):
                res.append(("mismatch", "oracle-implementations-differ", "[%s] Model tls_enforced(%s) = %s, the check's own evaluation = %s" % (name, obs_tok, a[0], mine)))
    return res or [("pass", "tls", "")]


# ------------------------------------------------------------------------------------------------------------ corpus

def load_corpus(kind):
    """corpus/auth/<kind>_*.json -> groups (ids assigned by the caller). Unreadable files are skipped."""
    groups, files = [], []
    for f in sorted(CORPUS.glob(kind + "_*.json")):
        try:
            c = json.loads(f.read_text())
            pw = bytes.fromhex(c["password_hex"]) if "password_hex" in c else c.get("password_text", "").encode()
            cases = []
            for k in c.get("cases") or []:
                if kind == "rest":
                    hdrs = [(n, bytes.fromhex(v)) for (n, v) in k.get("headers") or []] + [(n, v.encode()) for (n, v) in k.get("headers_text") or []]
                    cases.append({"method": k["method"], "path": k["path"], "headers": hdrs, "shape": "corpus:" + k.get("shape", f.stem)})
                else:
                    md = [(n, bytes.fromhex(v)) for (n, v) in k.get("md") or []] + [(n, v.encode()) for (n, v) in k.get("md_text") or []]
                    cases.append({"method": k["method"], "md": md, "shape": "corpus:" + k.get("shape", f.stem)})
            groups.append({"password": pw, "cases": cases, "corpus": f.name})
            files.append(f.name)
        except Exception:  # noqa
            continue
    return groups, files


def load_tls_corpus():
    out = []
    for f in sorted(CORPUS.glob("tls_*.json")):
        try:
            for c in json.loads(f.read_text()).get("configs") or []:
                if c.get("cert", "") in CERT_KINDS and c.get("key", "") in KEY_KINDS and c.get("ca", "") in CA_KINDS:
                    out.append({"cert": c.get("cert", ""), "key": c.get("key", ""), "verify": bool(c.get("verify")), "ca": c.get("ca", ""),
                                "password": c.get("password_text", "").encode(), "rest": bool(c.get("rest", True)), "corpus": f.name})
        except Exception:  # noqa
            continue
    return out


# --------------------------------------------------------------------------------------------------- stage drivers

def stage_funcs(ctx, exe, model, strings):
    """-> dict(n, b64_mismatch=[...], split_mismatch=[...], ok: bool, ran: bool)"""
    r = {"n": len(strings), "ran": False, "b64_mismatches": [], "split_mismatches": [], "decodable": 0}
    objs, rc, junk = run_harness(ctx, exe, "funcs", {"strings": [s.hex() for s in strings]}, "funcs_cases.json")
    got = {o["id"]: o for o in objs if "id" in o and "split" in o}
    ans = model.ask([ln for s in strings for ln in ("b64d " + tok(s), "split " + tok(s))])
    if len(got) != len(strings) or ans is None:
        r["log"] = "harness rc=%s observations=%d model=%s %s" % (rc, len(got), "ok" if ans is not None else "failed", junk[-300:])
        return r
    r["ran"] = True
    for i, s in enumerate(strings):
        g = got[i]
        go_b = None if g["b64"] is None else bytes.fromhex(g["b64"])
        a = ans[2 * i]
        m_b = None if a == "none" else (bytes.fromhex(a.split(" ")[1][1:]) if a.startswith("some x") else "?")
        p_b = go_b64decode(s)
        if go_b is not None:
            r["decodable"] += 1
        if not (go_b == m_b == p_b):
            r["b64_mismatches"].append({"input": show(s, 80), "input_hex": s.hex()[:400], "go": None if go_b is None else go_b.hex(),
                                        "model": a, "check": None if p_b is None else p_b.hex()})
        go_s = [bytes.fromhex(x) for x in g["split"]]
        ms = ans[2 * i + 1].split(" ")
        m_s = [bytes.fromhex(x[1:]) for x in ms[1:]] if ms and ms[0].isdigit() else "?"
        if not (go_s == m_s == py_split_basic(s)):
            r["split_mismatches"].append({"input": show(s, 80), "input_hex": s.hex()[:400], "go": [x.hex() for x in go_s], "model": ans[2 * i + 1]})
    return r


def model_rest(model, groups):
    """-> {case id: (ok, carries)} or {} when the model is unavailable"""
    lines, ids = [], []
    for g in groups:
        for c in g["cases"]:
            first = rest_facts(g["password"], c)["first"]
            lines += ["rest %s %s" % (tok(g["password"]), tok(first)), "carries %s %s" % (tok(g["password"]), tok(first))]
            ids.append(c["id"])
    ans = model.ask(lines, timeout=900)
    if ans is None:
        return {}
    return {cid: (ans[2 * i] == "1", ans[2 * i + 1] == "1") for i, cid in enumerate(ids)}


def model_grpc(model, groups):
    lines, ids = [], []
    for g in groups:
        for c in g["cases"]:
            vals = grpc_facts(g["password"], c)["auth_values"]
            lines.append("grpc %s %s" % (tok(g["password"]), " ".join(tok(v) for v in vals) if vals else "none"))
            ids.append(c["id"])
    ans = model.ask(lines, timeout=900)
    if ans is None:
        return {}
    return {cid: ans[i] for i, cid in enumerate(ids)}


def rest_case_json(pw, c):
    return {"password_hex": pw.hex(), "password_text": show(pw, 200), "method": c["method"], "path": c["path"], "shape": c["shape"],
            "headers": [[n, v.hex()] for (n, v) in c["headers"]], "headers_text": [[n, show(v, 200)] for (n, v) in c["headers"]]}


def grpc_case_json(pw, c):
    return {"password_hex": pw.hex(), "password_text": show(pw, 200), "method": c["method"], "shape": c["shape"],
            "md": [[k, v.hex()] for (k, v) in c["md"]], "md_text": [[k, show(v, 200)] for (k, v) in c["md"]]}


def case_size(kind, c):
    if kind == "tls":
        return sum(1 for k in ("cert", "key", "ca") if c[k]) + (1 if c["verify"] else 0) + (1 if c["password"] else 0) + (1 if c["rest"] else 0)
    vals = c["headers"] if kind == "rest" else c["md"]
    return sum(len(v) + len(n) for (n, v) in vals) + 1000 * max(0, len(vals) - 1)


# ----------------------------------------------------------------------------------------------------------------- run

ASSUMPTIONS = [
    "Model/Auth.v is hand-written from net/rest/rest.go (ServeHTTP, ValidatePassword, Run, NewRestServer), net/grpc/grpc.go (Run, authPasswordInterceptor), net/security/security.go (GetTLSConfig), net/net.go (Run) and go1.26.8's encoding/base64 and strings; it is tied to the code by the differential runs counted under coverage.ties, not derived from it",
    "REST: 'the request carries exactly the configured password' is read as: some occurrence of \"Basic \" in an Authorization value is followed, up to the end of the value, by text that Go's base64.StdEncoding decodes to user \":\" password with a colon-free user (Theorem C16_rest_carries_spec); 'a request with the correct password' that MUST be accepted is the RFC 7617 form: one Authorization line, \"Basic \" + canonical base64(user \":\" password). Headers in between (a prefix before \"Basic \", newlines inside the base64, several Authorization lines) carry the password but are not the standard form: either answer satisfies the property, and there only model and implementation are compared",
    "gRPC: a call carries the password when a value of the 'authorization' metadata key equals it; it MUST be accepted when that is the only value; several values with the password among them are compared with the model only (the code looks at the first)",
    "the scheme name is matched case-sensitively (\"basic ...\" is rejected by the code and by the model); RFC 7617 allows any case — recorded as a reading decision, not a finding",
    "the unary interceptor covers every method because every method of the service descriptor is unary; the harness reads pb.LDLM_ServiceDesc of the tree and reports streams as a broken correspondence",
    "file system and X.509/PEM parsing are an oracle (universally quantified in the theorems; instantiated per run by what os.ReadFile, tls.X509KeyPair and AppendCertsFromPEM answer in the child process); the only fact assumed is that reading the file named \"\" fails (C16_tls_wf_necessary shows it is needed)",
    "a key file alone does not configure TLS (DESIGN.md 5 C16, Theorem C16_tls_key_only_is_plaintext): both listeners are plaintext and the property does not object",
    "a REST listener goroutine that panics after net.Run returned (certificate unreadable at the third read) is counted as 'start-up failed': the process dies, it never serves plaintext; the gRPC listener was up with the credentials computed for it until then",
    "'the listener accepts a client' means the request reached the server's request handling (any gRPC status other than a connection failure, any HTTP answer other than net/http's own 'HTTP request to an HTTPS server'); TLS internals (crypto/tls, grpc-go credentials, net/http) are not modelled, only exercised",
    "REST requests are served in-process through the real http.Handler returned by rest.NewRestServer (httptest), so header values that cannot travel over HTTP/1.1 (newlines) are still exercised; the TLS stage goes over real sockets",
    "grpc-go's client refuses metadata values with non-printable bytes; such cases are counted as unsendable, not judged",
]


def coq_side(ctx):
    """-> (ok, list of problems)"""
    ok = ctx.coq_stage()
    cov = ctx.coverage
    probs = []
    thms = cov.get("theorems") or []
    printed = cov.get("assumptions_printed") or {}
    for t in REQUIRED:
        if t not in thms:
            probs.append("theorem %s is missing from Properties/C16.v" % t)
    for t in thms:
        if t.startswith("C16_ex_"):
            continue
        a = printed.get(t)
        if a is None:
            probs.append("no Print Assumptions output for %s" % t)
        elif not a.startswith("Closed under the global context"):
            probs.append("%s is not closed: %s" % (t, a[:300]))
    if probs:
        ok = False
    if not ok:
        cov["discharged"] = 0
    cov["assumptions_all_closed"] = not any("closed" in p or "Print Assumptions" in p for p in probs)
    return ok, probs


def fatal_to_results(kind, msgs, results):
    """Group-level messages of the harness -> results. A baseline request with the CONFIGURED password that was rejected
    (or never answered) is a failing real input; everything else is a stage failure."""
    stage_fail = []
    for m in msgs:
        if not m.get("fatal"):
            continue
        k = m.get("kind")
        if k in ("right_password_rejected", "hang"):
            rule = "right-password-rejected" if k == "right_password_rejected" else "no-answer"
            results.append({"kind": kind, "verdict": "violation", "rule": rule, "route": "baseline",
                            "text": "%s fixture with password %s: %s" % (kind, m.get("password"), m["fatal"]),
                            "pw": m.get("password", "").encode("latin-1", "replace"), "case": None, "obs": m, "size": 0})
        else:
            stage_fail.append("%s group %s (%s): %s" % (kind, m.get("group"), m.get("password"), m["fatal"]))
    return stage_fail


def run(ctx):
    cov = ctx.coverage
    ctx.assumptions += ASSUMPTIONS
    coq_ok, coq_probs = coq_side(ctx)
    for p in coq_probs:
        ctx.note("coq: " + p)
    mexe, mlog = build_model(ctx)
    if mexe is None:
        ctx.note("model: extraction/driver build failed: " + mlog[-400:])
    model = Model(mexe)
    exe, blog, sess = build_harness(ctx)
    if exe is not None and not sess:
        ctx.note("harness: " + blog.splitlines()[0])
    if ctx.replay:
        return do_replay(ctx, exe, model, blog)
    if exe is None:
        ctx.note("harness: does not build against this tree")
        ctx.violation({"broken": "build", "what": "the tree under test does not compile against the harness", "compiler_output": blog[-4000:],
                       "coq_ok": coq_ok, "coq_problems": coq_probs},
                      "the tree does not compile: no request could be sent, nothing is shown to hold", name="build_failed.json", no_failing_input=True)
        cov["ties"] = {"harness_built": False}
        cov["evaluations"] = 0
        cov["distinct_nontrivial"] = 0
        cov["rule"] = "nothing ran: the tree under test does not compile"
        cov["samples"] = [{"compiler_output": blog[-600:]}]
        return

    rng = random.Random(ctx.seed)
    results = []          # dicts: kind verdict rule text pw case obs model route size
    stage_fail = []       # reasons why a stage gave no (complete) evidence

    # ---- what the tree registers
    objs, rc, junk = run_harness(ctx, exe, "desc", {}, "desc.json", timeout=60)
    desc = next((o for o in objs if "methods" in o), None)
    methods = list((desc or {}).get("methods") or []) or ["Lock", "TryLock", "Unlock", "Renew"]
    streams = list((desc or {}).get("streams") or [])
    gw = discover_routes()
    routes = list(MAIN_ROUTES) + [r for r in gw if r not in MAIN_ROUTES]
    if desc is None:
        stage_fail.append("service descriptor could not be read: rc=%s %s" % (rc, junk[-300:]))

    # ---- generation (all randomness, fixed order)
    c_rest, c_rest_files = load_corpus("rest")
    c_grpc, c_grpc_files = load_corpus("grpc")
    rest_groups = c_rest + gen_rest(rng, ctx.tier, routes)
    grpc_groups = c_grpc + gen_grpc(rng, ctx.tier, methods)
    n = 0
    for g in rest_groups + grpc_groups:
        for c in g["cases"]:
            n += 1
            c["id"] = n
    strings = gen_funcs(rng, ctx.tier, rest_groups)
    tls_cfgs = load_tls_corpus() + gen_tls(rng, ctx.tier)
    ctx.note("generated: %d REST cases in %d password groups, %d gRPC cases in %d groups, %d strings, %d TLS configurations" % (
        sum(len(g["cases"]) for g in rest_groups), len(rest_groups), sum(len(g["cases"]) for g in grpc_groups), len(grpc_groups), len(strings), len(tls_cfgs)))

    # ---- TLS children in the background while the rest runs
    P = tls_paths(ctx)
    pool = concurrent.futures.ThreadPoolExecutor(max_workers=8)
    tls_futs = [pool.submit(run_tls_one, ctx, exe, P, cfg, i) for i, cfg in enumerate(tls_cfgs)] if P["testcerts_present"] else []
    if not P["testcerts_present"]:
        stage_fail.append("testcerts/ of the tree under test is incomplete: the TLS stage did not run")

    # ---- library functions
    fr = stage_funcs(ctx, exe, model, strings)
    ctx.note("funcs: %d strings, %d decodable, %d base64 / %d split mismatches" % (fr["n"], fr["decodable"], len(fr["b64_mismatches"]), len(fr["split_mismatches"])))
    if not fr["ran"]:
        stage_fail.append("funcs stage: " + fr.get("log", ""))
    for mm in fr["b64_mismatches"][:5]:
        results.append({"kind": "funcs", "verdict": "mismatch", "rule": "b64decode-vs-encoding/base64", "route": "b64", "pw": b"", "case": mm, "obs": mm, "size": len(mm["input_hex"]),
                        "text": "base64.StdEncoding.DecodeString(%s) = %s, Model b64decode = %s, the check's decoder = %s" % (mm["input"], mm["go"], mm["model"], mm["check"])})
    for mm in fr["split_mismatches"][:5]:
        results.append({"kind": "funcs", "verdict": "mismatch", "rule": "go_split-vs-strings.Split", "route": "split", "pw": b"", "case": mm, "obs": mm, "size": len(mm["input_hex"]),
                        "text": "strings.Split(%s, \"Basic \") = %s, Model go_split = %s" % (mm["input"], mm["go"], mm["model"])})

    # ---- REST
    t1 = time.time()
    robs, rmsgs, rcrash, rlog = run_groups(ctx, exe, "rest", rest_groups, enc_rest_groups, "rest")
    mr = model_rest(model, rest_groups)
    stage_fail += fatal_to_results("rest", rmsgs, results)
    by_id = {}
    for g in rest_groups:
        for c in g["cases"]:
            by_id[c["id"]] = (g["password"], c)
            o = robs.get(c["id"])
            m_ok, m_car = mr.get(c["id"], (None, None))
            for (v, rule, text) in judge_rest(g["password"], c, o, m_ok, m_car):
                results.append({"kind": "rest", "verdict": v, "rule": rule, "text": text, "pw": g["password"], "case": c, "obs": o,
                                "model": {"rest_password_ok": m_ok, "rest_carries": m_car}, "route": c["method"] + " " + c["path"], "size": case_size("rest", c)})
    for (cid, log) in rcrash:
        pw, c = by_id[cid]
        results.append({"kind": "rest", "verdict": "violation", "rule": "server-died", "pw": pw, "case": c, "obs": {"log": log}, "route": c["method"] + " " + c["path"],
                        "size": case_size("rest", c), "text": "the process serving REST died while handling %s %s [%s]: %s" % (c["method"], c["path"], c["shape"], log[-300:])})
    ctx.note("rest: %d of %d cases observed in %.1fs; model answers %d; session table %s" % (len(robs), len(by_id), time.time() - t1, len(mr), "reachable" if sess else "not reachable"))
    if not mr:
        stage_fail.append("the extracted model gave no answers for the REST cases: " + mlog[-300:])
    if by_id and len(robs) < 0.5 * len(by_id) and not any(r["verdict"] == "violation" and r["kind"] == "rest" for r in results):
        stage_fail.append("REST stage: only %d of %d cases were observed: %s" % (len(robs), len(by_id), rlog[-400:]))

    # ---- gRPC
    t1 = time.time()
    gobs, gmsgs, gcrash, glog = run_groups(ctx, exe, "grpc", grpc_groups, enc_grpc_groups, "grpc")
    mg = model_grpc(model, grpc_groups)
    stage_fail += fatal_to_results("grpc", gmsgs, results)
    gby_id = {}
    for g in grpc_groups:
        for c in g["cases"]:
            gby_id[c["id"]] = (g["password"], c)
            o = gobs.get(c["id"])
            for (v, rule, text) in judge_grpc(g["password"], c, o, mg.get(c["id"])):
                results.append({"kind": "grpc", "verdict": v, "rule": rule, "text": text, "pw": g["password"], "case": c, "obs": o,
                                "model": {"grpc_gate": mg.get(c["id"])}, "route": c["method"], "size": case_size("grpc", c)})
    for (cid, log) in gcrash:
        pw, c = gby_id[cid]
        results.append({"kind": "grpc", "verdict": "violation", "rule": "server-died", "pw": pw, "case": c, "obs": {"log": log}, "route": c["method"], "size": case_size("grpc", c),
                        "text": "the process serving gRPC died while handling %s [%s]: %s" % (c["method"], c["shape"], log[-300:])})
    ctx.note("grpc: %d of %d cases observed in %.1fs; model answers %d; methods %s streams %s" % (len(gobs), len(gby_id), time.time() - t1, len(mg), methods, streams))
    if not mg:
        stage_fail.append("the extracted model gave no answers for the gRPC cases")
    if gby_id and len(gobs) < 0.5 * len(gby_id) and not any(r["verdict"] == "violation" and r["kind"] == "grpc" for r in results):
        stage_fail.append("gRPC stage: only %d of %d cases were observed: %s" % (len(gobs), len(gby_id), glog[-400:]))
    if streams:
        results.append({"kind": "grpc", "verdict": "mismatch", "rule": "streams-bypass-unary-interceptor", "route": "descriptor", "pw": b"", "case": None, "obs": desc, "size": 0,
                        "text": "the service descriptor lists streaming methods %s; a grpc.UnaryInterceptor does not cover them and the model assumes none" % streams})

    # ---- TLS
    t1 = time.time()
    tobs = []
    for f in tls_futs:
        try:
            tobs.append(f.result(timeout=200))
        except Exception as ex:  # noqa
            tobs.append({"outcome": "harness-error", "log": repr(ex)})
    pool.shutdown(wait=False)
    lines = []
    for cfg, o in zip(tls_cfgs, tobs):
        lines += tls_model_lines(P, cfg, o)
    ans = model.ask(lines) if tobs else []
    if tobs and ans is None:
        stage_fail.append("the extracted model gave no answers for the TLS configurations")
    outcomes = {}
    for i, (cfg, o) in enumerate(zip(tls_cfgs, tobs)):
        outcomes[o["outcome"]] = outcomes.get(o["outcome"], 0) + 1
        m_dec, m_start = (ans[2 * i], ans[2 * i + 1]) if ans else (None, None)
        for (v, rule, text) in judge_tls(cfg, o, m_dec, m_start, model):
            results.append({"kind": "tls", "verdict": v, "rule": rule, "text": text, "pw": cfg["password"], "case": cfg, "obs": o,
                            "model": {"tls_decision": m_dec, "startup": m_start}, "route": cfg_name(cfg), "size": case_size("tls", cfg)})
    ctx.note("tls: %d configurations, outcomes %s (waited %.1fs)" % (len(tobs), outcomes, time.time() - t1))
    if tobs and outcomes.get("harness-error", 0) > 0.3 * len(tobs):
        stage_fail.append("TLS stage: %d of %d child runs failed: %s" % (outcomes["harness-error"], len(tobs), next(o.get("log", "") for o in tobs if o["outcome"] == "harness-error")[-300:]))

    verdict(ctx, results, stage_fail, coq_ok, coq_probs)
    fill_coverage(ctx, results, dict(rest_groups=rest_groups, grpc_groups=grpc_groups, robs=robs, gobs=gobs, tls_cfgs=tls_cfgs, tobs=tobs, funcs=fr, methods=methods,
                                     streams=streams, routes=routes, gw=gw, sess=sess, corpus=c_rest_files + c_grpc_files + sorted(set(c.get("corpus") for c in tls_cfgs if c.get("corpus"))),
                                     stage_fail=stage_fail, model=model, outcomes=outcomes))


def short_obs(kind, o):
    if not isinstance(o, dict):
        return o
    if kind == "rest":
        keep = ("status", "body", "www_authenticate", "set_cookie", "locks_before", "locks_after", "sessions_before", "sessions_after",
                "post_renew_status", "post_renew_locked", "error", "degraded")
        r = {k: o[k] for k in keep if k in o}
        if "body" in r:
            r["body"] = show(bytes.fromhex(r["body"] or ""), 200)
        return r
    if kind == "tls":
        r = {k: o.get(k) for k in ("outcome", "error", "panic", "rest_listening", "direct", "facts", "probe_errors") if o.get(k) not in (None, "", [])}
        r["probes"] = {k: {"reached": v.get("reached"), "detail": (v.get("detail") or "")[:160]} for k, v in (o.get("probes") or {}).items()}
        bad = [p for p in o.get("password_probes") or []
               if (p["cred"] == "right") == (p["outcome"] == "Unauthenticated" or (p["outcome"] == "401" and p.get("body_empty"))) or (p["cred"] != "right" and not p.get("locks_same", True))]
        r["password_probes"] = {"n": len(o.get("password_probes") or []), "not_as_required": bad[:10]}
        return r
    return o


def replay_obj(ctx, r, n_same):
    kind = r["kind"]
    obj = {"property": "C16", "kind": kind, "rule": r["rule"], "what": r["text"], "seed": ctx.seed, "tier": ctx.tier, "tree": str(vcheck.REPO),
           "observed": short_obs(kind, r.get("obs")), "model": r.get("model"), "other_cases_failing_the_same_way": n_same,
           "replay": "bin/check C16 --replay <this file>   (re-runs exactly this request / configuration on the current tree and on the model)"}
    c = r.get("case")
    if kind == "rest" and c:
        obj["request"] = rest_case_json(r["pw"], c)
        obj["expected"] = "HTTP 401, empty body, no Set-Cookie, Locks() and the session table unchanged" if not rest_facts(r["pw"], c)["carries_any"] else "let through the gate"
    elif kind == "grpc" and c:
        obj["request"] = grpc_case_json(r["pw"], c)
        obj["expected"] = "status Unauthenticated, no response, Locks() unchanged" if not grpc_facts(r["pw"], c)["carries_any"] else "the handler runs"
    elif kind == "tls" and c:
        obj["config"] = {"cert": c["cert"], "key": c["key"], "verify": c["verify"], "ca": c["ca"], "password_text": c["password"].decode("latin-1"), "rest": c["rest"]}
        obj["expected"] = "start-up refused, or every listener refuses plaintext clients (and clients without a certificate when verification / a CA is configured)"
    else:
        obj["input"] = c
    return obj


def verdict(ctx, results, stage_fail, coq_ok, coq_probs):
    viol = [r for r in results if r["verdict"] == "violation"]
    mism = [r for r in results if r["verdict"] == "mismatch"]
    groups = {}
    for r in viol:
        groups.setdefault((r["kind"], r["rule"]), []).append(r)
    order = {"rest": 0, "grpc": 1, "tls": 2, "funcs": 3}
    keys = sorted(groups, key=lambda k: (order.get(k[0], 9), k[1]))
    main = set("%s %s" % r for r in MAIN_ROUTES)
    extra = "" if coq_ok else "   [the Coq side is broken as well: %s]" % ("; ".join(coq_probs)[:200] or "see evidence")
    for k in keys[:10]:
        # the representative: a registered route before an unknown path, then the smallest input
        rs = sorted(groups[k], key=lambda r: (r["kind"] == "rest" and r.get("route") not in main, r.get("size", 0)))
        r = rs[0]
        where = {}
        for x in rs:
            where[x.get("route", "")] = where.get(x.get("route", ""), 0) + 1
        fid = next((f.get("id") for f in ctx.known_findings if f.get("kind") == "known" and f.get("signature") == "c16:" + r["rule"]), None)
        if fid:
            ctx.known_finding(fid, r["text"][:300])
            continue
        nm = re.sub(r"[^A-Za-z0-9_.-]+", "_", "violation_%s_%s" % (k[0], k[1]))[:120] + ".json"
        ro = replay_obj(ctx, r, len(rs) - 1)
        ro["failing_cases_per_route"] = where
        ctx.violation(ro, r["text"] + ("   [%d more failing cases of this kind%s]" % (len(rs) - 1, "" if k[0] == "tls" else "; routes/methods: " + ", ".join(sorted(where))[:200]) if len(rs) > 1 else "") + extra, name=nm)
    if len(keys) > 10:
        ctx.note("%d more groups of failing inputs not written out" % (len(keys) - 10))
    if viol:
        if mism:
            ctx.note("%d model/implementation differences besides the failing inputs" % len(mism))
        return
    if mism:
        first = sorted(mism, key=lambda r: (order.get(r["kind"], 9), r.get("size", 0)))
        ctx.violation({"broken": "correspondence", "property": "C16", "what": "Model/Auth.v and the implementation differ on the property's own observations (accepted / rejected, listener kind, start-up outcome); no real input was found on which the property's predicate is false",
                       "first_differences": [replay_obj(ctx, r, 0) for r in first[:8]], "differences": len(mism),
                       "by_rule": {k: sum(1 for r in mism if r["rule"] == k) for k in sorted(set(r["rule"] for r in mism))},
                       "coq_ok": coq_ok, "coq_problems": coq_probs},
                      "model and implementation differ (%d cases, first: %s) and no failing real input was found" % (len(mism), first[0]["text"][:300]),
                      name="broken_correspondence.json", no_failing_input=True)
    elif stage_fail:
        ctx.violation({"broken": "harness", "what": "a stage produced no (complete) evidence", "reasons": stage_fail, "coq_ok": coq_ok},
                      "the run is incomplete, nothing is shown to hold: " + "; ".join(stage_fail)[:400], name="stage_failed.json", no_failing_input=True)
    elif not coq_ok:
        ctx.violation({"broken": "theorem", "property": "C16", "problems": coq_probs, "coq_failed_files": ctx.coverage.get("coq_failed_files"),
                       "lint": ctx.coverage.get("lint_findings"), "log_excerpt": getattr(ctx, "coq_log", "")[-3000:],
                       "searched": "%d judged observations, none violates the property" % sum(1 for r in results if r["verdict"] == "pass")},
                      "proof obligations of C16 no longer check (%s) and no failing real input was found" % ("; ".join(coq_probs)[:300] or "see replay"),
                      name="broken_theorem.json", no_failing_input=True)


def fill_coverage(ctx, results, S):
    cov = ctx.coverage
    judged = [r for r in results if r["verdict"] in ("pass", "violation", "mismatch")]
    cnt = lambda kind, v: sum(1 for r in results if r["kind"] == kind and r["verdict"] == v)  # noqa

    def dist(groups, facts, obs, acc):
        shapes, routes, classes, answers = {}, {}, {"must_reject": 0, "must_accept": 0, "either": 0, "no_password": 0}, {"accepted": 0, "rejected": 0, "other": 0, "unobserved": 0}
        for g in groups:
            for c in g["cases"]:
                shapes[c["shape"]] = shapes.get(c["shape"], 0) + 1
                rt = c["method"] + ((" " + c["path"]) if "path" in c else "")
                routes[rt] = routes.get(rt, 0) + 1
                F = facts(g["password"], c)
                k = "no_password" if not g["password"] else ("must_accept" if F["canonical"] else ("either" if F["carries_any"] else "must_reject"))
                classes[k] += 1
                answers[acc(obs.get(c["id"]))] += 1
        return shapes, routes, classes, answers

    def racc(o):
        if o is None or (o.get("error") and not o.get("status")):
            return "unobserved"
        return "rejected" if (o.get("status") == 401 and not o.get("body")) else ("other" if o.get("status") == -1 else "accepted")

    def gacc(o):
        if o is None or o.get("unsendable"):
            return "unobserved"
        return "accepted" if o.get("code") == "OK" else ("rejected" if o.get("code") == "Unauthenticated" else "other")
    rs, rr, rc, ra = dist(S["rest_groups"], rest_facts, S["robs"], racc)
    gs, gr, gc, ga = dist(S["grpc_groups"], grpc_facts, S["gobs"], gacc)
    tls_by = {}
    for cfg, o in zip(S["tls_cfgs"], S["tobs"]):
        k = "tls-configured" if (cfg["cert"] or cfg["verify"] or cfg["ca"]) else "nothing-configured"
        tls_by.setdefault(k, {}).setdefault(o["outcome"], 0)
        tls_by[k][o["outcome"]] += 1
    cov["ties"] = {
        "harness_built": True, "session_table_reachable": S["sess"], "corpus_files": S["corpus"],
        "funcs_base64_and_split": {"strings": S["funcs"]["n"], "decodable": S["funcs"]["decodable"], "ran": S["funcs"]["ran"],
                                   "base64_mismatches": len(S["funcs"]["b64_mismatches"]), "split_mismatches": len(S["funcs"]["split_mismatches"])},
        "rest_handler": {"cases": sum(len(g["cases"]) for g in S["rest_groups"]), "observed": len(S["robs"]), "password_groups": len(S["rest_groups"]),
                         "routes_registered_by_gateway": ["%s %s" % r for r in S["gw"]], "routes_exercised": len(rr), "shapes": len(rs),
                         "pass": cnt("rest", "pass"), "violations": cnt("rest", "violation"), "mismatches": cnt("rest", "mismatch"), "skipped": cnt("rest", "skipped"),
                         "classes": rc, "answers": ra},
        "grpc_interceptor": {"cases": sum(len(g["cases"]) for g in S["grpc_groups"]), "observed": len(S["gobs"]), "password_groups": len(S["grpc_groups"]),
                             "methods": S["methods"], "streams": S["streams"], "shapes": len(gs),
                             "pass": cnt("grpc", "pass"), "violations": cnt("grpc", "violation"), "mismatches": cnt("grpc", "mismatch"), "skipped": cnt("grpc", "skipped"),
                             "unsendable": sum(1 for o in S["gobs"].values() if o.get("unsendable")), "classes": gc, "answers": ga},
        "tls_startup": {"configurations": len(S["tls_cfgs"]), "child_processes": len(S["tobs"]), "outcomes": S["outcomes"], "by_configuration_kind": tls_by,
                        "pass": cnt("tls", "pass"), "violations": cnt("tls", "violation"), "mismatches": cnt("tls", "mismatch"), "skipped": cnt("tls", "skipped"),
                        "password_probes_over_the_wire": sum(len(o.get("password_probes") or []) for o in S["tobs"]),
                        "full_matrix": ctx.tier == "thorough"},
        "model_calls": S["model"].calls,
    }
    cov["generator"] = {"seed": ctx.seed, "rest_cases_per_shape": rs, "rest_cases_per_route": rr, "grpc_cases_per_shape": gs, "grpc_cases_per_method": gr}
    if S["stage_fail"]:
        cov["stage_failures"] = S["stage_fail"]
    mism = [r for r in results if r["verdict"] == "mismatch"]
    cov["mismatches"] = [{"kind": r["kind"], "rule": r["rule"], "text": r["text"][:300]} for r in mism[:20]]
    cov["evaluations"] = len(judged) + (S["funcs"]["n"] if S["funcs"]["ran"] else 0)
    dn = set()
    for r in judged:
        c = r.get("case")
        if r["kind"] == "rest" and c and r["pw"]:
            dn.add(("rest", r["pw"], c["method"], c["path"], tuple(c["headers"])))
        elif r["kind"] == "grpc" and c and r["pw"]:
            dn.add(("grpc", r["pw"], c["method"], tuple(c["md"])))
        elif r["kind"] == "tls" and c and (c["cert"] or c["verify"] or c["ca"] or c["password"]):
            dn.add(("tls", c["cert"], c["key"], c["verify"], c["ca"], c["password"], c["rest"]))
    cov["distinct_nontrivial"] = len(dn)
    cov["traces_validated_against_impl"] = len(S["robs"]) + len(S["gobs"]) + sum(1 for o in S["tobs"] if o["outcome"] != "harness-error")
    cov["exhaustive"] = False
    cov["rule"] = ("Coq: theorems over every password, header, metadata, configuration and file oracle (unbounded). Correspondence and property oracle on the real code: "
                   "credential shapes (missing, empty, wrong, prefixes/extensions/case variants of the right password, other schemes, XBasic, doubled Basic, lower-case scheme, wrong header "
                   "names, damaged base64, padding variants, colon variants, non-ASCII, long values, several header lines) generated from one random.Random(VERIF_SEED) stream for "
                   "several configured passwords, each on every gateway route, POST/DELETE /session and a sample of other methods/paths (REST, real handler in-process) and on every unary "
                   "method of the service descriptor (gRPC, real server over loopback); TLS: flag combinations cert/key/verify/CA with files present, absent, missing, unparsable or a combined certificate+key bundle x password "
                   "x REST on/off, one child process each, probed with a plaintext client, a TLS client without and one with a client certificate (quick: all 16 set/unset combinations + a "
                   "seeded sample of bad-file variants; thorough: the full matrix). evaluations = judged observations + strings of the library-function differential; distinct_nontrivial = "
                   "distinct (password, route, headers) / (password, method, metadata) with a password configured + distinct TLS configurations with anything configured")
    pick = []
    for want in (("rest", "right", "DELETE /session"), ("rest", "prefix-of-right-1", "DELETE /session"), ("rest", "xbasic", "POST /v1/lock"),
                 ("grpc", "two-values-wrong-right", "Unlock"), ("grpc", "case-swapcase", "Lock")):
        for r in results:
            c = r.get("case")
            if r["kind"] == want[0] and c and c.get("shape") == want[1] and r.get("route") == want[2] and r["pw"]:
                pick.append({"kind": r["kind"], "request": (rest_case_json if r["kind"] == "rest" else grpc_case_json)(r["pw"], c),
                             "observed": short_obs(r["kind"], r["obs"]), "model": r.get("model"), "verdict": r["verdict"]})
                break
    for want in ({"cert": "good", "key": "good", "ca": "good"}, {"cert": "good", "key": "", "ca": ""}):
        for r in results:
            c = r.get("case")
            if r["kind"] == "tls" and c and all(c[k] == v for k, v in want.items()) and c["rest"]:
                pick.append({"kind": "tls", "config": cfg_name(c), "observed": short_obs("tls", r["obs"]), "model": r.get("model"), "verdict": r["verdict"]})
                break
    cov["samples"] = pick or [{"note": "no observation available", "stage_failures": S["stage_fail"][:3]}]


# -------------------------------------------------------------------------------------------------------------- replay

def do_replay(ctx, exe, model, blog):
    cov = ctx.coverage
    cov["rule"] = "replay of one recorded request / configuration"
    cov["evaluations"] = 0
    cov["distinct_nontrivial"] = 0
    try:
        r = json.loads(Path(ctx.replay).read_text())
    except Exception as ex:  # noqa
        print("cannot read replay file: %r" % (ex,))
        ctx.violation({"broken": "replay", "file": str(ctx.replay)}, "replay file unreadable", name="replay_unreadable.json", no_failing_input=True)
        return
    if r.get("first_differences"):      # a broken-correspondence file: replay its first difference
        r = r["first_differences"][0]
    kind = r.get("kind")
    print("replaying a %s case on %s" % (kind, vcheck.REPO))
    print("recorded: " + str(r.get("what")))
    print("expected: " + str(r.get("expected")))
    if exe is None:
        print("the tree does not compile against the harness:\n" + blog[-1500:])
        ctx.violation({"broken": "build", "compiler_output": blog[-4000:]}, "replay could not run: the tree does not compile", name="replay_failed.json", no_failing_input=True)
        return
    out = []
    try:
        if kind == "rest" and r.get("request"):
            q = r["request"]
            pw = bytes.fromhex(q["password_hex"])
            c = {"id": 1, "method": q["method"], "path": q["path"], "shape": q.get("shape", "replay"), "headers": [(n, bytes.fromhex(v)) for (n, v) in q["headers"]]}
            g = [{"password": pw, "cases": [c]}]
            obs, msgs, crashes, log = run_groups(ctx, exe, "rest", g, enc_rest_groups, "replay_rest")
            fatal_to_results("rest", msgs, out)
            m_ok, m_car = model_rest(model, g).get(1, (None, None))
            print("request:  %s %s  %s   (configured password %s)" % (c["method"], c["path"], [[n, show(v, 200)] for (n, v) in c["headers"]], show(pw, 80)))
            print("model:    rest_password_ok = %s, rest_carries = %s" % (m_ok, m_car))
            print("observed: " + json.dumps(short_obs("rest", obs.get(1))))
            for (v, rule, text) in judge_rest(pw, c, obs.get(1), m_ok, m_car):
                out.append({"kind": "rest", "verdict": v, "rule": rule, "text": text, "pw": pw, "case": c, "obs": obs.get(1), "model": {"rest_password_ok": m_ok, "rest_carries": m_car}})
            for (_, lg) in crashes:
                out.append({"kind": "rest", "verdict": "violation", "rule": "server-died", "text": "the process died on this request: " + lg[-300:], "pw": pw, "case": c, "obs": {"log": lg}})
        elif kind == "grpc" and r.get("request"):
            q = r["request"]
            pw = bytes.fromhex(q["password_hex"])
            c = {"id": 1, "method": q["method"], "shape": q.get("shape", "replay"), "md": [(k, bytes.fromhex(v)) for (k, v) in q["md"]]}
            g = [{"password": pw, "cases": [c]}]
            obs, msgs, crashes, log = run_groups(ctx, exe, "grpc", g, enc_grpc_groups, "replay_grpc")
            fatal_to_results("grpc", msgs, out)
            m = model_grpc(model, g).get(1)
            print("request:  %s  metadata %s   (configured password %s)" % (c["method"], [[k, show(v, 200)] for (k, v) in c["md"]], show(pw, 80)))
            print("model:    grpc_gate = %s" % m)
            print("observed: " + json.dumps(obs.get(1)))
            for (v, rule, text) in judge_grpc(pw, c, obs.get(1), m):
                out.append({"kind": "grpc", "verdict": v, "rule": rule, "text": text, "pw": pw, "case": c, "obs": obs.get(1), "model": {"grpc_gate": m}})
            for (_, lg) in crashes:
                out.append({"kind": "grpc", "verdict": "violation", "rule": "server-died", "text": "the process died on this call: " + lg[-300:], "pw": pw, "case": c, "obs": {"log": lg}})
        elif kind == "tls" and r.get("config"):
            q = r["config"]
            cfg = {"cert": q.get("cert", ""), "key": q.get("key", ""), "verify": bool(q.get("verify")), "ca": q.get("ca", ""),
                   "password": q.get("password_text", "").encode("latin-1"), "rest": bool(q.get("rest"))}
            if cfg["cert"] not in CERT_KINDS or cfg["key"] not in KEY_KINDS or cfg["ca"] not in CA_KINDS:
                raise ValueError("unknown file kind in the configuration")
            P = tls_paths(ctx)
            o = run_tls_one(ctx, exe, P, cfg, 0)
            a = model.ask(tls_model_lines(P, cfg, o))
            m_dec, m_start = (a[0], a[1]) if a else (None, None)
            print("config:   " + cfg_name(cfg))
            print("model:    tls_decision = %s ; startup = %s" % (m_dec, m_start))
            print("observed: " + json.dumps(short_obs("tls", o)))
            for (v, rule, text) in judge_tls(cfg, o, m_dec, m_start, model):
                out.append({"kind": "tls", "verdict": v, "rule": rule, "text": text, "pw": cfg["password"], "case": cfg, "obs": o, "model": {"tls_decision": m_dec, "startup": m_start}})
        elif kind == "funcs" and isinstance(r.get("input"), dict) and r["input"].get("input_hex") is not None:
            s = bytes.fromhex(r["input"]["input_hex"])
            fr = stage_funcs(ctx, exe, model, [s])
            print("input:    " + show(s, 200))
            print("result:   " + json.dumps({k: fr[k] for k in ("ran", "b64_mismatches", "split_mismatches")}))
            for mm in fr["b64_mismatches"] + fr["split_mismatches"]:
                out.append({"kind": "funcs", "verdict": "mismatch", "rule": "library-function-vs-model", "text": json.dumps(mm)[:300], "pw": b"", "case": mm, "obs": mm})
            if not fr["ran"]:
                out.append({"kind": "funcs", "verdict": "skipped", "rule": "not-run", "text": fr.get("log", "")})
        else:
            print("this replay file names no request or configuration (%s); nothing to re-run" % (r.get("broken") or kind))
            ctx.violation({"broken": "replay", "file": str(ctx.replay)}, "the replay file holds no input to re-run", name="replay_failed.json", no_failing_input=True)
            return
    except Exception as ex:  # noqa
        print("replay failed: %r" % (ex,))
        ctx.violation({"broken": "replay", "file": str(ctx.replay), "error": repr(ex)}, "replay could not run", name="replay_failed.json", no_failing_input=True)
        return
    cov["evaluations"] = len(out)
    cov["distinct_nontrivial"] = 1 if out else 0
    cov["samples"] = [r.get("request") or r.get("config") or r.get("input")]
    for x in out:
        print("verdict:  %s (%s) %s" % (x["verdict"], x["rule"], x["text"]))
    bad = [x for x in out if x["verdict"] == "violation"]
    mis = [x for x in out if x["verdict"] == "mismatch"]
    for x in bad[:3]:
        ctx.violation(replay_obj(ctx, x, 0), x["text"], name="replayed_%s_%s.json" % (x["kind"], re.sub(r"[^A-Za-z0-9_-]", "_", x["rule"])))
    if not bad and mis:
        ctx.violation({"broken": "correspondence", "first_differences": [replay_obj(ctx, x, 0) for x in mis[:3]]}, mis[0]["text"], name="replayed_mismatch.json", no_failing_input=True)
    if not out or all(x["verdict"] == "skipped" for x in out):
        ctx.violation({"broken": "replay"}, "the replayed case produced no observation", name="replay_failed.json", no_failing_input=True)


if __name__ == "__main__":
    print(__doc__)


def run(ctx, _inner=run):     # + T5-race (lib/racetie.py): data-race freedom, the assumption under every interleaving model; also re-runs its replay files
    from lib import racetie
    return racetie.stage(ctx, _inner, ["net/security", "net/grpc", "net/rest"])
