"""C07 — see DESIGN.md section 5 "C07". Theorems: coq/Properties/C07.v (over Mseq); ties: T1 seq-diff with probes around every
request (checks/seqcommon.py) and the metamorphic twin run (lib/seqtie.twin_stage): a history with and without its failed
requests must be indistinguishable."""
from checks import seqcommon
from lib import seqtie


def run(ctx):
    if ctx.replay:
        return seqcommon.replay(ctx, "C07")
    ok = ctx.coq_stage()
    seqcommon.seq_stage(ctx, "C07")
    seqtie.initfile_stage(ctx, None, "C07")     # T1 stage "boot on an adversarial state file" (Model/SeqFile.v)
    prof = seqcommon.prof(weights={"try": 30, "lock": 8, "unl": 20, "ren": 8, "adv": 22, "probe": 4, "restart": 1, "disc": 3},
                          names=[seqcommon.H("a"), seqcommon.H("ab"), seqcommon.H("b")],
                          sizes=[None, 1, 2, 3, 2, 1, 0, -1], lts=[None, 0, 1, 3, -1], wts=[None, 0, 1],
                          gc=[[2000000000, 1000000000], [1000000000, 0], [200000000, 0]],
                          advs=[0, 1, 200000000, 1000000000, 1000000001, 2000000000, 3000000000],
                          probe_every=2, bad_key_pct=20, no_sess_pct=3, min_len=12, max_len=34)
    seqtie.twin_stage(ctx, prof, 300 if ctx.tier == "quick" else 4000)
    if not ok and not ctx.violations:
        ctx.coq_broken_violation()
