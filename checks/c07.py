"""C07 — see DESIGN.md section 5 "C07". Theorems: coq/Properties/C07.v (over Mseq); tie: T1 seq-diff (checks/seqcommon.py)."""
from checks import seqcommon


def run(ctx):
    seqcommon.run_seq_only(ctx, "C07")
