"""C01 — see DESIGN.md section 5 "C01" and checks/lkcommon.py."""
from checks import lkcommon
from lib import seqtie


def run(ctx):
    lkcommon.run(ctx, "C01")
    if not ctx.replay:
        seqtie.initfile_stage(ctx, None, "C01")     # T1 stage "boot on an adversarial state file" (Model/SeqFile.v)


def run(ctx, _inner=run):     # + T5-race (lib/racetie.py): data-race freedom, the assumption under every interleaving model; also re-runs its replay files
    from lib import racetie
    return racetie.stage(ctx, _inner, ["lock"])
