"""C01 — see DESIGN.md section 5 "C01" and checks/lkcommon.py."""
from checks import lkcommon


def run(ctx):
    lkcommon.run(ctx, "C01")
