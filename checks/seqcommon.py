"""Shared body of the checks whose correspondence is T1 (seq-diff): the real LockServer inside a synctest bubble
(virtual time), one event at a time, replayed on the extracted Mseq and judged by the extracted trace oracle (Track.v).

Each property supplies: a generator profile (what its histories concentrate on), the projection of the observations
its comparison reads, and the oracle tags that are ITS clauses. See DESIGN.md 4.1, 4.6."""
import copy
import json
from pathlib import Path

from lib import seqtie, vcheck

H = lambda s: s.encode().hex()  # noqa

BASE = {
    "weights": {"conn": 6, "disc": 4, "try": 22, "lock": 12, "unl": 18, "ren": 8, "cancel": 3, "adv": 16, "restart": 2,
                "shutdown": 0, "probe": 6, "ipcl": 0, "ipcu": 0},
    "max_len": 30, "min_len": 8, "sessions": 3,
    "names": [H("a"), H("ab"), H("b"), H("a:b")],
    "sizes": [None, None, None, 1, 2, 2, 3],
    "lts": [None, None, 0, 1, 2, 3, 5],
    "wts": [None, None, 0, 1, 2, 3],
    "renew_lts": [1, 2, 3, 5],
    "advs": [0, 1, 999999999, 1000000000, 1000000001, 2000000000, 5000000000],
    "noclear": [False, False, True], "file": [True, True, False],
    "gc": [[1800000000000, 300000000000], [2000000000, 1000000000], [1000000000, 0]],
    "dlt": [3000000000, 1000000000, 600000000000, 500000000, 1500000000],
    "shards": [16, 1, 2, 0, 1000],
    "probe_every": 3, "probe_around": False, "bad_key_pct": 15, "no_sess_pct": 2, "drain": True, "sticky_size_pct": 65,
}


def prof(**kw):
    p = copy.deepcopy(BASE)
    w = kw.pop("weights", None)
    if w:
        p["weights"].update(w)
    p.update(kw)
    return p


# property -> (profile, projection, oracle tag prefixes, (n quick, n thorough))
PROPS = {
    "C04": (prof(weights={"ren": 16, "adv": 26, "try": 18, "lock": 10, "unl": 10, "restart": 3},
                 lts=[None, 0, 1, 1, 2, 2, 3, 5], sizes=[None, None, 1, 1, 2],
                 names=[H("a"), H("ab"), H("a:b"), H("a:"), H("a/b"), H("b")],
                 advs=[0, 1, 999999999, 1000000000, 1000000001, 1999999999, 2000000000, 2000000001, 3000000000, 5000000000],
                 probe_every=2, bad_key_pct=18),
            "C04", ["C04", "HOLDS", "FRESH"], (300, 6000)),
    "C07": (prof(weights={"try": 20, "lock": 8, "unl": 24, "ren": 16, "adv": 8, "probe": 0, "restart": 1, "ipcu": 3},
                 names=[H("a"), H("ab"), H("b"), H("abc"), H("a:"), H("1:a"), H("a "), H(" a"), H("a:b"), H("a/b")],
                 sizes=[None, None, 1, 2, 0, -1, 3], lts=[None, 0, 1, 5, -1], wts=[None, 0, 1, -1],
                 probe_every=0, probe_around=True, bad_key_pct=45, no_sess_pct=4),
            "C07", ["C07", "HOLDS", "FRESH", "C04:dead-key-renewed", "C04:dead-key-accepted"], (300, 6000)),   # a request on (n',k') that is accepted although no such hold exists acted on ANOTHER pair: cross-talk
    "C08": (prof(weights={"disc": 8, "unl": 22, "restart": 4, "ipcu": 3, "adv": 14}, probe_every=1, partial_pct=25,
                 noclear=[False, True], file=[True, True, True, False], bad_key_pct=10),
            "C08", ["C08", "HOLDS", "FRESH"], (300, 6000)),
    "C10": (prof(weights={"restart": 10, "adv": 14, "ren": 10, "unl": 14, "disc": 5}, probe_every=2, file=[True, True, True, False],
                 dlt=[3000000000, 1000000000, 2000000000, 600000000000, 0, 500000000, 1500000000, 999999999], min_len=10, max_len=36),
            "C10", ["C10", "HOLDS", "C04", "C08", "C01", "FRESH"], (300, 6000)),
    "C12": (prof(weights={"try": 30, "lock": 14, "ren": 12, "unl": 8, "adv": 6, "restart": 1},
                 names=[H("a"), H("ab"), H("b"), "", H("a"), H("x" * 300), "c3a9e4b8ad", H(" a"), H("a "), H(" "), H("a\t")],
                 sizes=[None, None, 1, 2, 3, 0, -1, -2147483648, 2147483647, 2],
                 lts=[None, None, 0, 1, 5, -1, -2147483648, 2147483647], wts=[None, 0, 1, 2, -1, -2147483648],
                 renew_lts=[1, 5, 0, -1, -2147483648, 2147483647], no_sess_pct=8, probe_every=4,
                 shards=[16, 1, 2, 0, 1000, 3, 64], sticky_size_pct=30),
            "C12", ["C12"], (400, 8000)),
    "C18": (prof(weights={"ipcl": 10, "ipcu": 14, "try": 24, "unl": 8, "adv": 10, "restart": 3, "disc": 4}, probe_every=2, partial_pct=20,
                 sizes=[None, 1, 2, 3, 3], bad_key_pct=20),
            "C18", ["C18", "HOLDS"], (300, 6000)),
    # sequential parts of the interleaving properties
    "C01": (prof(weights={"try": 30, "lock": 14, "unl": 16, "disc": 6, "adv": 14, "restart": 3}, probe_every=1,
                 names=[H("a"), H("ab"), H("b"), H(" a"), H("a "), H("a\n"), H("A")],
                 gc=[[2000000000, 1000000000], [1000000000, 0], [200000000, 0]]),
            "C01", ["C01", "HOLDS", "FRESH"], (250, 5000)),
    "C02": (prof(weights={"try": 30, "lock": 12, "unl": 26, "adv": 6, "cancel": 6}, lts=[None], probe_every=2, bad_key_pct=25),
            "C01", ["C02", "C01", "HOLDS"], (250, 5000)),
    "C03": (prof(weights={"lock": 30, "try": 10, "unl": 18, "cancel": 8, "adv": 22, "disc": 6}, sizes=[None, 1, 1, 2], fifo_pct=6,
                 wts=[None, 0, 1, 1, 2, 3], lts=[None, 1, 2, 3], probe_every=2,
                 advs=[0, 1, 999999999, 1000000000, 1000000001, 2000000000, 3000000000]),
            "C03", ["C03", "HOLDS"], (250, 5000)),
    "C05": (prof(weights={"unl": 20, "ren": 20, "adv": 24, "try": 20}, lts=[1, 1, 2, 3], probe_every=1,
                 names=[H("a"), H("ab"), H("a:b"), H("b")], bad_key_pct=20,
                 advs=[0, 1, 999999999, 1000000000, 1000000001, 2000000000]),
            "C04", ["C04", "HOLDS"], (200, 4000)),
    "C06": (prof(weights={"conn": 10, "disc": 14, "lock": 14, "try": 24, "adv": 10}, probe_every=1, noclear=[False, False, True, True]),
            "C06", ["HOLDS", "C08", "C03", "FRESH"], (250, 5000)),
    "C09": (prof(weights={"restart": 8, "unl": 18, "disc": 8, "adv": 12}, probe_every=1, file=[True]),
            "C10", ["HOLDS", "C08", "C01"], (200, 4000)),
    "C11": (prof(weights={"shutdown": 3, "restart": 3, "lock": 16, "try": 24, "adv": 10}, probe_every=1, file=[True, True, False], min_len=6),
            "C11", ["HOLDS", "C08", "C03", "C11"], (250, 5000)),
    "C13": (prof(weights={"adv": 30, "try": 26, "unl": 16, "lock": 8}, probe_every=1,
                 gc=[[2000000000, 1000000000], [1000000000, 0], [200000000, 0], [1000000000, 999999999]],
                 sizes=[None, 1, 2, 3, 1, 2],
                 advs=[0, 1, 200000000, 999999999, 1000000000, 1000000001, 2000000000, 3000000000]),
            "C13", ["C13", "HOLDS", "C12"], (250, 5000)),
}


def replay(ctx, prop):
    """bin/check Cxx --replay file: re-executes the recorded history on the current tree and prints both sides."""
    projection, tags = PROPS[prop][1], PROPS[prop][2]
    try:
        obj = json.loads(Path(ctx.replay).read_text())
    except Exception as ex:  # noqa
        print("cannot read replay file: %s" % ex)
        return
    h = obj.get("shrunk") or obj.get("history") or obj
    if not isinstance(h, dict) or "events" not in h:
        print("replay file holds no history (it names a theorem / a correspondence): %s" % json.dumps(obj)[:2000])
        return
    h = dict(h)
    h["id"] = "replay"
    b = seqtie.build(ctx)
    if not b["ok"]:
        print("build failed: " + b.get("log", "")[-2000:])
        ctx.violation({"broken": "build", "log": b.get("log")}, "tree under test does not build", no_failing_input=True)
        return
    rr = seqtie.run_replay(ctx, b, [h], name="replay")
    res, hist, traces = seqtie.judge(ctx, b, rr["dirs"], ["all", projection])
    for hid, lines in traces.items():
        print("--- real trace of %s" % hid)
        print("\n".join(lines))
    for hid, r in res.items():
        print("--- verdict: replay-on-model %s; oracle failures %s; inertness %s" % (r["R"], r["T"], r["I"]))
        for m in r["M"][:30]:
            print(m)
        fails = seqtie.predicate_failures(r, tags)
        if h.get("init_file") is not None:
            # a history that boots on a given state file (seqtie.initfile_stage): judged by the views predicate (W lines) and panics
            real, model = seqtie.initfile_failures(r, traces.get(hid), projection)
            print("--- boot on a given state file: real failures %s; model differences %s" % (real, model))
            fails = real
        if fails:
            ctx.violation(obj, "replayed history still violates %s: %s" % (prop, ", ".join(fails)), name="replayed.json")
    for hid, text, d in rr["crashes"]:
        print("--- crash while executing: " + text[-1500:])
        ctx.violation(obj, "replayed history crashes the server", name="replayed_crash.json")


def seq_stage(ctx, prop, seed_offset=0):
    profile, projection, tags, (nq, nt) = PROPS[prop]
    n = nq if ctx.tier == "quick" else nt
    r = seqtie.run_property(ctx, profile, n, projection, tags, seed_offset=seed_offset)
    ctx.assumptions += [
        "T1 is differential testing in virtual time: agreement of Mseq and the real LockServer on the histories run (counts in coverage.ties), not for all inputs",
        "uuid.NewString yields fresh keys / session ids (hypothesis ev_ok of the theorems)",
        "requests are issued one at a time to quiescence in T1; interleavings are the subject of the T2 ties and of the Mlk/Msv theorems",
    ]
    return r


def run_seq_only(ctx, prop):
    if ctx.replay:
        return replay(ctx, prop)
    ok = ctx.coq_stage()
    r = seq_stage(ctx, prop)
    if not ok and not ctx.violations:
        ctx.coq_broken_violation()
    return r
