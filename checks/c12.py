"""C12 — see DESIGN.md section 5 "C12". Theorems: coq/Properties/C12.v (over Mseq); ties: T1 seq-diff (checks/seqcommon.py) and, for
"a lock's size is fixed while it exists" under concurrency (a collection pass racing an acquisition must not let the name be re-created
with another size while it is held), T2 layer 1 with the scenarios and the oracle of C13 (GC passes against every scenario)."""
from checks import seqcommon, lkcommon
from lib import schedtie


def run(ctx):
    if ctx.replay:
        import json
        try:
            obj = json.loads(open(ctx.replay).read())
        except Exception:  # noqa
            obj = None
        if isinstance(obj, dict) and ("history" in obj or "shrunk" in obj or "events" in obj):
            return seqcommon.replay(ctx, "C12")
        return lkcommon.run(ctx, "C13")
    ok = ctx.coq_stage()
    seqcommon.seq_stage(ctx, "C12")
    schedtie.run_property(ctx, "C13")
    ctx.assumptions += ["T2 layer 1 for C12: the schedules and the oracle of C13 (a collected lock was unheld, unused and idle; nothing else changes), which is what keeps a held lock's size fixed under a concurrent collection"]
    if not ok and not ctx.violations:
        ctx.coq_broken_violation()
