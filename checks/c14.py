"""C14 — Every error condition keeps its specific code end to end.

Stages (DESIGN.md 5 "C14"):
  T3  lib.gen.regenerate: Gen/ErrTables.v + Gen/Consts.v from the CURRENT tree (the two switches, the enum, client's
      re-exports, routes); translator self-test on mutated copies.
  Coq ctx.coq_stage(): Proofs/GenChecks.v and Properties/C14.v are re-checked against the regenerated tables; a changed
      switch that breaks the property makes them fail (BROKEN(theorem)). Properties/C14.v section "Under races (Msv)"
      (Proofs/SvWf.v): every response of every interleaving of the server's request / expiry / session-end / shutdown steps
      is well-formed (C14_responses_wellformed), the one Renew exception with its witness.
  T2  layer 2 (lib/svtie.py, DESIGN 11.1): the scenarios in which Unlock / Renew race the lease callback and session ends,
      a cancelled / shut-down Lock, as model-chosen schedules AND window runs on the real LockServer stack; the property
      oracle is the response clause itself (svtie.wf_responses, model independent) on every real response; a failing
      response is reported with the real schedule as replay (replays/C14/t2sv_failing_*.json).
  T4  harness/e2e/c14: the real stack in one process; every error-producing request of every RPC in every state that
      triggers it through the lock server itself (identity of the Go error variable), raw gRPC, REST, client.Client and the
      client package's own mapper; successes and plain refusals as well.
The oracle below is the property itself: a condition's code is its OWN code on both transports, the Go client returns the
exported variable of the same name (which is the server-side value), success carries no error, an error means
locked/unlocked = false. The Coq development states the same table (Model/ErrCond.v c14_expect); the two are compared.

    bin/check C14 [--replay replays/C14/<file>.json]
    python3 checks/c14.py --selftest          translator self-test only, verbose
"""
import json
import os
import re
import sys
from pathlib import Path

if __name__ == "__main__":
    sys.path.insert(0, str(Path(__file__).resolve().parent.parent))

from lib import gen, vcheck

# ------------------------------------------------------------------------------------------------ the property's table
# condition -> (Go error variable the lock server returns, the condition's own ErrorCode, the client's exported variable)
ORACLE = {
    "CLockDoesNotExist": ("lock.ErrLockDoesNotExist", "LockDoesNotExist", "ErrLockDoesNotExist"),
    "CInvalidKey": ("lock.ErrInvalidLockKey", "InvalidLockKey", "ErrInvalidLockKey"),
    "CWaitTimeout": ("server.ErrLockWaitTimeout", "LockWaitTimeout", "ErrLockWaitTimeout"),
    "CRenewDoesNotExistOrInvalidKey": ("server.ErrLockDoesNotExistOrInvalidKey", "LockDoesNotExistOrInvalidKey",
                                       "ErrLockDoesNotExistOrInvalidKey"),
    "CSizeMismatch": ("lock.ErrLockSizeMismatch", "LockSizeMismatch", "ErrLockSizeMismatch"),
    "CInvalidSize": ("lock.ErrInvalidLockSize", "InvalidLockSize", "ErrInvalidLockSize"),
}
FLAG = {"Lock": "locked", "TryLock": "locked", "Renew": "locked", "Unlock": "unlocked"}
# which transports can be asked for which condition at all (REST has no Lock; client.Client never sends size <= 0)
EXPECTED_COVER = {
    "CLockDoesNotExist": ["direct", "grpc", "rest", "client"],
    "CInvalidKey": ["direct", "grpc", "rest", "client"],
    "CWaitTimeout": ["direct", "grpc", "client"],
    "CRenewDoesNotExistOrInvalidKey": ["direct", "grpc", "rest", "client"],
    "CSizeMismatch": ["direct", "grpc", "rest", "client"],
    "CInvalidSize": ["direct", "grpc", "rest"],
}


# ------------------------------------------------------------------------------------------------------------- stages

def translator_selftest(ctx, verbose=False):
    """go test of harness/cmd/gen2coq on mutated copies of the tree's files. -> dict"""
    d = gen.tool_dir(with_tests=True)
    tmp = ctx.work / "tmp"
    tmp.mkdir(parents=True, exist_ok=True)
    env = vcheck.go_env({"GEN2COQ_REPO": str(vcheck.REPO), "GEN2COQ_ERRV": str(gen.ERRV), "TMPDIR": str(tmp)})
    rc, out = vcheck.sh([vcheck.GO, "test", "-v", "-count=1", "-run", "TestMutants|TestBrokenTrees", "."], cwd=d, env=env, timeout=300)
    res = {"rc": rc, "mutants": 0, "ok": 0, "skipped": 0, "failed": 0, "failed_names": [], "ran": False}
    m = re.search(r"^SELFTEST_RESULT (.*)$", out, re.M)
    if m:
        try:
            js = json.loads(m.group(1))
            res.update({k: js[k] for k in ("mutants", "ok", "skipped", "failed")})
            res["failed_names"] = [o["name"] + ": " + o.get("why", "") for o in js["outcomes"] if o["result"] == "FAILED"]
            res["skipped_why"] = sorted(set(o.get("why", "") for o in js["outcomes"] if o["result"] == "skipped"))
            res["ran"] = True
            if verbose:
                for o in js["outcomes"]:
                    print("  %-8s %s %s" % (o["result"], o["name"], o.get("why", "")))
        except Exception:  # noqa
            pass
    if rc != 0 and not res["failed_names"]:
        res["failed_names"] = ["go test failed: " + out[-1500:]]
        res["failed"] = max(res["failed"], 1)
    if verbose:
        print(out[-2000:] if rc != 0 else "self-test: %(ok)d ok, %(skipped)d skipped, %(failed)d failed of %(mutants)d mutants" % res)
    return res


def coq_expect_table(ctx):
    """Evaluates Model/ErrCond.v's c14_expect inside Coq. -> {cond: (srv var, code, client var)} or None"""
    if not vcheck.coq_vo_ok("Model/ErrCond.v"):
        return None
    f = ctx.work / "DumpExpect.v"
    f.write_text("From Coq Require Import String List.\nFrom Ldlm Require Import Model.ErrCond.\nOpen Scope string_scope.\n"
                 "Eval vm_compute in c14_expect.\n")
    with vcheck.Lock("coq"):
        rc, out = vcheck.sh(["coqc", "-Q", str(vcheck.COQ), "Ldlm", "-o", str(ctx.work / "DumpExpect.vo"), str(f)], cwd=ctx.work, timeout=120)
    if rc != 0:
        return None
    rows = re.findall(r'\(\s*"([^"]*)"\s*,\s*"([^"]*)"\s*,\s*"([^"]*)"\s*,\s*"([^"]*)"\s*\)', re.sub(r"\s+", " ", out))
    return {r[0]: (r[1], r[2], r[3]) for r in rows} or None


def deps_fresh():
    """GenChecks / C14 were really re-checked against the Gen files now on disk."""
    need = ["Gen/ErrTables.v", "Gen/Consts.v", "Model/ErrCond.v", "Proofs/ErrP.v", "Proofs/GenChecks.v", "Proofs/SvWf.v", "Properties/C14.v"]
    if not all(vcheck.coq_vo_ok(r) for r in need):
        return False
    mt = lambda r: (vcheck.COQ / r).with_suffix(".vo").stat().st_mtime  # noqa
    return mt("Proofs/GenChecks.v") >= max(mt("Gen/ErrTables.v"), mt("Gen/Consts.v")) and mt("Properties/C14.v") >= mt("Proofs/GenChecks.v")


def failing_lemmas(log):
    """Names of the lemmas of our files the Coq errors point into."""
    out = []
    for fn, line in re.findall(r'File "\./((?:Proofs/GenChecks|Properties/C14|Proofs/ErrP|Proofs/SvWf|Model/ErrCond|Gen/ErrTables|Gen/Consts)\.v)", line (\d+)', log or ""):
        try:
            lines = (vcheck.COQ / fn).read_text().splitlines()
        except OSError:
            continue
        name = None
        for l in lines[:int(line)]:
            m = re.match(r"\s*(?:Lemma|Theorem|Example|Definition|Corollary)\s+([A-Za-z0-9_']+)", l)
            if m:
                name = m.group(1)
        item = "%s:%s (%s)" % (fn, line, name)
        if item not in out:
            out.append(item)
    return out


def predicted_from_tables(info):
    """What the regenerated tables themselves say about each condition (for messages; the verdict comes from real runs)."""
    if not info:
        return []
    srv = {r["go_name"]: r["code"] for r in info.get("srv_rows") or []}
    cli = {r["code"]: r for r in info.get("cli_rows") or []}
    out = []
    for c, (sv, code, var) in ORACLE.items():
        got = srv.get(sv)
        row = cli.get(code) or {}
        cv = row.get("var") if row.get("kind") == "var" else ("<anonymous>" if row.get("kind") == "anon" else row.get("go"))
        bad = []
        if srv and got != code:
            bad.append("server switch maps %s to %s instead of %s" % (sv, got, code))
        if cli and (cv != var or row.get("go") != sv):
            bad.append("client switch turns code %s into %s (= %s) instead of %s (= %s)" % (code, cv, row.get("go") or "-", var, sv))
        if bad:
            out.append({"cond": c, "tables_say": bad})
    return out


def build_e2e(ctx, info):
    """-> (exe or None, log, clientmap: bool)"""
    hdir = vcheck.harness_dir(ctx)
    exe = ctx.work / "c14-e2e"
    mapper = (info or {}).get("cli_func") or "rpcErrorToError"
    ovd = ctx.work / "overlay"
    ovd.mkdir(exist_ok=True)
    (ovd / "verif_export.go").write_text(
        "//go:build verif\n\npackage client\n\nimport pb \"github.com/imoore76/ldlm/protos\"\n\n"
        "// VerifErrorOf exposes the package's own error converter to /verif's harness (build overlay, nothing is written to the tree).\n"
        "func VerifErrorOf(e *pb.Error) error { return %s(e) }\n" % mapper)
    (ovd / "overlay.json").write_text(json.dumps({"Replace": {str(vcheck.REPO / "client" / "verif_export.go"): str(ovd / "verif_export.go")}}))
    rc, out = vcheck.go_build(ctx, hdir, "./e2e/c14", exe, tags="verif clientmap", overlay=ovd / "overlay.json", timeout=900)
    if rc == 0 and exe.exists():
        return exe, out, True
    log1 = out
    rc, out = vcheck.go_build(ctx, hdir, "./e2e/c14", exe, tags="verif", timeout=900)
    if rc == 0 and exe.exists():
        return exe, "build with the client-mapper overlay failed, built without it:\n" + log1[-1500:], False
    return None, out, False


def run_e2e(ctx, exe):
    """-> (observations, meta or None, log)"""
    rc, out = vcheck.sh([str(exe)], cwd=ctx.work, timeout=150)
    obs, meta, junk = [], None, []
    for line in out.splitlines():
        line = line.strip()
        if not line.startswith("{"):
            if line:
                junk.append(line)
            continue
        try:
            o = json.loads(line)
        except ValueError:
            junk.append(line)
            continue
        if o.get("meta"):
            meta = o
        elif "transport" in o and "id" in o:
            obs.append(o)
        else:
            junk.append(line)  # the server's own JSON log lines
    return obs, meta, "rc=%s\n%s" % (rc, "\n".join(junk[-30:]))


def t2sv_stage(ctx):
    """T2 layer 2 with the response clause as the property oracle. -> dict(traces, distinct) | None"""
    try:
        from lib import svtie
        before = dict(ev=ctx.coverage.get("evaluations", 0), tr=ctx.coverage.get("traces_validated_against_impl", 0), di=ctx.coverage.get("distinct_nontrivial", 0))
        r = svtie.run_property(ctx, "C14", corpus_props=["C14", "C05"])
        tie = ctx.coverage["ties"].get("T2-svsched", {})
        wf = tie.get("response_wellformedness", {})
        if r.get("ok_build"):
            ctx.note("T2-svsched: %d model-chosen schedules + %d window executions on the real LockServer; response clause on %d real responses (%d not well-formed)"
                     % (tie.get("schedules_executed_on_real_code", 0), (tie.get("window_runs") or {}).get("executions", 0), wf.get("responses", 0), wf.get("failing_responses", 0)))
        return dict(traces=ctx.coverage.get("traces_validated_against_impl", 0) - before["tr"], distinct=ctx.coverage.get("distinct_nontrivial", 0) - before["di"])
    except Exception as ex:  # noqa
        import traceback
        tb = traceback.format_exc()
        ctx.note("T2-svsched stage crashed: %r" % (ex,))
        ctx.violation({"broken": "machinery", "stage": "T2-svsched", "traceback": tb}, "the T2 layer-2 stage of C14 crashed; nothing is shown to hold under races",
                      name="t2sv_crash.json", no_failing_input=True)
        return None


def replay_t2sv(ctx, obj):
    """Replays a schedule reported by the T2 layer-2 stage (replays/C14/t2sv_failing_*.json) on the current tree."""
    from lib import svtie
    b = svtie.build(ctx)
    if not b["ok"]:
        print("build failed: %s\n%s" % (b["why"], b["log"][-1500:]))
        ctx.violation({"broken": "build", "log": b["log"][-3000:]}, "replay could not run: the tree does not build against the harness", name="replay_failed.json", no_failing_input=True)
        return
    sid = obj.get("id", "replay")
    if str(sid).startswith("w:"):
        scen = sid[2:].split("~")[0]
        scs = svtie.load_scenarios(ids=[scen])
        seed = int(obj.get("seed", ctx.seed))
        print("window run %s: re-running the (deterministic) search over scenario %r with seed %d on %s" % (sid, scen, seed, vcheck.REPO))
        ew = svtie.execute_windows(ctx, b, scs, ctx.tier, seed, "replay-w")
        runs = {}
        for k, v in ew["runs"].items():
            v.sid = "w:" + k
            runs[v.sid] = v
        j = svtie.judge("C14", runs, {}, [], ew["images"], compare=False)
    else:
        c = dict(obj)
        c["id"] = "replay"
        cf, log = svtie.expand(ctx, b, [c], "replay")
        if log:
            print(log)
        e = svtie.execute(ctx, b, cf, "replay-run", procs=1)
        runs = e["runs"]
        j = svtie.judge("C14", runs, e["chk"], e["failures"], e["images"], tp=e.get("tp"))
    print("expected: every response well-formed (no success bit with an error; Lock/Unlock false => an error; Renew false without error only under a pending expiry)")
    print("responses judged: %d, by kind: %s" % (j["wf"]["responses"], json.dumps(j["wf"]["responses_by_kind"])))
    same = [v for v in j["violations"] if v[0] == sid] or j["violations"]
    for vsid, idx, text in same[:3]:
        print("observed: schedule %s item %d: %s" % (vsid, idx, text))
        run = runs.get(vsid)
        if run is not None:
            print("\n".join(run.raw[:400]))
    if j["violations"]:
        vsid, idx, text = same[0]
        ctx.violation(svtie._replay_obj("C14", runs[vsid], text, None, {"violation_at": idx, "seed": obj.get("seed", ctx.seed)}),
                      "replayed schedule still violates C14 at item %d of %s: %s" % (idx, vsid, text[:400]), name="replayed_t2sv.json")
    else:
        print("verdict: pass (%d trace(s), no response violates the clause)" % len(runs))
    ctx.coverage["evaluations"] = j["wf"]["responses"]
    ctx.coverage["distinct_nontrivial"] = len(runs)
    ctx.coverage["samples"] = [{"replayed": sid}]


# -------------------------------------------------------------------------------------------------------------- oracle

def short(o):
    """An observation without its bulk, for messages and samples."""
    keep = ("id", "transport", "rpc", "state", "cond", "request", "flag", "has_error", "code_name", "code_num", "message", "http_status",
            "body", "srv_var", "client_nil", "client_is", "client_srv_is", "client_err", "transport_err", "setup_ok", "setup_fail")
    return {k: o[k] for k in keep if k in o and o[k] not in (None, "")}


def judge(obs, enum_nums):
    """Evaluates the property on every observation.
    -> list of (o, verdict, rule, text); verdict in pass | violation | unjudged | deviation"""
    direct = {o["id"]: o for o in obs if o["transport"] == "direct"}
    out = []
    for o in obs:
        T, cond, rpc = o["transport"], o.get("cond", ""), o.get("rpc", "")
        flagname = FLAG.get(rpc, "locked/unlocked")
        terr = o.get("transport_err")
        res = []   # (verdict, rule, text)
        # -- well-formedness: holds in every state
        if not terr:
            if o.get("has_error") and o.get("flag"):
                res.append(("violation", "error-implies-flag-false",
                            "%s over %s answered with an error (%s) AND %s = true" % (rpc, T, o.get("code_name") or o.get("srv_var") or o.get("client_err") or o.get("code_num"), flagname)))
            if T in ("client", "clientmap") and o.get("client_nil") is not None and bool(o["client_nil"]) == bool(o.get("has_error")):
                res.append(("violation", "client-error-iff-response-error",
                            "the response %s an Error but the Go client's converter returned %s" % ("carries" if o.get("has_error") else "carries no", "nil" if o["client_nil"] else repr(o.get("client_err")))))
        if cond in ORACLE:
            sv, code, var = ORACLE[cond]
            d = direct.get(o["id"])
            setup = o.get("setup_ok", True)
            if terr:
                if setup:
                    res.append(("violation", "condition-reaches-caller", "%s over %s in state '%s' got no answer at all: %s" % (rpc, T, o.get("state"), terr)))
                else:
                    res.append(("unjudged", "setup", "state not reached (%s)" % o.get("setup_fail")))
            elif not o.get("has_error"):
                if T != "direct" and d and d.get("has_error") and not d.get("transport_err") and setup:
                    res.append(("violation", "condition-reaches-caller",
                                "the lock server answers this request with %s, but over %s the response carries no error" % (d.get("srv_var"), T)))
                else:
                    res.append(("unjudged", "not-arisen", "the request was answered without an error (%s = %s): the condition did not arise%s" % (
                        flagname, o.get("flag"), "" if setup else " (" + str(o.get("setup_fail")) + ")")))
            else:
                bad = None
                if T == "direct":
                    if o.get("srv_var") != sv:
                        bad = "the lock server returns %s, not %s" % (o.get("srv_var"), sv)
                elif T in ("grpc", "rest"):
                    got = o.get("code_name")
                    if not got and o.get("code_num") is not None:
                        got = {v: k for k, v in enum_nums.items()}.get(o["code_num"], "#%s" % o["code_num"])
                    if got != code:
                        bad = "error code %s instead of the condition's own code %s" % (got, code)
                        if d and d.get("srv_var"):
                            bad += " (the lock server returned %s)" % d["srv_var"]
                else:
                    is_ = o.get("client_is") or []
                    sis = o.get("client_srv_is") or []
                    if is_ != [var]:
                        bad = "the Go client's error matches %s instead of exactly client.%s (error text %r, response code %s)" % (
                            ["client." + x for x in is_] or "no exported variable", var, o.get("client_err"), o.get("code_name", "n/a"))
                    elif sv not in sis:
                        bad = "the Go client returns client.%s but that is no longer the server-side value %s (errors.Is(err, %s) is false)" % (var, sv, sv)
                if bad is None:
                    res.append(("pass", "own-code", ""))
                elif setup:
                    res.append(("violation", "own-code", "%s over %s in state '%s': %s" % (rpc, T, o.get("state"), bad)))
                else:
                    res.append(("unjudged", "setup", "state not reached (%s); answered %s" % (o.get("setup_fail"), bad)))
        else:
            # success, plain refusal, errors outside the six conditions: only well-formedness is C14's business
            exp_err = cond.startswith("other:")
            if terr:
                res.append(("deviation", "no-answer", terr))
            elif bool(o.get("has_error")) != exp_err or (cond == "" and not o.get("flag")) or (cond == "refusal" and o.get("flag")):
                res.append(("deviation", "scenario", "expected %s, answered flag=%s error=%s" % (cond or "a grant", o.get("flag"), o.get("has_error"))))
            elif T == "direct" and exp_err and o.get("srv_var") != cond[6:]:
                res.append(("deviation", "other-error", "returned %s, scenario expects %s" % (o.get("srv_var"), cond[6:])))
            elif not any(v == "violation" for v, _, _ in res):
                res.append(("pass", "wellformed", ""))
        for v, rule, text in res:
            out.append((o, v, rule, text))
    return out


def replay_obj(o, rule, text, n_same):
    sv, code, var = ORACLE.get(o.get("cond", ""), (None, None, None))
    return {
        "property": "C14", "kind": "e2e-request", "rule": rule, "what": text,
        "scenario": o.get("id"), "transport": o.get("transport"), "rpc": o.get("rpc"), "state": o.get("state"),
        "steps_before": o.get("history"), "request": o.get("request"),
        "observed": short(o),
        "expected": ({"condition": o.get("cond"), "server_variable": sv, "error_code": code, "client_variable": "client." + var,
                      "flag": False} if sv else "no error together with locked/unlocked = true; client error nil iff the response has no Error"),
        "other_observations_failing_the_same_way": n_same,
        "replay": "bin/check C14 --replay <this file>   (re-runs the scenario on the current tree and prints expected and observed)",
    }


# ----------------------------------------------------------------------------------------------------------------- run

def run(ctx):
    cov = ctx.coverage
    if ctx.replay:
        try:
            robj = json.loads(Path(ctx.replay).read_text())
        except Exception:  # noqa
            robj = None
        if isinstance(robj, dict) and robj.get("kind") == "t2sv-schedule":
            return replay_t2sv(ctx, robj)
    ctx.assumptions += [
        "srv_result_ok (Model/ErrCond.v): a LockServer entry point never returns locked/unlocked = true together with an error — a hypothesis of C14_wellformed/C14_end_to_end about server/server.go; proved of every response of the interleaving model Msv (C14_srv_result_ok_under_races, for the validated requests Msv models), tied to the code by the 'direct' transport of the harness (every answer of the real LockServer, sequential) and by T2 layer 2 (every real response under the races of the C14 scenarios)",
        "Renew answers locked=false WITHOUT an error when it meets a lease timer that has fired and whose callback has not yet removed the timer-map entry (timermap.Reset; model and code agree: C14_renew_strict_refuted, seen on the real code in every run: coverage T2-svsched.response_wellformedness.responses_by_kind 'renew:false-without-error'); the property's text does not forbid it (no error with a success bit, no success bit with an error) and the oracle admits it only while that callback is in flight (C14_renew_silent_refusal)",
        "cond_err (which Go error variable the lock server returns in each condition) is hand-written from server/server.go, lock/manager.go, lock/lock.go and tied to the code by identity comparison in the harness (transport 'direct')",
        "grpc_resp (how the four Service methods build the response) is hand-written from net/grpc/grpc.go and tied to the code by the harness only (gRPC and REST answers)",
        "the translator gen2coq (go/parser + ours) is trusted to render the two switches, the enum, client's re-exports and the REST routes faithfully or to flag them as not recognised; mitigated by its self-test on mutated copies and by the end-to-end runs exercising the same tables",
        "Go compares error values in `switch e { case X: }` by identity; distinct constructors of Model/Err.v are distinct values (gen2coq checks that each is its own errors.New(...))",
        "not modelled, reached by the harness only: grpc-go, grpc-gateway and protojson rendering (enum as its name), net/http, cookies",
        "client.Client cannot express a request with size <= 0 (it only transmits values > 0), so 'invalid size' reaches the Go client's converter only through the clientmap transport: the real server's answer to the raw gRPC request, fed to the client package's real converter",
        "enum numbers are not pinned: a consistent renumbering in ldlm.proto and the .pb.go file keeps every theorem (codes stay distinct, names unchanged); wire compatibility with older peers is outside C14",
    ]

    # ---- T3
    ok_gen, gen_msg = gen.regenerate(ctx)
    info = gen.summary(ctx) if ok_gen else None
    ctx.note("T3 regenerate: %s" % ("ok" if ok_gen else "FAILED") + "; " + gen_msg.replace("\n", " | ")[:600])
    reasons = gen.unrecognised(info) if info else []
    st = translator_selftest(ctx)
    ctx.note("T3 self-test: %(ok)d ok, %(skipped)d skipped, %(failed)d failed of %(mutants)d mutated copies" % st)
    cov["ties"]["T3_translator"] = {
        "regenerated": ok_gen, "unrecognised_shapes": reasons,
        "server_switch": [{"case": c["errs"], "code": c["code"], "at": c["pos"]} for c in (info or {}).get("srv_cases") or []],
        "client_switch": [{"code": r["code"], "returns": r["how"], "is": r["go"] or "anonymous", "at": r["pos"]} for r in (info or {}).get("cli_rows") or []],
        "enum": {e["name"]: e["num"] for e in (info or {}).get("enum") or []},
        "rest_routes": [[r["method"], r["path"], r["rpc"]] for r in (info or {}).get("routes_gw") or []],
        "selftest": {k: st[k] for k in ("mutants", "ok", "skipped", "failed", "failed_names", "ran")},
    }
    if st.get("skipped_why"):
        cov["ties"]["T3_translator"]["selftest"]["skipped_why"] = st["skipped_why"]

    # ---- Coq
    coq_ok = ctx.coq_stage()
    if coq_ok and not deps_fresh():
        coq_ok = False
        ctx.note("coq: Properties/C14.vo or Proofs/GenChecks.vo is older than the regenerated tables")
    if not ok_gen:
        coq_ok = False   # the Gen files on disk are not those of this tree
    if not coq_ok:
        cov["discharged"] = 0
    lemmas = failing_lemmas(getattr(ctx, "coq_log", "")) if not coq_ok else []
    table = coq_expect_table(ctx)
    table_agrees = table == ORACLE
    cov["ties"]["oracle_table_equals_coq_c14_expect"] = bool(table_agrees)
    if table is not None and not table_agrees:
        ctx.violation({"broken": "machinery", "python_oracle": ORACLE, "coq_c14_expect": table},
                      "the oracle table of checks/c14.py and Model/ErrCond.v c14_expect differ", name="oracle_table.json", no_failing_input=True)

    # ---- T2 layer 2: Unlock / Renew / Lock racing the lease callback, session ends and the shutdown on the real LockServer stack (model-chosen
    #      schedules + window runs); the oracle is the response clause on every real response (svtie.oracle_C14)
    t2 = t2sv_stage(ctx)

    # ---- T1 through the real gRPC Service handlers: generated histories, error CODES compared with the model's through the
    #      regenerated server switch, the oracle's C14 clauses (no error with success, no success bit with an error, each refusal
    #      its own code) evaluated on every real response
    try:
        from checks import seqcommon
        from lib import seqtie
        prof = seqcommon.prof(weights={"try": 26, "lock": 12, "unl": 22, "ren": 16, "adv": 10, "disc": 3, "restart": 1},
                              sizes=[None, 1, 2, 0, -1, 3], lts=[None, 0, 1, 2, -1], wts=[None, 0, 1, -1], renew_lts=[1, 2, 0, -1],
                              bad_key_pct=40, no_sess_pct=5, probe_every=5, sticky_size_pct=50)
        seqtie.run_property(ctx, prof, 200 if ctx.tier == "quick" else 3000, "C14", ["C14"], svc_share=1.0)
    except Exception as ex:  # noqa
        ctx.note("T1 via-service stage crashed: %r" % (ex,))

    # ---- T4
    exe, blog, clientmap = build_e2e(ctx, info)
    obs, meta, elog = [], None, ""
    if exe is None:
        ctx.note("e2e: the harness does not build against this tree")
    else:
        if not clientmap:
            ctx.note("e2e: " + blog.splitlines()[0])
        obs, meta, elog = run_e2e(ctx, exe)
        ctx.note("e2e: %d observations over %s" % (len(obs), (meta or {}).get("transports")))
    enum_nums = {e["name"]: e["num"] for e in (info or {}).get("enum") or []}
    judged = judge(obs, enum_nums)

    # replay mode: show one scenario
    if ctx.replay:
        return do_replay(ctx, obs, judged)
    n_t2 = ((cov["ties"].get("T2-svsched") or {}).get("response_wellformedness") or {}).get("responses", 0)

    # ---- corpus: scenarios of past findings must be exercised and pass (they are part of every run)
    corpus = []
    for f in sorted((vcheck.VERIF / "corpus" / "e2e").glob("c14_*.json")):
        try:
            c = json.loads(f.read_text())
        except Exception:  # noqa
            continue
        ids = set(c.get("scenario_ids") or [])
        mine = [(o, v) for (o, v, _, _) in judged if o["id"] in ids and o.get("cond") in ORACLE]
        corpus.append({"file": f.name, "finding": c.get("finding"), "observations": len(mine),
                       "pass": sum(1 for _, v in mine if v == "pass"), "violations": sum(1 for _, v in mine if v == "violation")})
    cov["corpus"] = corpus

    # ---- verdict
    viol = [(o, rule, text) for (o, v, rule, text) in judged if v == "violation"]
    groups = {}
    for o, rule, text in viol:
        groups.setdefault((rule, o.get("cond"), o["transport"]), []).append((o, text))
    # gRPC / direct first: the most direct evidence
    order = {"direct": 0, "grpc": 1, "rest": 2, "client": 3, "clientmap": 4}
    keys = sorted(groups, key=lambda k: (order.get(k[2], 9), k[0], str(k[1])))
    for i, k in enumerate(keys[:10]):
        o, text = groups[k][0]
        nm = "violation_%s_%s_%s.json" % (o["transport"], o["id"], k[0])
        ctx.violation(replay_obj(o, k[0], text, len(groups[k]) - 1), text + ("" if coq_ok else "   [the Coq theorems over the regenerated tables fail as well: %s]" % (", ".join(lemmas) or "see evidence")), name=nm)
    if len(keys) > 10:
        ctx.note("%d more groups of failing observations not written out" % (len(keys) - 10))

    if not viol:
        if exe is None:
            ctx.violation({"broken": "build", "what": "the tree under test does not compile against the harness", "compiler_output": blog[-4000:],
                           "coq_ok": coq_ok, "failing_lemmas": lemmas, "tables_say": predicted_from_tables(info)},
                          "the tree does not compile: no request could be sent, nothing is shown to hold", name="build_failed.json", no_failing_input=True)
        elif not obs or meta is None:
            ctx.violation({"broken": "harness", "what": "the end-to-end run produced no complete set of observations", "log": elog[-4000:]},
                          "the end-to-end run did not complete (stack did not start, crashed or hung)", name="e2e_failed.json", no_failing_input=True)
        elif not coq_ok:
            ctx.violation({"broken": "theorem", "property": "C14", "failing": lemmas, "unrecognised_shapes": reasons, "tables_say": predicted_from_tables(info),
                           "regenerate": gen_msg[-1500:], "coq_failed_files": cov.get("coq_failed_files"), "lint": cov.get("lint_findings"),
                           "log_excerpt": getattr(ctx, "coq_log", "")[-3000:],
                           "searched": "%d end-to-end observations, none violates the property" % len(obs)},
                          "theorems of C14 no longer check against the regenerated tables (%s) and no request of the end-to-end list fails" % (
                              ", ".join(lemmas) or ("; ".join(reasons)[:300] if reasons else "see replay")),
                          name="broken_theorem.json", no_failing_input=True)
    if st["failed"]:
        ctx.violation({"broken": "translator", "selftest": st}, "translator self-test failed: " + "; ".join(st["failed_names"])[:400],
                      name="translator_selftest.json", no_failing_input=True)

    # ---- coverage
    n = lambda v: sum(1 for (_, x, _, _) in judged if x == v)  # noqa
    by_ct = {}
    for (o, v, rule, _) in judged:
        if o.get("cond") in ORACLE and rule in ("own-code", "condition-reaches-caller") and v in ("pass", "violation"):
            by_ct.setdefault(o["cond"], {}).setdefault(o["transport"], 0)
            by_ct[o["cond"]][o["transport"]] += 1
    holes = ["%s/%s" % (c, t) for c, ts in EXPECTED_COVER.items() for t in ts if not by_ct.get(c, {}).get(t)] if obs else []
    if clientmap and obs:
        holes += ["%s/clientmap" % c for c in ORACLE if not by_ct.get(c, {}).get("clientmap")]
    unj = [{"obs": "%s/%s" % (o["transport"], o["id"]), "why": text} for (o, v, _, text) in judged if v == "unjudged"]
    dev = [{"obs": "%s/%s" % (o["transport"], o["id"]), "why": text} for (o, v, _, text) in judged if v == "deviation"]
    if holes:
        ctx.note("not exercised on this tree (state could not be reached or the condition did not arise): " + ", ".join(holes))
    distinct = set((o["transport"], o["id"]) for (o, v, rule, _) in judged if o.get("cond") in ORACLE and v in ("pass", "violation"))
    per_t = {}
    for o in obs:
        per_t[o["transport"]] = per_t.get(o["transport"], 0) + 1
    cov["ties"]["T4_e2e"] = {
        "observations": len(obs), "per_transport": per_t, "clientmap_overlay": clientmap,
        "judged_error_conditions_per_condition_and_transport": by_ct,
        "pass": n("pass"), "violations": n("violation"), "unjudged": unj[:40], "scenario_deviations_not_about_C14": dev[:40],
        "not_exercised": holes,
        "direct_identity_checks": sum(1 for (o, v, rule, _) in judged if o["transport"] == "direct" and rule == "own-code" and v == "pass"),
        "wellformedness_checks": sum(1 for o in obs if not o.get("transport_err")),
    }
    cov["evaluations"] = n("pass") + n("violation") + n_t2
    cov["distinct_nontrivial"] = len(distinct) + (t2 or {}).get("distinct", 0)
    cov["traces_validated_against_impl"] = len(obs) + (t2 or {}).get("traces", 0)
    cov["exhaustive"] = False
    cov["rule"] = ("Coq: case analysis over all 6 conditions x the regenerated tables (exhaustive). End to end: a fixed list of request sequences "
                   "(no randomness; VERIF_SEED is not used), each error-producing request of Lock/TryLock/Unlock/Renew in every state that triggers it "
                   "(unknown name, wrong key, second unlock, after lease expiry, held without lease, full for the whole wait, other size, size <= 0, ...), "
                   "issued through 5 transports (direct, grpc, clientmap, rest, client). Under races (T2 layer 2, seeded by VERIF_SEED): the response clause on "
                   "every answered call of every model-chosen schedule and window execution of the C14 scenarios (harness/svsched/scenarios/sv.json) on the real "
                   "LockServer. evaluations = end-to-end observations on which the predicate was evaluated + real responses judged by the clause under races; "
                   "distinct_nontrivial = distinct (transport, scenario) pairs that are instances of one of the six error conditions and whose state was reached "
                   "+ distinct schedules executed")
    pick = []
    for want in (("grpc", "renew-unknown-name"), ("rest", "unlock-wrong-key"), ("client", "lock-wait-timeout"), ("direct", "trylock-size-mismatch"),
                 ("clientmap", "trylock-size-0"), ("rest", "trylock-grant")):
        for o in obs:
            if (o["transport"], o["id"]) == want:
                pick.append(short(o))
    cov["samples"] = pick or [{"note": "no observation available", "log": (blog if exe is None else elog)[-600:]}]
    if table:
        cov["samples"].append({"coq_c14_expect": {k: list(v) for k, v in table.items()}})
    return None


def do_replay(ctx, obs, judged):
    try:
        r = json.loads(Path(ctx.replay).read_text())
    except Exception as ex:  # noqa
        print("cannot read replay file: %r" % (ex,))
        ctx.violation({"broken": "replay", "file": str(ctx.replay)}, "replay file unreadable", name="replay_unreadable.json", no_failing_input=True)
        return
    sid, T = r.get("scenario"), r.get("transport")
    print("replaying scenario %r over %r on %s" % (sid, T, vcheck.REPO))
    print("expected: " + json.dumps(r.get("expected")))
    hit = False
    for (o, v, rule, text) in judged:
        if o["id"] == sid and (T is None or o["transport"] == T):
            hit = True
            print("observed: " + json.dumps(short(o)))
            print("steps before: " + json.dumps(o.get("history")))
            print("verdict: %s (%s) %s" % (v, rule, text))
            if v == "violation":
                ctx.violation(replay_obj(o, rule, text, 0), text, name="replayed_%s_%s_%s.json" % (o["transport"], o["id"], rule))
    if not hit:
        print("the scenario was not observed on this tree (harness did not build or run): %d observations" % len(obs))
        if not obs:
            ctx.violation({"broken": "harness"}, "replay could not run", name="replay_failed.json", no_failing_input=True)
    ctx.coverage["samples"] = [r.get("request") or {"replayed": sid}]
    ctx.coverage["evaluations"] = len(judged)
    ctx.coverage["distinct_nontrivial"] = len(set((o["transport"], o["id"]) for (o, _, _, _) in judged))


if __name__ == "__main__":
    if "--selftest" in sys.argv:
        c = vcheck.Ctx("C14-selftest", "quick", 1)
        ok, msg = gen.regenerate(c)
        print("regenerate:", ok, msg)
        res = translator_selftest(c, verbose=True)
        sys.exit(0 if res["ran"] and not res["failed"] else 1)
    print(__doc__)


def run(ctx, _inner=run):     # + T5-race (lib/racetie.py): data-race freedom, the assumption under every interleaving model; also re-runs its replay files
    from lib import racetie
    return racetie.stage(ctx, _inner, ["net/rest", "net/grpc", "net"])
