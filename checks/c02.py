"""C02 — see DESIGN.md section 5 "C02" and checks/lkcommon.py."""
from checks import lkcommon


def run(ctx):
    lkcommon.run(ctx, "C02")


def run(ctx, _inner=run):     # + T5-race (lib/racetie.py): data-race freedom, the assumption under every interleaving model; also re-runs its replay files
    from lib import racetie
    return racetie.stage(ctx, _inner, ["lock"])
