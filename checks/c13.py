"""C13 — see DESIGN.md section 5 "C13" and checks/lkcommon.py."""
from checks import lkcommon


def run(ctx):
    lkcommon.run(ctx, "C13")
