"""C03 — see DESIGN.md section 5 "C03" and checks/lkcommon.py. The clause "returns without the lock promptly ... when the server
shuts down" is also exercised on the real binary: the part of C11's T4 matrix in which calls are blocked at the signal (the order of the
closer's steps in cmd/server/main.go is outside T1/T2, whose harnesses perform the shutdown steps themselves)."""
from checks import lkcommon
from checks import c11


def run(ctx):
    lkcommon.run(ctx, "C03")
    if ctx.replay:
        return
    c11.t4_stage(ctx, situations=("blocked", "blocked_wt", "mixed"), clauses=("exit0", "prompt", "nopanic", "blocked_error", "no_hang"))
    ctx.assumptions += ["T4 (blocked calls at SIGINT/SIGTERM on the real binary): 'promptly' = the blocked call has its answer and the process has exited within 5000 ms of the signal"]


def run(ctx, _inner=run):     # + T5-race (lib/racetie.py): data-race freedom, the assumption under every interleaving model; also re-runs its replay files
    from lib import racetie
    return racetie.stage(ctx, _inner, ["lock"])
