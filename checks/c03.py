"""C03 — see DESIGN.md section 5 "C03" and checks/lkcommon.py."""
from checks import lkcommon


def run(ctx):
    lkcommon.run(ctx, "C03")
