"""C15 — REST == gRPC: any sequence of lock (TryLock), unlock and renew requests produces the same responses, apart
from the generated keys, and the same server state whether it is sent through the REST gateway or over gRPC, a REST
session playing the role of a connection.

Stages (DESIGN.md 5 "C15", 3.5, 4.1):
  Coq  ctx.coq_stage(): Model/Rest.v (Mrest over Mseq), Proofs/RestSeq2.v, Properties/C15.v
       (C15_equiv: lock-step simulation; C15_mixed: one server, both transports).
  T1   harness/restdiff (mode c15): the REAL rest.NewRestServer(...).Handler (httptest, JSON bodies rendered from the
       abstract requests in 7 ways, plus exchanges the gateway answers itself) and the REAL grpc Service (TagConn /
       HandleConn contexts), each on its own real LockServer with identical configuration, in one synctest bubble;
       every client keeps its gaps below the session timeout (down to timeout-1ns); a probe of listing / state file /
       lock table follows every event on both sides.
  oracle (this file, the property itself, evaluated on the REAL traces): the REST answer equals the gRPC answer (flag,
       key up to renaming by first occurrence, error code and message, echoed name), every probe agrees (listing, file,
       lock table incl. lastAccessed), no REST request of a live session is refused, no REST session ends while its
       connection lives.
  model: both real traces are replayed on the extracted model (ocaml/rest/restdriver: Mrest for REST, Mseq for gRPC)
       under the projection C15 (flags, keys, errors, listing, file, table).

    bin/check C15 [--replay replays/C15/<file>.json]

This module also holds the machinery shared with checks/c20.py (build, run, parse, judge)."""
import copy
import json
import os
import shutil
import subprocess
import sys
from pathlib import Path

if __name__ == "__main__":
    sys.path.insert(0, str(Path(__file__).resolve().parent.parent))

from lib import seqtie, vcheck
from lib.vcheck import VERIF, REPO, sh, Lock

OCAML = VERIF / "ocaml" / "rest"
S = 1_000_000_000

ASSUMPTIONS_COMMON = [
    "protojson decoding of request bodies and the grpc-gateway runtime (routing, marshalling, HTTP status mapping) are exercised by the harness, not modelled: "
    "abstract requests are rendered to JSON in 7 ways (camelCase / snake_case field names, quoted and float integers, explicit nulls, unknown fields) that must all denote the same request",
    "uuid freshness: cookies, server session ids and keys drawn by the implementation are pairwise different (hypothesis NoDup (cookies_of items) of C15_equiv; values are supplied to the model by the observed events)",
    "RestSessionTimeout > 0 (0 < tmo in C15_equiv / C20_gap_rule); the password gate is out of scope here (C16)",
    "an idle deadline that coincides exactly with a lease / wait deadline of the lock server: the model fires the lock server's timer first; the real order is the Go scheduler's. "
    "Histories with such a tie are detected by the extracted model (radvance_tie) and not judged against the model (they are still judged by the property oracle)",
    "the REST session's context is derived from the context of the request that created it, which net/http cancels when that request returns; the harness reproduces this (every request context is cancelled after ServeHTTP)",
]


# ------------------------------------------------------------------------------------------------------------ building

def build_driver(ctx):
    """(Re)builds ocaml/rest/restdriver when the compiled model is newer. -> (ok, log)"""
    drv = OCAML / "restdriver"
    with Lock("ocaml-rest"):
        srcs = [VERIF / "coq" / "Model" / f for f in ("Rest.vo", "Seq.vo", "Track.vo", "Base.vo", "Err.vo")] + [OCAML / "driver.ml", VERIF / "coq" / "Extract" / "RestExtract.v"]
        missing = [str(s) for s in srcs if not s.exists()]
        if missing:
            return False, "missing (Coq model not built?): " + ", ".join(missing)
        if drv.exists() and all(drv.stat().st_mtime >= s.stat().st_mtime for s in srcs):
            return True, "up to date"
        rc, out = sh(["./build.sh"], cwd=OCAML, timeout=600)
        return (rc == 0 and drv.exists()), out[-2000:]


def build(ctx):
    """-> dict(ok, why, log, test_bin, driver, cookies_visible)"""
    ok, log = build_driver(ctx)
    if not ok:
        return dict(ok=False, why="model-driver", log=log)
    hdir = vcheck.harness_dir(ctx)
    acc = ctx.work / "rest_verif.go"
    try:
        shutil.copy(VERIF / "harness" / "restdiff" / "rest_verif.go.in", acc)
    except OSError as ex:
        return dict(ok=False, why="harness-files", log=str(ex))
    test_bin = ctx.work / "restdiff.test"
    base = {str(REPO / k): str(VERIF / "harness" / "overlay" / v) for k, v in seqtie.OVERLAYS.items()}
    # the gRPC side goes through the REAL net/grpc.Run (server options, interceptors): its listener is made injectable in a copy
    grpc_ov, grpc_why = {}, None
    try:
        from lib import instrument
        ins = instrument.instrument(VERIF / "harness" / "restdiff" / "grpc_anchors.json", ctx.work / "grpcinstr", REPO)
        if ins["missing"]:
            grpc_why = "net/grpc.Run has no `lis, err := net.Listen(\"tcp\", conf.ListenAddress)` to make injectable: %s" % json.dumps(ins["missing"])[:300]
        else:
            grpc_ov = ins["overlay"]
    except Exception as ex:  # noqa
        grpc_why = "instrumenter failed: %r" % (ex,)
    sess_ov = {str(REPO / "net" / "rest" / "verif_hooks.go"): str(acc)}
    logs = []
    for use_sess, use_grpc in ((True, True), (False, True), (True, False), (False, False)):
        if use_grpc and not grpc_ov:
            continue
        tags = "verif" + (" restsess" if use_sess else "") + (" restgrpc" if use_grpc else "")
        ov = ctx.work / "overlay.json"
        rep = dict(base)
        if use_sess:
            rep.update(sess_ov)
        if use_grpc:
            rep.update(grpc_ov)
        ov.write_text(json.dumps({"Replace": rep}))
        cmd = [vcheck.GO, "test", "-c", "-vet=off", "-tags", tags, "-overlay", str(ov), "-o", str(test_bin), "./restdiff"]
        rc, out = sh(cmd, cwd=hdir, env=vcheck.go_env(), timeout=900)
        logs.append("[%s]\n%s" % (tags, out[-2500:]))
        if rc == 0 and test_bin.exists():
            if not use_grpc and grpc_why is None:
                grpc_why = "the harness does not build against the real grpc.Run of this tree:\n" + logs[0][-1500:]
            return dict(ok=True, test_bin=test_bin, driver=OCAML / "restdriver", log=out[-500:], cookies_visible=use_sess,
                        grpc_real=use_grpc, grpc_why=grpc_why, degraded=None if use_sess else logs[0])
    return dict(ok=False, why="repo-build", log="\n---- next attempt:\n".join(logs))


# ------------------------------------------------------------------------------------------------------------- running

def _progress(outdir):
    started, done, hang = [], set(), None
    p = outdir / "progress.txt"
    if p.exists():
        for line in p.read_text().splitlines():
            f = line.split()
            if len(f) == 2 and f[0] == "S":
                started.append(f[1])
            elif len(f) == 2 and f[0] == "D":
                done.add(f[1])
            elif len(f) >= 2 and f[0] == "HANG":
                hang = f[1:]
    return started, done, hang


def _current_history(outdir):
    """The history that was being executed when the process died (current.jsonl)."""
    p = outdir / "current.jsonl"
    try:
        lines = [json.loads(l) for l in p.read_text().splitlines() if l.strip()]
    except Exception:  # noqa
        return None
    if not lines:
        return None
    h = lines[0]
    h["events"] = lines[1:]
    return h


def _crash_record(outdir, out, rc):
    started, done, hang = _progress(outdir)
    bad = [h for h in started if h not in done]
    hid = bad[-1] if bad else "?"
    hist = _current_history(outdir)
    if hist is not None and hist.get("id") != hid:
        hist = None
    kind = "hang" if (hang or rc in (3, 124)) else "crash"
    return dict(id=hid, kind=kind, output=out[-3000:], dir=str(outdir), history=hist, hang=hang)


def run_generated(ctx, b, profile, n, seed, procs=8, timeout=240, tag="gen"):
    """Generates and executes n histories. -> dict(dirs, crashes=[record], stats)"""
    prof_path = ctx.work / ("profile-%s-%s.json" % (ctx.prop, tag))
    prof_path.write_text(json.dumps(profile))
    per = max(1, (n + procs - 1) // procs)
    jobs, k = [], 0
    while k < n:
        cnt = min(per, n - k)
        outdir = ctx.work / ("%s-%d" % (tag, k))
        shutil.rmtree(outdir, ignore_errors=True)
        outdir.mkdir(parents=True)
        jobs.append([k, cnt, outdir])
        k += cnt
    crashes, stats = [], {}
    pending, rounds = list(jobs), 0
    while pending and rounds < 6:
        rounds += 1
        procs_l = []
        for first, cnt, outdir in pending:
            env = dict(os.environ)
            env.update({"RD_OUT": str(outdir), "RD_PROFILE": str(prof_path), "RD_N": str(cnt), "RD_SEED": str(seed), "RD_FIRST": str(first)})
            p = subprocess.Popen([str(b["test_bin"]), "-test.run", "TestRest$", "-test.timeout", "%ds" % timeout], cwd=outdir, env=env,
                                 stdout=subprocess.PIPE, stderr=subprocess.STDOUT, text=True, errors="replace")
            procs_l.append((p, first, cnt, outdir))
        nxt = []
        for p, first, cnt, outdir in procs_l:
            try:
                out, _ = p.communicate(timeout=timeout + 30)
            except subprocess.TimeoutExpired:
                p.kill()
                out, _ = p.communicate()
                out = (out or "") + "\n[harness timeout]"
            if p.returncode != 0:
                rec = _crash_record(outdir, out or "", p.returncode)
                crashes.append(rec)
                try:
                    kk = int(rec["id"].rsplit("-", 1)[1])
                    rest = first + cnt - (kk + 1)
                    if rest > 0 and len(crashes) < 12:
                        nd = ctx.work / ("%s-%d" % (tag, kk + 1))
                        shutil.rmtree(nd, ignore_errors=True)
                        nd.mkdir(parents=True)
                        nxt.append([kk + 1, rest, nd])
                        jobs.append([kk + 1, rest, nd])
                except Exception:  # noqa
                    pass
        pending = nxt
    for _, _, outdir in jobs:
        for sp in outdir.glob("stats-*.json"):
            try:
                for k2, v in json.loads(sp.read_text()).items():
                    stats[k2] = stats.get(k2, 0) + v
            except Exception:  # noqa
                pass
    return dict(dirs=[j[2] for j in jobs], crashes=crashes, stats=stats)


def run_replay(ctx, b, histories, name="replay", timeout=120):
    """Executes symbolic histories (list of dicts). -> dict(dirs, crashes)"""
    outdir = ctx.work / name
    shutil.rmtree(outdir, ignore_errors=True)
    outdir.mkdir(parents=True)
    crashes, dirs = [], []
    todo, part = list(histories), 0
    while todo and part < 50:
        d = outdir / ("p%d" % part)
        d.mkdir()
        part += 1
        f = d / "in.jsonl"
        f.write_text("\n".join(json.dumps(h) for h in todo) + "\n")
        env = dict(os.environ)
        env.update({"RD_OUT": str(d), "RD_REPLAY": str(f)})
        rc, out = sh([str(b["test_bin"]), "-test.run", "TestRest$", "-test.timeout", "%ds" % timeout], cwd=d, env=env, timeout=timeout + 30)
        dirs.append(d)
        if rc == 0:
            break
        rec = _crash_record(d, out, rc)
        crashes.append(rec)
        ids = [h.get("id") for h in todo]
        if rec["id"] in ids:
            if rec["history"] is None:
                rec["history"] = todo[ids.index(rec["id"])]
            todo = todo[ids.index(rec["id"]) + 1:]
        else:
            break
    return dict(dirs=dirs, crashes=crashes, stats={})


# ------------------------------------------------------------------------------------------------------------- parsing

def parse_trace(path):
    """-> {case id: dict(cfg=[tokens], blocks=[dict(e=[tokens], o=[[tokens]], n=[str], g=None|[tokens], p=[[tokens]], gn=[str])], lines=[str], panic=str|None)}"""
    cases, cur = {}, None
    try:
        text = Path(path).read_text(errors="replace")
    except OSError:
        return cases
    side = "r"
    for line in text.splitlines():
        f = line.split()
        if not f:
            continue
        if f[0] == "H":
            cur = dict(cfg=[], blocks=[], lines=[], panic=None, bad=None)
            cases[f[1]] = cur
        if cur is None:
            continue
        cur["lines"].append(line)
        if f[0] == "C":
            cur["cfg"] = f[1:]
        elif f[0] == "E":
            cur["blocks"].append(dict(e=f[1:], o=[], n=[], g=None, p=[], gn=[]))
            side = "r"
        elif f[0] == "O" and cur["blocks"]:
            cur["blocks"][-1]["o"].append(f[1:])
        elif f[0] == "G" and cur["blocks"]:
            cur["blocks"][-1]["g"] = f[1:]
            side = "g"
        elif f[0] == "P" and cur["blocks"]:
            cur["blocks"][-1]["p"].append(f[1:])
        elif f[0] == "N" and cur["blocks"]:
            cur["blocks"][-1]["n" if side == "r" else "gn"].append(" ".join(f[1:]))
        elif f[0] == "P!":
            cur["panic"] = f[1] if len(f) > 1 else "?"
        elif f[0] == "B":
            cur["bad"] = " ".join(f[1:])
    return cases


def judge(ctx, b, dirs, projections):
    """Runs the extracted model over every trace.
    -> results {id: dict(R={(side,proj): None|idx}, T=[(idx,tag)], I=[(idx,tag)], Y=bool, B=str|None, M=[lines])}, histories, cases"""
    res, hist, cases = {}, {}, {}
    for d in dirs:
        tr = d / "trace.txt"
        if not tr.exists():
            continue
        rc, out = sh([str(b["driver"]), str(tr)] + list(projections), cwd=d, timeout=900)
        try:
            (d / "verdict.txt").write_text(out)
        except OSError:
            pass
        for line in out.splitlines():
            f = line.split()
            if len(f) < 3:
                continue
            r = res.setdefault(f[1], dict(R={}, T=[], I=[], Y=False, B=None, M=[]))
            if f[0] == "R" and len(f) >= 5:
                r["R"][(f[2], f[3])] = None if f[4] == "ok" else int(f[5])
            elif f[0] == "T":
                r["T"].append((int(f[2]), f[3]))
            elif f[0] == "I":
                r["I"].append((int(f[2]), f[3]))
            elif f[0] == "Y":
                r["Y"] = True
            elif f[0] == "B":
                r["B"] = " ".join(f[2:])
            elif f[0] == "M":
                r["M"].append(line)
        if rc != 0:
            res.setdefault("?driver", dict(R={}, T=[], I=[], Y=False, B="driver failed: " + out[-500:], M=[]))
        cases.update(parse_trace(tr))
        hp = d / "histories.jsonl"
        if hp.exists():
            for line in hp.read_text().splitlines():
                try:
                    h = json.loads(line)
                    hist[h["id"]] = h
                except Exception:  # noqa
                    pass
    return res, hist, cases


def model_mismatch(r, proj):
    """First event at which the model disagrees with the real trace under proj, per side; ties are not judged."""
    out = []
    if r.get("B"):
        out.append("bad-trace:" + r["B"])
    for (side, p), idx in sorted(r["R"].items()):
        if p == proj and idx is not None:
            if side == "rest" and r.get("Y"):
                r["tie_ignored"] = True
                continue
            out.append("%s-mismatch@%d" % (side, idx))
    return out


def load_corpus(mode):
    hs = []
    d = VERIF / "corpus" / "rest"
    if d.exists():
        for f in sorted(d.glob("*.json")):
            try:
                c = json.loads(f.read_text())
            except Exception:  # noqa
                continue
            if c.get("kind") == "history" and c.get("history", {}).get("mode") == mode:
                h = c["history"]
                h["id"] = "corpus-" + f.stem
                hs.append(h)
    return hs


# ------------------------------------------------------------------------------------------------- the C15 oracle

class Renamer:
    """Renames drawn values (keys, session ids) by first occurrence."""

    def __init__(self):
        self.m = {}

    def __call__(self, kind, v):
        if v in ("-", "~"):
            return v
        k = (kind, v)
        if k not in self.m:
            self.m[k] = "%s#%d" % (kind, sum(1 for x in self.m if x[0] == kind))
        return self.m[k]

    def known(self, kind, v):
        return (kind, v) in self.m


def canon_key(rn, tok):
    # a key that was never granted on this side (stale / adversarial literal) is compared literally
    return rn("key", tok) if rn.known("key", tok) else tok


def canon_out(rn, o, grant=False):
    """Canonical form of one output line (token list) of either side."""
    if not o:
        return ()
    if o[0] == "r" and o[1] == "lock" and len(o) >= 5:
        # a granted key is registered; a key that was granted earlier keeps its name; any other non-empty key is a
        # value drawn for this call only (both sides draw one even when the call fails)
        if (grant and o[2] == "1") or rn.known("key", o[3]):
            key = rn("key", o[3])
        else:
            key = "-" if o[3] == "-" else "fresh"
        return ("r", "lock", o[2], key, o[4])
    if o[0] == "r":
        return tuple(o)
    if o[0] == "listing":
        n = int(o[1])
        cl = [(o[2 + 3 * i], canon_key(rn, o[3 + 3 * i]), o[4 + 3 * i]) for i in range(n)]
        return ("listing", tuple(sorted(cl)))
    if o[0] == "file":
        if len(o) >= 2 and o[1] == "none":
            return ("file", "none")
        if o[1].startswith("error"):
            return tuple(o)
        n, i, ent = int(o[1]), 2, []
        for _ in range(n):
            sid, m = o[i], int(o[i + 1])
            i += 2
            cl = []
            for _ in range(m):
                cl.append((o[i], canon_key(rn, o[i + 1]), o[i + 2]))
                i += 3
            ent.append((rn("sid", sid) if rn.known("sid", sid) else sid, tuple(sorted(cl))))
        return ("file", tuple(sorted(ent)))
    if o[0] == "table":
        n, i, ent = int(o[1]), 2, []
        for _ in range(n):
            name, size, last, nk = o[i], o[i + 1], o[i + 2], int(o[i + 3])
            ks = tuple(sorted(canon_key(rn, k) for k in o[i + 4:i + 4 + nk]))
            i += 4 + nk
            ent.append((name, size, last, ks))
        return ("table", tuple(sorted(ent)))
    return tuple(o)


def _unhex(tok):
    try:
        return bytes.fromhex(tok).decode("utf-8", "replace") if tok not in ("-", "~") else ""
    except ValueError:
        return tok


def show_str(tok):
    """a name / key token of the trace, readable: long strings are abbreviated by the harness as \\x7fL<len>:<sha256 prefix>"""
    t = _unhex(tok)
    if t.startswith("\x7fL"):
        n, _, h = t[2:].partition(":")
        return "<%s bytes, sha256 %s..>" % (n, h)
    return repr(t)


def http_note(blk):
    """the `N http=<status> body=<hex>` note of a refused REST exchange -> dict(status, body, grpc_code)"""
    out = {}
    for n in blk["n"]:
        if n.startswith("http="):
            f = dict(x.split("=", 1) for x in n.split() if "=" in x)
            out["status"] = f.get("http")
            out["body"] = _unhex(f.get("body", "-"))
            try:
                out["grpc_code"] = json.loads(out["body"]).get("code")
            except Exception:  # noqa
                out["grpc_code"] = None
    return out


def exchange_note(blk):
    """the `N ev=<i> render=<mode> body_bytes=.. name_bytes=.. key_bytes=..` note of a REST exchange -> dict"""
    for n in blk["n"]:
        if n.startswith("ev="):
            return dict(x.split("=", 1) for x in n.split() if "=" in x)
    return {}


def describe_request(blk):
    e = blk["e"]
    x = exchange_note(blk)
    if e[0] != "req" or len(e) < 4:
        return " ".join(e)
    if e[2] == "try":
        d = "TryLock(name=%s size=%s lock_timeout=%s)" % (show_str(e[3]), e[4], e[5])
    elif e[2] == "unl":
        d = "Unlock(name=%s key=%s)" % (show_str(e[3]), show_str(e[4]))
    elif e[2] == "ren":
        d = "Renew(name=%s key=%s lock_timeout=%s)" % (show_str(e[3]), show_str(e[4]), e[5])
    else:
        d = " ".join(e[2:])
    if x:
        d += " [JSON body of %s bytes, rendering %s]" % (x.get("body_bytes"), x.get("render"))
    return d


def create_note(blk):
    """the `N create-carries class=.. cookie=.. returned_is_carried=.. new_server_session=..` note of a POST /session that carried a cookie"""
    for n in blk["n"]:
        if n.startswith("create-carries"):
            return dict(x.split("=", 1) for x in n.split() if "=" in x)
    return {}


def create_not_fresh(case, bi, grpc_text=""):
    """POST /session must make a NEW session whatever cookie the request carries: a cookie no earlier create of this history returned,
    and a new server session (TagConn). -> [(bi, rule, text)]"""
    blk = case["blocks"][bi]
    e = blk["e"]
    if [o[1] for o in blk["o"] if o and o[0] == "st"] != ["201"]:
        return []
    earlier = {b["e"][1] for b in case["blocks"][:bi] if b["e"][0] == "create" and len(b["e"]) > 1}
    x = create_note(blk)
    why = []
    if e[1] in earlier or x.get("returned_is_carried") == "1":
        why.append("it returned the cookie %s, which an earlier POST /session of this history had returned" % show_str(e[1]))
    if len(e) > 2 and e[2] == "-":
        why.append("no new server session was created (no TagConn)")
    if not why:
        return []
    return [(bi, "create-reused-session", "POST /session%s was answered 201 but did not create a session: %s%s"
             % ((" carrying the cookie of class %s (%s)" % (x.get("class"), show_str(x.get("cookie", "-")))) if x else "", "; ".join(why), ("; " + grpc_text) if grpc_text else ""))]


def c15_oracle(case):
    """The property on one real c15 case: list of (block index, rule, text). Empty = REST and gRPC agree."""
    fails = []
    rr, rg = Renamer(), Renamer()
    # the premise of C15 ("no REST session idles out"), read off the history itself: last activity per cookie
    try:
        tmo = int(case["cfg"][5])
    except Exception:  # noqa
        tmo = None
    now, last = 0, {}
    if case.get("panic"):
        try:
            ptxt = bytes.fromhex(case["panic"]).decode("utf-8", "replace")
        except ValueError:
            ptxt = case["panic"]
        fails.append((max(0, len(case["blocks"]) - 1), "gateway-crash", "the REST handler panicked or did not return: " + ptxt))
    for bi, blk in enumerate(case["blocks"]):
        e, g = blk["e"], blk["g"]
        st = [o[1] for o in blk["o"] if o and o[0] == "st"]
        ends = [o[1] for o in blk["o"] if o and o[0] == "end"]
        if tmo is not None:
            if e[0] == "create":
                last[e[1]] = now
            elif e[0] == "delete":
                last.pop(e[1], None)
            elif e[0] == "req" and e[1] in last:
                last[e[1]] = now
            elif e[0] == "adv":
                now += max(0, int(e[1]))
                if any(now >= t + tmo for t in last.values()):
                    case["premise_broken_at"] = bi   # a session was left idle for a full timeout: outside C15 from here on
                    break
        if g is None:
            if e[0] == "adv" and ends:
                fails.append((bi, "rest-session-ended-while-connection-lives", "ConnEnd for %d REST session(s) during an advance although every gap is below the timeout" % len(ends)))
            continue
        if e[0] == "create":
            rr("sid", e[2])
            rg("sid", g[1])
            if st != ["201"]:
                fails.append((bi, "create-status", "POST /session answered %s; the gRPC connection was opened" % st))
            fails += create_not_fresh(case, bi, "a new gRPC connection gets a new server session (%s)" % show_str(g[1]))
        elif e[0] == "delete":
            if st != ["200"]:
                fails.append((bi, "delete-status", "DELETE /session of a live session answered %s" % st))
            if len(ends) != 1:
                fails.append((bi, "delete-connend", "DELETE delivered %d ConnEnd (gRPC disconnect delivers one)" % len(ends)))
        elif e[0] == "adv":
            if ends:
                fails.append((bi, "rest-session-ended-while-connection-lives", "ConnEnd for %d REST session(s) during an advance although every gap is below the timeout" % len(ends)))
        elif e[0] == "req":
            if st != ["200"]:
                http = http_note(blk)
                gerr = next((o for o in blk["p"] if o and o[0] == "rpcerror"), None)
                if gerr is not None:
                    # both transports refused the request: the same way (the gateway's error body carries the gRPC status code)?
                    gcode = next((t[5:] for t in gerr if t.startswith("code=")), "?")
                    if http.get("grpc_code") is not None and str(http["grpc_code"]) == gcode:
                        case["both_refused_alike"] = case.get("both_refused_alike", 0) + 1
                        continue
                    fails.append((bi, "refused-differently", "REST answered HTTP %s %s; gRPC refused the same request with status code %s (%s)"
                                  % (st, http.get("body", ""), gcode, _unhex(gerr[1]) if len(gerr) > 1 else "")))
                    continue
                fails.append((bi, "rest-refused", "REST answered HTTP %s %s to %s; the same request over gRPC was served: %s"
                              % (st, http.get("body", ""), describe_request(blk), " ".join(blk["p"][0]) if blk["p"] else "?")))
                # keep the renaming aligned: the gRPC side granted a key the REST side never saw
                for o in blk["p"]:
                    if o[:2] == ["r", "lock"] and o[2] == "1":
                        rg("key", o[3])
                continue
            ro = [canon_out(rr, o, grant=True) for o in blk["o"] if o and o[0] != "st" and o[0] != "end"]
            go = [canon_out(rg, o, grant=True) for o in blk["p"]]
            if ro != go:
                gerr = next((o for o in blk["p"] if o and o[0] == "rpcerror"), None)
                if gerr is not None:
                    fails.append((bi, "grpc-refused", "gRPC refused %s with %s (%s); the same request over REST was served: %s"
                                  % (describe_request(blk), next((t for t in gerr if t.startswith("code=")), "?"), _unhex(gerr[1]) if len(gerr) > 1 else "", ro)))
                else:
                    fails.append((bi, "response", "REST answered %s, gRPC answered %s" % (ro, go)))
            elif blk["n"][:1] != blk["gn"][:1]:
                fails.append((bi, "response-error-or-name", "REST: %s / gRPC: %s" % (blk["n"][:1], blk["gn"][:1])))
            if ends:
                fails.append((bi, "connend-during-request", "ConnEnd delivered during a request"))
        elif e[0] == "probe":
            ro = sorted(canon_out(rr, o) for o in blk["o"] if o and o[0] in ("listing", "file", "table"))
            go = sorted(canon_out(rg, o) for o in blk["p"] if o and o[0] in ("listing", "file", "table"))
            if ro != go:
                diff = [x[0] for x, y in zip(ro, go) if x != y]
                fails.append((bi, "state", "server state differs after the same requests (%s): REST %s / gRPC %s" % (",".join(diff), ro, go)))
    return fails


def mixed_oracle(case):
    """C15_mixed on one real mixed-transport case (ONE server): a key granted over one transport, while its hold is live
    (not unlocked, lease not expired, its session not ended unless no-clear), is accepted by Unlock / Renew over the other.
    -> (fails [(block index, rule, text)], number of cross-transport uses judged)"""
    fails, judged = [], 0
    noclear = bool(case.get("cfg")) and case["cfg"][0] == "1"
    now = 0
    holds = {}      # key -> dict(name, sid, lease, via)
    sid_of = {}     # cookie -> server session id
    for bi, blk in enumerate(case["blocks"]):
        e = blk["e"]
        outs = blk["o"]
        ends = [o[1] for o in outs if o and o[0] == "end"]
        grpc = e[0] == "grpc"
        ev = e[1:] if grpc else e
        via = "grpc" if grpc else "rest"
        if not grpc and ev[0] == "create":
            sid_of[ev[1]] = ev[2]
        if not grpc and ev[0] == "adv":
            now += max(0, int(ev[1]))
            for k in [k for k, h in holds.items() if h["lease"] is not None and h["lease"] <= now]:
                del holds[k]
        if grpc and ev[0] == "disc" and not noclear:
            for k in [k for k, h in holds.items() if h["sid"] == ev[1]]:
                del holds[k]
        if ends and not noclear:
            for k in [k for k, h in holds.items() if h["sid"] in ends]:
                del holds[k]
        # requests
        if grpc and ev[0] in ("try", "unl", "ren"):
            q, args, sid = ev[0], ev[1:], (ev[1] if ev[0] != "ren" else None)
            if q != "ren":
                args = ev[2:]
        elif not grpc and ev[0] == "req" and len(ev) > 2 and ev[2] in ("try", "unl", "ren"):
            if [o[1] for o in outs if o and o[0] == "st"] != ["200"]:
                continue
            q, args, sid = ev[2], ev[3:], sid_of.get(ev[1])
        else:
            continue
        resp = next((o for o in outs if o and o[0] == "r"), None)
        if resp is None:
            continue
        if q == "try":
            name, size, lt, key = args[0], args[1], args[2], args[3]
            if resp[1] == "lock" and resp[2] == "1":
                lease = now + int(lt) * S if lt not in ("~",) and int(lt) > 0 else None
                holds[resp[3]] = dict(name=name, sid=sid, lease=lease, via=via)
        elif q == "unl":
            name, key = args[0], args[1]
            h = holds.get(key)
            if h is not None and h["name"] == name:
                if h["via"] != via:
                    judged += 1
                    if not (resp[1] == "unl" and resp[2] == "1"):
                        fails.append((bi, "mixed:live-key-refused-over-other-transport",
                                      "Unlock over %s of a live hold granted over %s answered %s" % (via, h["via"], " ".join(resp))))
                if resp[1] == "unl" and resp[2] == "1":
                    del holds[key]
        elif q == "ren":
            name, key, lt = args[0], args[1], int(args[2])
            h = holds.get(key)
            if h is not None and h["name"] == name and lt > 0 and h["lease"] is not None:
                if h["via"] != via:
                    judged += 1
                    if not (resp[1] == "lock" and resp[2] == "1"):
                        fails.append((bi, "mixed:live-lease-not-renewed-over-other-transport",
                                      "Renew over %s of a live lease granted over %s answered %s" % (via, h["via"], " ".join(resp))))
                if resp[1] == "lock" and resp[2] == "1":
                    h["lease"] = now + lt * S
    return fails, judged


def create_classes(batches):
    """how many POST /session exchanges carried a cookie, per class (from the notes of the real traces)"""
    out = {"none": 0}
    for bb in batches:
        for case in bb["cases"].values():
            for blk in case["blocks"]:
                if blk["e"][0] == "create":
                    c = create_note(blk).get("class")
                    out[c or "none"] = out.get(c or "none", 0) + 1
    return out


def case_kinds(case):
    return tuple((b["e"][0] if b["e"][0] != "req" else b["e"][2]) for b in case["blocks"] if b["e"][0] != "probe")


# ------------------------------------------------------------------------------------------------------------ profile

PROFILE_C15 = {
    "mode": "c15",
    "weights": {"create": 8, "delete": 6, "try": 30, "unl": 16, "ren": 12, "noop": 5, "adv": 23},
    "max_len": 24, "min_len": 6, "sessions": 3,
    "names": ["61", "62", "6162", "", "c3a9", "61" * 40],
    "sizes": [None, None, None, 1, 2, 3, 0, -1, 2147483647],
    "lts": [None, None, 0, 1, 2, 3, 5, -1],
    "renew_lts": [0, 1, 2, 3, -1],
    "tmos": [1500000000, 2000000007, 5 * S, 600 * S],
    "noclear": [False, False, True], "file": [False, True],
    "gc": [[1800 * S, 300 * S], [2 * S, 1 * S]],
    "dlt": [600 * S], "shards": [16, 1],
    "bad_key_pct": 20, "bad_ck_pct": 0,
}


def _rep(unit, count, suffix=b""):
    """compact form of a long string (harness/restdiff/types.go Ev.Name): unit repeated count times + suffix"""
    return "rep:%s:%d%s" % (unit.hex(), count, (":" + suffix.hex()) if suffix else "")


# Long lock names and keys (a small share of the histories): "the same request gets the same response" includes requests whose
# body is large. Sizes: 1 KB; a ladder around 4096 bytes (the JSON body adds 10..90 bytes to the name, multi-byte and
# JSON-escaped characters count by their encoded size); 5000; 8 KB of two-byte characters; 100 KB; 1 MiB. All of them are below
# every documented limit of both transports (grpc-go's default maximum receive size is 4 MiB; net/http and grpc-gateway have none),
# so on the unchanged tree both transports serve them.
LONG_NAMES = ([_rep(b"a", 1024)] + [_rep(b"n", k) for k in (4000, 4030, 4050, 4070, 4085, 4096, 4097, 4120, 4200)]
              + [_rep(b"x", 5000), _rep("\u00e9".encode(), 2035), _rep("\u00e9".encode(), 4096), _rep(b"<", 690), _rep(b'"', 2060, b"q"),
                 _rep(b"ab", 8192), _rep(b"b", 100 * 1024), _rep(b"c", 1 << 20), _rep(b"long-", 200000, b"tail")])
LONG_KEYS = [_rep(b"k", 4100), _rep(b"k", 5000), _rep(b"0123456789abcdef", 4096)]
PROFILE_C15.update({"long_pct": 12, "long_names": LONG_NAMES, "long_keys": LONG_KEYS})
# a share of the POST /session exchanges carry a cookie (a cookie-jar client posts with whatever it has): of another live session, of
# an ended one, garbage, the session's own; the answer must be a fresh, independent session (gRPC: every connect is a new connection)
PROFILE_C15["create_ck_pct"] = 30


PROFILE_MIXED = dict(PROFILE_C15, mode="mixed", weights={"create": 8, "delete": 5, "try": 26, "unl": 24, "ren": 18, "noop": 2, "adv": 17},
                     sizes=[2, 3, 3], lts=[None, 2, 3, 5, 5, 30, 0, -1], renew_lts=[1, 2, 3, 3, 0, -1], names=["61", "62"], bad_key_pct=5, tmos=[2000000007, 5 * S, 600 * S], long_pct=0, create_ck_pct=0)


def shrink_history(ctx, b, h, fails_fn, budget=30):
    try:
        return seqtie.shrink(ctx, b, h, fails_fn, budget=budget)
    except Exception:  # noqa
        return None


def describe_first(case, bi):
    if bi is None or bi >= len(case["blocks"]):
        return None
    blk = case["blocks"][bi]
    return {"event_index": bi, "request": describe_request(blk), "rest_http_error": http_note(blk) or None, "exchange": exchange_note(blk) or None, "rest_event": " ".join(blk["e"]), "rest_outputs": [" ".join(o) for o in blk["o"]], "rest_notes": blk["n"],
            "grpc_event": " ".join(blk["g"]) if blk["g"] else None, "grpc_outputs": [" ".join(o) for o in blk["p"]], "grpc_notes": blk["gn"]}


def run_c15_batch(ctx, b, histories=None, profile=None, n=0, seed=0, tag="gen"):
    """Executes (replay or generate), judges with the model and the oracle.
    -> dict(results, hist, cases, crashes, stats, oracle={id: fails}, mixed_judged=int)"""
    if histories is not None:
        rr = run_replay(ctx, b, histories, name=tag)
    else:
        rr = run_generated(ctx, b, profile, n, seed, tag=tag)
    results, hist, cases = judge(ctx, b, rr["dirs"], ["all", "C15"])
    oracle, mixed_judged = {}, 0
    for hid, case in cases.items():
        mode = (hist.get(hid) or {}).get("mode")
        try:
            if mode == "mixed" or any(blk["e"][0] == "grpc" for blk in case["blocks"]):
                f, j = mixed_oracle(case)
                mixed_judged += j
                if case.get("panic"):
                    f.append((max(0, len(case["blocks"]) - 1), "gateway-crash", "the REST handler panicked or did not return"))
            else:
                f = c15_oracle(case)
        except Exception as ex:  # noqa  (a trace the parser does not understand is a difference, not a crash of the check)
            f = [(0, "unparsable-trace", repr(ex))]
        if f:
            oracle[hid] = f
    return dict(results=results, hist=hist, cases=cases, crashes=rr["crashes"], stats=rr.get("stats", {}), oracle=oracle, mixed_judged=mixed_judged)


def report_failures(ctx, b, batch, prop_fails, mode_runner, what, reported_limit=3):
    """prop_fails: {hid: [(idx, rule, text)]}. Writes VIOLATION replays (with a shrunk history)."""
    n = 0
    for hid in sorted(prop_fails):
        if n >= reported_limit:
            break
        n += 1
        fails = prop_fails[hid]
        h = batch["hist"].get(hid)
        case = batch["cases"].get(hid)
        shr = None
        if h is not None:
            def still(hh):
                bb = mode_runner([hh])
                return bool(bb["fails"]) or bool(bb["crashes"])
            shr = shrink_history(ctx, b, h, still)
        ff = describe_first(case, fails[0][0]) if case else None
        try:
            # the symbolic event of the failing exchange (long names in their compact rep: form), by its index in the history
            ff["symbolic_event"] = h["events"][int(ff["exchange"]["ev"])]
        except Exception:  # noqa
            pass
        ctx.violation({"kind": "history", "property": ctx.prop, "failed_checks": ["%s@%d: %s" % (r, i, t[:400]) for i, r, t in fails[:6]],
                       "first_failure": ff,
                       "history": h, "shrunk": shr, "trace": case["lines"] if case else None, "seed": ctx.seed,
                       "model_says": (batch["results"].get(hid) or {}).get("M", [])[:20],
                       "replay_cmd": "bin/check %s --replay <this file>" % ctx.prop},
                      "%s: %s (history %s)" % (what, "; ".join("%s@%d" % (r, i) for i, r, _ in fails[:3]), hid),
                      name="failing_%s.json" % hid)
    return n


def report_crashes(ctx, crashes, what, limit=3):
    for rec in crashes[:limit]:
        ctx.violation({"kind": "history", "property": ctx.prop, "failed_checks": [rec["kind"]], "history": rec.get("history"), "history_id": rec["id"],
                       "hang": rec.get("hang"), "output": rec["output"], "replay_cmd": "bin/check %s --replay <this file>" % ctx.prop},
                      "%s while executing history %s (%s)" % (what, rec["id"], "the handler did not return / the process made no progress: deadlock" if rec["kind"] == "hang" else "the process died: panic outside a handler goroutine"),
                      name="%s_%s.json" % (rec["kind"], rec["id"].replace("?", "x")))


# ----------------------------------------------------------------------------------------------------------------- run

def run(ctx):
    cov = ctx.coverage
    ctx.assumptions += ASSUMPTIONS_COMMON + [
        "C15_equiv is stated with the drawn values supplied equal on both sides; on real traces the comparison is up to renaming of keys and session ids by first occurrence (the model is not claimed to be equivariant under renaming: gmap iteration order depends on the strings)",
        "lastAccessed of lock objects is part of the compared server state (both servers see the same requests at the same virtual instants)",
        "Mrest's create (RCreate cookie sid) has no request cookie: a POST /session always makes a fresh session. A create that carries a cookie is therefore replayed on the model as a plain create "
        "(the trace line is the same; the carried cookie and its class are a note); on the gRPC side every create is a new connection. A client that re-posts with its own live cookie goes on "
        "with the session it is given and closes the old one with the old cookie (gRPC: opens a new connection, closes the old one)",
    ]
    coq_ok = ctx.coq_stage()
    b = build(ctx)
    tie = cov["ties"].setdefault("T1-restdiff-c15", {})
    if not b["ok"]:
        ctx.note("build failed (%s)" % b["why"])
        ctx.violation({"broken": "build", "stage": b["why"], "log": b["log"]},
                      "the tree under test (or the harness against it) does not build: nothing is shown to hold", name="build_failure.json", no_failing_input=True)
        tie["build"] = "failed: " + b["why"]
        cov["evaluations"] = 0
        cov["distinct_nontrivial"] = 0
        cov["rule"] = "nothing could be executed"
        return
    tie["session_table_accessor"] = b["cookies_visible"]
    tie["grpc_side"] = ("the REAL grpc.Server started by net/grpc.Run (its interceptor chain and stats handler) over an in-memory listener inside the bubble; every client is a real grpc.ClientConn"
                        if b["grpc_real"] else "FALLBACK: Service methods called directly with TagConn/HandleConn contexts — " + str(b["grpc_why"])[:400])
    if not b["cookies_visible"]:
        ctx.note("the session-table accessor does not compile against this tree; probes carry no cookie list")
    if not b["grpc_real"]:
        ctx.note("gRPC side falls back to direct Service calls: " + str(b["grpc_why"])[:300])

    def runner(hs):
        bb = run_c15_batch(ctx, b, histories=hs, tag="one")
        return dict(fails=bb["oracle"], crashes=bb["crashes"], batch=bb)

    if ctx.replay:
        return do_replay(ctx, b, runner)

    n = 480 if ctx.tier == "quick" else 8000
    prof = dict(PROFILE_C15)
    if ctx.tier != "quick":
        prof["max_len"] = 50
    corpus = load_corpus("c15") + load_corpus("mixed")
    batches = []
    if corpus:
        batches.append(run_c15_batch(ctx, b, histories=corpus, tag="corpus"))
    batches.append(run_c15_batch(ctx, b, profile=prof, n=n, seed=ctx.seed, tag="gen"))
    # ONE server, both transports (C15_mixed)
    n_mixed = 240 if ctx.tier == "quick" else 4000
    pm = dict(PROFILE_MIXED)
    if ctx.tier != "quick":
        pm["max_len"] = 50
    batches.append(run_c15_batch(ctx, b, profile=pm, n=n_mixed, seed=ctx.seed, tag="mixed"))

    n_cases = n_fail = n_mis = n_tie = n_pairs = 0
    kinds = set()
    first_mis = None
    crashes = []
    for bb in batches:
        crashes += bb["crashes"]
        n_fail += len(bb["oracle"])
        report_failures(ctx, b, bb, bb["oracle"], runner, "REST and gRPC disagree on a real run", reported_limit=max(0, 3 - len(ctx.violations)))
        for hid, case in bb["cases"].items():
            n_cases += 1
            n_pairs += sum(1 for blk in case["blocks"] if blk["g"] is not None)
            ks = case_kinds(case)
            if len(set(ks)) >= 3:
                kinds.add(ks)
            r = bb["results"].get(hid)
            if r is None:
                continue
            if r.get("Y"):
                n_tie += 1
            mm = model_mismatch(r, "C15")
            if mm and hid not in bb["oracle"]:
                n_mis += 1
                if first_mis is None:
                    first_mis = (hid, mm, r, bb)
    # the "malformed stream": timeouts a validation layer must refuse on both transports alike
    mal = {"renew_lt_zero_or_omitted": 0, "renew_lt_negative": 0, "trylock_lt_zero": 0, "trylock_lt_negative": 0, "trylock_size_zero_or_negative": 0}
    for bb in batches:
        for case in bb["cases"].values():
            for blk in case["blocks"]:
                e = blk["e"]
                if e[0] == "req" and len(e) > 2:
                    try:
                        if e[2] == "ren":
                            v = int(e[5])
                            mal["renew_lt_zero_or_omitted" if v == 0 else "renew_lt_negative"] += 1 if v <= 0 else 0
                        elif e[2] == "try":
                            if e[5] != "~" and int(e[5]) == 0:
                                mal["trylock_lt_zero"] += 1
                            if e[5] != "~" and int(e[5]) < 0:
                                mal["trylock_lt_negative"] += 1
                            if e[4] != "~" and int(e[4]) <= 0:
                                mal["trylock_size_zero_or_negative"] += 1
                    except (ValueError, IndexError):
                        pass
    tie["malformed_parameters_sent_over_both_transports"] = mal
    # long names / keys: what was actually executed (from the exchange notes of the real traces)
    lg = {"histories_with_long_names": 0, "exchanges_with_a_name_or_key_over_128_bytes": 0, "request_bodies_over_4096_bytes": 0, "request_bodies_over_64KiB": 0,
          "request_bodies_of_1MiB_or_more": 0, "largest_request_body_bytes": 0, "distinct_long_name_lengths": set(), "served_alike_by_both_transports": 0,
          "refused_alike_by_both_transports": 0}
    for bb in batches:
        for hid, case in bb["cases"].items():
            any_long = False
            lg["refused_alike_by_both_transports"] += case.get("both_refused_alike", 0)
            for blk in case["blocks"]:
                if blk["e"][0] != "req":
                    continue
                x = exchange_note(blk)
                try:
                    nb, kb, bbytes = int(x.get("name_bytes", 0)), int(x.get("key_bytes", 0)), int(x.get("body_bytes", 0))
                except ValueError:
                    continue
                if nb > 128 or kb > 128:
                    any_long = True
                    lg["exchanges_with_a_name_or_key_over_128_bytes"] += 1
                    if nb > 128:
                        lg["distinct_long_name_lengths"].add(nb)
                    if blk["g"] is not None and hid not in bb["oracle"]:
                        lg["served_alike_by_both_transports"] += 1
                lg["request_bodies_over_4096_bytes"] += bbytes > 4096
                lg["request_bodies_over_64KiB"] += bbytes > 65536
                lg["request_bodies_of_1MiB_or_more"] += bbytes >= (1 << 20)
                lg["largest_request_body_bytes"] = max(lg["largest_request_body_bytes"], bbytes)
            lg["histories_with_long_names"] += any_long
    lg["distinct_long_name_lengths"] = sorted(lg["distinct_long_name_lengths"])
    lg["pool"] = "%d long names (1 KB; 4000..4200 bytes around 4096 incl. two-byte and JSON-escaped characters; 5000; 8 KB multi-byte; 16 KB; 100 KB; 1 MiB), %d long keys; %d %% of the histories draw from them" % (
        len(LONG_NAMES), len(LONG_KEYS), PROFILE_C15["long_pct"])
    tie["long_names_and_keys"] = lg
    tie["session_creates_carrying_a_cookie"] = create_classes(batches)
    report_crashes(ctx, crashes, "the gateway crashed or hung")
    if n_mis and not n_fail and not crashes:
        hid, mm, r, bb = first_mis
        case = bb["cases"].get(hid)
        ctx.violation({"broken": "correspondence T1 (projection C15)", "history_id": hid, "first_difference": mm, "history": bb["hist"].get(hid),
                       "trace": case["lines"] if case else None, "model_says": r["M"][:20], "mismatching_histories": n_mis},
                      "model and implementation disagree on %d histories in the observations C15 reads; REST and gRPC agree with each other on every real run" % n_mis,
                      name="correspondence_%s.json" % hid, no_failing_input=True)
    if not coq_ok and not n_fail and not crashes:
        ctx.coq_broken_violation()
    stats = batches[-2]["stats"]
    cov["ties"]["T1-restdiff-mixed"] = {
        "histories_on_one_server_with_rest_sessions_and_grpc_connections": len(batches[-1]["cases"]), "generated": n_mixed,
        "cross_transport_uses_of_a_live_key_judged": sum(bb.get("mixed_judged", 0) for bb in batches),
        "histories_failing": sum(1 for h in batches[-1]["oracle"]),
        "model": "replayed on mstep (Model/Rest.v) under projection C15", "generator_distribution": batches[-1]["stats"]}
    tie.update({"histories_executed_on_real_handler_and_real_service": n_cases, "corpus": len(corpus), "generated": n,
                "rest_grpc_event_pairs_compared": n_pairs, "histories_where_rest_and_grpc_differ": n_fail,
                "model_mismatches_in_projection": n_mis, "histories_with_timer_tie": n_tie,
                "model_mismatches_ignored_because_of_a_timer_tie": sum(1 for bb in batches for r in bb["results"].values() if r.get("tie_ignored")),
                "histories_outside_the_premise_not_judged_further": sum(1 for bb in batches for c in bb["cases"].values() if "premise_broken_at" in c),
                "crashes_or_hangs": len(crashes),
                "projection": "C15 (flags, keys, errors, listing, file, lock table)", "generator_distribution": stats})
    cov["traces_validated_against_impl"] = 2 * n_cases
    cov["evaluations"] = n_pairs + sum(bb.get("mixed_judged", 0) for bb in batches)
    cov["distinct_nontrivial"] = len(kinds)
    cov["exhaustive"] = False
    cov["rule"] = ("histories generated online from one PCG stream per (seed, index); each event is executed on the real REST handler and on the real gRPC "
                   "Service (own LockServers, same configuration, one synctest bubble), a probe after every event; evaluations = (REST exchange, gRPC call) "
                   "pairs on which the oracle REST == gRPC was evaluated; non-trivial = at least 3 different event kinds; distinct = different event-kind sequences")
    for bb in batches[::-1]:
        for hid in sorted(bb["cases"])[:1]:
            if len(cov["samples"]) < 2:
                cov["samples"].append({"history_id": hid, "trace_head": bb["cases"][hid]["lines"][:24]})


def do_replay(ctx, b, runner):
    try:
        r = json.loads(Path(ctx.replay).read_text())
    except Exception as ex:  # noqa
        print("cannot read replay file: %r" % (ex,))
        ctx.violation({"broken": "replay", "file": str(ctx.replay)}, "replay file unreadable", name="replay_unreadable.json", no_failing_input=True)
        return
    h = r.get("shrunk") or r.get("history")
    if not h:
        print("the replay file carries no history (kind %r): nothing to re-run" % r.get("kind", r.get("broken")))
        ctx.coverage["evaluations"] = 0
        ctx.coverage["distinct_nontrivial"] = 0
        return
    h = copy.deepcopy(h)
    h["id"] = "replay"
    print("replaying %d events (mode %s) on %s" % (len(h.get("events", [])), h.get("mode"), REPO))
    out = runner([h])
    bb = out["batch"]
    case = bb["cases"].get("replay")
    if case:
        print("\n".join(case["lines"]))
    res = bb["results"].get("replay")
    if res:
        print("model: " + ", ".join("%s/%s %s" % (s, p, "ok" if i is None else "mismatch@%d" % i) for (s, p), i in sorted(res["R"].items())))
        for m in res["M"][:20]:
            print("  " + m)
    fails = out["fails"].get("replay", [])
    for i, rule, text in fails:
        print("FAILS %s@%d: %s" % (rule, i, text[:600]))
    for rec in out["crashes"]:
        print("CRASH/HANG: %s\n%s" % (rec["kind"], rec["output"][-1500:]))
    if fails or out["crashes"]:
        ctx.violation({"kind": "history", "property": ctx.prop, "history": h, "failed_checks": ["%s@%d" % (r_, i) for i, r_, _ in fails] + [c["kind"] for c in out["crashes"]],
                       "trace": case["lines"] if case else None}, "the replayed history still fails: " + "; ".join("%s@%d" % (r_, i) for i, r_, _ in fails[:3]),
                      name="replayed.json")
    else:
        print("verdict: the replayed history passes on this tree")
    ctx.coverage["samples"] = [{"replayed_events": len(h.get("events", []))}]
    ctx.coverage["evaluations"] = len((case or {"blocks": []})["blocks"])
    ctx.coverage["distinct_nontrivial"] = 1 if case else 0
    ctx.coverage["rule"] = "replay of one recorded history"


if __name__ == "__main__":
    print(__doc__)


def run(ctx, _inner=run):     # + T5-race (lib/racetie.py): data-race freedom, the assumption under every interleaving model; also re-runs its replay files
    from lib import racetie
    return racetie.stage(ctx, _inner, ["net/rest", "net/grpc", "net"])
