"""C08 — see DESIGN.md section 5 "C08". Theorems: coq/Properties/C08.v (over Mseq); tie: T1 seq-diff (checks/seqcommon.py)."""
from checks import seqcommon
from lib import seqtie


def run(ctx):
    seqcommon.run_seq_only(ctx, "C08")
    if not ctx.replay:
        seqtie.initfile_stage(ctx, None, "C08")     # T1 stage "boot on an adversarial state file" (Model/SeqFile.v)


def run(ctx, _inner=run):     # + T5-race (lib/racetie.py): data-race freedom, the assumption under every interleaving model; also re-runs its replay files
    from lib import racetie
    return racetie.stage(ctx, _inner, ["server", "server/session", "server/session/store"])
