"""C09 — see DESIGN.md sections 5 "C09" and 11, checks/svcommon.py (theorems over Msv + T2 layer 2 with crash images after
every step + T1) and lib/killtie.py (T4-kill: the real binary under SIGKILL at seeded instants, restart on the file it left)."""
from checks import svcommon
from lib import killtie


def run(ctx):
    if ctx.replay and killtie.is_kill_replay(ctx.replay):
        return killtie.replay(ctx, ctx.replay)
    svcommon.run(ctx, "C09")
    if not ctx.replay:
        killtie.run_property(ctx)
