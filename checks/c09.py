"""C09 — see DESIGN.md sections 5 "C09" and 11, checks/svcommon.py (theorems over Msv + T2 layer 2 with crash images after
every step + T1) and lib/killtie.py (T4-kill: the real binary under SIGKILL at seeded instants, restart on the file it left)."""
from checks import svcommon
from lib import killtie


def run(ctx):
    if ctx.replay and killtie.is_kill_replay(ctx.replay):
        return killtie.replay(ctx, ctx.replay)
    svcommon.run(ctx, "C09")
    if not ctx.replay:
        killtie.run_property(ctx)


def run(ctx, _inner=run):     # + T5-race (lib/racetie.py): data-race freedom, the assumption under every interleaving model; also re-runs its replay files
    from lib import racetie
    return racetie.stage(ctx, _inner, ["server", "server/session", "server/session/store"])
