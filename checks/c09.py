"""C09 — see DESIGN.md sections 5 "C09" and 11, and checks/svcommon.py."""
from checks import svcommon


def run(ctx):
    svcommon.run(ctx, "C09")
